/-
Pool discipline (C18): a program that obeys the discipline observes the same values whatever the
pool holds, and leaves a pool that again holds no object twice.
-/
import JsonV.Model.Reset

set_option linter.unusedSimpArgs false
set_option linter.unusedVariables false

namespace JsonV.Lemmas.ResetPoolL
open JsonV.Model.Reset.Pool

theorem step_sim (p : PSt) (r : RSt) (c : Cmd) (r' : RSt) (o : Option Val)
    (hinv : Inv p r) (hr : rstep r c = some (r', o)) :
    (pstep p c).2 = o ∧ Inv (pstep p c).1 r' := by
  cases c with
  | get =>
    simp only [rstep, Option.some.injEq, Prod.mk.injEq] at hr
    obtain ⟨rfl, rfl⟩ := hr
    cases hp : p.pool with
    | nil =>
      simp only [pstep, hp]
      refine ⟨by simp, ?_⟩
      constructor
      · simp [hinv.nh]
      · intro h hl
        show h < r.nh + 1
        simp only at hl
        split at hl
        · omega
        · have := hinv.bound h hl; omega
      · intro h h' hl hl' he
        simp only at hl hl' he
        have hb := hinv.bound
        have hlo := hinv.liveOld
        have hn := hinv.nh
        by_cases e1 : h = r.nh <;> by_cases e2 : h' = r.nh
        · omega
        · simp [e1, e2, hn] at hl' he
          have := hlo h' hl'; omega
        · simp [e1, e2, hn] at hl he
          have := hlo h hl; omega
        · simp [e1, e2, hn] at hl hl' he
          exact hinv.inj h h' hl hl' he
      · simp
      · intro h hl; simp
      · intro o ho; simp at ho
      · intro h hl
        simp only at hl ⊢
        have hn := hinv.nh
        by_cases e1 : h = r.nh
        · simp [e1, hn]
        · simp [e1, hn] at hl ⊢
          have := hinv.liveOld h hl; omega
      · intro h v hl hv
        simp only at hl hv ⊢
        have hn := hinv.nh
        by_cases e1 : h = r.nh
        · simp [e1] at hv
        · simp [e1, hn] at hl hv ⊢
          exact hinv.agree h v hl hv
    | cons x rest =>
      simp only [pstep, hp]
      have hnd := hinv.nodup
      rw [hp] at hnd
      have hxr : x ∉ rest := (List.nodup_cons.mp hnd).1
      have hrest : rest.Nodup := (List.nodup_cons.mp hnd).2
      have hn := hinv.nh
      refine ⟨by simp, ?_⟩
      constructor
      · simp [hinv.nh]
      · intro h hl
        show h < r.nh + 1
        simp only at hl
        split at hl
        · omega
        · have := hinv.bound h hl; omega
      · intro h h' hl hl' he
        simp only at hl hl' he
        have hnp := hinv.notPooled
        by_cases e1 : h = r.nh <;> by_cases e2 : h' = r.nh
        · omega
        · simp [e1, e2, hn] at hl' he
          have := hnp h' hl'; rw [hp] at this; simp [← he] at this
        · simp [e1, e2, hn] at hl he
          have := hnp h hl; rw [hp] at this; simp [he] at this
        · simp [e1, e2, hn] at hl hl' he
          exact hinv.inj h h' hl hl' he
      · exact hrest
      · intro h hl
        simp only at hl ⊢
        by_cases e1 : h = r.nh
        · simp [e1, hn]; exact hxr
        · simp [e1, hn] at hl ⊢
          have := hinv.notPooled h hl; rw [hp] at this
          simp at this; exact this.2
      · intro o ho
        exact hinv.poolOld o (by rw [hp]; simp [ho])
      · intro h hl
        simp only at hl ⊢
        by_cases e1 : h = r.nh
        · simp [e1, hn]; exact hinv.poolOld x (by rw [hp]; simp)
        · simp [e1, hn] at hl ⊢
          exact hinv.liveOld h hl
      · intro h v hl hv
        simp only at hl hv ⊢
        by_cases e1 : h = r.nh
        · simp [e1] at hv
        · simp [e1, hn] at hl hv ⊢
          exact hinv.agree h v hl hv
  | write h v =>
    simp only [rstep] at hr
    split at hr
    · rename_i hl
      simp only [Option.some.injEq, Prod.mk.injEq] at hr
      obtain ⟨rfl, rfl⟩ := hr
      refine ⟨rfl, ?_⟩
      constructor
      · exact hinv.nh
      · exact hinv.bound
      · exact hinv.inj
      · exact hinv.nodup
      · exact hinv.notPooled
      · exact hinv.poolOld
      · exact hinv.liveOld
      · intro k w hk hw
        simp only [pstep] at hk hw ⊢
        by_cases e : k = h
        · subst e; simp at hw; simp [hw]
        · simp [e] at hw
          have hne : p.id k ≠ p.id h := fun he => e (hinv.inj k h hk hl he)
          simp [hne]
          exact hinv.agree k w hk hw
    · simp at hr
  | read h =>
    simp only [rstep] at hr
    split at hr
    · rename_i hl
      split at hr
      · rename_i v hv
        simp only [Option.some.injEq, Prod.mk.injEq] at hr
        obtain ⟨rfl, rfl⟩ := hr
        refine ⟨?_, hinv⟩
        simp [pstep, hinv.agree h v hl hv]
      · simp at hr
    · simp at hr
  | put h =>
    simp only [rstep] at hr
    split at hr
    · rename_i hl
      simp only [Option.some.injEq, Prod.mk.injEq] at hr
      obtain ⟨rfl, rfl⟩ := hr
      refine ⟨rfl, ?_⟩
      constructor
      · exact hinv.nh
      · intro k hk
        simp only at hk
        split at hk
        · simp at hk
        · exact hinv.bound k hk
      · intro k k' hk hk' he
        simp only at hk hk'
        split at hk
        · simp at hk
        · split at hk'
          · simp at hk'
          · exact hinv.inj k k' hk hk' he
      · simp only [pstep]
        exact List.nodup_cons.mpr ⟨hinv.notPooled h hl, hinv.nodup⟩
      · intro k hk
        simp only at hk
        simp only [pstep]
        split at hk
        · simp at hk
        · rename_i hne
          intro hmem
          rcases List.mem_cons.mp hmem with he | hm
          · exact hne (hinv.inj k h hk hl he)
          · exact hinv.notPooled k hk hm
      · intro o ho
        simp only [pstep] at ho ⊢
        rcases List.mem_cons.mp ho with he | hm
        · rw [he]; exact hinv.liveOld h hl
        · exact hinv.poolOld o hm
      · intro k hk
        simp only at hk
        split at hk
        · simp at hk
        · exact hinv.liveOld k hk
      · intro k w hk hw
        simp only at hk hw
        split at hk
        · simp at hk
        · exact hinv.agree k w hk hw
    · simp at hr


theorem run_sim (cs : List Cmd) : ∀ (p : PSt) (r r' : RSt) (vs : List Val),
    Inv p r → rrun r cs = some (r', vs) → (prun p cs).2 = vs ∧ Inv (prun p cs).1 r' := by
  induction cs with
  | nil =>
    intro p r r' vs hinv hr
    simp only [rrun, Option.some.injEq, Prod.mk.injEq] at hr
    obtain ⟨rfl, rfl⟩ := hr
    exact ⟨rfl, hinv⟩
  | cons c cs ih =>
    intro p r r' vs hinv hr
    simp only [rrun] at hr
    cases h1 : rstep r c with
    | none => simp [h1] at hr
    | some x =>
      obtain ⟨r1, o⟩ := x
      simp only [h1] at hr
      cases h2 : rrun r1 cs with
      | none => simp [h2] at hr
      | some y =>
        obtain ⟨r2, ws⟩ := y
        simp only [h2, Option.some.injEq, Prod.mk.injEq] at hr
        obtain ⟨rfl, rfl⟩ := hr
        obtain ⟨ho, hinv1⟩ := step_sim p r c r1 o hinv h1
        obtain ⟨hv, hinv2⟩ := ih (pstep p c).1 r1 r2 ws hinv1 h2
        simp only [prun]
        exact ⟨by rw [ho, hv], hinv2⟩

theorem inv_of_good (p : PSt) (r : RSt) (hg : GoodPool p) (hn : p.nh = r.nh)
    (hidle : ∀ h, r.live h = false) : Inv p r := by
  constructor
  · exact hn
  · intro h hl; simp [hidle h] at hl
  · intro h h' hl; simp [hidle h] at hl
  · exact hg.nodup
  · intro h hl; simp [hidle h] at hl
  · exact hg.old
  · intro h hl; simp [hidle h] at hl
  · intro h v hl; simp [hidle h] at hl

theorem good_of_inv (p : PSt) (r : RSt) (h : Inv p r) : GoodPool p := ⟨h.nodup, h.poolOld⟩

end JsonV.Lemmas.ResetPoolL
