/-
ReformatString without an escape option, on one literal that is a string of the selected UTF-8 mode: the result
is the RFC 8785 spelling of the literal's text (or the literal itself under PreserveRawStrings); it is again a
string of that mode (of BOTH modes when respelled), has the same text, and is a fixed point.
From the theorems of slice C11 (Props/C11.lean) and `canonQuote_valid` of slice C13.
-/
import JsonV.Model.FormatStrict
import JsonV.Props.C11
import JsonV.Lemmas.CanonLex
import JsonV.Lemmas.GlueTreeConverse

namespace JsonV.Fmt
open JsonV.Model JsonV.Model.Quote JsonV.Spec.Grammar JsonV.Spec.StringSpec

/-- the text of a literal (`AppendUnquote`) -/
def unqS (raw : Bytes) : Bytes := (appendUnquote raw).1

def FOpts.noEscape (o : FOpts) : Prop := o.html = false ∧ o.js = false

theorem unqS_canonQuote (raw : Bytes) : unqS (canonQuote (unqS raw)) = unqS raw := by
  unfold unqS
  have h1 := JsonV.Props.C11.unquote_quote_lossy {} (appendUnquote raw).1
  rw [JsonV.Props.C11.quote_minimal {} _ rfl rfl] at h1
  rw [h1]
  exact JsonV.Lemmas.QuoteSpec.lossy_of_wellFormed _ (JsonV.Lemmas.QuoteWf.appendUnquote_wellFormed raw)

theorem canonQuote_jstring (v : Bool) (s : Bytes) : JString v (canonQuote s) := by
  have h := JsonV.Props.C11.consume_canonQuote v s
  have := (JsonV.Props.C11.string_iff_quote (canonQuote s) v (canonQuote s).length).mp ⟨false, h⟩
  simpa using this.2

/-- without escape options and without PreserveRawStrings, ReformatString yields the canonical spelling -/
theorem respellStr_canon (o : FOpts) (hR : o.noEscape) (hp : o.preserve = false) (raw : Bytes)
    (hj : JString (!o.allowInvalidUTF8) raw) : respellStr o raw = canonQuote (unqS raw) := by
  obtain ⟨nc, hc⟩ := (JsonV.Props.C11.string_iff_quote raw (!o.allowInvalidUTF8) raw.length).mpr ⟨Nat.le_refl _, by simpa using hj⟩
  obtain ⟨hh, hjs⟩ := hR
  unfold respellStr
  simp only [hp, hh, hjs, Bool.false_and, Bool.false_eq_true, if_false, reformatString, hc, ne_eq, not_true_eq_false,
    Bool.or_self, Bool.not_false, Bool.true_and, Bool.or_false, List.take_length]
  cases nc with
  | false =>
    simp only [Bool.not_false, if_true]
    exact (JsonV.Props.C11.consume_canonical_iff (!o.allowInvalidUTF8) raw ⟨by rw [hc], by rw [hc]⟩).mp (by rw [hc])
  | true =>
    simp only [Bool.not_true, Bool.false_eq_true, if_false]
    exact JsonV.Props.C11.quote_minimal _ _ rfl rfl

/-- what respelling does to one literal of the selected mode -/
theorem respellStr_spec (o : FOpts) (hR : o.noEscape) (raw : Bytes) (hj : JString (!o.allowInvalidUTF8) raw) :
    (Tok.str (respellStr o raw)).valid = true ∧ JString (!o.allowInvalidUTF8) (respellStr o raw) ∧
    unqS (respellStr o raw) = unqS raw ∧ respellStr o (respellStr o raw) = respellStr o raw := by
  cases hp : o.preserve with
  | true =>
    have e : ∀ r, respellStr o r = r := by intro r; simp [respellStr, hp, hR.1, hR.2]
    refine ⟨?_, ?_, ?_, ?_⟩
    · rw [e]; exact (str_valid_iff raw).mpr (jstring_weaken hj)
    · rw [e]; exact hj
    · rw [e]
    · rw [e, e]
  | false =>
    have e1 := respellStr_canon o hR hp raw hj
    have hq : JString (!o.allowInvalidUTF8) (canonQuote (unqS raw)) := canonQuote_jstring _ _
    have e2 := respellStr_canon o hR hp (canonQuote (unqS raw)) hq
    rw [e1]
    refine ⟨JsonV.Lemmas.CanonLex.canonQuote_valid _, hq, unqS_canonQuote raw, ?_⟩
    rw [e2, unqS_canonQuote]

/-! ### with an escape option, PreserveRawStrings off: the re-quote branch of ReformatString -/

/-- every option set except PreserveRawStrings together with an escape option AND AllowInvalidUTF8 (the escape loop
over a raw literal that may contain ill-formed UTF-8) -/
def FOpts.respellable (o : FOpts) : Prop := o.noEscape ∨ o.preserve = false ∨ o.allowInvalidUTF8 = false

theorem respellStr_quote (o : FOpts) (hp : o.preserve = false) (he : (o.html || o.js) = true) (raw : Bytes)
    (hj : JString (!o.allowInvalidUTF8) raw) :
    respellStr o raw = (appendQuote ⟨o.html, o.js, o.allowInvalidUTF8, false⟩ (unqS raw)).1 := by
  obtain ⟨nc, hc⟩ := (JsonV.Props.C11.string_iff_quote raw (!o.allowInvalidUTF8) raw.length).mpr ⟨Nat.le_refl _, by simpa using hj⟩
  unfold respellStr unqS
  simp only [hp, Bool.false_and, Bool.false_eq_true, if_false, reformatString, hc, ne_eq, not_true_eq_false, he,
    Bool.not_true, List.take_length]

theorem quote_spec (f : QFlags) (v : Bool) (raw : Bytes) :
    (Tok.str (appendQuote f (unqS raw)).1).valid = true ∧ JString v (appendQuote f (unqS raw)).1 ∧
    unqS (appendQuote f (unqS raw)).1 = unqS raw := by
  refine ⟨(str_valid_iff _).mpr (JsonV.Props.C11.quote_is_jstring f false _), JsonV.Props.C11.quote_is_jstring f v _, ?_⟩
  unfold unqS
  rw [JsonV.Props.C11.unquote_quote_lossy]
  exact JsonV.Lemmas.QuoteSpec.lossy_of_wellFormed _ (JsonV.Lemmas.QuoteWf.appendUnquote_wellFormed raw)

/-! ### PreserveRawStrings with an escape option, strict UTF-8: the escape loop (slice C11 `preserve_*`) -/

theorem respellStr_preserve (o : FOpts) (hp : o.preserve = true) (he : (o.html || o.js) = true)
    (hu : o.allowInvalidUTF8 = false) (raw : Bytes) (hj : JString true raw) :
    respellStr o raw = preserveLoop o.html o.js raw.length raw := by
  obtain ⟨nc, hc⟩ := (JsonV.Props.C11.string_iff_quote raw true raw.length).mpr ⟨Nat.le_refl _, by simpa using hj⟩
  have hne : (o.preserve && !o.html && !o.js) = false := by
    cases h1 : o.html <;> cases h2 : o.js <;> simp_all
  unfold respellStr
  rw [if_neg (by rw [hne]; simp)]
  simp only [reformatString, hu, Bool.not_false, hc, ne_eq, not_true_eq_false, he, if_false,
    Bool.not_true, Bool.false_and, Bool.false_eq_true, hp, if_true]

theorem preserve_spec (o : FOpts) (hp : o.preserve = true) (he : (o.html || o.js) = true)
    (hu : o.allowInvalidUTF8 = false) (raw : Bytes) (hj : JString true raw) :
    (Tok.str (respellStr o raw)).valid = true ∧ JString true (respellStr o raw) ∧
    unqS (respellStr o raw) = unqS raw ∧ respellStr o (respellStr o raw) = respellStr o raw := by
  obtain ⟨nc, hc⟩ := (JsonV.Props.C11.string_iff_quote raw true raw.length).mpr ⟨Nat.le_refl _, by simpa using hj⟩
  have e1 := respellStr_preserve o hp he hu raw hj
  have hq : JString true (preserveLoop o.html o.js raw.length raw) := JsonV.Props.C11.preserve_is_jstring _ _ raw _ nc hc
  rw [e1]
  refine ⟨(str_valid_iff _).mpr (jstring_weaken hq), hq, ?_, ?_⟩
  · unfold unqS
    have := JsonV.Props.C11.preserve_unquote o.html o.js raw _ nc hc
    rw [List.take_length] at this
    rw [this]
  · rw [respellStr_preserve o hp he hu _ hq]
    have := JsonV.Props.C11.preserve_idem o.html o.js raw _ nc hc []
    rwa [List.append_nil] at this

/-- what respelling does to one literal of the selected mode, for every respellable option set -/
theorem respellStr_spec' (o : FOpts) (hR : o.respellable) (raw : Bytes) (hj : JString (!o.allowInvalidUTF8) raw) :
    (Tok.str (respellStr o raw)).valid = true ∧ JString (!o.allowInvalidUTF8) (respellStr o raw) ∧
    unqS (respellStr o raw) = unqS raw ∧ respellStr o (respellStr o raw) = respellStr o raw := by
  by_cases hne : o.noEscape
  · exact respellStr_spec o hne raw hj
  · have he : (o.html || o.js) = true := by
      cases h1 : o.html <;> cases h2 : o.js <;> simp_all [FOpts.noEscape]
    cases hp : o.preserve with
    | false =>
      have e1 := respellStr_quote o hp he raw hj
      obtain ⟨q1, q2, q3⟩ := quote_spec ⟨o.html, o.js, o.allowInvalidUTF8, false⟩ (!o.allowInvalidUTF8) raw
      rw [e1]
      refine ⟨q1, q2, q3, ?_⟩
      rw [respellStr_quote o hp he _ q2, q3]
    | true =>
      have hu : o.allowInvalidUTF8 = false := by
        rcases hR with h | h | h
        · exact absurd h hne
        · rw [hp] at h; cases h
        · exact h
      rw [hu] at hj ⊢
      exact preserve_spec o hp he hu raw (by simpa using hj)

/-! ### every option set, strict UTF-8: the text of each literal is preserved (slice C11 `reformat_meaning_strict`) -/

theorem reformatString_snd (f : QFlags) (raw : Bytes) (nc : Bool)
    (hc : consumeString (!f.allowInvalid) raw = (raw.length, Err.ok, nc)) :
    (reformatString f raw).2 = (raw.length, Err.ok) := by
  simp only [reformatString, hc, ne_eq, not_true_eq_false, if_false]
  split
  · rfl
  · split <;> rfl

theorem respellStr_meaning_strict (o : FOpts) (hu : o.allowInvalidUTF8 = false) (raw : Bytes) (hj : JString true raw) :
    unqS (respellStr o raw) = unqS raw := by
  unfold respellStr
  split
  · rfl
  · obtain ⟨nc, hc⟩ := (JsonV.Props.C11.string_iff_quote raw true raw.length).mpr ⟨Nat.le_refl _, by simpa using hj⟩
    have hs := reformatString_snd ⟨o.html, o.js, o.allowInvalidUTF8, o.preserve⟩ raw nc (by simpa [hu] using hc)
    have := JsonV.Props.C11.reformat_meaning_strict ⟨o.html, o.js, o.allowInvalidUTF8, o.preserve⟩ raw hu (by rw [hs])
    rw [hs] at this
    simpa [unqS] using this

end JsonV.Fmt
