/-
C11 lemmas: `utf8.DecodeRune ∘ utf8.AppendRune = id` on scalar values (for the model JsonV.Model.Utf8), the
notion "exactly one well-formed sequence" (`IsSeq`) with its consequences for `scalars` / `lossy` /
`illFormedCount`, and: everything AppendUnquote outputs is well-formed UTF-8.  Core Lean only.
-/
import JsonV.Lemmas.QuoteL

namespace JsonV.Lemmas.QuoteWf
open JsonV JsonV.Model.Utf8 JsonV.Model.Quote JsonV.Lemmas.QuoteUtf8 JsonV.Lemmas.QuoteL JsonV.Spec.StringSpec

theorem toNat_ofNat_lt {n : Nat} (h : n < 256) : (UInt8.ofNat n).toNat = n := by
  simp [Nat.mod_eq_of_lt h]

theorem leadInfo_two {b : Nat} (h1 : 0xC2 ≤ b) (h2 : b ≤ 0xDF) : leadInfo b = some (2, 0x80, 0xBF) := by
  simp [leadInfo, h1, h2]
theorem leadInfo_E0 : leadInfo 0xE0 = some (3, 0xA0, 0xBF) := by decide
theorem leadInfo_ED : leadInfo 0xED = some (3, 0x80, 0x9F) := by decide
theorem leadInfo_three {b : Nat} (h1 : 0xE1 ≤ b) (h2 : b ≤ 0xEF) (h3 : b ≠ 0xED) : leadInfo b = some (3, 0x80, 0xBF) := by
  simp only [leadInfo]
  repeat' split
  all_goals first | rfl | omega
theorem leadInfo_F0 : leadInfo 0xF0 = some (4, 0x90, 0xBF) := by decide
theorem leadInfo_F4 : leadInfo 0xF4 = some (4, 0x80, 0x8F) := by decide
theorem leadInfo_four {b : Nat} (h1 : 0xF1 ≤ b) (h2 : b ≤ 0xF3) : leadInfo b = some (4, 0x80, 0xBF) := by
  simp only [leadInfo]
  repeat' split
  all_goals first | rfl | omega

/-- `utf8.DecodeRune ∘ utf8.AppendRune` on a scalar value. -/
theorem decodeRune_encodeRune (r : Nat) (q : Bytes) (hv : r ≤ maxRune) (hs : ¬ (0xD800 ≤ r ∧ r ≤ 0xDFFF)) :
    decodeRune (encodeRune r ++ q) = (r, (encodeRune r).length) := by
  have h1 : ¬ (r > maxRune ∨ (0xD800 ≤ r ∧ r ≤ 0xDFFF)) := by omega
  simp only [maxRune] at hv
  by_cases c1 : r < 0x80
  · simp only [encodeRune, h1, c1, ↓reduceIte, List.cons_append, List.nil_append, List.length_cons, List.length_nil]
    rw [decodeRune_ascii _ _ (by rw [toNat_ofNat_lt (by omega)]; exact c1), toNat_ofNat_lt (by omega)]
  · by_cases c2 : r < 0x800
    · simp only [encodeRune, h1, c1, c2, ↓reduceIte, List.cons_append, List.nil_append, List.length_cons, List.length_nil]
      have e0 : (UInt8.ofNat (0xC0 + r / 64)).toNat = 0xC0 + r / 64 := toNat_ofNat_lt (by omega)
      have e1 : (UInt8.ofNat (0x80 + r % 64)).toNat = 0x80 + r % 64 := toNat_ofNat_lt (by omega)
      have := dec_complete (Dec.two (q := q) (b0 := UInt8.ofNat (0xC0 + r / 64)) (b1 := UInt8.ofNat (0x80 + r % 64))
        (by rw [e0]; simp only [runeSelf]; omega) (by rw [e0]; exact leadInfo_two (by omega) (by omega))
        (by rw [e1]; omega) (by rw [e1]; omega)) (by simp)
      rw [this, e0, e1]
      congr 1; omega
    · by_cases c3 : r < 0x10000
      · simp only [encodeRune, h1, c1, c2, c3, ↓reduceIte, List.cons_append, List.nil_append, List.length_cons, List.length_nil]
        have e0 : (UInt8.ofNat (0xE0 + r / 4096)).toNat = 0xE0 + r / 4096 := toNat_ofNat_lt (by omega)
        have e1 : (UInt8.ofNat (0x80 + r / 64 % 64)).toNat = 0x80 + r / 64 % 64 := toNat_ofNat_lt (by omega)
        have e2 : (UInt8.ofNat (0x80 + r % 64)).toNat = 0x80 + r % 64 := toNat_ofNat_lt (by omega)
        have hl : ∃ lo hi, leadInfo (0xE0 + r / 4096) = some (3, lo, hi) ∧ lo ≤ 0x80 + r / 64 % 64 ∧ 0x80 + r / 64 % 64 ≤ hi := by
          by_cases k0 : r / 4096 = 0
          · exact ⟨_, _, by rw [k0]; exact leadInfo_E0, by omega, by omega⟩
          · by_cases k13 : r / 4096 = 13
            · exact ⟨_, _, by rw [k13]; exact leadInfo_ED, by omega, by omega⟩
            · exact ⟨_, _, leadInfo_three (by omega) (by omega) (by omega), by omega, by omega⟩
        obtain ⟨lo, hi, hl, hlo, hhi⟩ := hl
        have := dec_complete (Dec.three (q := q) (b0 := UInt8.ofNat (0xE0 + r / 4096)) (b1 := UInt8.ofNat (0x80 + r / 64 % 64))
          (b2 := UInt8.ofNat (0x80 + r % 64))
          (by rw [e0]; simp only [runeSelf]; omega) (by rw [e0]; exact hl)
          (by rw [e1]; exact hlo) (by rw [e1]; exact hhi) (by rw [e2, isCont_iff]; omega)) (by simp)
        rw [this, e0, e1, e2]
        congr 1; omega
      · simp only [encodeRune, h1, c1, c2, c3, ↓reduceIte, List.cons_append, List.nil_append, List.length_cons, List.length_nil]
        have e0 : (UInt8.ofNat (0xF0 + r / 262144)).toNat = 0xF0 + r / 262144 := toNat_ofNat_lt (by omega)
        have e1 : (UInt8.ofNat (0x80 + r / 4096 % 64)).toNat = 0x80 + r / 4096 % 64 := toNat_ofNat_lt (by omega)
        have e2 : (UInt8.ofNat (0x80 + r / 64 % 64)).toNat = 0x80 + r / 64 % 64 := toNat_ofNat_lt (by omega)
        have e3 : (UInt8.ofNat (0x80 + r % 64)).toNat = 0x80 + r % 64 := toNat_ofNat_lt (by omega)
        have hl : ∃ lo hi, leadInfo (0xF0 + r / 262144) = some (4, lo, hi) ∧ lo ≤ 0x80 + r / 4096 % 64 ∧ 0x80 + r / 4096 % 64 ≤ hi := by
          by_cases k0 : r / 262144 = 0
          · exact ⟨_, _, by rw [k0]; exact leadInfo_F0, by omega, by omega⟩
          · by_cases k4 : r / 262144 = 4
            · exact ⟨_, _, by rw [k4]; exact leadInfo_F4, by omega, by omega⟩
            · exact ⟨_, _, leadInfo_four (by omega) (by omega), by omega, by omega⟩
        obtain ⟨lo, hi, hl, hlo, hhi⟩ := hl
        have := dec_complete (Dec.four (q := q) (b0 := UInt8.ofNat (0xF0 + r / 262144)) (b1 := UInt8.ofNat (0x80 + r / 4096 % 64))
          (b2 := UInt8.ofNat (0x80 + r / 64 % 64)) (b3 := UInt8.ofNat (0x80 + r % 64))
          (by rw [e0]; simp only [runeSelf]; omega) (by rw [e0]; exact hl)
          (by rw [e1]; exact hlo) (by rw [e1]; exact hhi) (by rw [e2, isCont_iff]; omega) (by rw [e3, isCont_iff]; omega)) (by simp)
        rw [this, e0, e1, e2, e3]
        congr 1; omega

/-! ### Well-formed sequences -/

/-- `o` is exactly one well-formed UTF-8 sequence encoding the scalar `r`, whatever follows it. -/
def IsSeq (o : Bytes) (r : Nat) : Prop :=
  o ≠ [] ∧ ∀ q, decodeRune (o ++ q) = (r, o.length) ∧ illFormedHead (o ++ q) = false

theorem isSeq_ascii (c : UInt8) (h : c.toNat < runeSelf) : IsSeq [c] c.toNat := by
  refine ⟨by simp, fun q => ?_⟩
  have hd := decodeRune_ascii c q h
  have : ¬ c.toNat = runeError := by simp only [runeError, runeSelf] at *; omega
  simp [illFormedHead, hd, this]

theorem isSeq_take (c : UInt8) (t : Bytes) (h1 : 1 < (decodeRune (c :: t)).2) :
    IsSeq ((c :: t).take (decodeRune (c :: t)).2) (decodeRune (c :: t)).1 := by
  have hlen := take_decodeRune_length (c :: t)
  refine ⟨?_, fun q => ?_⟩
  · intro e; rw [e] at hlen; simp at hlen; omega
  · have hd := decodeRune_take_append (c :: t) q h1
    have : ¬ (decodeRune (c :: t)).2 = 1 := by omega
    rw [hlen]
    simp [illFormedHead, hd, this]

theorem isSeq_fffd : IsSeq replacement runeError := by
  refine ⟨by simp [replacement], fun q => ?_⟩
  have := decodeRune_fffd q
  simp only [replacement, List.cons_append, List.nil_append, illFormedHead, this]
  simp

theorem encodeRune_invalid (r : Nat) (h : r > maxRune ∨ (0xD800 ≤ r ∧ r ≤ 0xDFFF)) : encodeRune r = replacement := by
  simp only [encodeRune, h, ↓reduceIte]
  decide

theorem encodeRune_length_pos (r : Nat) : encodeRune r ≠ [] := by
  simp only [encodeRune]
  repeat' split
  all_goals simp

theorem isSeq_encode (r : Nat) : ∃ r', IsSeq (encodeRune r) r' := by
  by_cases h : r > maxRune ∨ (0xD800 ≤ r ∧ r ≤ 0xDFFF)
  · rw [encodeRune_invalid r h]; exact ⟨_, isSeq_fffd⟩
  · refine ⟨r, encodeRune_length_pos r, fun q => ?_⟩
    have hd := decodeRune_encodeRune r q (by omega) (by omega)
    refine ⟨hd, ?_⟩
    simp only [illFormedHead, hd, Bool.and_eq_false_iff, decide_eq_false_iff_not]
    by_cases hr : r = runeError
    · right; subst hr; decide
    · left; exact hr

theorem isSeq_encode_valid (r : Nat) (hv : r ≤ maxRune) (hs : ¬ (0xD800 ≤ r ∧ r ≤ 0xDFFF)) : IsSeq (encodeRune r) r := by
  refine ⟨encodeRune_length_pos r, fun q => ?_⟩
  have hd := decodeRune_encodeRune r q hv hs
  refine ⟨hd, ?_⟩
  simp only [illFormedHead, hd, Bool.and_eq_false_iff, decide_eq_false_iff_not]
  by_cases hr : r = runeError
  · right; subst hr; decide
  · left; exact hr

theorem drop_seq (c : UInt8) (o' q : Bytes) : List.drop (c :: o').length (c :: (o' ++ q)) = q := by
  rw [← List.cons_append]; exact List.drop_left

theorem take_seq (c : UInt8) (o' q : Bytes) : List.take (c :: o').length (c :: (o' ++ q)) = c :: o' := by
  rw [← List.cons_append]; exact List.take_left

theorem isSeq_count {o : Bytes} {r : Nat} (h : IsSeq o r) (q : Bytes) : illFormedCount (o ++ q) = illFormedCount q := by
  obtain ⟨hne, hq⟩ := h
  obtain ⟨hd, hi⟩ := hq q
  match o, hne with
  | c :: o', _ =>
    rw [List.cons_append] at hd hi ⊢
    rw [illFormedCount, hd, hi]
    simp only [drop_seq]; simp

theorem isSeq_scalars {o : Bytes} {r : Nat} (h : IsSeq o r) (q : Bytes) :
    JsonV.Spec.StringSpec.scalars (o ++ q) = r :: JsonV.Spec.StringSpec.scalars q := by
  obtain ⟨hne, hq⟩ := h
  obtain ⟨hd, hi⟩ := hq q
  match o, hne with
  | c :: o', _ =>
    rw [List.cons_append] at hd ⊢
    rw [JsonV.Spec.StringSpec.scalars, hd]
    simp only [drop_seq]

theorem isSeq_lossy {o : Bytes} {r : Nat} (h : IsSeq o r) (q : Bytes) :
    JsonV.Spec.StringSpec.lossy (o ++ q) = o ++ JsonV.Spec.StringSpec.lossy q := by
  obtain ⟨hne, hq⟩ := h
  obtain ⟨hd, hi⟩ := hq q
  match o, hne with
  | c :: o', _ =>
    rw [List.cons_append] at hd hi ⊢
    rw [JsonV.Spec.StringSpec.lossy, hd, hi]
    simp only [drop_seq, take_seq]; simp

/-! ### The output of AppendUnquote is well-formed UTF-8 -/

/-- `o` is a concatenation of well-formed sequences. -/
def WfChunk (o : Bytes) : Prop := ∀ q, illFormedCount (o ++ q) = illFormedCount q

theorem wfChunk_nil : WfChunk [] := fun _ => rfl
theorem wfChunk_append {a b : Bytes} (ha : WfChunk a) (hb : WfChunk b) : WfChunk (a ++ b) := by
  intro q; rw [List.append_assoc, ha, hb]
theorem wfChunk_seq {o : Bytes} {r : Nat} (h : IsSeq o r) : WfChunk o := fun q => isSeq_count h q
theorem wfChunk_encode (r : Nat) : WfChunk (encodeRune r) := by
  obtain ⟨r', h⟩ := isSeq_encode r; exact wfChunk_seq h
theorem wfChunk_byte (c : UInt8) (h : c.toNat < runeSelf) : WfChunk [c] := wfChunk_seq (isSeq_ascii c h)

def stepOut : Step → Bytes
  | .cont o _ _ => o
  | .stop o _ => o

theorem unqSurrogate_wf (v1 : Nat) (rest : Bytes) : WfChunk (stepOut (unqSurrogate v1 rest)) := by
  simp only [unqSurrogate]
  repeat' split
  all_goals (simp only [stepOut]; exact wfChunk_encode _)

theorem unqEscapeU_wf (src : Bytes) : WfChunk (stepOut (unqEscapeU src)) := by
  simp only [unqEscapeU]
  repeat' split
  all_goals first | exact unqSurrogate_wf _ _ | (simp only [stepOut]; first | exact wfChunk_encode _ | exact wfChunk_nil)

theorem unqEscape_wf (src : Bytes) : WfChunk (stepOut (unqEscape src)) := by
  match src with
  | [] => exact wfChunk_nil
  | [_] => exact wfChunk_nil
  | _ :: c1 :: t =>
    simp only [unqEscape]
    split
    · rename_i h; simp only [stepOut]; exact wfChunk_byte c1 (by simp only [runeSelf]; omega)
    · repeat' split
      all_goals first | exact unqEscapeU_wf _ | (simp only [stepOut]; first | exact wfChunk_nil | exact wfChunk_byte _ (by decide))

theorem unqStep_wf (src : Bytes) : WfChunk (stepOut (unqStep src)) := by
  match src with
  | [] => exact wfChunk_nil
  | c :: t =>
    simp only [unqStep]
    split
    · rename_i h
      have : c.toNat < runeSelf := by
        simp only [noEscape, Bool.and_eq_true, decide_eq_true_eq] at h; exact h.1.1.1
      simp only [stepOut]; exact wfChunk_byte c this
    · split
      · simp only [stepOut]; exact wfChunk_nil
      · split
        · rename_i h1
          simp only [stepOut]; exact wfChunk_seq (isSeq_take c t h1)
        · split
          · exact unqEscape_wf _
          · split
            · split
              · simp only [stepOut]; exact wfChunk_nil
              · simp only [stepOut]; exact wfChunk_seq isSeq_fffd
            · split <;> (simp only [stepOut]; exact wfChunk_nil)

theorem unqLoop_wf (src : Bytes) (e : Err) : WfChunk (unqLoop src e).1 := by
  fun_induction unqLoop src e with
  | case1 src e o e' h =>
    have := unqStep_wf src; rw [h] at this; simpa only [stepOut] using this
  | case2 src e o k e' h r ih =>
    have := unqStep_wf src; rw [h] at this; simp only [stepOut] at this
    exact wfChunk_append this ih

theorem appendUnquote_wellFormed (src : Bytes) : WellFormed (appendUnquote src).1 := by
  have : WfChunk (appendUnquote src).1 := by
    simp only [appendUnquote]
    split
    · exact wfChunk_nil
    · split
      · exact unqLoop_wf _ _
      · exact wfChunk_nil
  have := this []
  simpa [WellFormed, illFormedCount] using this

end JsonV.Lemmas.QuoteWf
