/-
The streaming value scanner of Model/Stream.lean (`sValue / sObject / sObjectLoop / sArray / sArrayLoop`) answers,
for every reader, what `Validate.consumeValue / consumeObject / objectLoop / consumeArray / arrayLoop` answer on
(buffer ++ everything still to come) — or reports the transient fault without losing input (C05).
-/
import JsonV.Lemmas.ResumeStreamSim

namespace JsonV.Model.Stream
open JsonV JsonV.Model JsonV.Model.Validate JsonV.Model.TokenLoop
open JsonV.Lemmas.GlueResume JsonV.Lemmas.WireBasic JsonV.Lemmas.WireString JsonV.Lemmas.WireNumber JsonV.Lemmas.WireValue

/-- a scanner run at position `q` of the unread buffer `u` against the whole-input function `W` of the suffix -/
def AtOk {β : Type} (W : Bytes → β) (u : Bytes) (q : Nat) (es : List Event) : Fill β → Prop
  | .done b u' es' _ =>
    b = W ((u ++ avail es).drop q) ∧ b = W (u'.drop q) ∧ u' ++ avail es' = u ++ avail es ∧ es'.length ≤ es.length ∧
      u.length ≤ u'.length
  | .fault u' es' => u' ++ avail es' = u ++ avail es ∧ es'.length < es.length ∧ u.length ≤ u'.length

theorem suffix_at {T u : Bytes} {es : List Event} (hT : u ++ avail es = T) {q : Nat} (hq : q ≤ u.length) :
    T.drop q = u.drop q ++ avail es := by
  rw [← hT, List.drop_append_of_le_length hq]

theorem take_drop_len (u x : Bytes) (q : Nat) (hq : q ≤ u.length) : (u.take q ++ x).drop q = x := by
  have h := List.drop_length_add_append (l₁ := u.take q) (l₂ := x) 0
  have hl : (u.take q).length = q := by simp [List.length_take]; omega
  rw [hl] at h; simpa using h

theorem rebase_ok {β : Type} (W : Bytes → β) (u : Bytes) (q : Nat) (es : List Event) (F : Fill β) (hq : q ≤ u.length)
    (h : FillOk W (u.drop q) es F) : AtOk W u q es (F.rebase u q) := by
  have hlen := len_of_drop u q _ rfl hq
  cases F with
  | done b x es' f =>
    obtain ⟨h1, h2, h3, h4, h5⟩ := h
    refine ⟨?_, ?_, take_drop_rebuild u q _ x _ _ rfl h3, h4, ?_⟩
    · rw [suffix_at rfl hq]; exact h1
    · rw [take_drop_len u x q hq]; exact h2
    · rw [take_pos_len u q hq]; omega
  | fault x es' =>
    obtain ⟨h1, h2, h3⟩ := h
    refine ⟨take_drop_rebuild u q _ x _ _ rfl h1, h2, ?_⟩
    rw [take_pos_len u q hq]; omega

theorem map_ok {β γ : Type} (g : β → γ) (W : Bytes → β) (v : Bytes) (es : List Event) (F : Fill β)
    (h : FillOk W v es F) : FillOk (fun t => g (W t)) v es (F.map g) := by
  cases F with
  | done b x es' f =>
    obtain ⟨h1, h2, h3, h4, h5⟩ := h
    exact ⟨by rw [h1], by rw [h2], h3, h4, h5⟩
  | fault x es' => exact h

theorem atOk_congr {β : Type} {W W' : Bytes → β} (hW : ∀ t, W t = W' t) {u : Bytes} {q : Nat} {es : List Event}
    {F : Fill β} (h : AtOk W u q es F) : AtOk W' u q es F := by
  have : W = W' := funext hW
  subst this; exact h

theorem atOk_here {β : Type} (W : Bytes → β) (u : Bytes) (q : Nat) (es : List Event) (b : β)
    (h1 : b = W ((u ++ avail es).drop q)) (h2 : b = W (u.drop q)) : AtOk W u q es (.done b u es false) :=
  ⟨h1, h2, rfl, Nat.le_refl _, Nat.le_refl _⟩

theorem wsAt_ok (u : Bytes) (q : Nat) (es : List Event) (hq : q ≤ u.length) : AtOk wsW u q es (wsAt u q es) :=
  rebase_ok wsW u q es _ hq (sWhitespace_ok (u.drop q) 0 es (Nat.zero_le _))

theorem litAt_ok (l : Bytes) (hl : l ≠ []) (u : Bytes) (q : Nat) (es : List Event) (hq : q ≤ u.length) :
    AtOk (valueLiteral l) u q es (litAt l u q es) := by
  unfold litAt
  by_cases hf : Wire.consumeExact l (u.drop q) = 0
  · simp only [hf, bne_self_eq_false, Bool.false_eq_true, if_false]
    apply atOk_congr (W := fun t => ((litW l t).1, toWire (litW l t).2)) (fun t => (valueLiteral_eq l t hl).symm)
    exact rebase_ok _ u q es _ hq (map_ok _ _ _ _ _ (sLiteral_ok l (u.drop q) es))
  · have hf' : (Wire.consumeExact l (u.drop q) != 0) = true := by simpa using hf
    simp only [hf', if_true]
    apply atOk_here
    · rw [suffix_at rfl hq]; exact (lit_fast l (u.drop q) (avail es) hl hf).1.symm
    · simp [valueLiteral, hf]

theorem strAt_ok (o : VOpts) (u : Bytes) (q : Nat) (es : List Event) (hq : q ≤ u.length) :
    AtOk (valueString o) u q es (strAt o u q es) := by
  unfold strAt
  by_cases hf : Wire.consumeSimpleString (u.drop q) = 0
  · simp only [hf, bne_self_eq_false, Bool.false_eq_true, if_false]
    apply atOk_congr (W := fun t => ((strW (!o.allowInvalidUTF8) t).1, toWireFlags (strW (!o.allowInvalidUTF8) t).2.1,
      toWire (strW (!o.allowInvalidUTF8) t).2.2)) (fun t => (valueString_eq o t).symm)
    exact rebase_ok _ u q es _ hq (map_ok _ _ _ _ _ (sString_ok (!o.allowInvalidUTF8) (u.drop q) es))
  · have hf' : (Wire.consumeSimpleString (u.drop q) != 0) = true := by simpa using hf
    simp only [hf', if_true]
    apply atOk_here
    · rw [suffix_at rfl hq]; exact (str_fast o (u.drop q) (avail es) hf).1.symm
    · simp [valueString, hf]

theorem numAt_ok (u : Bytes) (q : Nat) (es : List Event) (hq : q ≤ u.length) :
    AtOk valueNumber u q es (numAt u q es) := by
  unfold numAt
  by_cases hf : (Wire.consumeSimpleNumber (u.drop q) == 0 || Wire.lenLt (u.drop q) (Wire.consumeSimpleNumber (u.drop q) + 1)) = true
  · simp only [hf, if_true]
    apply atOk_congr (W := fun t => ((numW t).1, toWire (numW t).2)) (fun t => (valueNumber_eq t).symm)
    exact rebase_ok _ u q es _ hq (map_ok _ _ _ _ _ (sNumber_ok (u.drop q) es))
  · simp only [hf, Bool.false_eq_true, if_false]
    have hf2 := hf
    simp at hf2
    obtain ⟨h0, h1⟩ := hf2
    have hlt : Wire.consumeSimpleNumber (u.drop q) < (u.drop q).length := by
      cases hh : Wire.lenLt (u.drop q) (Wire.consumeSimpleNumber (u.drop q) + 1)
      · have : ¬ (u.drop q).length < Wire.consumeSimpleNumber (u.drop q) + 1 := by
          intro hx; have := (lenLt_iff (u.drop q) _).mpr hx; rw [hh] at this; simp at this
        omega
      · rw [hh] at h1; simp at h1
    apply atOk_here
    · rw [suffix_at rfl hq]; exact (num_fast (u.drop q) (avail es) h0 hlt).symm
    · have := num_fast (u.drop q) [] h0 hlt
      simpa using this.symm

/-- the value scanned at `p` of the unread buffer `u` is the value `r` of the whole input, nothing is lost -/
def ValOk (u : Bytes) (p : Nat) (es : List Event) (r : Nat × Wire.Err) : VRes → Prop
  | .fault u' es' => u' ++ avail es' = u ++ avail es ∧ es'.length < es.length ∧ u.length ≤ u'.length
  | .done n e u' es' _ =>
    (n, e) = r ∧ u' ++ avail es' = u ++ avail es ∧ es'.length ≤ es.length ∧ u.length ≤ u'.length ∧
      (e = .ok → p + n ≤ u'.length)

def PV (o : VOpts) (fuel : Nat) : Prop := ∀ (depth : Nat) (u : Bytes) (p : Nat) (es : List Event) (c : UInt8) (vt : Bytes),
  u.drop p = c :: vt → ValOk u p es (consumeValue o fuel depth ((c :: vt) ++ avail es)) (sValue o fuel depth u p es)
def PA (o : VOpts) (fuel : Nat) : Prop := ∀ (depth : Nat) (u : Bytes) (p : Nat) (es : List Event) (c : UInt8) (vt : Bytes),
  u.drop p = c :: vt → ValOk u p es (consumeArray o fuel depth ((c :: vt) ++ avail es)) (sArray o fuel depth u p es)
def PO (o : VOpts) (fuel : Nat) : Prop := ∀ (depth : Nat) (u : Bytes) (p : Nat) (es : List Event) (c : UInt8) (vt : Bytes),
  u.drop p = c :: vt → ValOk u p es (consumeObject o fuel depth ((c :: vt) ++ avail es)) (sObject o fuel depth u p es)
def PAL (o : VOpts) (fuel : Nat) : Prop := ∀ (depth : Nat) (u : Bytes) (p : Nat) (es : List Event),
  p ≤ u.length → ValOk u p es (arrayLoop o fuel depth (u.drop p ++ avail es)) (sArrayLoop o fuel depth u p es)
def POL (o : VOpts) (fuel : Nat) : Prop := ∀ (depth : Nat) (names : List Bytes) (u : Bytes) (p : Nat) (es : List Event),
  p ≤ u.length → ValOk u p es (objectLoop o fuel depth names (u.drop p ++ avail es)) (sObjectLoop o fuel depth names u p es)

/-- what a completed blank scan at `q` tells -/
theorem ws_done (u : Bytes) (q : Nat) (es : List Event) (w : Nat) (found : Bool) (u1 : Bytes) (es1 : List Event) (f1 : Bool)
    (hq : q ≤ u.length) (h : AtOk wsW u q es (.done (w, found) u1 es1 f1)) :
    w = Wire.consumeWhitespace ((u ++ avail es).drop q) ∧
    (found = false → ((u ++ avail es).drop q).drop w = []) ∧
    (found = true → q + w < u1.length) ∧
    u1 ++ avail es1 = u ++ avail es ∧ es1.length ≤ es.length ∧ u.length ≤ u1.length := by
  obtain ⟨h1, h2, h3, h4, h5⟩ := h
  obtain ⟨a1, a2, _⟩ := ws_facts _ w found h1
  obtain ⟨_, _, b3⟩ := ws_facts _ w found h2
  refine ⟨a1, a2, ?_, h3, h4, h5⟩
  intro hf
  have := b3 hf
  simp [List.length_drop] at this
  omega

/-- the byte at a position inside the buffer, seen from the buffer and from the whole input -/
theorem byte_facts (T u : Bytes) (es : List Event) (q : Nat) (hT : u ++ avail es = T) (hq : q < u.length) :
    u.drop q = byteAt u q :: u.drop (q + 1) ∧ T.drop q = byteAt u q :: (u.drop (q + 1) ++ avail es) ∧
    T.drop (q + 1) = u.drop (q + 1) ++ avail es := by
  obtain ⟨c, vt, hd⟩ := drop_cons_of_lt u q hq
  have hb : byteAt u q = c := by simp [byteAt, hd]
  have hvt : u.drop (q + 1) = vt := by rw [← List.drop_drop, hd]; rfl
  refine ⟨by rw [hb, hvt]; exact hd, ?_, suffix_at hT (by omega)⟩
  rw [suffix_at hT (Nat.le_of_lt hq), hd, hb, hvt]; rfl

theorem valOk_fault_trans {u u1 u' : Bytes} {es es1 es' : List Event} {p : Nat} {r : Nat × Wire.Err}
    (h1 : u' ++ avail es' = u1 ++ avail es1) (h2 : es'.length < es1.length) (h3 : u1.length ≤ u'.length)
    (hT : u1 ++ avail es1 = u ++ avail es) (he : es1.length ≤ es.length) (hu : u.length ≤ u1.length) :
    ValOk u p es r (.fault u' es') := ⟨h1.trans hT, by omega, by omega⟩


theorem pal_step (o : VOpts) (f : Nat) (hV : PV o f) (hL : PAL o f) : PAL o (f + 1) := by
  intro depth u p es hp
  -- T = u ++ avail es, r = T.drop p
  have hr : u.drop p ++ avail es = (u ++ avail es).drop p := (suffix_at rfl hp).symm
  rw [hr]
  simp only [sArrayLoop]
  have h1 := wsAt_ok u p es hp
  cases hs1 : wsAt u p es with
  | fault u1 es1 => rw [hs1] at h1; exact h1
  | done b1 u1 es1 f1 =>
    rw [hs1] at h1
    obtain ⟨w, found⟩ := b1
    obtain ⟨hw, hnil, hfound, hT1, he1, hu1⟩ := ws_done u p es w found u1 es1 f1 hp h1
    simp only
    cases found with
    | false =>
      simp only [Bool.not_false, if_true]
      refine ⟨?_, hT1, he1, hu1, by intro h; simp at h⟩
      simp only [arrayLoop, ← hw, hnil rfl]
    | true =>
      simp only [Bool.not_true, Bool.false_eq_true, if_false]
      have hq1 := hfound rfl
      obtain ⟨b1a, b1b, b1c⟩ := byte_facts _ u1 es1 (p + w) hT1 hq1
      -- the element
      have hcons : ((u ++ avail es).drop p).drop w =
          byteAt u1 (p + w) :: (u1.drop (p + w + 1) ++ avail es1) := by
        rw [List.drop_drop]; exact b1b
      have hv := hV depth u1 (p + w) es1 _ _ b1a
      cases hs2 : sValue o f depth u1 (p + w) es1 with
      | fault u2 es2 =>
        rw [hs2] at hv
        obtain ⟨g1, g2, g3⟩ := hv
        exact valOk_fault_trans g1 g2 g3 hT1 he1 hu1
      | done k e u2 es2 f2 =>
        rw [hs2] at hv
        obtain ⟨g0, gT, ge, gu, gb⟩ := hv
        have hval : consumeValue o f depth (byteAt u1 (p + w) :: (u1.drop (p + w + 1) ++ avail es1)) = (k, e) := g0.symm
        have hT2 : u2 ++ avail es2 = u ++ avail es := gT.trans hT1
        simp only
        by_cases hne : (e != Wire.Err.ok) = true
        · simp only [hne, if_true]
          refine ⟨?_, hT2, by omega, by omega, ?_⟩
          · simp only [arrayLoop, ← hw, hcons, hval, hne, if_true]
          · intro h; simp [h] at hne
        · simp only [hne, Bool.false_eq_true, if_false]
          have hok : e = .ok := by simpa using hne
          have hq2 : p + w + k ≤ u2.length := gb hok
          -- behind the element
          have hre : (byteAt u1 (p + w) :: (u1.drop (p + w + 1) ++ avail es1)).drop k = (u ++ avail es).drop (p + w + k) := by
            rw [← b1b, List.drop_drop]
          have h3 := wsAt_ok u2 (p + w + k) es2 hq2
          cases hs3 : wsAt u2 (p + w + k) es2 with
          | fault u3 es3 =>
            rw [hs3] at h3
            obtain ⟨g1, g2, g3⟩ := h3
            exact valOk_fault_trans g1 g2 g3 hT2 (by omega) (by omega)
          | done b3 u3 es3 f3 =>
            rw [hs3] at h3
            obtain ⟨w4, found4⟩ := b3
            obtain ⟨hw4, hnil4, hfound4, hT3', he3, hu3⟩ := ws_done u2 (p + w + k) es2 w4 found4 u3 es3 f3 hq2 h3
            rw [hT2] at hw4 hnil4
            have hT3 : u3 ++ avail es3 = u ++ avail es := hT3'.trans hT2
            simp only
            cases found4 with
            | false =>
              simp only [Bool.not_false, if_true]
              refine ⟨?_, hT3, by omega, by omega, by intro h; simp at h⟩
              simp only [arrayLoop, ← hw, hcons, hval, hne, Bool.false_eq_true, if_false, hre, ← hw4, hnil4 rfl]
            | true =>
              simp only [Bool.not_true, Bool.false_eq_true, if_false]
              have hq3 := hfound4 rfl
              obtain ⟨b3a, b3b, b3c⟩ := byte_facts _ u3 es3 (p + w + k + w4) hT3 hq3
              have hcons3 : ((u ++ avail es).drop (p + w + k)).drop w4 =
                  byteAt u3 (p + w + k + w4) :: (u3.drop (p + w + k + w4 + 1) ++ avail es3) := by
                rw [List.drop_drop]; exact b3b
              by_cases hc : (byteAt u3 (p + w + k + w4) == 0x2C) = true
              · simp only [hc, if_true]
                have hrec := hL depth u3 (p + w + k + w4 + 1) es3 (by omega)
                have hW : arrayLoop o (f + 1) depth ((u ++ avail es).drop p) =
                    addOff (w + k + w4 + 1) (arrayLoop o f depth (u3.drop (p + w + k + w4 + 1) ++ avail es3)) := by
                  simp only [arrayLoop, ← hw, hcons, hval, hne, Bool.false_eq_true, if_false, hre, ← hw4, hcons3, hc, if_true]
                rw [hW]
                cases hs4 : sArrayLoop o f depth u3 (p + w + k + w4 + 1) es3 with
                | fault u4 es4 =>
                  rw [hs4] at hrec
                  obtain ⟨g1, g2, g3⟩ := hrec
                  exact valOk_fault_trans g1 g2 g3 hT3 (by omega) (by omega)
                | done n' e' u4 es4 f4 =>
                  rw [hs4] at hrec
                  obtain ⟨r0, rT, re, ru, rb⟩ := hrec
                  simp only [VRes.addOff]
                  refine ⟨?_, rT.trans hT3, by omega, by omega, ?_⟩
                  · rw [← r0]; rfl
                  · intro h; have := rb h; omega
              · simp only [hc, Bool.false_eq_true, if_false]
                by_cases hc2 : (byteAt u3 (p + w + k + w4) == 0x5D) = true
                · simp only [hc2, if_true]
                  refine ⟨?_, hT3, by omega, by omega, by intro _; omega⟩
                  simp only [arrayLoop, ← hw, hcons, hval, hne, Bool.false_eq_true, if_false, hre, ← hw4, hcons3, hc, hc2, if_true]
                · simp only [hc2, Bool.false_eq_true, if_false]
                  refine ⟨?_, hT3, by omega, by omega, by intro h; simp at h⟩
                  simp only [arrayLoop, ← hw, hcons, hval, hne, Bool.false_eq_true, if_false, hre, ← hw4, hcons3, hc, hc2]


theorem pol_step (o : VOpts) (f : Nat) (hV : PV o f) (hL : POL o f) : POL o (f + 1) := by
  intro depth names u p es hp
  have hr : u.drop p ++ avail es = (u ++ avail es).drop p := (suffix_at rfl hp).symm
  rw [hr]
  simp only [sObjectLoop]
  -- before name
  have h1 := wsAt_ok u p es hp
  cases hs1 : wsAt u p es with
  | fault u1 es1 => rw [hs1] at h1; exact h1
  | done b1 u1 es1 f1 =>
    rw [hs1] at h1
    obtain ⟨w, found⟩ := b1
    obtain ⟨hw, hnil, hfound, hT1, he1, hu1⟩ := ws_done u p es w found u1 es1 f1 hp h1
    simp only
    cases found with
    | false =>
      simp only [Bool.not_false, if_true]
      refine ⟨?_, hT1, he1, hu1, by intro h; simp at h⟩
      simp only [objectLoop, ← hw, hnil rfl]
    | true =>
      simp only [Bool.not_true, Bool.false_eq_true, if_false]
      have hq1 := hfound rfl
      obtain ⟨b1a, b1b, b1c⟩ := byte_facts _ u1 es1 (p + w) hT1 hq1
      have hcons : ((u ++ avail es).drop p).drop w =
          byteAt u1 (p + w) :: (u1.drop (p + w + 1) ++ avail es1) := by
        rw [List.drop_drop]; exact b1b
      -- the name
      have h2 := strAt_ok o u1 (p + w) es1 (Nat.le_of_lt hq1)
      cases hs2 : strAt o u1 (p + w) es1 with
      | fault u2 es2 =>
        rw [hs2] at h2
        obtain ⟨g1, g2, g3⟩ := h2
        exact valOk_fault_trans g1 g2 g3 hT1 he1 hu1
      | done b2 u2 es2 f2 =>
        rw [hs2] at h2
        obtain ⟨n, fl, e⟩ := b2
        obtain ⟨s1, s2, sT, se, su⟩ := h2
        rw [hT1, b1b] at s1
        have hstr : valueString o (byteAt u1 (p + w) :: (u1.drop (p + w + 1) ++ avail es1)) = (n, fl, e) := s1.symm
        have hT2 : u2 ++ avail es2 = u ++ avail es := sT.trans hT1
        simp only
        by_cases hne : (e != Wire.Err.ok) = true
        · simp only [hne, if_true]
          refine ⟨?_, hT2, by omega, by omega, by intro h; simp [h] at hne⟩
          simp only [objectLoop, ← hw, hcons, hstr, hne, if_true]
        · simp only [hne, Bool.false_eq_true, if_false]
          have hok : e = .ok := by simpa using hne
          subst hok
          have hnb : n ≤ (u2.drop (p + w)).length := (valueString_sound o _ n fl s2.symm).1
          have hq2 : p + w + n ≤ u2.length := by simp [List.length_drop] at hnb; omega
          have htake : (byteAt u1 (p + w) :: (u1.drop (p + w + 1) ++ avail es1)).take n = (u2.drop (p + w)).take n := by
            rw [← b1b, suffix_at hT2 (by omega), List.take_append_of_le_length hnb]
          by_cases hdup : (!o.allowDup && names.contains (unescapedName ((u2.drop (p + w)).take n) fl)) = true
          · simp only [hdup, if_true]
            refine ⟨?_, hT2, by omega, by omega, by intro h; simp at h⟩
            simp only [objectLoop, ← hw, hcons, hstr, hne, Bool.false_eq_true, if_false, htake, hdup, if_true]
          · simp only [hdup, Bool.false_eq_true, if_false]
            -- after name
            have hrb : (byteAt u1 (p + w) :: (u1.drop (p + w + 1) ++ avail es1)).drop n = (u ++ avail es).drop (p + w + n) := by
              rw [← b1b, List.drop_drop]
            have h3 := wsAt_ok u2 (p + w + n) es2 hq2
            cases hs3 : wsAt u2 (p + w + n) es2 with
            | fault u3 es3 =>
              rw [hs3] at h3
              obtain ⟨g1, g2, g3⟩ := h3
              exact valOk_fault_trans g1 g2 g3 hT2 (by omega) (by omega)
            | done b3 u3 es3 f3 =>
              rw [hs3] at h3
              obtain ⟨w2, found2⟩ := b3
              obtain ⟨hw2, hnil2, hfound2, hT3', he3, hu3⟩ := ws_done u2 (p + w + n) es2 w2 found2 u3 es3 f3 hq2 h3
              rw [hT2] at hw2 hnil2
              have hT3 : u3 ++ avail es3 = u ++ avail es := hT3'.trans hT2
              simp only
              cases found2 with
              | false =>
                simp only [Bool.not_false, if_true]
                refine ⟨?_, hT3, by omega, by omega, by intro h; simp at h⟩
                simp only [objectLoop, ← hw, hcons, hstr, hne, Bool.false_eq_true, if_false, htake, hdup, hrb, ← hw2, hnil2 rfl]
              | true =>
                simp only [Bool.not_true, Bool.false_eq_true, if_false]
                have hq3 := hfound2 rfl
                obtain ⟨b3a, b3b, b3c⟩ := byte_facts _ u3 es3 (p + w + n + w2) hT3 hq3
                have hcons2 : ((u ++ avail es).drop (p + w + n)).drop w2 =
                    byteAt u3 (p + w + n + w2) :: (u ++ avail es).drop (p + w + n + w2 + 1) := by
                  rw [List.drop_drop, b3b, b3c]
                by_cases hcol : (byteAt u3 (p + w + n + w2) != 0x3A) = true
                · simp only [hcol, if_true]
                  refine ⟨?_, hT3, by omega, by omega, by intro h; simp at h⟩
                  simp only [objectLoop, ← hw, hcons, hstr, hne, Bool.false_eq_true, if_false, htake, hdup, hrb, ← hw2, hcons2, hcol, if_true]
                · simp only [hcol, Bool.false_eq_true, if_false]
                  -- before value
                  have h4 := wsAt_ok u3 (p + w + n + w2 + 1) es3 (by omega)
                  cases hs4 : wsAt u3 (p + w + n + w2 + 1) es3 with
                  | fault u4 es4 =>
                    rw [hs4] at h4
                    obtain ⟨g1, g2, g3⟩ := h4
                    exact valOk_fault_trans g1 g2 g3 hT3 (by omega) (by omega)
                  | done b4 u4 es4 f4 =>
                    rw [hs4] at h4
                    obtain ⟨w3, found3⟩ := b4
                    obtain ⟨hw3, hnil3, hfound3, hT4', he4, hu4⟩ := ws_done u3 (p + w + n + w2 + 1) es3 w3 found3 u4 es4 f4 (by omega) h4
                    rw [hT3] at hw3 hnil3
                    have hT4 : u4 ++ avail es4 = u ++ avail es := hT4'.trans hT3
                    simp only
                    cases found3 with
                    | false =>
                      simp only [Bool.not_false, if_true]
                      refine ⟨?_, hT4, by omega, by omega, by intro h; simp at h⟩
                      simp only [objectLoop, ← hw, hcons, hstr, hne, Bool.false_eq_true, if_false, htake, hdup, hrb, ← hw2, hcons2, hcol,
                        ← hw3, hnil3 rfl]
                    | true =>
                      simp only [Bool.not_true, Bool.false_eq_true, if_false]
                      have hq4 := hfound3 rfl
                      obtain ⟨b4a, b4b, b4c⟩ := byte_facts _ u4 es4 (p + w + n + w2 + 1 + w3) hT4 hq4
                      have hcons4 : ((u ++ avail es).drop (p + w + n + w2 + 1)).drop w3 =
                          byteAt u4 (p + w + n + w2 + 1 + w3) :: (u4.drop (p + w + n + w2 + 1 + w3 + 1) ++ avail es4) := by
                        rw [List.drop_drop]; exact b4b
                      have hv := hV depth u4 (p + w + n + w2 + 1 + w3) es4 _ _ b4a
                      cases hs5 : sValue o f depth u4 (p + w + n + w2 + 1 + w3) es4 with
                      | fault u5 es5 =>
                        rw [hs5] at hv
                        obtain ⟨g1, g2, g3⟩ := hv
                        exact valOk_fault_trans g1 g2 g3 hT4 (by omega) (by omega)
                      | done k e5 u5 es5 f5 =>
                        rw [hs5] at hv
                        obtain ⟨g0, gT, ge, gu, gb⟩ := hv
                        have hval : consumeValue o f depth (byteAt u4 (p + w + n + w2 + 1 + w3) :: (u4.drop (p + w + n + w2 + 1 + w3 + 1) ++ avail es4)) = (k, e5) := g0.symm
                        have hT5 : u5 ++ avail es5 = u ++ avail es := gT.trans hT4
                        simp only
                        by_cases hne5 : (e5 != Wire.Err.ok) = true
                        · simp only [hne5, if_true]
                          refine ⟨?_, hT5, by omega, by omega, by intro h; simp [h] at hne5⟩
                          simp only [objectLoop, ← hw, hcons, hstr, hne, Bool.false_eq_true, if_false, htake, hdup, hrb, ← hw2, hcons2, hcol,
                            ← hw3, hcons4, hval, hne5, if_true]
                        · simp only [hne5, Bool.false_eq_true, if_false]
                          have hok5 : e5 = .ok := by simpa using hne5
                          have hq5 : p + w + n + w2 + 1 + w3 + k ≤ u5.length := gb hok5
                          have hre : (byteAt u4 (p + w + n + w2 + 1 + w3) :: (u4.drop (p + w + n + w2 + 1 + w3 + 1) ++ avail es4)).drop k =
                              (u ++ avail es).drop (p + w + n + w2 + 1 + w3 + k) := by
                            rw [← b4b, List.drop_drop]
                          -- after value
                          have h6 := wsAt_ok u5 (p + w + n + w2 + 1 + w3 + k) es5 hq5
                          cases hs6 : wsAt u5 (p + w + n + w2 + 1 + w3 + k) es5 with
                          | fault u6 es6 =>
                            rw [hs6] at h6
                            obtain ⟨g1, g2, g3⟩ := h6
                            exact valOk_fault_trans g1 g2 g3 hT5 (by omega) (by omega)
                          | done b6 u6 es6 f6 =>
                            rw [hs6] at h6
                            obtain ⟨w4, found4⟩ := b6
                            obtain ⟨hw4, hnil4, hfound4, hT6', he6, hu6⟩ := ws_done u5 (p + w + n + w2 + 1 + w3 + k) es5 w4 found4 u6 es6 f6 hq5 h6
                            rw [hT5] at hw4 hnil4
                            have hT6 : u6 ++ avail es6 = u ++ avail es := hT6'.trans hT5
                            simp only
                            cases found4 with
                            | false =>
                              simp only [Bool.not_false, if_true]
                              refine ⟨?_, hT6, by omega, by omega, by intro h; simp at h⟩
                              simp only [objectLoop, ← hw, hcons, hstr, hne, Bool.false_eq_true, if_false, htake, hdup, hrb, ← hw2, hcons2, hcol,
                                ← hw3, hcons4, hval, hne5, hre, ← hw4, hnil4 rfl]
                            | true =>
                              simp only [Bool.not_true, Bool.false_eq_true, if_false]
                              have hq6 := hfound4 rfl
                              obtain ⟨b6a, b6b, b6c⟩ := byte_facts _ u6 es6 (p + w + n + w2 + 1 + w3 + k + w4) hT6 hq6
                              have hcons6 : ((u ++ avail es).drop (p + w + n + w2 + 1 + w3 + k)).drop w4 =
                                  byteAt u6 (p + w + n + w2 + 1 + w3 + k + w4) ::
                                    (u6.drop (p + w + n + w2 + 1 + w3 + k + w4 + 1) ++ avail es6) := by
                                rw [List.drop_drop]; exact b6b
                              by_cases hc : (byteAt u6 (p + w + n + w2 + 1 + w3 + k + w4) == 0x2C) = true
                              · simp only [hc, if_true]
                                have hrec := hL depth (if o.allowDup then names else names ++ [unescapedName ((u2.drop (p + w)).take n) fl])
                                  u6 (p + w + n + w2 + 1 + w3 + k + w4 + 1) es6 (by omega)
                                have hW : objectLoop o (f + 1) depth names ((u ++ avail es).drop p) =
                                    addOff (w + n + w2 + 1 + w3 + k + w4 + 1) (objectLoop o f depth
                                      (if o.allowDup then names else names ++ [unescapedName ((u2.drop (p + w)).take n) fl])
                                      (u6.drop (p + w + n + w2 + 1 + w3 + k + w4 + 1) ++ avail es6)) := by
                                  simp only [objectLoop, ← hw, hcons, hstr, hne, Bool.false_eq_true, if_false, htake, hdup, hrb, ← hw2, hcons2, hcol,
                                    ← hw3, hcons4, hval, hne5, hre, ← hw4, hcons6, hc, if_true]
                                rw [hW]
                                cases hs7 : sObjectLoop o f depth (if o.allowDup then names else names ++ [unescapedName ((u2.drop (p + w)).take n) fl])
                                    u6 (p + w + n + w2 + 1 + w3 + k + w4 + 1) es6 with
                                | fault u7 es7 =>
                                  rw [hs7] at hrec
                                  obtain ⟨g1, g2, g3⟩ := hrec
                                  exact valOk_fault_trans g1 g2 g3 hT6 (by omega) (by omega)
                                | done n' e' u7 es7 f7 =>
                                  rw [hs7] at hrec
                                  obtain ⟨r0, rT, re, ru, rb⟩ := hrec
                                  simp only [VRes.addOff]
                                  refine ⟨?_, rT.trans hT6, by omega, by omega, ?_⟩
                                  · rw [← r0]; rfl
                                  · intro h; have := rb h; omega
                              · simp only [hc, Bool.false_eq_true, if_false]
                                by_cases hc2 : (byteAt u6 (p + w + n + w2 + 1 + w3 + k + w4) == 0x7D) = true
                                · simp only [hc2, if_true]
                                  refine ⟨?_, hT6, by omega, by omega, by intro _; omega⟩
                                  simp only [objectLoop, ← hw, hcons, hstr, hne, Bool.false_eq_true, if_false, htake, hdup, hrb, ← hw2, hcons2, hcol,
                                    ← hw3, hcons4, hval, hne5, hre, ← hw4, hcons6, hc, hc2, if_true]
                                · simp only [hc2, Bool.false_eq_true, if_false]
                                  refine ⟨?_, hT6, by omega, by omega, by intro h; simp at h⟩
                                  simp only [objectLoop, ← hw, hcons, hstr, hne, Bool.false_eq_true, if_false, htake, hdup, hrb, ← hw2, hcons2, hcol,
                                    ← hw3, hcons4, hval, hne5, hre, ← hw4, hcons6, hc, hc2]


theorem addOff_ok (u u1 : Bytes) (p q k : Nat) (es es1 : List Event) (f0 : Bool) (r1 : Nat × Wire.Err) (S : VRes)
    (h : ValOk u1 q es1 r1 S) (hT : u1 ++ avail es1 = u ++ avail es) (he : es1.length ≤ es.length) (hu : u.length ≤ u1.length)
    (hq : q = p + k) : ValOk u p es (addOff k r1) (S.addOff k f0) := by
  cases S with
  | fault u' es' =>
    obtain ⟨g1, g2, g3⟩ := h
    exact valOk_fault_trans g1 g2 g3 hT he hu
  | done n e u' es' f =>
    obtain ⟨r0, rT, re, ru, rb⟩ := h
    refine ⟨?_, rT.trans hT, by omega, by omega, ?_⟩
    · rw [← r0]; rfl
    · intro hh; have := rb hh; omega

theorem pa_step (o : VOpts) (f : Nat) (hL : PAL o f) : PA o (f + 1) := by
  intro depth u p es c vt hd
  have hplt : p < u.length := by
    have := congrArg List.length hd; simp [List.length_drop] at this; omega
  have hr1 : ((c :: vt) ++ avail es).drop 1 = (u ++ avail es).drop (p + 1) := by
    rw [← hd, ← suffix_at rfl (Nat.le_of_lt hplt), List.drop_drop]
  simp only [sArray]
  by_cases hdep : (depth == maxNestingDepth + 1) = true
  · simp only [hdep, if_true]
    refine ⟨?_, rfl, Nat.le_refl _, Nat.le_refl _, by intro h; simp at h⟩
    simp only [consumeArray, hdep, if_true]
  · simp only [hdep, Bool.false_eq_true, if_false]
    have h1 := wsAt_ok u (p + 1) es (by omega)
    cases hs1 : wsAt u (p + 1) es with
    | fault u1 es1 => rw [hs1] at h1; exact h1
    | done b1 u1 es1 f1 =>
      rw [hs1] at h1
      obtain ⟨w, found⟩ := b1
      obtain ⟨hw, hnil, hfound, hT1, he1, hu1⟩ := ws_done u (p + 1) es w found u1 es1 f1 (by omega) h1
      simp only
      cases found with
      | false =>
        simp only [Bool.not_false, if_true]
        refine ⟨?_, hT1, he1, hu1, by intro h; simp at h⟩
        simp only [consumeArray, hdep, Bool.false_eq_true, if_false, hr1, ← hw, hnil rfl]
      | true =>
        simp only [Bool.not_true, Bool.false_eq_true, if_false]
        have hq1 := hfound rfl
        obtain ⟨b1a, b1b, b1c⟩ := byte_facts _ u1 es1 (p + 1 + w) hT1 hq1
        have hcons : ((u ++ avail es).drop (p + 1)).drop w =
            byteAt u1 (p + 1 + w) :: (u1.drop (p + 1 + w + 1) ++ avail es1) := by
          rw [List.drop_drop]; exact b1b
        by_cases hc : (byteAt u1 (p + 1 + w) == 0x5D) = true
        · simp only [hc, if_true]
          refine ⟨?_, hT1, he1, hu1, by intro _; omega⟩
          simp only [consumeArray, hdep, Bool.false_eq_true, if_false, hr1, ← hw, hcons, hc, if_true]
        · simp only [hc, Bool.false_eq_true, if_false]
          have hrec := hL (depth + 1) u1 (p + 1 + w) es1 (Nat.le_of_lt hq1)
          have hW : consumeArray o (f + 1) depth ((c :: vt) ++ avail es) =
              addOff (1 + w) (arrayLoop o f (depth + 1) (u1.drop (p + 1 + w) ++ avail es1)) := by
            simp only [consumeArray, hdep, Bool.false_eq_true, if_false, hr1, ← hw, hcons, hc]
            rw [b1a]; rfl
          rw [hW]
          exact addOff_ok u u1 p (p + 1 + w) (1 + w) es es1 f1 _ _ hrec hT1 he1 hu1 (by omega)

theorem po_step (o : VOpts) (f : Nat) (hL : POL o f) : PO o (f + 1) := by
  intro depth u p es c vt hd
  have hplt : p < u.length := by
    have := congrArg List.length hd; simp [List.length_drop] at this; omega
  have hr1 : ((c :: vt) ++ avail es).drop 1 = (u ++ avail es).drop (p + 1) := by
    rw [← hd, ← suffix_at rfl (Nat.le_of_lt hplt), List.drop_drop]
  simp only [sObject]
  by_cases hdep : (depth == maxNestingDepth + 1) = true
  · simp only [hdep, if_true]
    refine ⟨?_, rfl, Nat.le_refl _, Nat.le_refl _, by intro h; simp at h⟩
    simp only [consumeObject, hdep, if_true]
  · simp only [hdep, Bool.false_eq_true, if_false]
    have h1 := wsAt_ok u (p + 1) es (by omega)
    cases hs1 : wsAt u (p + 1) es with
    | fault u1 es1 => rw [hs1] at h1; exact h1
    | done b1 u1 es1 f1 =>
      rw [hs1] at h1
      obtain ⟨w, found⟩ := b1
      obtain ⟨hw, hnil, hfound, hT1, he1, hu1⟩ := ws_done u (p + 1) es w found u1 es1 f1 (by omega) h1
      simp only
      cases found with
      | false =>
        simp only [Bool.not_false, if_true]
        refine ⟨?_, hT1, he1, hu1, by intro h; simp at h⟩
        simp only [consumeObject, hdep, Bool.false_eq_true, if_false, hr1, ← hw, hnil rfl]
      | true =>
        simp only [Bool.not_true, Bool.false_eq_true, if_false]
        have hq1 := hfound rfl
        obtain ⟨b1a, b1b, b1c⟩ := byte_facts _ u1 es1 (p + 1 + w) hT1 hq1
        have hcons : ((u ++ avail es).drop (p + 1)).drop w =
            byteAt u1 (p + 1 + w) :: (u1.drop (p + 1 + w + 1) ++ avail es1) := by
          rw [List.drop_drop]; exact b1b
        by_cases hc : (byteAt u1 (p + 1 + w) == 0x7D) = true
        · simp only [hc, if_true]
          refine ⟨?_, hT1, he1, hu1, by intro _; omega⟩
          simp only [consumeObject, hdep, Bool.false_eq_true, if_false, hr1, ← hw, hcons, hc, if_true]
        · simp only [hc, Bool.false_eq_true, if_false]
          have hrec := hL (depth + 1) [] u1 (p + 1 + w) es1 (Nat.le_of_lt hq1)
          have hW : consumeObject o (f + 1) depth ((c :: vt) ++ avail es) =
              addOff (1 + w) (objectLoop o f (depth + 1) [] (u1.drop (p + 1 + w) ++ avail es1)) := by
            simp only [consumeObject, hdep, Bool.false_eq_true, if_false, hr1, ← hw, hcons, hc]
            rw [b1a]; rfl
          rw [hW]
          exact addOff_ok u u1 p (p + 1 + w) (1 + w) es es1 f1 _ _ hrec hT1 he1 hu1 (by omega)


theorem ofFill_ok (W : Bytes → Nat × Wire.Err) (u : Bytes) (p : Nat) (es : List Event) (F : Fill (Nat × Wire.Err))
    (hp : p ≤ u.length) (h : AtOk W u p es F)
    (hb : ∀ (t : Bytes) (n : Nat), W t = (n, .ok) → n ≤ t.length) :
    ValOk u p es (W ((u ++ avail es).drop p)) (.ofFill false F) := by
  cases F with
  | fault u' es' => exact h
  | done b u' es' f =>
    obtain ⟨h1, h2, h3, h4, h5⟩ := h
    refine ⟨?_, h3, h4, h5, ?_⟩
    · rw [← h1]
    · intro hok
      have := hb (u'.drop p) b.1 (by rw [← h2]; exact Prod.ext rfl hok)
      simp [List.length_drop] at this; omega

theorem map_atOk {β γ : Type} (g : β → γ) (W : Bytes → β) (u : Bytes) (q : Nat) (es : List Event) (F : Fill β)
    (h : AtOk W u q es F) : AtOk (fun t => g (W t)) u q es (F.map g) := by
  cases F with
  | done b x es' f =>
    obtain ⟨h1, h2, h3, h4, h5⟩ := h
    exact ⟨by rw [h1], by rw [h2], h3, h4, h5⟩
  | fault x es' => exact h

theorem pv_step (o : VOpts) (f : Nat) (hA : PA o f) (hO : PO o f) : PV o (f + 1) := by
  intro depth u p es c vt hd
  have hplt : p < u.length := by
    have := congrArg List.length hd; simp [List.length_drop] at this; omega
  have hp := Nat.le_of_lt hplt
  have hT : (c :: vt) ++ avail es = (u ++ avail es).drop p := by rw [← hd]; exact (suffix_at rfl hp).symm
  have hdone : ∀ (e : Wire.Err), e ≠ .ok → ValOk u p es (0, e) (.done 0 e u es false) := by
    intro e he; exact ⟨rfl, rfl, Nat.le_refl _, Nat.le_refl _, by intro h; exact absurd h he⟩
  simp only [sValue, hd, consumeValue, List.cons_append]
  by_cases h1 : (normKind c == 0x6E) = true
  · simp only [h1, if_true]
    rw [← List.cons_append, hT]
    exact ofFill_ok _ u p es _ hp (litAt_ok Wire.litNull (by decide) u p es hp)
      (fun t n h => (valueLiteral_sound _ t n (by decide) h).1)
  simp only [h1, Bool.false_eq_true, if_false]
  by_cases h2 : (normKind c == 0x66) = true
  · simp only [h2, if_true]
    rw [← List.cons_append, hT]
    exact ofFill_ok _ u p es _ hp (litAt_ok Wire.litFalse (by decide) u p es hp)
      (fun t n h => (valueLiteral_sound _ t n (by decide) h).1)
  simp only [h2, Bool.false_eq_true, if_false]
  by_cases h3 : (normKind c == 0x74) = true
  · simp only [h3, if_true]
    rw [← List.cons_append, hT]
    exact ofFill_ok _ u p es _ hp (litAt_ok Wire.litTrue (by decide) u p es hp)
      (fun t n h => (valueLiteral_sound _ t n (by decide) h).1)
  simp only [h3, Bool.false_eq_true, if_false]
  by_cases h4 : (normKind c == 0x22) = true
  · simp only [h4, if_true]
    rw [← List.cons_append, hT]
    have := ofFill_ok (fun t => ((valueString o t).1, (valueString o t).2.2)) u p es _ hp
      (map_atOk (fun b => (b.1, b.2.2)) _ u p es _ (strAt_ok o u p es hp))
      (fun t n h => by
        have hh : valueString o t = (n, (valueString o t).2.1, .ok) := by
          injection h with ha hb
          exact Prod.ext ha (Prod.ext rfl hb)
        exact (valueString_sound o t n _ hh).1)
    exact this
  simp only [h4, Bool.false_eq_true, if_false]
  by_cases h5 : (normKind c == 0x30) = true
  · simp only [h5, if_true]
    rw [← List.cons_append, hT]
    exact ofFill_ok _ u p es _ hp (numAt_ok u p es hp) (fun t n h => (valueNumber_sound t n h).1)
  simp only [h5, Bool.false_eq_true, if_false]
  by_cases h6 : (normKind c == 0x7B) = true
  · simp only [h6, if_true]
    rw [← List.cons_append]; exact hO depth u p es c vt hd
  simp only [h6, Bool.false_eq_true, if_false]
  by_cases h7 : (normKind c == 0x5B) = true
  · simp only [h7, if_true]
    rw [← List.cons_append]; exact hA depth u p es c vt hd
  simp only [h7, Bool.false_eq_true, if_false]
  by_cases h8 : (normKind c == 0x7D) = true
  · simp only [h8, if_true]; exact hdone _ (by simp)
  simp only [h8, Bool.false_eq_true, if_false]
  exact hdone _ (by simp)

/-- all five at once, for every fuel -/
theorem value_sim_all (o : VOpts) (fuel : Nat) : PV o fuel ∧ PA o fuel ∧ PO o fuel ∧ PAL o fuel ∧ POL o fuel := by
  induction fuel with
  | zero =>
    have z : ∀ (u : Bytes) (p : Nat) (es : List Event), ValOk u p es (0, .fuel) (.done 0 .fuel u es false) :=
      fun u p es => ⟨rfl, rfl, Nat.le_refl _, Nat.le_refl _, by intro h; simp at h⟩
    refine ⟨?_, ?_, ?_, ?_, ?_⟩
    · intro depth u p es c vt _; simp only [sValue, consumeValue]; exact z u p es
    · intro depth u p es c vt _; simp only [sArray, consumeArray]; exact z u p es
    · intro depth u p es c vt _; simp only [sObject, consumeObject]; exact z u p es
    · intro depth u p es _; simp only [sArrayLoop, arrayLoop]; exact z u p es
    · intro depth names u p es _; simp only [sObjectLoop, objectLoop]; exact z u p es
  | succ f ih =>
    obtain ⟨hV, hA, hO, hAL, hOL⟩ := ih
    exact ⟨pv_step o f hA hO, pa_step o f hAL, po_step o f hOL, pal_step o f hV hAL, pol_step o f hV hOL⟩


end JsonV.Model.Stream
