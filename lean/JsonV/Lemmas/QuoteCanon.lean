/-
C11 lemmas: ConsumeString's stringNonCanonical flag.  (←) the RFC 8785 serialisation `canonQuote s` of any text is
accepted and left canonical; (→) along a successful run that never sets the flag, every step consumes exactly
`canonChar` of the one scalar AppendUnquote produces for it.  Hence `consumeString_canonical_iff`.  Core Lean only.
-/
import JsonV.Lemmas.QuoteSpec
import JsonV.Lemmas.QuoteWf

namespace JsonV.Lemmas.QuoteCanon
open JsonV JsonV.Model.Utf8 JsonV.Model.Quote JsonV.Lemmas.QuoteUtf8 JsonV.Lemmas.QuoteL JsonV.Spec.StringSpec JsonV.Lemmas.QuoteSpec JsonV.Lemmas.QuoteWf

/-! ### ConsumeString: loop unfolding -/

theorem csLoop_cont {v src k nc'} (n : Nat) (nc : Bool) (h : csStep v src = .cont k nc') :
    csLoop v src n nc = csLoop v (src.drop k) (n + k) (nc || nc') := by
  rw [csLoop]
  split
  · rename_i h2; rw [h] at h2; cases h2
  · rename_i h2; rw [h] at h2; cases h2; rfl

theorem csLoop_stop {v src off e nc'} (n : Nat) (nc : Bool) (h : csStep v src = .stop off e nc') :
    csLoop v src n nc = (n + off, e, nc || nc') := by
  rw [csLoop]
  split
  · rename_i h2; rw [h] at h2; cases h2; rfl
  · rename_i h2; rw [h] at h2; cases h2

theorem csLoop_nc_true (v : Bool) (src : Bytes) (n : Nat) : (csLoop v src n true).2.2 = true := by
  generalize hnc : true = nc
  fun_induction csLoop v src n nc with
  | case1 src n nc off e nc' h => subst hnc; simp
  | case2 src n nc k nc' h ih => subst hnc; exact ih (by simp)

/-! ### canonQuote output is consumed as canonical -/

theorem csStep_plain (v : Bool) (c : UInt8) (tail : Bytes) (h : noEscape c.toNat = true) : csStep v (c :: tail) = .cont 1 false := by
  simp [csStep, h]

theorem csStep_backslash (v : Bool) (x : UInt8) (tail : Bytes) : csStep v (0x5c :: x :: tail) = csEscape v (0x5c :: x :: tail) := by
  have hd : decodeRune (0x5c :: x :: tail) = (0x5c, 1) := decodeRune_ascii 0x5c _ (by decide)
  simp only [csStep, hd]
  simp [noEscape]

theorem hexLower_not_upper : ∀ n : Fin 16, ¬ (0x41 ≤ (hexLower n.val).toNat ∧ (hexLower n.val).toNat ≤ 0x46) := by decide +kernel

/-- `\u00XX` as produced by appendEscapedUTF16 for a control character other than \b \f \n \r \t. -/
theorem csStep_u16_ctrl (v : Bool) (x : Nat) (hx : x < 0x20) (hn : x ≠ 8 ∧ x ≠ 9 ∧ x ≠ 10 ∧ x ≠ 12 ∧ x ≠ 13) (tail : Bytes) :
    csStep v (appendEscapedUTF16 x ++ tail) = .cont 6 false := by
  simp only [appendEscapedUTF16, List.cons_append, List.nil_append]
  rw [csStep_backslash]
  have hs : isSurrogate x = false := by simp [isSurrogate]; omega
  have h1 := hexLower_not_upper ⟨(x >>> 12) % 16, Nat.mod_lt _ (by omega)⟩
  have h2 := hexLower_not_upper ⟨(x >>> 8) % 16, Nat.mod_lt _ (by omega)⟩
  have h3 := hexLower_not_upper ⟨(x >>> 4) % 16, Nat.mod_lt _ (by omega)⟩
  have h4 := hexLower_not_upper ⟨x % 16, Nat.mod_lt _ (by omega)⟩
  simp only at h1 h2 h3 h4
  have hnc : escNonCanon x [hexLower ((x >>> 12) % 16), hexLower ((x >>> 8) % 16), hexLower ((x >>> 4) % 16), hexLower (x % 16)] = false := by
    have a1 : ¬ (x = 8 ∨ x = 12 ∨ x = 10 ∨ x = 13 ∨ x = 9) := by omega
    have a2 : ¬ x ≥ 32 := by omega
    simp only [escNonCanon, a1, a2, ↓reduceIte, hasUpperHex, List.any_cons, List.any_nil, Bool.or_false]
    simp only [Bool.or_eq_false_iff, Bool.and_eq_false_iff, decide_eq_false_iff_not]
    refine ⟨?_, ?_, ?_, ?_⟩ <;> omega
  simp only [csEscape]
  simp only [csEscapeU, parseHex_u16 x (by omega), hs, hnc]
  simp

theorem csStep_escASCII (v : Bool) (c : UInt8) (hc : c.toNat < 128) (he : escapeASCII c.toNat ≠ 0) (hh : isHTMLChar c.toNat = false)
    (tail : Bytes) : csStep v (appendEscapedASCII c.toNat ++ tail) = .cont (appendEscapedASCII c.toNat).length false := by
  have htab := (escapeASCII_table ⟨c.toNat, hc⟩).mp (by
    rcases escapeASCII_01 ⟨c.toNat, hc⟩ with h | h
    · exact absurd h he
    · exact h)
  simp only [isHTMLChar, Bool.or_eq_false_iff, decide_eq_false_iff_not] at hh
  simp only at htab
  unfold appendEscapedASCII
  split
  · rename_i h
    simp only [UInt8.ofNat_toNat, List.cons_append, List.nil_append, csStep_backslash, csEscape]
    rcases h with h | h <;> simp [h]
  · split
    · rename_i h; have := u8_eq_of_toNat (by omega) h; subst this
      simp [csStep_backslash, csEscape]
    · split
      · rename_i h; have := u8_eq_of_toNat (by omega) h; subst this
        simp [csStep_backslash, csEscape]
      · split
        · rename_i h; have := u8_eq_of_toNat (by omega) h; subst this
          simp [csStep_backslash, csEscape]
        · split
          · rename_i h; have := u8_eq_of_toNat (by omega) h; subst this
            simp [csStep_backslash, csEscape]
          · split
            · rename_i h; have := u8_eq_of_toNat (by omega) h; subst this
              simp [csStep_backslash, csEscape]
            · rw [csStep_u16_ctrl v c.toNat (by omega) (by omega)]
              simp [appendEscapedUTF16]

theorem csStep_multi (v : Bool) (c : UInt8) (t tail : Bytes) (h0 : ¬ c.toNat < runeSelf) (h1 : 1 < (decodeRune (c :: t)).2) :
    csStep v ((c :: t).take (decodeRune (c :: t)).2 ++ tail) = .cont (decodeRune (c :: t)).2 false := by
  have hda := decodeRune_take_append (c :: t) tail h1
  generalize hk : (decodeRune (c :: t)).2 = k at *
  obtain ⟨k', rfl⟩ : ∃ k', k = k' + 1 := ⟨k - 1, by omega⟩
  simp only [List.take_succ_cons, List.cons_append] at hda ⊢
  have hne : noEscape c.toNat = false := by simp [noEscape]; intro h; exact absurd h h0
  have hq : c ≠ 0x22 := by intro h; subst h; exact h0 (by decide)
  simp only [csStep, hne, hq, hda, hk]
  have : 1 < k' + 1 := h1
  simp [this]

theorem csStep_fffd (v : Bool) (tail : Bytes) : csStep v (utf8FFFD ++ tail) = .cont 3 false := by
  simp only [utf8FFFD, List.cons_append, List.nil_append, csStep, decodeRune_fffd]
  simp [noEscape, runeSelf]

/-- ConsumeString takes the chunk the (flag-less) quote loop emitted for one character in one step, canonical. -/
theorem csStep_quoteStep (v : Bool) (c : UInt8) (t tail : Bytes) :
    csStep v ((quoteStep false false c t).1 ++ tail) = .cont (quoteStep false false c t).1.length false := by
  by_cases h0 : c.toNat < runeSelf
  · have h128 : c.toNat < 128 := h0
    simp only [quoteStep, h0, ↓reduceIte]
    split
    · rename_i h
      exact csStep_plain v c tail (noEscape_of_table ⟨c.toNat, h128⟩ h)
    · rename_i he
      split
      · rename_i h
        have hh : isHTMLChar c.toNat = false := by simpa using h
        exact csStep_escASCII v c h128 he hh tail
      · rename_i h
        have : isHTMLChar c.toNat = true := by
          cases hh : isHTMLChar c.toNat <;> simp_all
        exact csStep_plain v c tail (html_noEscape this)
  · rcases decodeRune_high c t h0 with h1 | h1
    · have hinv : isInvalidUTF8 (decodeRune (c :: t)).1 (decodeRune (c :: t)).2 = false := by
        have : ¬ (decodeRune (c :: t)).2 = 1 := by omega
        simp [isInvalidUTF8, this]
      have key := csStep_multi v c t tail h0 h1
      simp only [quoteStep, h0, hinv, ↓reduceIte]
      repeat' split
      all_goals first | (simp only [take_decodeRune_length]; exact key) | simp_all
    · have : (quoteStep false false c t).1 = utf8FFFD := by
        simp [quoteStep, h0, h1, isInvalidUTF8, runeError]
      rw [this, csStep_fffd]; simp [utf8FFFD]

theorem csLoop_close (v : Bool) (n : Nat) (nc : Bool) : csLoop v [0x22] n nc = (n + 1, Err.ok, nc) := by
  rw [csLoop_stop (off := 1) (e := .ok) (nc' := false) n nc (by simp [csStep, noEscape])]; simp

theorem csLoop_quoteLoop (v : Bool) (s : Bytes) (n : Nat) (nc : Bool) :
    csLoop v ((quoteLoop false false s).1 ++ [0x22]) n nc = (n + (quoteLoop false false s).1.length + 1, Err.ok, nc) := by
  fun_induction quoteLoop false false s generalizing n nc with
  | case1 => simp [csLoop_close]
  | case2 c t st r ih =>
    simp only [List.append_assoc]
    rw [csLoop_cont n nc (csStep_quoteStep v c t _)]
    simp only [List.drop_left, Bool.or_false]
    show csLoop v ((quoteLoop false false (List.drop st.2.1 (c :: t))).1 ++ [0x22]) _ _ = _
    rw [ih]
    simp only [List.length_append]
    congr 1
    show _ = n + (st.1.length + (quoteLoop false false (List.drop st.2.1 (c :: t))).1.length) + 1
    have : st.1.length = (quoteStep false false c t).1.length := rfl
    omega

/-- The RFC 8785 serialisation of any text is a string literal that ConsumeString accepts and marks canonical. -/
theorem consumeString_canonQuote (v : Bool) (s : Bytes) :
    consumeString v (canonQuote s) = ((canonQuote s).length, Err.ok, false) := by
  simp only [canonQuote, ← quoteLoop_canon, consumeString, ↓reduceIte]
  rw [csLoop_quoteLoop]
  simp; omega

/-! ### A literal marked canonical is the RFC 8785 serialisation of its meaning -/

theorem canonChar_noEscape : ∀ n : Fin 128, noEscape n.val = true → canonChar n.val = [UInt8.ofNat n.val] := by decide +kernel

theorem hexVal_lower_table : ∀ h : Fin 256,
    (hexVal h.val).all (fun a => decide (a < 16) &&
      (decide (0x41 ≤ h.val ∧ h.val ≤ 0x46) || (UInt8.ofNat h.val == hexDigitLower a))) = true := by decide +kernel

theorem hexVal_lower (h : UInt8) (a : Nat) (hv : hexVal h.toNat = some a) :
    a < 16 ∧ ((0x41 ≤ h.toNat ∧ h.toNat ≤ 0x46) ∨ h = hexDigitLower a) := by
  have := hexVal_lower_table ⟨h.toNat, h.toNat_lt⟩
  simp only [hv, UInt8.ofNat_toNat, Option.all_some, Bool.and_eq_true, Bool.or_eq_true, decide_eq_true_eq, beq_iff_eq] at this
  exact this

theorem parseHex_some {h1 h2 h3 h4 : UInt8} {v : Nat} (hp : parseHexUint16 [h1, h2, h3, h4] = some v) :
    ∃ a1 a2 a3 a4, hexVal h1.toNat = some a1 ∧ hexVal h2.toNat = some a2 ∧ hexVal h3.toNat = some a3 ∧
      hexVal h4.toNat = some a4 ∧ ((a1 * 16 + a2) * 16 + a3) * 16 + a4 = v := by
  simp only [parseHexUint16] at hp
  cases e1 : hexVal h1.toNat <;> cases e2 : hexVal h2.toNat <;> cases e3 : hexVal h3.toNat <;> cases e4 : hexVal h4.toNat <;>
    simp only [e1, e2, e3, e4] at hp <;> first | (exact ⟨_, _, _, _, rfl, rfl, rfl, rfl, by injection hp⟩) | cases hp

theorem canonChar_ctrl (x : Nat) (hx : x < 0x20) (hn : ¬ (x = 8 ∨ x = 12 ∨ x = 10 ∨ x = 13 ∨ x = 9)) :
    canonChar x = [0x5c, 0x75, 0x30, 0x30, hexDigitLower (x / 16), hexDigitLower (x % 16)] := by
  simp only [canonChar]
  repeat' split
  all_goals first | omega | rfl

/-- the four digits of a `\uXXXX` escape that ConsumeString finds canonical -/
theorem canon_digits (h1 h2 h3 h4 : UInt8) (v1 : Nat) (hp : parseHexUint16 [h1, h2, h3, h4] = some v1)
    (hc : escNonCanon v1 [h1, h2, h3, h4] = false) :
    v1 < 0x20 ∧ [0x5c, 0x75, h1, h2, h3, h4] = canonChar v1 := by
  simp only [escNonCanon] at hc
  split at hc
  · cases hc
  · rename_i hn
    split at hc
    · cases hc
    · rename_i hlt
      have hx : v1 < 0x20 := by omega
      simp only [hasUpperHex, List.any_cons, List.any_nil, Bool.or_false, Bool.or_eq_false_iff, Bool.and_eq_false_iff,
        decide_eq_false_iff_not] at hc
      obtain ⟨u1, u2, u3, u4⟩ := hc
      obtain ⟨a1, a2, a3, a4, e1, e2, e3, e4, hv⟩ := parseHex_some hp
      have l1 := hexVal_lower h1 a1 e1
      have l2 := hexVal_lower h2 a2 e2
      have l3 := hexVal_lower h3 a3 e3
      have l4 := hexVal_lower h4 a4 e4
      have g1 : h1 = hexDigitLower a1 := by rcases l1.2 with h | h; exact absurd h (by omega); exact h
      have g2 : h2 = hexDigitLower a2 := by rcases l2.2 with h | h; exact absurd h (by omega); exact h
      have g3 : h3 = hexDigitLower a3 := by rcases l3.2 with h | h; exact absurd h (by omega); exact h
      have g4 : h4 = hexDigitLower a4 := by rcases l4.2 with h | h; exact absurd h (by omega); exact h
      have z1 : a1 = 0 := by omega
      have z2 : a2 = 0 := by omega
      have z3 : a3 = v1 / 16 := by omega
      have z4 : a4 = v1 % 16 := by omega
      refine ⟨hx, ?_⟩
      rw [canonChar_ctrl v1 hx hn, g1, g2, g3, g4, z1, z2, z3, z4]
      rfl

theorem isSurrogate_ge {v : Nat} (h : isSurrogate v = true) : 0xD800 ≤ v := by
  simp only [isSurrogate, Bool.and_eq_true, decide_eq_true_eq] at h; exact h.1

theorem escNonCanon_of_ge {v : Nat} (d : Bytes) (h : 0x20 ≤ v) : escNonCanon v d = true := by
  simp only [escNonCanon]; repeat' split
  all_goals first | rfl | omega

theorem csSurrogate_not_canon (v1 : Nat) (nc0 : Bool) (rest : Bytes) (k : Nat) (hnc : nc0 = true) :
    csSurrogate v1 nc0 rest ≠ .cont k false := by
  subst hnc
  simp only [csSurrogate]
  repeat' split
  all_goals simp

/-- A `\uXXXX` escape step that leaves the literal canonical. -/
theorem csEscapeU_canon (v : Bool) (c c1 h1 h2 h3 h4 : UInt8) (rest : Bytes) (k : Nat)
    (h : csEscapeU v (c :: c1 :: h1 :: h2 :: h3 :: h4 :: rest) = .cont k false) :
    ∃ v1, k = 6 ∧ v1 < 0x20 ∧ unqEscapeU (c :: c1 :: h1 :: h2 :: h3 :: h4 :: rest) = .cont (encodeRune v1) 6 none ∧
      [0x5c, 0x75, h1, h2, h3, h4] = canonChar v1 := by
  simp only [csEscapeU] at h
  split at h
  · cases h
  · rename_i v1 hp
    by_cases hs : isSurrogate v1 = true
    · have := escNonCanon_of_ge [h1, h2, h3, h4] (by have := isSurrogate_ge hs; omega : 0x20 ≤ v1)
      by_cases hv : v = true
      · simp only [hv, hs, Bool.and_self, ↓reduceIte] at h
        exact absurd h (csSurrogate_not_canon v1 _ rest k this)
      · simp only [hv, Bool.false_and, Bool.false_eq_true, ↓reduceIte, this] at h
        cases h
    · have hs' : isSurrogate v1 = false := by simpa using hs
      simp only [hs', Bool.and_false, Bool.false_eq_true, ↓reduceIte] at h
      injection h with hk hnc
      obtain ⟨hx, hcan⟩ := canon_digits h1 h2 h3 h4 v1 hp hnc
      exact ⟨v1, hk.symm, hx, by simp [unqEscapeU, hp, hs'], hcan⟩

theorem canonChar_simple :
    canonChar 0x22 = [0x5c, 0x22] ∧ canonChar 0x5c = [0x5c, 0x5c] ∧ canonChar 0x08 = [0x5c, 0x62] ∧ canonChar 0x0c = [0x5c, 0x66] ∧
    canonChar 0x0a = [0x5c, 0x6e] ∧ canonChar 0x0d = [0x5c, 0x72] ∧ canonChar 0x09 = [0x5c, 0x74] := by decide

/-- A step of ConsumeString that does not set stringNonCanonical consumes exactly the RFC 8785 spelling of the
one scalar that AppendUnquote produces for it. -/
theorem csStep_canon (v : Bool) (src : Bytes) (k : Nat) (h : csStep v src = .cont k false) :
    ∃ o r, unqStep src = .cont o k none ∧ IsSeq o r ∧ src.take k = canonChar r ∧ k ≤ src.length := by
  match src with
  | [] => simp [csStep] at h
  | c :: t =>
    simp only [csStep] at h
    split at h
    · rename_i hne
      injection h with hk _; subst hk
      have h0 : c.toNat < runeSelf := by
        simp only [noEscape, Bool.and_eq_true, decide_eq_true_eq] at hne; exact hne.1.1.1
      refine ⟨[c], c.toNat, unqStep_plain c t hne, isSeq_ascii c h0, ?_, by simp⟩
      have := canonChar_noEscape ⟨c.toNat, h0⟩ hne
      simp only [UInt8.ofNat_toNat] at this
      simp [this]
    · rename_i hne
      split at h
      · cases h
      · rename_i hq
        split at h
        · rename_i h1
          injection h with hk _; subst hk
          have h0 : ¬ c.toNat < runeSelf := by
            intro h0; rw [decodeRune_ascii c t h0] at h1; simp at h1
          have hnv : ¬ ((decodeRune (c :: t)).1 = runeError ∧ (decodeRune (c :: t)).2 = 1) := by omega
          refine ⟨_, (decodeRune (c :: t)).1, ?_, isSeq_take c t h1, ?_, decodeRune_le _⟩
          · simp [unqStep, hne, hq, h1]
          · rw [canonChar_high _ (decodeRune_multi_ge c t h1), encodeRune_decodeRune c t hnv]
        · rename_i h1
          split at h
          · rename_i h5c
            have hc : c = 0x5c := by
              by_cases h0 : c.toNat < runeSelf
              · rw [decodeRune_ascii c t h0] at h5c
                have := u8_eq_of_toNat (by omega) h5c; simpa using this
              · rcases decodeRune_high c t h0 with hh | hh
                · exact absurd hh h1
                · rw [hh] at h5c; simp [runeError] at h5c
            subst hc
            match t with
            | [] => simp [csEscape] at h
            | c1 :: t2 =>
              rw [unqStep_backslash]
              simp only [csEscape] at h
              split at h
              · cases h
              · split at h
                · rename_i he
                  injection h with hk _; subst hk
                  have hcs := canonChar_simple
                  rcases he with he | he | he | he | he | he | he <;>
                    (have := u8_eq_of_toNat (by omega) he; subst this)
                  · exact ⟨[0x22], 0x22, by simp [unqEscape], isSeq_ascii 0x22 (by decide), by simp [hcs.1], by simp⟩
                  · exact ⟨[0x5c], 0x5c, by simp [unqEscape], isSeq_ascii 0x5c (by decide), by simp [hcs.2.1], by simp⟩
                  · exact ⟨[0x08], 0x08, by simp [unqEscape], isSeq_ascii 0x08 (by decide), by simp [hcs.2.2.1], by simp⟩
                  · exact ⟨[0x0c], 0x0c, by simp [unqEscape], isSeq_ascii 0x0c (by decide), by simp [hcs.2.2.2.1], by simp⟩
                  · exact ⟨[0x0a], 0x0a, by simp [unqEscape], isSeq_ascii 0x0a (by decide), by simp [hcs.2.2.2.2.1], by simp⟩
                  · exact ⟨[0x0d], 0x0d, by simp [unqEscape], isSeq_ascii 0x0d (by decide), by simp [hcs.2.2.2.2.2.1], by simp⟩
                  · exact ⟨[0x09], 0x09, by simp [unqEscape], isSeq_ascii 0x09 (by decide), by simp [hcs.2.2.2.2.2.2], by simp⟩
                · split at h
                  · rename_i hu
                    have := u8_eq_of_toNat (by omega) hu; simp only [UInt8.ofNat] at this
                    have hc1 : c1 = 0x75 := by have := u8_eq_of_toNat (n := 0x75) (by omega) hu; simpa using this
                    subst hc1
                    match t2 with
                    | h1 :: h2 :: h3 :: h4 :: rest =>
                      obtain ⟨v1, hk, hx, hu, hcan⟩ := csEscapeU_canon v _ _ h1 h2 h3 h4 rest k h
                      subst hk
                      refine ⟨encodeRune v1, v1, by simp [unqEscape, hu], isSeq_encode_valid v1 (by simp only [maxRune]; omega) (by omega), ?_, by simp⟩
                      simp [← hcan]
                    | [] => simp [csEscapeU] at h; split at h <;> cases h
                    | [_] => simp [csEscapeU] at h; split at h <;> cases h
                    | [_, _] => simp [csEscapeU] at h; split at h <;> cases h
                    | [_, _, _] => simp [csEscapeU] at h; split at h <;> cases h
                  · cases h
          · split at h
            · repeat' split at h
              all_goals cases h
            · split at h <;> cases h

theorem csSurrogate_not_ok (v1 : Nat) (nc0 : Bool) (rest : Bytes) (off : Nat) (nc : Bool) :
    csSurrogate v1 nc0 rest ≠ .stop off .ok nc := by
  simp only [csSurrogate]; repeat' split
  all_goals simp

theorem csEscapeU_not_ok (v : Bool) (src : Bytes) (off : Nat) (nc : Bool) : csEscapeU v src ≠ .stop off .ok nc := by
  simp only [csEscapeU]; repeat' split
  all_goals first | exact csSurrogate_not_ok _ _ _ _ _ | simp

theorem csEscape_not_ok (v : Bool) (src : Bytes) (off : Nat) (nc : Bool) : csEscape v src ≠ .stop off .ok nc := by
  simp only [csEscape]; repeat' split
  all_goals first | exact csEscapeU_not_ok _ _ _ _ | simp

theorem csStep_stop_ok {v : Bool} {src : Bytes} {off : Nat} {nc : Bool} (h : csStep v src = .stop off .ok nc) :
    ∃ t, src = 0x22 :: t ∧ off = 1 := by
  match src with
  | [] => simp [csStep] at h
  | c :: t =>
    simp only [csStep] at h
    split at h
    · cases h
    · split at h
      · rename_i hq; injection h with h1 _ _; exact ⟨t, by rw [hq], h1.symm⟩
      · split at h
        · cases h
        · split at h
          · exact absurd h (csEscape_not_ok _ _ _ _)
          · repeat' split at h
            all_goals cases h

/-- Along a successful, canonical run of ConsumeString's loop the input is the RFC 8785 spelling of what
AppendUnquote's loop returns for it. -/
theorem csLoop_canon (v : Bool) (src : Bytes) (n : Nat) (nc : Bool) (e : Err)
    (h : csLoop v src n nc = (n + src.length, Err.ok, false)) :
    src = (scalars (unqLoop src e).1).flatMap canonChar ++ [0x22] ∧ (unqLoop src e).2 = e := by
  fun_induction csLoop v src n nc with
  | case1 src n nc off e' nc' hs =>
    injection h with h1 h2
    injection h2 with h2 h3
    subst h2
    obtain ⟨t, rfl, rfl⟩ := csStep_stop_ok hs
    have : t = [] := by
      simp only [List.length_cons] at h1; exact List.eq_nil_of_length_eq_zero (by omega)
    subst this
    rw [unqLoop_close]; simp [scalars]
  | case2 src n nc k nc' hs ih =>
    have hnc : (nc || nc') = false := by
      cases hb : (nc || nc')
      · rfl
      · rw [hb] at h
        have := csLoop_nc_true v (src.drop k) (n + k)
        rw [h] at this; cases this
    have hnc' : nc' = false := by cases nc <;> cases nc' <;> simp_all
    subst hnc'
    obtain ⟨o, r, hu, hseq, htake, hle⟩ := csStep_canon v src k hs
    have hlen : n + k + (src.drop k).length = n + src.length := by simp only [List.length_drop]; omega
    rw [← hlen] at h
    obtain ⟨ih1, ih2⟩ := ih h
    rw [unqLoop_cont e hu]
    simp only [Option.getD_none]
    refine ⟨?_, ih2⟩
    rw [isSeq_scalars hseq, List.flatMap_cons, ← htake, List.append_assoc, ← ih1, List.take_append_drop]

/-- ConsumeString marks a literal it accepts as canonical (no stringNonCanonical flag) exactly when the literal
is the RFC 8785 serialisation of its own meaning. -/
theorem consumeString_canonical_iff (v : Bool) (lit : Bytes)
    (h : (consumeString v lit).1 = lit.length ∧ (consumeString v lit).2.1 = Err.ok) :
    (consumeString v lit).2.2 = false ↔ lit = canonQuote (appendUnquote lit).1 := by
  constructor
  · intro hc
    match lit with
    | [] => simp [consumeString] at h
    | c :: t =>
      by_cases hq : c = 0x22
      · subst hq
        simp only [consumeString, ↓reduceIte] at h hc
        have hfull : csLoop v t 1 false = (1 + t.length, Err.ok, false) := by
          obtain ⟨h1, h2⟩ := h
          have h1' : (csLoop v t 1 false).1 = 1 + t.length := by simp only [List.length_cons] at h1; omega
          generalize csLoop v t 1 false = res at h1' h2 hc
          obtain ⟨a, b, c⟩ := res
          simp only at h1' h2 hc; subst h1' h2 hc; rfl
        obtain ⟨k1, _⟩ := csLoop_canon v t 1 false Err.ok hfull
        simp only [appendUnquote, ↓reduceIte, canonQuote]
        rw [← k1]
      · simp [consumeString, hq] at h
  · intro hl
    rw [hl, consumeString_canonQuote]

end JsonV.Lemmas.QuoteCanon
