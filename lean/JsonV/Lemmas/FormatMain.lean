/-
The two halves of C12 at the model level:
* `tokenize_render`  — rendering (any blank layout) loses nothing: the tokenizer reads back exactly the tokens;
* `tokenize_sound`   — whatever the tokenizer returns is a well-nested list of valid tokens.
-/
import JsonV.Lemmas.FormatPda

namespace JsonV.Fmt

theorem tok_bytes_pos (t : Tok) (hv : t.valid = true) : 0 < t.bytes.length := by
  obtain ⟨c, cs, h, _⟩ := tok_first_not_ws t [] hv
  rw [List.append_nil] at h
  rw [h]; simp

theorem lexF_tok (t : Tok) (r : Bytes) (n : Nat) (hv : t.valid = true) (hn : t.isNum = true → headOK r) :
    lexF (n + 1) (t.bytes ++ r) = consL (.tok t) (lexF n r) :=
  lexF_lexeme (.tok t) r n (lex1_tok t r hv hn) (tok_first_not_ws t r hv)

theorem lexF_delim (d : Delim) (r : Bytes) (n : Nat) :
    lexF (n + 1) (d.bytes ++ r) = consL (.delim d) (lexF n r) :=
  lexF_lexeme (.delim d) r n (lex1_delim d r) (delim_first_not_ws d r)

theorem delim_bytes_len (d : Delim) : d.bytes.length = 1 := by cases d <;> rfl

/-- Lexing the rendered pieces gives back the lexemes. -/
theorem lex_pieces (o : WsOpts) (ho : o.Blank) : ∀ (ts : List Tok) (st : Stack) (n : Nat),
    accepts st ts = true → (∀ t ∈ ts, t.valid = true) → (flatWs (pieces o st ts)).length < n →
    lexF n (flatWs (pieces o st ts)) = some (punct st ts) := by
  intro ts
  induction ts with
  | nil =>
    intro st n _ _ hn
    obtain ⟨m, rfl⟩ : ∃ m, n = m + 1 := ⟨n - 1, by omega⟩
    rfl
  | cons t ts ih =>
    intro st n hacc hval hn
    obtain ⟨d, st', hs, hacc'⟩ := accepts_cons hacc
    have hvt : t.valid = true := hval t (by simp)
    have hval' : ∀ x ∈ ts, x.valid = true := fun x hx => hval x (List.mem_cons_of_mem _ hx)
    have hw := allWs_wsBefore o ho st t
    have hnum : t.isNum = true → headOK (flatWs (pieces o st' ts)) := by
      intro hnum
      cases t <;> simp [Tok.isNum] at hnum
      exact head_after_value o ho ts st' (afterValue_num hs) hacc'
    have hpos := tok_bytes_pos t hvt
    simp only [pieces, punct, hs] at hn ⊢
    cases d with
    | none =>
      simp only [delimPiece, delimLex, List.nil_append, flatWs, Lex.bytes] at hn ⊢
      simp only [List.length_append] at hn
      obtain ⟨m, rfl⟩ : ∃ m, n = (m + 1) + (wsBefore o st t).length := ⟨n - (wsBefore o st t).length - 1, by omega⟩
      rw [lexF_ws _ _ _ hw, lexF_tok t _ m hvt hnum, ih st' m hacc' hval' (by omega)]
      rfl
    | some d =>
      simp only [delimPiece, delimLex, List.cons_append, List.nil_append, flatWs, Lex.bytes] at hn ⊢
      simp only [List.length_append, delim_bytes_len] at hn
      obtain ⟨m, rfl⟩ : ∃ m, n = ((m + 1) + (wsBefore o st t).length) + 1 :=
        ⟨n - (wsBefore o st t).length - 2, by omega⟩
      rw [lexF_delim d _ _, lexF_ws _ _ _ hw, lexF_tok t _ m hvt hnum, ih st' m hacc' hval' (by omega)]
      rfl

/-- **Rendering loses nothing.**  For every well-nested token list and every layout made of blanks, the
tokenizer reads the rendered text back as exactly the same tokens. -/
theorem tokenize_render' (o : WsOpts) (ho : o.Blank) (ts : List Tok) (h : WellNested ts) :
    tokenize (render o ts) = some ts := by
  unfold tokenize lex render
  rw [lex_pieces o ho ts [.top0] _ h.2 h.1 (Nat.lt_succ_self _)]
  exact unpunct_punct ts _ h.2

/-! ### soundness of the tokenizer -/

theorem mapTok_eq_some {f : Bytes → Tok} {x : Option (Bytes × Bytes)} {l : Lex} {r : Bytes} :
    mapTok f x = some (l, r) ↔ ∃ a, x = some (a, r) ∧ l = .tok (f a) := by
  cases x with
  | none => simp [mapTok]
  | some p =>
    obtain ⟨a0, r0⟩ := p
    simp only [mapTok, Option.some.injEq, Prod.mk.injEq]
    constructor
    · rintro ⟨rfl, rfl⟩; exact ⟨a0, ⟨rfl, rfl⟩, rfl⟩
    · rintro ⟨a, ⟨rfl, rfl⟩, rfl⟩; exact ⟨rfl, rfl⟩

theorem lex1_sound (b : Bytes) (l : Lex) (r : Bytes) (h : lex1 b = some (l, r)) : l.valid = true := by
  cases b with
  | nil => simp [lex1] at h
  | cons c cs =>
    simp only [lex1] at h
    split at h
    · -- number
      obtain ⟨a, hsn, rfl⟩ := mapTok_eq_some.mp h
      have := scanNum_append _ _ _ _ [] hsn headOK_nil
      simpa [Lex.valid, Tok.valid] using this
    · split at h
      · rename_i hq
        obtain ⟨a, hss, rfl⟩ := mapTok_eq_some.mp h
        have := scanStr_append _ _ _ _ [] hss
        simpa [Lex.valid, Tok.valid, hq] using this
      · repeat' split at h
        all_goals (first | (simp at h; done) | (simp only [Option.some.injEq, Prod.mk.injEq] at h; obtain ⟨rfl, rfl⟩ := h; rfl))

theorem consL_eq_some {l : Lex} {x : Option (List Lex)} {ls : List Lex} :
    consL l x = some ls ↔ ∃ ls', ls = l :: ls' ∧ x = some ls' := by
  cases x <;> simp [consL, eq_comm]

theorem lexF_sound : ∀ (n : Nat) (b : Bytes) (ls : List Lex), lexF n b = some ls → ∀ l ∈ ls, l.valid = true := by
  intro n
  induction n with
  | zero => intro b ls h; simp [lexF] at h
  | succ n ih =>
    intro b ls h
    cases b with
    | nil => simp [lexF] at h; subst h; simp
    | cons c cs =>
      rw [lexF] at h
      split at h
      · exact ih _ _ h
      · split at h
        · rename_i l r h1
          obtain ⟨ls', rfl, h'⟩ := consL_eq_some.mp h
          intro x hx
          rcases List.mem_cons.mp hx with rfl | hx
          · exact lex1_sound _ _ _ h1
          · exact ih _ _ h' x hx
        · simp at h

/-- **Whatever the tokenizer returns is well nested.** -/
theorem tokenize_sound' (b : Bytes) (ts : List Tok) (h : tokenize b = some ts) : WellNested ts := by
  unfold tokenize at h
  split at h
  · rename_i ls hl
    obtain ⟨hacc, hmem⟩ := unpunct_sound ls.length ls _ ts (Nat.le_refl _) h
    exact ⟨fun t ht => lexF_sound _ _ _ hl _ (hmem t ht), hacc⟩
  · simp at h

/-! ### the fuel of the lexer suffices -/

theorem lex1_split (b : Bytes) (l : Lex) (r : Bytes) (h : lex1 b = some (l, r)) : b = l.bytes ++ r := by
  cases b with
  | nil => simp [lex1] at h
  | cons c cs =>
    simp only [lex1] at h
    split at h
    · obtain ⟨a, hsn, rfl⟩ := mapTok_eq_some.mp h
      exact scanNum_split _ _ _ _ hsn
    · split at h
      · rename_i hq
        obtain ⟨a, hss, rfl⟩ := mapTok_eq_some.mp h
        rw [scanStr_split _ _ _ _ hss]; rfl
      · repeat' split at h
        all_goals (first | (simp at h; done) |
          (simp only [Option.some.injEq, Prod.mk.injEq] at h; obtain ⟨rfl, rfl⟩ := h; subst_vars; rfl))

theorem lex1_shorter (b : Bytes) (l : Lex) (r : Bytes) (h : lex1 b = some (l, r)) : r.length < b.length := by
  have hv := lex1_sound b l r h
  have hs := lex1_split b l r h
  have : 0 < l.bytes.length := by
    cases l with
    | tok t => exact tok_bytes_pos t hv
    | delim d => simp [Lex.bytes, delim_bytes_len]
  rw [hs, List.length_append]; omega

/-- Any fuel above the length of the text gives the same answer: `lex` never runs out of fuel. -/
theorem lexF_fuel : ∀ (n m : Nat) (b : Bytes), b.length < n → b.length < m → lexF n b = lexF m b := by
  intro n
  induction n with
  | zero => intro m b h; omega
  | succ n ih =>
    intro m b hn hm
    obtain ⟨j, rfl⟩ : ∃ j, m = j + 1 := ⟨m - 1, by omega⟩
    cases b with
    | nil => rfl
    | cons c cs =>
      simp only [List.length_cons] at hn hm
      rw [lexF, lexF]
      split
      · exact ih j cs (by omega) (by omega)
      · split
        · rename_i l r h1
          have := lex1_shorter _ _ _ h1
          simp only [List.length_cons] at this
          rw [ih j r (by omega) (by omega)]
        · rfl

end JsonV.Fmt
