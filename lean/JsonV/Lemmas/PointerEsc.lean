/-
Lemmas for C16, part 1: escaping.  `replace2` (strings.ReplaceAll with a two-byte pattern),
bytes of `utf8.AppendRune`, `unescape ∘ escapeTok = id`, `escape = escapeTok ∘ sanitize`.
-/
import JsonV.Model.Pointer
import JsonV.Spec.PointerSpec

namespace JsonV.Lemmas.Pointer
open JsonV JsonV.Model JsonV.Model.Pointer JsonV.Spec.Pointer

/-! ### bytes produced by `utf8.AppendRune` -/

def sanRune (r : Nat) : Nat := if r > Utf8.maxRune ∨ (0xD800 ≤ r ∧ r ≤ 0xDFFF) then Utf8.runeError else r
def encodeCore (r : Nat) : Bytes :=
  if r < 0x80 then [UInt8.ofNat r]
  else if r < 0x800 then [UInt8.ofNat (0xC0 + r / 64), UInt8.ofNat (0x80 + r % 64)]
  else if r < 0x10000 then
    [UInt8.ofNat (0xE0 + r / 4096), UInt8.ofNat (0x80 + (r / 64) % 64), UInt8.ofNat (0x80 + r % 64)]
  else
    [UInt8.ofNat (0xF0 + r / 262144), UInt8.ofNat (0x80 + (r / 4096) % 64),
     UInt8.ofNat (0x80 + (r / 64) % 64), UInt8.ofNat (0x80 + r % 64)]

theorem encodeRune_eq (r : Nat) : Utf8.encodeRune r = encodeCore (sanRune r) := rfl

theorem sanRune_le (r : Nat) : sanRune r ≤ 0x10FFFF := by
  unfold sanRune Utf8.maxRune Utf8.runeError; split <;> omega

theorem ofNat_toNat_lt (n : Nat) (h : n < 256) : (UInt8.ofNat n).toNat = n := by
  simp [UInt8.toNat_ofNat']; omega

theorem encodeCore_ne (r : Nat) (hr' : r ≤ 0x10FFFF) (c : UInt8) (hc : c.toNat < 0x80) (hr : r ≠ c.toNat) :
    ∀ b ∈ encodeCore r, b ≠ c := by
  intro b hb hbc
  subst hbc
  have key : ∀ n : Nat, n < 256 → b = UInt8.ofNat n → b.toNat = n := by
    intro n hn h; subst h; exact ofNat_toNat_lt n hn
  unfold encodeCore at hb
  split at hb
  · simp only [List.mem_cons, List.not_mem_nil, or_false] at hb; have := key _ (by omega) hb; omega
  · split at hb
    · simp only [List.mem_cons, List.not_mem_nil, or_false] at hb; rcases hb with h | h <;> (have := key _ (by omega) h; omega)
    · split at hb
      · simp only [List.mem_cons, List.not_mem_nil, or_false] at hb; rcases hb with h | h | h <;> (have := key _ (by omega) h; omega)
      · simp only [List.mem_cons, List.not_mem_nil, or_false] at hb; rcases hb with h | h | h | h <;> (have := key _ (by omega) h; omega)

/-- A rune other than the ASCII character `c` is encoded without the byte `c`. -/
theorem encodeRune_ne (r : Nat) (c : UInt8) (hc : c.toNat < 0x80) (hr : r ≠ c.toNat) :
    ∀ b ∈ Utf8.encodeRune r, b ≠ c := by
  rw [encodeRune_eq]
  apply encodeCore_ne _ (sanRune_le r) c hc
  unfold sanRune Utf8.maxRune Utf8.runeError; split <;> omega

/-! ### `replace2` -/

theorem replace2_cons_ne {x y z a : UInt8} (l : Bytes) (h : a ≠ x) :
    replace2 x y z (a :: l) = a :: replace2 x y z l := by
  cases l with
  | nil => simp [replace2]
  | cons b rest => simp [replace2, h]

theorem replace2_append_notin (x y z : UInt8) (l X : Bytes) (h : ∀ b ∈ l, b ≠ x) :
    replace2 x y z (l ++ X) = l ++ replace2 x y z X := by
  induction l with
  | nil => rfl
  | cons a l ih =>
    rw [List.cons_append, replace2_cons_ne _ (h a (by simp)), ih (fun b hb => h b (by simp [hb]))]
    rfl

theorem replace2_notin (x y z : UInt8) (l : Bytes) (h : ∀ b ∈ l, b ≠ x) : replace2 x y z l = l := by
  have := replace2_append_notin x y z l [] h
  simpa [replace2] using this

theorem replace2_match (x y z : UInt8) (X : Bytes) : replace2 x y z (x :: y :: X) = z :: replace2 x y z X := by
  simp [replace2]

theorem replace2_nomatch (x y z b : UInt8) (X : Bytes) (h : b ≠ y) :
    replace2 x y z (x :: b :: X) = x :: replace2 x y z (b :: X) := by
  simp [replace2, h]

/-! ### unescape ∘ escapeTok -/

def pass1 (t : Bytes) : Bytes := replace2 cTilde c1 cSlash t
def pass2 (t : Bytes) : Bytes := replace2 cTilde c0 cTilde t

/-- The `strings.Contains(token, "~")` test is only a shortcut. -/
theorem unescape_eq (t : Bytes) : unescape t = pass2 (pass1 t) := by
  unfold unescape
  split
  · rfl
  · rename_i h
    have hn : ∀ b ∈ t, b ≠ cTilde := by
      intro b hb hbc; subst hbc; exact h (by simpa using hb)
    unfold pass1 pass2
    rw [replace2_notin _ _ _ t hn, replace2_notin _ _ _ t hn]

/-- The text after the first pass over an escaped token. -/
def midTok : Bytes → Bytes
  | [] => []
  | b :: rest => if b = 0x7e then 0x7e :: 0x30 :: midTok rest else b :: midTok rest

theorem pass1_escapeTok (t : Bytes) : pass1 (escapeTok t) = midTok t := by
  induction t with
  | nil => rfl
  | cons b rest ih =>
    unfold pass1 at *
    simp only [escapeTok, midTok]
    split
    · rw [show (0x7e : UInt8) = cTilde from rfl, replace2_nomatch _ _ _ _ _ (by decide),
        replace2_cons_ne _ (by decide), ih]
    · split
      · rename_i h2; subst h2
        rw [show (0x7e : UInt8) = cTilde from rfl, show (0x31 : UInt8) = c1 from rfl, replace2_match, ih]; rfl
      · rename_i h1 h2
        rw [replace2_cons_ne _ (by simpa [cTilde] using h1), ih]

theorem pass2_midTok (t : Bytes) : pass2 (midTok t) = t := by
  induction t with
  | nil => rfl
  | cons b rest ih =>
    unfold pass2 at *
    simp only [midTok]
    split
    · rename_i h; subst h
      rw [show (0x7e : UInt8) = cTilde from rfl, show (0x30 : UInt8) = c0 from rfl, replace2_match, ih]
    · rename_i h1
      rw [replace2_cons_ne _ (by simpa [cTilde] using h1), ih]

/-- RFC 6901 unescaping inverts RFC 6901 escaping, for every byte string. -/
theorem unescape_escapeTok (t : Bytes) : unescape (escapeTok t) = t := by
  rw [unescape_eq, pass1_escapeTok, pass2_midTok]

theorem escapeTok_no_slash (t : Bytes) : ∀ b ∈ escapeTok t, b ≠ cSlash := by
  induction t with
  | nil => simp [escapeTok]
  | cons a rest ih =>
    intro b hb
    simp only [escapeTok] at hb
    split at hb
    · simp only [List.mem_cons] at hb
      rcases hb with h | h | h
      · subst h; decide
      · subst h; decide
      · exact ih b h
    · split at hb
      · simp only [List.mem_cons] at hb
        rcases hb with h | h | h
        · subst h; decide
        · subst h; decide
        · exact ih b h
      · rename_i h1 h2
        simp only [List.mem_cons] at hb
        rcases hb with h | h
        · subst h; simpa [cSlash] using h2
        · exact ih b h

theorem escapeTok_append (a b : Bytes) : escapeTok (a ++ b) = escapeTok a ++ escapeTok b := by
  induction a with
  | nil => rfl
  | cons x rest ih =>
    simp only [List.cons_append, escapeTok, ih]
    by_cases h1 : x = 126 <;> by_cases h2 : x = 47 <;> simp [h1, h2]

theorem escapeTok_id (a : Bytes) (h1 : ∀ b ∈ a, b ≠ cTilde) (h2 : ∀ b ∈ a, b ≠ cSlash) : escapeTok a = a := by
  induction a with
  | nil => rfl
  | cons x rest ih =>
    have hx1 : x ≠ 0x7e := h1 x (by simp)
    have hx2 : x ≠ 0x2f := h2 x (by simp)
    simp only [escapeTok, hx1, hx2, if_false]
    rw [ih (fun b hb => h1 b (by simp [hb])) (fun b hb => h2 b (by simp [hb]))]

/-- What `appendEscapePointerName` writes for one rune is the escaped form of the rune's UTF-8 encoding. -/
theorem escRune_eq (r : Nat) : escRune r = escapeTok (Utf8.encodeRune r) := by
  unfold escRune
  split
  · rename_i h; subst h; decide
  · split
    · rename_i h; subst h; decide
    · rename_i h1 h2
      rw [escapeTok_id]
      · exact encodeRune_ne r cTilde (by decide) (by simpa [cTilde] using h1)
      · exact encodeRune_ne r cSlash (by decide) (by simpa [cSlash] using h2)

theorem escapeTok_flatMap (rs : List Nat) :
    rs.flatMap escRune = escapeTok (rs.flatMap Utf8.encodeRune) := by
  induction rs with
  | nil => rfl
  | cons r rest ih => simp only [List.flatMap_cons, escapeTok_append, ih, escRune_eq]

/-- `appendEscapePointerName` = RFC 6901 escaping of the name as Go's `range` sees it. -/
theorem escape_eq (t : Bytes) : escape t = escapeTok (sanitize t) := by
  unfold escape appendEscapePointerName sanitize
  rw [List.nil_append, escapeTok_flatMap]

theorem appendEscape_eq (b t : Bytes) : appendEscapePointerName b t = b ++ escapeTok (sanitize t) := by
  unfold appendEscapePointerName sanitize
  rw [escapeTok_flatMap]

end JsonV.Lemmas.Pointer
