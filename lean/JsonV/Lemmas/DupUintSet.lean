/-
Lemmas about the `uintSet` model (C08): the 64-bit words as bit tests, `has` as an abstract bit function,
`insert` as "set that bit, report whether it was clear".
-/
import JsonV.Model.UintSet

namespace JsonV.Lemmas.Dup
open JsonV.Model

/-- `s&(1<<i) > 0` is the test of bit `i` (false for `i ≥ 64`, where Go's shift yields 0). -/
theorem has64_eq (s : BitVec 64) (i : Nat) : UintSet64.has s i = s.getLsbD i := by
  unfold UintSet64.has
  rw [← BitVec.twoPow_eq, BitVec.and_twoPow]
  by_cases h : s.getLsbD i
  · have hi : i < 64 := by
      rcases Nat.lt_or_ge i 64 with h' | h'
      · exact h'
      · rw [BitVec.getLsbD_of_ge _ _ h'] at h; cases h
    simp [h, BitVec.ult, BitVec.toNat_twoPow]
    have : 2 ^ i < 2 ^ 64 := Nat.pow_lt_pow_right (by omega) hi
    rw [Nat.mod_eq_of_lt this]; exact Nat.pow_pos (by omega)
  · simp [h, BitVec.ult]

/-- `*s |= 1 << i` sets bit `i` (nothing for `i ≥ 64`) and keeps the others. -/
theorem getLsbD_set64 (s : BitVec 64) (i j : Nat) :
    (UintSet64.set s i).getLsbD j = (s.getLsbD j || (decide (i < 64) && decide (i = j))) := by
  unfold UintSet64.set
  rw [← BitVec.twoPow_eq, BitVec.getLsbD_or, BitVec.getLsbD_twoPow]

/-- The abstraction: which naturals are in the set. -/
def bit (s : UintSet) (i : Nat) : Bool :=
  if i < 64 then s.lo.getLsbD i else (s.hi.getD ((i - 64) / 64) 0#64).getLsbD ((i - 64) % 64)

theorem getD_zero_of_ge (l : List (BitVec 64)) (k : Nat) (h : l.length ≤ k) : l.getD k 0#64 = 0#64 := by
  simp [List.getD_eq_getElem?_getD, List.getElem?_eq_none h]

theorem has_eq_bit (s : UintSet) (i : Nat) : s.has i = bit s i := by
  unfold UintSet.has bit UintSet.wordBits
  split
  · exact has64_eq _ _
  · simp only [has64_eq]
    by_cases h : (i - 64) / 64 < s.hi.length
    · simp [h]
    · rw [getD_zero_of_ge _ _ (Nat.le_of_not_lt h)]; simp [h]

/-- Growing `hi` by zero words changes no word (as read with default 0). -/
theorem getD_grow (hi : List (BitVec 64)) (k n : Nat) : (UintSet.grow hi k).getD n 0#64 = hi.getD n 0#64 := by
  unfold UintSet.grow
  split
  · simp only [List.getD_eq_getElem?_getD, List.getElem?_append]
    split
    · rfl
    · rename_i h
      have h' : hi.length ≤ n := Nat.le_of_not_lt h
      rw [List.getElem?_eq_none h']
      simp only [List.getElem?_replicate]
      split <;> rfl
  · rfl

theorem length_grow (hi : List (BitVec 64)) (k : Nat) : k < (UintSet.grow hi k).length := by
  unfold UintSet.grow
  split
  · simp; omega
  · omega

theorem getD_set (l : List (BitVec 64)) (k n : Nat) (w : BitVec 64) (hk : k < l.length) :
    (l.set k w).getD n 0#64 = if n = k then w else l.getD n 0#64 := by
  simp only [List.getD_eq_getElem?_getD, List.getElem?_set]
  by_cases h : k = n
  · subst h; simp [hk]
  · have : ¬ n = k := fun e => h e.symm
    simp [h, this]

/-- `insert` reports whether the bit was clear. -/
theorem insert_snd (s : UintSet) (i : Nat) : (s.insert i).2 = !bit s i := by
  unfold UintSet.insert bit UintSet.wordBits
  split
  · simp [has64_eq]
  · simp only [has64_eq, getD_grow]

/-- `insert` sets bit `i` and no other. -/
theorem bit_insert (s : UintSet) (i j : Nat) : bit (s.insert i).1 j = (decide (j = i) || bit s j) := by
  unfold UintSet.insert UintSet.wordBits
  by_cases hi : i < 64
  · simp only [hi, if_true]
    unfold bit
    by_cases hj : j < 64
    · simp only [hj, if_true, getLsbD_set64]
      by_cases e : i = j
      · subst e; simp [hi]
      · have : ¬ j = i := fun x => e x.symm
        simp [e, this]
    · have : ¬ j = i := by omega
      simp [hj, this]
  · simp only [hi, if_false]
    unfold bit
    by_cases hj : j < 64
    · have : ¬ j = i := by omega
      simp [hj, this]
    · simp only [hj, if_false]
      rw [getD_set _ _ _ _ (length_grow _ _)]
      by_cases e : (j - 64) / 64 = (i - 64) / 64
      · simp only [e, if_true, getLsbD_set64, getD_grow]
        by_cases e2 : (i - 64) % 64 = (j - 64) % 64
        · have : j = i := by omega
          subst this; simp; omega
        · have : ¬ j = i := by intro x; subst x; exact e2 rfl
          simp [e2, this]
      · have : ¬ j = i := by intro x; subst x; exact e rfl
        simp only [e, if_false, getD_grow]; simp [this]

theorem bit_empty (i : Nat) : bit UintSet.empty i = false := by
  unfold bit UintSet.empty
  split <;> simp

/-- After a sequence of inserts from any set: membership, and the result of every insert. -/
theorem insertAll_spec (is : List Nat) : ∀ (s : UintSet),
    (∀ j, bit (s.insertAll is).1 j = (decide (j ∈ is) || bit s j)) ∧
    (s.insertAll is).2.length = is.length ∧
    (∀ k (hk : k < is.length), (s.insertAll is).2[k]? = some (!(bit s is[k] || decide (is[k] ∈ is.take k)))) := by
  induction is with
  | nil => intro s; simp [UintSet.insertAll]
  | cons i is ih =>
    intro s
    obtain ⟨ih1, ih2, ih3⟩ := ih (s.insert i).1
    refine ⟨?_, ?_, ?_⟩
    · intro j
      simp only [UintSet.insertAll, ih1, bit_insert, List.mem_cons]
      by_cases e : j = i <;> simp [e]
    · simp [UintSet.insertAll, ih2]
    · intro k hk
      cases k with
      | zero => simp [UintSet.insertAll, insert_snd]
      | succ k =>
        have hk' : k < is.length := by simpa using hk
        simp only [UintSet.insertAll, List.getElem?_cons_succ, ih3 k hk', bit_insert, List.getElem_cons_succ,
          List.take_succ_cons, List.mem_cons]
        by_cases e : is[k] = i <;> simp [e, Bool.or_comm]

end JsonV.Lemmas.Dup
