/-
Helper lemmas for C02, part 4: facts about `Model/State` used by the one-value argument.
-/
import JsonV.Model.State

namespace JsonV.Lemmas.EncInvState
open JsonV JsonV.Model

theorem push_pop_array (k : Nat) (m m1 m2 : Machine) (e : Entry)
    (h1 : m.pushArray k = .ok m1) (h2 : Machine.popArray { stack := m1.stack, last := e } = .ok m2) :
    m2.stack = m.stack ∧ m2.last = m.last.increment := by
  unfold Machine.pushArray at h1
  split at h1; · simp at h1
  split at h1; · simp at h1
  split at h1; · simp at h1
  injection h1 with h1; subst h1
  unfold Machine.popArray at h2
  split at h2; · simp at h2
  split at h2; · simp at h2
  simp at h2
  subst h2; simp

theorem push_pop_object (k : Nat) (m m1 m2 : Machine) (e : Entry)
    (h1 : m.pushObject k = .ok m1) (h2 : Machine.popObject { stack := m1.stack, last := e } = .ok m2) :
    m2.stack = m.stack ∧ m2.last = m.last.increment := by
  unfold Machine.pushObject at h1
  split at h1; · simp at h1
  split at h1; · simp at h1
  split at h1; · simp at h1
  injection h1 with h1; subst h1
  unfold Machine.popObject at h2
  split at h2; · simp at h2
  split at h2; · simp at h2
  split at h2; · simp at h2
  simp at h2
  subst h2; simp

theorem scalar_step (m m' : Machine) (h : m.appendLiteral = .ok m' ∨ m.appendString = .ok m' ∨ m.appendNumber = .ok m') :
    m'.stack = m.stack ∧ m'.last = m.last.increment := by
  rcases h with h | h | h
  · unfold Machine.appendLiteral at h; split at h; · simp at h
    split at h; · simp at h
    injection h with h; subst h; simp
  · unfold Machine.appendString at h; split at h; · simp at h
    injection h with h; subst h; simp
  · unfold Machine.appendNumber Machine.appendLiteral at h; split at h; · simp at h
    split at h; · simp at h
    injection h with h; subst h; simp

end JsonV.Lemmas.EncInvState
