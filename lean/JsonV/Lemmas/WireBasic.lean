/-
Lemmas about the whitespace and literal scanners of Model/WireDecode.lean.
-/
import JsonV.Model.WireDecode
import JsonV.Spec.Grammar

namespace JsonV.Lemmas.WireBasic
open JsonV JsonV.Model.Wire JsonV.Spec.Grammar

theorem lenLt_iff (r : Bytes) (k : Nat) : lenLt r k = true ↔ r.length < k := by
  induction r generalizing k with
  | nil => cases k <;> simp [lenLt]
  | cons c r ih => cases k with
    | zero => simp [lenLt]
    | succ k => simp [lenLt, ih]

theorem isWs_iff (c : UInt8) : isWs c = true ↔ WsByte c := by
  simp only [isWs, WsByte, Bool.or_eq_true, beq_iff_eq]
  constructor
  · rintro (((h | h) | h) | h) <;> simp [h]
  · rintro (h | h | h | h) <;> simp [h]

theorem ws_le (b : Bytes) : consumeWhitespace b ≤ b.length := by
  induction b with
  | nil => simp [consumeWhitespace]
  | cons c r ih => simp only [consumeWhitespace]; split <;> simp <;> omega

theorem ws_take (b : Bytes) : JWs (b.take (consumeWhitespace b)) := by
  induction b with
  | nil => simp [consumeWhitespace, JWs]
  | cons c r ih =>
    simp only [consumeWhitespace]
    split
    · rename_i h
      intro x hx
      simp only [List.take_succ_cons, List.mem_cons] at hx
      rcases hx with rfl | hx
      · exact (isWs_iff _).1 h
      · exact ih x hx
    · simp [JWs]

theorem ws_stop (b : Bytes) (c : UInt8) (r : Bytes) (h : b.drop (consumeWhitespace b) = c :: r) : ¬ WsByte c := by
  induction b with
  | nil => simp [consumeWhitespace] at h
  | cons d t ih =>
    simp only [consumeWhitespace] at h
    split at h
    · simp only [List.drop_succ_cons] at h; exact ih h
    · rename_i hd
      simp only [List.drop_zero, List.cons.injEq] at h
      rw [← h.1, ← isWs_iff]; exact hd

/-- any other cut with the same two properties is the same cut -/
theorem ws_unique (b : Bytes) (m : Nat) (hm : m ≤ b.length) (hw : JWs (b.take m))
    (hs : ∀ c r, b.drop m = c :: r → ¬ WsByte c) : m = consumeWhitespace b := by
  induction b generalizing m with
  | nil => simp at hm; simp [hm, consumeWhitespace]
  | cons d t ih =>
    simp only [consumeWhitespace]
    cases m with
    | zero =>
      have := hs d t (by simp)
      rw [← isWs_iff] at this
      simp [this]
    | succ m =>
      have hd : isWs d = true := (isWs_iff d).2 (hw d (by simp))
      simp only [hd, if_true, Nat.add_right_cancel_iff]
      apply ih m (by simpa using hm)
      · intro x hx; exact hw x (by simp [hx])
      · intro c r h; exact hs c r (by simpa using h)

/-! ### literals -/

theorem literal_ok_iff (b lit : Bytes) (n : Nat) :
    consumeLiteral b lit = (n, .ok) ↔ n = lit.length ∧ lit <+: b := by
  induction lit generalizing b n with
  | nil => simp [consumeLiteral, eq_comm]
  | cons l lit ih =>
    cases b with
    | nil => simp [consumeLiteral]
    | cons c b =>
      simp only [consumeLiteral]
      by_cases h : c = l
      · subst h
        simp only [bne_self_eq_false, Bool.false_eq_true, if_false, List.length_cons]
        rcases hcl : consumeLiteral b lit with ⟨m, e⟩
        simp only [Prod.mk.injEq]
        constructor
        · rintro ⟨rfl, rfl⟩
          have := (ih b m).1 hcl
          exact ⟨by omega, by simpa [List.cons_prefix_cons] using this.2⟩
        · rintro ⟨hn, hp⟩
          have hp' : lit <+: b := by simpa [List.cons_prefix_cons] using hp
          have := (ih b lit.length).2 ⟨rfl, hp'⟩
          rw [hcl] at this
          simp only [Prod.mk.injEq] at this
          exact ⟨by omega, this.2⟩
      · have : (c != l) = true := by simp [h]
        simp only [this, if_true, Prod.mk.injEq]
        constructor
        · intro h'; exact absurd h'.2 (by decide)
        · rintro ⟨_, hp⟩
          simp [List.cons_prefix_cons] at hp
          exact absurd hp.1.symm h

/-- io.ErrUnexpectedEOF ⇔ the input is a proper prefix of the literal; everything was consumed. -/
theorem literal_eof_iff (b lit : Bytes) (n : Nat) :
    consumeLiteral b lit = (n, .eof) ↔ n = b.length ∧ b <+: lit ∧ b ≠ lit := by
  induction lit generalizing b n with
  | nil => simp [consumeLiteral]
  | cons l lit ih =>
    cases b with
    | nil => simp [consumeLiteral, eq_comm]
    | cons c b =>
      simp only [consumeLiteral]
      by_cases h : c = l
      · subst h
        simp only [bne_self_eq_false, Bool.false_eq_true, if_false, List.length_cons]
        rcases hcl : consumeLiteral b lit with ⟨m, e⟩
        simp only [Prod.mk.injEq, List.cons_prefix_cons, true_and, ne_eq, List.cons.injEq]
        constructor
        · rintro ⟨rfl, rfl⟩
          have := (ih b m).1 hcl
          exact ⟨by omega, this.2.1, this.2.2⟩
        · rintro ⟨hn, hp, hne⟩
          have := (ih b b.length).2 ⟨rfl, hp, hne⟩
          rw [hcl] at this
          simp only [Prod.mk.injEq] at this
          exact ⟨by omega, this.2⟩
      · have : (c != l) = true := by simp [h]
        simp only [this, if_true, Prod.mk.injEq]
        constructor
        · intro h'; exact absurd h'.2 (by decide)
        · rintro ⟨_, hp, _⟩
          simp [List.cons_prefix_cons, h] at hp

/-- The only other outcome: an invalid character at the first position where input and literal differ. -/
theorem literal_invalid_iff (b lit : Bytes) (n : Nat) :
    consumeLiteral b lit = (n, .invalidChar) ↔
      n < b.length ∧ n < lit.length ∧ b.take n = lit.take n ∧ b[n]? ≠ lit[n]? := by
  induction lit generalizing b n with
  | nil => simp [consumeLiteral]
  | cons l lit ih =>
    cases b with
    | nil => simp [consumeLiteral]
    | cons c b =>
      simp only [consumeLiteral]
      by_cases h : c = l
      · subst h
        simp only [bne_self_eq_false, Bool.false_eq_true, if_false, List.length_cons]
        rcases hcl : consumeLiteral b lit with ⟨m, e⟩
        simp only [Prod.mk.injEq]
        constructor
        · rintro ⟨rfl, rfl⟩
          have := (ih b m).1 hcl
          refine ⟨by omega, by omega, by simp [this.2.2.1], by simpa using this.2.2.2⟩
        · rintro ⟨h1, h2, h3, h4⟩
          cases n with
          | zero => simp at h4
          | succ n =>
            have := (ih b n).2 ⟨by omega, by omega, by simpa using h3, by simpa using h4⟩
            rw [hcl] at this
            simp only [Prod.mk.injEq] at this
            exact ⟨by omega, this.2⟩
      · have : (c != l) = true := by simp [h]
        simp only [this, if_true, Prod.mk.injEq, and_true]
        constructor
        · rintro rfl; simp [h]
        · rintro ⟨_, _, h3, _⟩
          cases n with
          | zero => rfl
          | succ n => simp [h] at h3

theorem literal_class (b lit : Bytes) :
    (consumeLiteral b lit).2 = .ok ∨ (consumeLiteral b lit).2 = .eof ∨ (consumeLiteral b lit).2 = .invalidChar := by
  induction lit generalizing b with
  | nil => simp [consumeLiteral]
  | cons l lit ih =>
    cases b with
    | nil => simp [consumeLiteral]
    | cons c b =>
      simp only [consumeLiteral]
      split
      · simp
      · exact ih b

/-- the inlinable `ConsumeNull/False/True` -/
theorem exact_iff (lit b : Bytes) (hl : lit ≠ []) : consumeExact lit b ≠ 0 ↔ lit <+: b := by
  unfold consumeExact
  have hlen : lit.length ≠ 0 := by simpa using hl
  constructor
  · intro h
    split at h
    · rename_i h'
      have : b.take lit.length = lit := by simpa using h'
      rw [← this]; exact List.take_prefix _ _
    · exact absurd rfl h
  · intro h
    have : b.take lit.length = lit := List.prefix_iff_eq_take.1 h |>.symm
    simp [this, hlen]

theorem exact_val (lit b : Bytes) : consumeExact lit b = 0 ∨ consumeExact lit b = lit.length := by
  unfold consumeExact; split <;> simp

end JsonV.Lemmas.WireBasic
