/-
Arithmetic view of `Model.Entry` (the packed 64-bit `stateEntry`): every predicate and
update of jsontext/state.go:456-530 expressed on `e.toNat`, so that the refinement proofs
(Lemmas/StateRefine.lean) are `omega` exercises.  Core Lean only.
-/
import JsonV.Model.State
import JsonV.Gen.Straight

namespace JsonV.Lemmas.StateEntry
open JsonV.Model

theorem and_pow2 (x i : Nat) : x &&& 2^i = if x / 2^i % 2 = 1 then 2^i else 0 := by
  apply Nat.eq_of_testBit_eq; intro j
  rw [Nat.testBit_and, Nat.testBit_two_pow]
  by_cases hj : i = j
  · subst hj
    by_cases hb : x / 2^i % 2 = 1
    · simp [hb, Nat.testBit_eq_decide_div_mod_eq, Nat.div_self (Nat.two_pow_pos i)]
    · simp [hb, Nat.testBit_eq_decide_div_mod_eq]
  · by_cases hb : x / 2^i % 2 = 1
    · simp [hb, hj]
    · simp [hb, hj]

theorem beq_iff_toNat {a b : BitVec 64} : (a == b) = decide (a.toNat = b.toNat) := by
  by_cases h : a = b
  · subst h; simp
  · have : a.toNat ≠ b.toNat := fun h' => h (BitVec.toNat_eq.mpr h')
    simp [h, this]

theorem lt64 (e : Entry) : e.toNat < 2^64 := e.isLt

theorem length_eq (e : Entry) : e.length = e.toNat % 2^61 := by
  simp only [Entry.length, Entry.countMask, BitVec.toNat_and]
  exact Nat.and_two_pow_sub_one_eq_mod e.toNat 61

theorem and_type (e : Entry) : (e &&& Entry.typeMask).toNat = if 2^63 ≤ e.toNat then 2^63 else 0 := by
  have h := lt64 e
  have := and_pow2 e.toNat 63
  simp only [Entry.typeMask, BitVec.toNat_and]
  show e.toNat &&& 2^63 = _
  rw [this]
  split <;> split <;> omega

theorem isObject_eq (e : Entry) : e.isObject = decide (2^63 ≤ e.toNat) := by
  simp only [Entry.isObject, beq_iff_toNat, and_type]
  show decide ((if 2^63 ≤ e.toNat then 2^63 else 0) = 2^63) = _
  split <;> simp_all

theorem isArray_eq (e : Entry) : e.isArray = decide (e.toNat < 2^63) := by
  simp only [Entry.isArray, beq_iff_toNat, and_type]
  show decide ((if 2^63 ≤ e.toNat then 2^63 else 0) = 0) = _
  split
  · simp; omega
  · simp; omega

theorem and_typeLSB (e : Entry) :
    (e &&& (Entry.typeMask ||| Entry.countLSBMask)).toNat =
      (if 2^63 ≤ e.toNat then 2^63 else 0) + e.toNat % 2 := by
  have h := lt64 e
  simp only [BitVec.toNat_and, BitVec.toNat_or]
  show e.toNat &&& (2^63 ||| 1) = _
  rw [Nat.and_or_distrib_left, Nat.and_one_is_mod, and_pow2]
  have h2 : e.toNat % 2 = 0 ∨ e.toNat % 2 = 1 := by omega
  rcases h2 with h2 | h2 <;> rw [h2] <;> split <;> split <;> first | rfl | omega

theorem needObjectName_eq (e : Entry) :
    e.needObjectName = (decide (2^63 ≤ e.toNat) && decide (e.toNat % 2 = 0)) := by
  simp only [Entry.needObjectName, beq_iff_toNat, and_typeLSB]
  show decide (_ = 2^63) = _
  by_cases h : 2^63 ≤ e.toNat <;> simp [h] <;> omega

theorem needObjectValue_eq (e : Entry) :
    e.needObjectValue = (decide (2^63 ≤ e.toNat) && decide (e.toNat % 2 = 1)) := by
  simp only [Entry.needObjectValue, beq_iff_toNat, and_typeLSB]
  show decide (_ = (2^63 ||| 1)) = _
  have : (2^63 ||| 1 : Nat) = 2^63 + 1 := by decide
  rw [this]
  by_cases h : 2^63 ≤ e.toNat <;> simp [h] <;> omega

theorem isValidNamespace_eq (e : Entry) : e.isValidNamespace = decide (e.toNat / 2^61 % 2 = 0) := by
  simp only [Entry.isValidNamespace, Entry.invalidNamespaceBit, beq_iff_toNat, BitVec.toNat_and]
  show decide (e.toNat &&& 2^61 = 0) = _
  rw [and_pow2]
  split <;> simp <;> omega

theorem isActiveNamespace_eq (e : Entry) : e.isActiveNamespace = decide (e.toNat / 2^62 % 2 = 0) := by
  simp only [Entry.isActiveNamespace, Entry.disableNamespaceBit, beq_iff_toNat, BitVec.toNat_and]
  show decide (e.toNat &&& 2^62 = 0) = _
  rw [and_pow2]
  split <;> simp <;> omega

theorem increment_toNat (e : Entry) : e.increment.toNat = (e.toNat + 1) % 2^64 := by
  simp [Entry.increment, BitVec.toNat_add]

theorem typeObject_toNat : Entry.typeObject.toNat = 2^63 := rfl
theorem typeArray_toNat : Entry.typeArray.toNat = 0 := rfl


/-! ### Tie A helper: the regenerated `needImplicitComma` (signed comparison on `int64(Length)`) -/

theorem slt_len (e : BitVec 64) : BitVec.slt 0#64 (e &&& 0x1fffffffffffffff#64) =
    decide ((e &&& 0x1fffffffffffffff#64).toNat > 0) := by
  have h : (e &&& 0x1fffffffffffffff#64).toNat < 2^61 := by
    rw [BitVec.toNat_and]
    exact Nat.lt_of_le_of_lt Nat.and_le_right (by decide)
  rw [BitVec.slt, decide_eq_decide, BitVec.toInt_eq_toNat_cond, BitVec.toInt_eq_toNat_cond]
  simp only [BitVec.toNat_ofNat]
  omega

theorem ne_u8 (a b : BitVec 8) : (a != b) = (UInt8.ofBitVec a != UInt8.ofBitVec b) := by
  by_cases h : a = b
  · subst h; simp
  · have : UInt8.ofBitVec a ≠ UInt8.ofBitVec b := fun h' => h (by injection h')
    rw [bne_iff_ne.mpr h, bne_iff_ne.mpr this]

theorem tie_comma (e : BitVec 64) (next : UInt8) :
    JsonV.Gen.jsontext_stateEntry_needImplicitComma e next.toBitVec = Entry.needImplicitComma e next := by
  simp only [JsonV.Gen.jsontext_stateEntry_needImplicitComma, Entry.needImplicitComma,
    JsonV.Gen.jsontext_stateEntry_Length, slt_len, ne_u8 next.toBitVec]
  rfl

end JsonV.Lemmas.StateEntry
