/-
Lemmas about the `objectNamespace` model (C08): a well-formedness invariant that ties the map representation to
the list of names, preserved by `insert` (in both modes and across the switch) and by `removeLast`;
under it `insert` is "append unless present" and the representation is unobservable.
-/
import JsonV.Model.Namespace

namespace JsonV.Lemmas.Dup
open JsonV JsonV.Model JsonV.Model.Namespace

theorem mem_setInsert (m : List Bytes) (x y : Bytes) : y ∈ setInsert m x ↔ y = x ∨ y ∈ m := by
  unfold setInsert
  split
  · rename_i h
    have hx : x ∈ m := List.contains_iff_mem.mp h
    constructor
    · intro hy; exact Or.inr hy
    · rintro (rfl | hy)
      · exact hx
      · exact hy
  · simp

theorem mem_foldl_setInsert (l : List Bytes) : ∀ (acc : List Bytes) (y : Bytes),
    y ∈ l.foldl setInsert acc ↔ y ∈ l ∨ y ∈ acc := by
  induction l with
  | nil => intro acc y; simp
  | cons a l ih =>
    intro acc y
    simp only [List.foldl_cons, ih, mem_setInsert, List.mem_cons]
    constructor
    · rintro (h | rfl | h)
      · exact Or.inl (Or.inr h)
      · exact Or.inl (Or.inl rfl)
      · exact Or.inr h
    · rintro ((rfl | h) | h)
      · exact Or.inr (Or.inl rfl)
      · exact Or.inl h
      · exact Or.inr (Or.inr h)

theorem mem_setDelete (m : List Bytes) (x y : Bytes) : y ∈ setDelete m x ↔ y ∈ m ∧ y ≠ x := by
  unfold setDelete
  simp [List.mem_filter]

/-- The representation invariant: names are pairwise distinct and, in map mode, the map holds exactly the names. -/
def WF (ns : Namespace) : Prop :=
  ns.names.Nodup ∧ ∀ m, ns.mapNames = some m → ∀ x, x ∈ m ↔ x ∈ ns.names

theorem wf_empty : WF Namespace.empty := by
  refine ⟨List.nodup_nil, ?_⟩
  intro m h; cases h

theorem maybeSwitch_names (ns : Namespace) : ns.maybeSwitch.names = ns.names := by
  unfold maybeSwitch; split <;> rfl

theorem wf_maybeSwitch (ns : Namespace) (h : WF ns) : WF ns.maybeSwitch := by
  unfold maybeSwitch
  split
  · refine ⟨h.1, ?_⟩
    intro m hm x
    simp only [Option.some.injEq] at hm
    subst hm
    simp [mem_foldl_setInsert]
  · exact h

/-- The mode after the switch test: map iff it was map already or a threshold is exceeded. -/
theorem usesMap_maybeSwitch (ns : Namespace) :
    ns.maybeSwitch.usesMap = (ns.usesMap || decide (ns.length > nsCountThreshold) || decide (ns.totalBytes > nsBytesThreshold)) := by
  unfold maybeSwitch usesMap
  cases hm : ns.mapNames with
  | none =>
    by_cases h1 : ns.length > nsCountThreshold <;> by_cases h2 : ns.totalBytes > nsBytesThreshold <;> simp [h1, h2, hm]
  | some m => simp [hm]

/-- Under the invariant `insert` appends the name unless it is present, in either mode. -/
theorem insert_spec (ns : Namespace) (h : WF ns) (x : Bytes) :
    (ns.insert x).2 = !decide (x ∈ ns.names) ∧
    (ns.insert x).1.names = (if x ∈ ns.names then ns.names else ns.names ++ [x]) ∧
    WF (ns.insert x).1 := by
  have hs := wf_maybeSwitch ns h
  have hn := maybeSwitch_names ns
  have hnd : ¬ x ∈ ns.names → (ns.names ++ [x]).Nodup := by
    intro hx
    rw [List.nodup_append]
    refine ⟨h.1, by simp, ?_⟩
    intro a ha b hb
    simp only [List.mem_singleton] at hb
    subst hb
    intro e; subst e; exact hx ha
  unfold Namespace.insert
  simp only []
  generalize ns.maybeSwitch = ns' at hs hn
  split
  · rename_i hm
    by_cases hx : x ∈ ns.names
    · have hc : ns.names.contains x = true := List.contains_iff_mem.mpr hx
      simp only [hn, hc, if_true, hx, decide_true, Bool.not_true, true_and]
      exact hs
    · have hc : ns.names.contains x = false := by
        cases hcc : ns.names.contains x with
        | false => rfl
        | true => exact absurd (List.contains_iff_mem.mp hcc) hx
      simp only [hn, hc, hx, if_false, Bool.false_eq_true, decide_false, Bool.not_false, true_and]
      refine ⟨hnd hx, ?_⟩
      intro m hm'; simp [hm] at hm'
  · rename_i m hm
    have hmem : ∀ y, y ∈ m ↔ y ∈ ns.names := by
      intro y; rw [← hn]; exact hs.2 m hm y
    by_cases hx : x ∈ ns.names
    · have hc : m.contains x = true := List.contains_iff_mem.mpr ((hmem x).mpr hx)
      simp only [hc, if_true, hx, decide_true, Bool.not_true, hn, true_and]
      exact hs
    · have hc : m.contains x = false := by
        cases hcc : m.contains x with
        | false => rfl
        | true => exact absurd ((hmem x).mp (List.contains_iff_mem.mp hcc)) hx
      simp only [hc, hx, if_false, Bool.false_eq_true, decide_false, Bool.not_false, hn, true_and]
      refine ⟨hnd hx, ?_⟩
      intro m' hm' y
      simp only [Option.some.injEq] at hm'
      subst hm'
      rw [mem_setInsert, hmem, List.mem_append, List.mem_singleton]
      exact Or.comm

/-- The mode after an insert. -/
theorem usesMap_insert (ns : Namespace) (x : Bytes) :
    (ns.insert x).1.usesMap = (ns.usesMap || decide (ns.length > nsCountThreshold) || decide (ns.totalBytes > nsBytesThreshold)) := by
  rw [← usesMap_maybeSwitch]
  unfold Namespace.insert
  simp only []
  generalize ns.maybeSwitch = ns'
  split
  · rename_i hm; split <;> simp [usesMap, hm]
  · rename_i m hm; split <;> simp [usesMap, hm]

theorem dropLast_append_getLast? (l : List Bytes) (a : Bytes) (h : l.getLast? = some a) : l = l.dropLast ++ [a] := by
  have hne : l ≠ [] := by intro e; subst e; simp at h
  have := List.dropLast_concat_getLast hne
  rw [List.getLast?_eq_some_getLast hne] at h
  simp only [Option.some.injEq] at h
  rw [h] at this
  exact this.symm

/-- `removeLast` drops the last name and keeps the invariant (identity on the empty namespace). -/
theorem removeLast_spec (ns : Namespace) (h : WF ns) :
    ns.removeLast.names = ns.names.dropLast ∧ WF ns.removeLast ∧ ns.removeLast.usesMap = ns.usesMap := by
  unfold Namespace.removeLast
  cases hl : ns.names.getLast? with
  | none =>
    have : ns.names = [] := List.getLast?_eq_none_iff.mp hl
    simp [this, h]
  | some last =>
    simp only [true_and]
    have hsplit := dropLast_append_getLast? ns.names last hl
    have hnd : (ns.names.dropLast ++ [last]).Nodup := by rw [← hsplit]; exact h.1
    rw [List.nodup_append] at hnd
    refine ⟨⟨hnd.1, ?_⟩, ?_⟩
    · intro m hm x
      cases hmm : ns.mapNames with
      | none => simp [hmm] at hm
      | some m0 =>
        simp only [hmm, Option.map_some, Option.some.injEq] at hm
        subst hm
        rw [mem_setDelete, h.2 m0 hmm x]
        constructor
        · rintro ⟨hx, hne⟩
          rw [hsplit, List.mem_append, List.mem_singleton] at hx
          rcases hx with hx | hx
          · exact hx
          · exact absurd hx hne
        · intro hx
          refine ⟨by rw [hsplit]; exact List.mem_append_left _ hx, ?_⟩
          intro e; subst e
          exact hnd.2.2 x hx x (List.mem_singleton.mpr rfl) rfl
    · unfold usesMap; cases ns.mapNames <;> rfl

/-- The reference semantics of a history: a plain list of names, no modes. -/
def specRun : List Bytes → List Op → List Bytes × List Bool
  | names, [] => (names, [])
  | names, .ins x :: ops =>
    let fresh := !decide (x ∈ names)
    let rest := specRun (if x ∈ names then names else names ++ [x]) ops
    (rest.1, fresh :: rest.2)
  | names, .rm :: ops => specRun names.dropLast ops
  | _, .reset :: ops => specRun [] ops

/-- Any history (inserts and removeLast in any order, across the mode switch) behaves as the mode-free reference. -/
theorem run_spec (ops : List Op) : ∀ (ns : Namespace), WF ns →
    ((Namespace.run ns ops).1.names, (Namespace.run ns ops).2) = specRun ns.names ops ∧ WF (Namespace.run ns ops).1 := by
  induction ops with
  | nil => intro ns h; exact ⟨rfl, h⟩
  | cons op ops ih =>
    intro ns h
    cases op with
    | ins x =>
      obtain ⟨h1, h2, h3⟩ := insert_spec ns h x
      obtain ⟨ih1, ih2⟩ := ih (ns.insert x).1 h3
      refine ⟨?_, ih2⟩
      simp only [Namespace.run, specRun]
      rw [← h2, ← h1]
      have := congrArg Prod.fst ih1
      have := congrArg Prod.snd ih1
      simp_all
    | rm =>
      obtain ⟨h1, h2, _⟩ := removeLast_spec ns h
      obtain ⟨ih1, ih2⟩ := ih ns.removeLast h2
      refine ⟨?_, ih2⟩
      simp only [Namespace.run, specRun]
      rw [← h1]; exact ih1
    | reset =>
      obtain ⟨ih1, ih2⟩ := ih ns.reset wf_empty
      refine ⟨?_, ih2⟩
      simp only [Namespace.run, specRun]
      exact ih1

end JsonV.Lemmas.Dup

namespace JsonV.Lemmas.Dup
open JsonV JsonV.Model JsonV.Model.Namespace

/-- Inserting a list of names into the reference: every insert succeeds iff the names are pairwise distinct
and none is already held. -/
theorem specRun_all_iff (names : List Bytes) : ∀ (acc : List Bytes),
    (specRun acc (names.map Op.ins)).2.all id = true ↔ names.Nodup ∧ ∀ x ∈ names, x ∉ acc := by
  induction names with
  | nil => intro acc; simp [specRun]
  | cons a rest ih =>
    intro acc
    simp only [List.map_cons, specRun, List.all_cons, id, Bool.and_eq_true, List.nodup_cons, List.mem_cons]
    by_cases ha : a ∈ acc
    · simp only [ha, decide_true, Bool.not_true, Bool.false_eq_true, false_and, false_iff]
      intro h
      exact h.2 a (Or.inl rfl) ha
    · simp only [ha, decide_false, Bool.not_false, true_and, if_false]
      rw [ih (acc ++ [a])]
      constructor
      · rintro ⟨hnd, hall⟩
        refine ⟨⟨?_, hnd⟩, ?_⟩
        · intro hmem; exact hall a hmem (List.mem_append_right _ (List.mem_singleton.mpr rfl))
        · rintro x (rfl | hx)
          · exact ha
          · intro hacc; exact hall x hx (List.mem_append_left _ hacc)
      · rintro ⟨⟨hnot, hnd⟩, hall⟩
        refine ⟨hnd, ?_⟩
        intro x hx hmem
        rw [List.mem_append, List.mem_singleton] at hmem
        rcases hmem with hmem | rfl
        · exact hall x (Or.inr hx) hmem
        · exact hnot hx

end JsonV.Lemmas.Dup
