/-
The window invariant of the decode buffer is preserved by fetch (for every chunk size), by advancing the
read position and by invalidatePreviousRead (C05).  Core Lean only.
-/
import JsonV.Model.Window

namespace JsonV.Model.Window
open JsonV

theorem inv_init (stream : Bytes) : Inv stream (init stream) := by
  simp [Inv, init]

theorem inv_initWhole (stream : Bytes) : Inv stream (initWhole stream) := by
  simp [Inv, initWhole]

theorem inv_fetch (stream : Bytes) (w : Window) (k : Nat) (h : Inv stream w) : Inv stream (fetch w k) := by
  obtain ⟨h1, h2, h3, h4⟩ := h
  refine ⟨by simp [fetch], ?_, ?_, ?_⟩
  · simp [fetch, List.length_drop]; omega
  · simp [fetch, List.length_drop, List.length_take]; omega
  · simp only [fetch]
    have e1 : w.baseOffset + w.prevStart + (w.prevEnd - w.prevStart) = w.baseOffset + w.prevEnd := by omega
    rw [e1, h4]
    have hle : w.prevEnd - w.prevStart ≤ (w.buf.drop w.prevStart).length := by simp [List.length_drop]; omega
    rw [List.drop_append_of_le_length hle, List.drop_drop, List.append_assoc, List.take_append_drop]
    congr 2; omega

theorem inv_advance (stream : Bytes) (w : Window) (s e : Nat) (h : Inv stream w) : Inv stream (advance w s e) := by
  unfold advance
  split
  · rename_i hg
    obtain ⟨g1, g2, g3⟩ := hg
    obtain ⟨h1, h2, h3, h4⟩ := h
    refine ⟨g2, g3, h3, ?_⟩
    simp only
    have e1 : w.baseOffset + e = (w.baseOffset + w.prevEnd) + (e - w.prevEnd) := by omega
    rw [e1, ← List.drop_drop, h4]
    have hle : e - w.prevEnd ≤ (w.buf.drop w.prevEnd).length := by simp [List.length_drop]; omega
    rw [List.drop_append_of_le_length hle, List.drop_drop]
    congr 2; omega
  · exact h

theorem drop_set_of_lt (l : Bytes) (i j : Nat) (x : UInt8) (h : i < j) : (l.set i x).drop j = l.drop j := by
  induction l generalizing i j with
  | nil => simp
  | cons a l ih =>
    cases j with
    | zero => omega
    | succ j =>
      cases i with
      | zero => simp
      | succ i => simp only [List.set_cons_succ, List.drop_succ_cons]; exact ih i j (by omega)

theorem inv_invalidate (stream : Bytes) (w : Window) (h : Inv stream w) : Inv stream (invalidate w) := by
  unfold invalidate
  split
  · rename_i hg
    obtain ⟨h1, h2, h3, h4⟩ := h
    refine ⟨Nat.le_refl _, by simpa using h2, by simpa using h3, ?_⟩
    simp only
    rw [drop_set_of_lt _ _ _ _ hg.1]; exact h4
  · exact h

theorem inv_step (stream : Bytes) (w : Window) (op : Op) (h : Inv stream w) : Inv stream (step w op) := by
  cases op with
  | fetch k => exact inv_fetch stream w k h
  | advance s e => exact inv_advance stream w s e h
  | invalidate => exact inv_invalidate stream w h

theorem inv_run (stream : Bytes) (ops : List Op) : ∀ w, Inv stream w → Inv stream (run w ops) := by
  induction ops with
  | nil => intro w h; exact h
  | cons op ops ih => intro w h; exact ih _ (inv_step stream w op h)

/-- what the invariant means for a caller that stops decoding: the stream is the first InputOffset bytes,
then UnreadBuffer, then what the reader still holds -/
theorem inv_unread (stream : Bytes) (w : Window) (h : Inv stream w) :
    stream = stream.take w.inputOffset ++ w.unread ++ w.pending ∧
    w.inputOffset + w.unread.length + w.pending.length = stream.length := by
  obtain ⟨h1, h2, h3, h4⟩ := h
  constructor
  · rw [List.append_assoc]
    unfold Window.inputOffset Window.unread
    rw [← h4, List.take_append_drop]
  · simp [Window.inputOffset, Window.unread, List.length_drop]; omega

/-! ### the literal invariant for windows that are never overwritten -/

theorem invExact_init (stream : Bytes) : InvExact stream (init stream) := by simp [InvExact, init]
theorem invExact_initWhole (stream : Bytes) : InvExact stream (initWhole stream) := by simp [InvExact, initWhole]

theorem invExact_fetch (stream : Bytes) (w : Window) (k : Nat) (h : InvExact stream w) :
    InvExact stream (fetch w k) := by
  obtain ⟨h1, h2, h3, h4⟩ := h
  refine ⟨by simp [fetch], ?_, ?_, ?_⟩
  · simp [fetch, List.length_drop]; omega
  · simp only [fetch]
    rw [h3]
    simp only [List.append_assoc]
    rw [← List.append_assoc (w.buf.take w.prevStart), List.take_append_drop,
      List.take_append_drop]
  · simp [fetch, List.length_take, h4]; omega

theorem invExact_advance (stream : Bytes) (w : Window) (s e : Nat) (h : InvExact stream w) :
    InvExact stream (advance w s e) := by
  unfold advance
  split
  · rename_i hg
    obtain ⟨h1, h2, h3, h4⟩ := h
    exact ⟨hg.2.1, hg.2.2, h3, h4⟩
  · exact h

theorem invExact_run (stream : Bytes) (ops : List Op) (hno : ∀ op ∈ ops, op.isInvalidate = false) :
    ∀ w, InvExact stream w → InvExact stream (run w ops) := by
  induction ops with
  | nil => intro w h; exact h
  | cons op ops ih =>
    intro w h
    have hrest : ∀ o ∈ ops, o.isInvalidate = false := fun o ho => hno o (List.mem_cons_of_mem _ ho)
    have hop := hno op (List.mem_cons_self ..)
    cases op with
    | fetch k => exact ih hrest _ (invExact_fetch stream w k h)
    | advance s e => exact ih hrest _ (invExact_advance stream w s e h)
    | invalidate => simp [Op.isInvalidate] at hop

end JsonV.Model.Window
