/-
UTF-8 codec lemmas for C13: `utf8.DecodeRune` inverts `utf8.AppendRune` on scalar values, and a
well-formed byte string is the encoding of the scalar values it decodes to.
-/
import JsonV.Model.Utf8
import JsonV.Spec.Utf16Order

namespace JsonV.Lemmas.CmpUtf8
open JsonV JsonV.Model.Utf8 JsonV.Spec.Utf16Order

theorem encodeRune_of_scalar (r : Nat) (h : IsScalar r) : encodeRune r =
  if r < 0x80 then [UInt8.ofNat r]
  else if r < 0x800 then [UInt8.ofNat (0xC0 + r / 64), UInt8.ofNat (0x80 + r % 64)]
  else if r < 0x10000 then
    [UInt8.ofNat (0xE0 + r / 4096), UInt8.ofNat (0x80 + (r / 64) % 64), UInt8.ofNat (0x80 + r % 64)]
  else
    [UInt8.ofNat (0xF0 + r / 262144), UInt8.ofNat (0x80 + (r / 4096) % 64),
     UInt8.ofNat (0x80 + (r / 64) % 64), UInt8.ofNat (0x80 + r % 64)] := by
  have hc : ¬ (r > 1114111 ∨ (55296 ≤ r ∧ r ≤ 57343)) := by unfold IsScalar at h; omega
  simp only [encodeRune, maxRune, runeError, hc, if_false]

/-- First byte of an encoding: ASCII is itself, everything else starts with a byte ≥ 0x80. -/
theorem encodeRune_cons (r : Nat) (h : IsScalar r) :
    ∃ b0 t, encodeRune r = b0 :: t ∧ (if r < 0x80 then t = [] ∧ b0.toNat = r else 0x80 ≤ b0.toNat) := by
  rw [encodeRune_of_scalar r h]
  unfold IsScalar at h
  by_cases h1 : r < 0x80
  · rw [if_pos h1]; refine ⟨_, _, rfl, ?_⟩; rw [if_pos h1]; simp [UInt8.toNat_ofNat']; omega
  · rw [if_neg h1]
    by_cases h2 : r < 0x800
    · rw [if_pos h2]; refine ⟨_, _, rfl, ?_⟩; rw [if_neg h1]; simp [UInt8.toNat_ofNat']; omega
    · rw [if_neg h2]
      by_cases h3 : r < 0x10000
      · rw [if_pos h3]; refine ⟨_, _, rfl, ?_⟩; rw [if_neg h1]; simp [UInt8.toNat_ofNat']; omega
      · rw [if_neg h3]; refine ⟨_, _, rfl, ?_⟩; rw [if_neg h1]; simp [UInt8.toNat_ofNat']; omega

theorem encodeRune_length_pos (r : Nat) (h : IsScalar r) : 0 < (encodeRune r).length := by
  obtain ⟨b0, t, e, _⟩ := encodeRune_cons r h
  rw [e]; simp

theorem encodeRune_ne_nil (r : Nat) (h : IsScalar r) : encodeRune r ≠ [] := by
  obtain ⟨b0, t, e, _⟩ := encodeRune_cons r h
  rw [e]; simp

private theorem lead3 (r : Nat) (h1 : 0x800 ≤ r) (h2 : r < 0x10000) (hs : IsScalar r) :
    ∃ lo hi, leadInfo (0xE0 + r / 4096) = some (3, lo, hi) ∧ lo ≤ 0x80 + (r / 64) % 64 ∧ 0x80 + (r / 64) % 64 ≤ hi := by
  unfold IsScalar at hs
  unfold leadInfo
  repeat' split
  all_goals first | omega | exact ⟨_, _, rfl, by omega, by omega⟩

private theorem lead4 (r : Nat) (h1 : 0x10000 ≤ r) (h2 : r ≤ 0x10FFFF) :
    ∃ lo hi, leadInfo (0xF0 + r / 262144) = some (4, lo, hi) ∧ lo ≤ 0x80 + (r / 4096) % 64 ∧ 0x80 + (r / 4096) % 64 ≤ hi := by
  unfold leadInfo
  repeat' split
  all_goals first | omega | exact ⟨_, _, rfl, by omega, by omega⟩

theorem decode_encode1 (r : Nat) (h2 : r < 0x80) (rest : Bytes) :
    decodeRune (encodeRune r ++ rest) = (r, 1) := by
  rw [encodeRune_of_scalar r (by unfold IsScalar; omega)]
  rw [if_pos (by omega)]
  have a0 : r % 2 ^ 8 = r := by omega
  simp only [List.cons_append, List.nil_append, decodeRune, runeSelf, UInt8.toNat_ofNat', a0]
  rw [if_pos (by omega)]

theorem decode_encode2 (r : Nat) (h1 : 0x80 ≤ r) (h2 : r < 0x800) (rest : Bytes) :
    decodeRune (encodeRune r ++ rest) = (r, 2) := by
  rw [encodeRune_of_scalar r (by unfold IsScalar; omega)]
  rw [if_neg (by omega), if_pos (by omega)]
  have a0 : (0xC0 + r / 64) % 2 ^ 8 = 0xC0 + r / 64 := by omega
  have a1 : (0x80 + r % 64) % 2 ^ 8 = 0x80 + r % 64 := by omega
  have l : leadInfo (0xC0 + r / 64) = some (2, 0x80, 0xBF) := by
    unfold leadInfo; rw [if_pos (by omega)]
  have n0 : ¬ (0xC0 + r / 64 < 0x80) := by omega
  simp only [List.cons_append, List.nil_append, decodeRune, runeSelf, UInt8.toNat_ofNat', a0, a1, l, n0, if_false]
  rw [if_neg (by omega)]
  simp
  omega

theorem decode_encode3 (r : Nat) (h1 : 0x800 ≤ r) (h2 : r < 0x10000) (hs : IsScalar r) (rest : Bytes) :
    decodeRune (encodeRune r ++ rest) = (r, 3) := by
  rw [encodeRune_of_scalar r hs]
  rw [if_neg (by omega), if_neg (by omega), if_pos (by omega)]
  have a0 : (0xE0 + r / 4096) % 2 ^ 8 = 0xE0 + r / 4096 := by omega
  have a1 : (0x80 + r / 64 % 64) % 2 ^ 8 = 0x80 + r / 64 % 64 := by omega
  have a2 : (0x80 + r % 64) % 2 ^ 8 = 0x80 + r % 64 := by omega
  obtain ⟨lo, hi, l, hlo, hhi⟩ := lead3 r h1 h2 hs
  have n0 : ¬ (0xE0 + r / 4096 < 0x80) := by omega
  simp only [List.cons_append, List.nil_append, decodeRune, runeSelf, UInt8.toNat_ofNat', a0, a1, a2, l, n0, if_false]
  rw [if_neg (by omega)]
  simp [isCont]
  rw [if_neg (by omega)]
  have : r / 64 / 64 = r / 4096 := by omega
  simp
  omega

theorem decode_encode4 (r : Nat) (h1 : 0x10000 ≤ r) (h2 : r ≤ 0x10FFFF) (rest : Bytes) :
    decodeRune (encodeRune r ++ rest) = (r, 4) := by
  rw [encodeRune_of_scalar r (by unfold IsScalar; omega)]
  rw [if_neg (by omega), if_neg (by omega), if_neg (by omega)]
  have a0 : (0xF0 + r / 262144) % 2 ^ 8 = 0xF0 + r / 262144 := by omega
  have a1 : (0x80 + r / 4096 % 64) % 2 ^ 8 = 0x80 + r / 4096 % 64 := by omega
  have a2 : (0x80 + r / 64 % 64) % 2 ^ 8 = 0x80 + r / 64 % 64 := by omega
  have a3 : (0x80 + r % 64) % 2 ^ 8 = 0x80 + r % 64 := by omega
  obtain ⟨lo, hi, l, hlo, hhi⟩ := lead4 r h1 h2
  have n0 : ¬ (0xF0 + r / 262144 < 0x80) := by omega
  simp only [List.cons_append, List.nil_append, decodeRune, runeSelf, UInt8.toNat_ofNat', a0, a1, a2, a3, l, n0, if_false]
  rw [if_neg (by omega)]
  simp [isCont]
  rw [if_neg (by omega), if_neg (by omega)]
  have : r / 64 / 64 = r / 4096 := by omega
  have : r / 4096 / 64 = r / 262144 := by omega
  simp
  omega

theorem encodeRune_length (r : Nat) (h : IsScalar r) : (encodeRune r).length =
    if r < 0x80 then 1 else if r < 0x800 then 2 else if r < 0x10000 then 3 else 4 := by
  rw [encodeRune_of_scalar r h]
  repeat' split
  all_goals rfl

/-- `utf8.DecodeRune` reads back exactly the scalar value that `utf8.AppendRune` wrote, whatever follows. -/
theorem decodeRune_encodeRune_append (r : Nat) (h : IsScalar r) (rest : Bytes) :
    decodeRune (encodeRune r ++ rest) = (r, (encodeRune r).length) := by
  rw [encodeRune_length r h]
  by_cases h1 : r < 0x80
  · rw [if_pos h1]; exact decode_encode1 r h1 rest
  · rw [if_neg h1]
    by_cases h2 : r < 0x800
    · rw [if_pos h2]; exact decode_encode2 r (by omega) h2 rest
    · rw [if_neg h2]
      by_cases h3 : r < 0x10000
      · rw [if_pos h3]; exact decode_encode3 r (by omega) h3 h rest
      · rw [if_neg h3]; exact decode_encode4 r (by omega) (by unfold IsScalar at h; omega) rest

/-- A scalar value is never reported as an invalid byte. -/
theorem not_invalid_of_scalar (r : Nat) (h : IsScalar r) :
    ¬ (r = runeError ∧ (encodeRune r).length = 1) := by
  rw [encodeRune_length r h]
  unfold runeError
  intro ⟨a, b⟩
  subst a
  simp at b

theorem leadInfo_some (b sz lo hi : Nat) (h : leadInfo b = some (sz, lo, hi)) :
    (sz = 2 ∧ 0xC2 ≤ b ∧ b ≤ 0xDF ∧ lo = 0x80 ∧ hi = 0xBF) ∨
    (sz = 3 ∧ 0xE0 ≤ b ∧ b ≤ 0xEF ∧ 0x80 ≤ lo ∧ hi ≤ 0xBF ∧ (b = 0xE0 → lo = 0xA0) ∧ (b = 0xED → hi = 0x9F)) ∨
    (sz = 4 ∧ 0xF0 ≤ b ∧ b ≤ 0xF4 ∧ 0x80 ≤ lo ∧ hi ≤ 0xBF ∧ (b = 0xF0 → lo = 0x90) ∧ (b = 0xF4 → hi = 0x8F)) := by
  unfold leadInfo at h
  repeat' split at h
  all_goals first | (simp only [Option.some.injEq, Prod.mk.injEq] at h; omega) | (simp at h)

theorem ofNat_toNat_u8 (b : UInt8) (n : Nat) (h : n = b.toNat) : UInt8.ofNat n = b := by
  subst h; exact UInt8.ofNat_toNat

theorem decode_scalar (p : Bytes) (hp : p ≠ []) (hv : ¬ ((decodeRune p).1 = runeError ∧ (decodeRune p).2 = 1)) :
    IsScalar (decodeRune p).1 ∧ encodeRune (decodeRune p).1 ++ p.drop (decodeRune p).2 = p := by
  cases p with
  | nil => exact absurd rfl hp
  | cons b0 rest =>
    have hb0 := b0.toNat_lt
    simp only [decodeRune] at hv ⊢
    by_cases h0 : b0.toNat < runeSelf
    · simp only [h0, if_true]
      unfold runeSelf at h0
      refine ⟨by unfold IsScalar; omega, ?_⟩
      rw [encodeRune_of_scalar _ (by unfold IsScalar; omega), if_pos h0]
      simp [UInt8.ofNat_toNat]
    · simp only [h0, if_false] at hv ⊢
      unfold runeSelf at h0
      cases hl : leadInfo b0.toNat with
      | none => rw [hl] at hv; simp at hv
      | some t =>
        obtain ⟨sz, lo, hi⟩ := t
        have li := leadInfo_some _ _ _ _ hl
        rw [hl] at hv
        simp only [] at hv ⊢
        cases rest with
        | nil => simp at hv
        | cons b1 r1 =>
          have hb1 := b1.toNat_lt
          simp only [] at hv ⊢
          by_cases c1 : b1.toNat < lo ∨ hi < b1.toNat
          · simp [c1] at hv
          · simp only [c1, if_false] at hv ⊢
            by_cases s2 : sz = 2
            · simp only [s2, if_true]
              have r1' : 0x80 ≤ b0.toNat % 32 * 64 + b1.toNat % 64 ∧ b0.toNat % 32 * 64 + b1.toNat % 64 < 0x800 := by omega
              have sc : IsScalar (b0.toNat % 32 * 64 + b1.toNat % 64) := by unfold IsScalar; omega
              refine ⟨sc, ?_⟩
              rw [encodeRune_of_scalar _ sc, if_neg (by omega), if_pos (by omega)]
              rw [ofNat_toNat_u8 b0 _ (by omega), ofNat_toNat_u8 b1 _ (by omega)]
              simp
            · simp only [s2, if_false] at hv ⊢
              cases r1 with
              | nil => simp at hv
              | cons b2 r2 =>
                have hb2 := b2.toNat_lt
                simp only [] at hv ⊢
                by_cases c2 : isCont b2.toNat = true
                · have c2' : 0x80 ≤ b2.toNat ∧ b2.toNat ≤ 0xBF := by simpa [isCont] using c2
                  simp only [c2, Bool.not_true, Bool.false_eq_true, if_false] at hv ⊢
                  by_cases s3 : sz = 3
                  · simp only [s3, if_true]
                    have sc : IsScalar (b0.toNat % 16 * 4096 + b1.toNat % 64 * 64 + b2.toNat % 64) := by
                      unfold IsScalar; omega
                    refine ⟨sc, ?_⟩
                    rw [encodeRune_of_scalar _ sc, if_neg (by omega), if_neg (by omega), if_pos (by omega)]
                    rw [ofNat_toNat_u8 b0 _ (by omega), ofNat_toNat_u8 b1 _ (by omega), ofNat_toNat_u8 b2 _ (by omega)]
                    simp
                  · simp only [s3, if_false] at hv ⊢
                    cases r2 with
                    | nil => simp at hv
                    | cons b3 r3 =>
                      have hb3 := b3.toNat_lt
                      simp only [] at hv ⊢
                      by_cases c3 : isCont b3.toNat = true
                      · have c3' : 0x80 ≤ b3.toNat ∧ b3.toNat ≤ 0xBF := by simpa [isCont] using c3
                        simp only [c3, Bool.not_true, Bool.false_eq_true, if_false] at hv ⊢
                        have sc : IsScalar (b0.toNat % 8 * 262144 + b1.toNat % 64 * 4096 + b2.toNat % 64 * 64 + b3.toNat % 64) := by
                          unfold IsScalar; omega
                        refine ⟨sc, ?_⟩
                        rw [encodeRune_of_scalar _ sc, if_neg (by omega), if_neg (by omega), if_neg (by omega)]
                        rw [ofNat_toNat_u8 b0 _ (by omega), ofNat_toNat_u8 b1 _ (by omega),
                          ofNat_toNat_u8 b2 _ (by omega), ofNat_toNat_u8 b3 _ (by omega)]
                        simp
                      · simp [c3] at hv
                · simp [c2] at hv

theorem decodeRune_size_pos (p : Bytes) (h : p ≠ []) : 1 ≤ (decodeRune p).2 := by
  cases p with
  | nil => exact absurd rfl h
  | cons b0 rest =>
    simp only [decodeRune]
    by_cases h0 : b0.toNat < runeSelf
    · simp [h0]
    · simp only [h0, if_false]
      cases leadInfo b0.toNat with
      | none => simp
      | some t =>
        obtain ⟨sz, lo, hi⟩ := t
        cases rest with
        | nil => simp
        | cons b1 r1 =>
          simp only []
          split
          · simp
          · split
            · simp
            · cases r1 with
              | nil => simp
              | cons b2 r2 =>
                simp only []
                split
                · simp
                · split
                  · simp
                  · cases r2 with
                    | nil => simp
                    | cons b3 r3 => simp only []; split <;> simp

theorem encode_cons (r : Nat) (rs : List Nat) : encode (r :: rs) = encodeRune r ++ encode rs := by
  simp [encode]

/-- A byte string accepted by `utf8.Valid` is the UTF-8 encoding of the scalar values it decodes to. -/
theorem validAux_encode (fuel : Nat) (p : Bytes) (hf : p.length ≤ fuel) (h : validAux fuel p = true) :
    (∀ r ∈ runesAux fuel p, IsScalar r) ∧ encode (runesAux fuel p) = p := by
  induction fuel generalizing p with
  | zero =>
    have : p = [] := List.eq_nil_of_length_eq_zero (by omega)
    subst this
    simp [runesAux, encode]
  | succ fuel ih =>
    cases p with
    | nil => simp [runesAux, encode]
    | cons b0 rest =>
      simp only [validAux] at h
      simp only [runesAux]
      have pos := decodeRune_size_pos (b0 :: rest) (by simp)
      cases hd : decodeRune (b0 :: rest) with
      | mk r n =>
        rw [hd] at h pos
        simp only [] at h pos ⊢
        by_cases c : r = runeError ∧ n = 1
        · simp [c] at h
        · simp only [c, if_false] at h
          have ds := decode_scalar (b0 :: rest) (by simp) (by rw [hd]; exact c)
          rw [hd] at ds
          simp only [] at ds
          have := ih (List.drop n (b0 :: rest)) (by simp only [List.length_drop, List.length_cons] at hf ⊢; omega) h
          refine ⟨?_, ?_⟩
          · intro x hx
            simp only [List.mem_cons] at hx
            rcases hx with e | hx
            · subst e; exact ds.1
            · exact this.1 x hx
          · rw [encode_cons, this.2]; exact ds.2

theorem valid_encode (p : Bytes) (h : valid p = true) :
    (∀ r ∈ runes p, IsScalar r) ∧ encode (runes p) = p :=
  validAux_encode p.length p (Nat.le_refl _) h

/-- Decoding the encoding of scalar values gives them back. -/
theorem runesAux_encode (rs : List Nat) (hr : ∀ r ∈ rs, IsScalar r) (fuel : Nat) (hf : (encode rs).length ≤ fuel) :
    runesAux fuel (encode rs) = rs := by
  induction rs generalizing fuel with
  | nil => cases fuel <;> simp [encode, runesAux]
  | cons r rs' ih =>
    have hr0 := hr r (by simp)
    obtain ⟨b0, t, e, _⟩ := encodeRune_cons r hr0
    have d := decodeRune_encodeRune_append r hr0 (encode rs')
    rw [encode_cons] at hf ⊢
    rw [e] at d hf ⊢
    cases fuel with
    | zero => simp at hf
    | succ fuel =>
      simp only [List.cons_append] at d ⊢
      simp only [runesAux, d]
      have : List.drop (b0 :: t).length (b0 :: (t ++ encode rs')) = encode rs' := by simp
      rw [this, ih (fun x hx => hr x (by simp [hx])) fuel (by simp at hf ⊢; omega)]

theorem runes_encode (rs : List Nat) (hr : ∀ r ∈ rs, IsScalar r) : runes (encode rs) = rs :=
  runesAux_encode rs hr _ (Nat.le_refl _)

end JsonV.Lemmas.CmpUtf8
