/-
Glue between the C03 meaning spec (Spec/Meaning.lean) and the C01 grammar (Spec/Grammar.lean):
the lexical layer.  Whatever the spec lexers accept is a token of the grammar, and they cut the input
exactly after it.
-/
import JsonV.Spec.Meaning
import JsonV.Spec.Grammar

set_option linter.unusedSimpArgs false

namespace JsonV.Lemmas.GlueMeaningLex
open JsonV JsonV.Spec.Meaning JsonV.Spec.Grammar

/-! ### whitespace -/

theorem isWs_iff (c : UInt8) : isWs c = true ↔ WsByte c := by
  simp [isWs, WsByte, or_assoc]

theorem JWs_nil : JWs [] := fun c hc => by cases hc

theorem skipWs_split (b : Bytes) : ∃ w, JWs w ∧ b = w ++ skipWs b := by
  induction b with
  | nil => exact ⟨[], JWs_nil, rfl⟩
  | cons c r ih =>
    simp only [skipWs]
    split
    · next h =>
      obtain ⟨w, hw, hr⟩ := ih
      refine ⟨c :: w, ?_, by rw [List.cons_append, ← hr]⟩
      intro x hx
      rcases List.mem_cons.mp hx with rfl | hx
      · exact (isWs_iff _).1 h
      · exact hw x hx
    · exact ⟨[], JWs_nil, rfl⟩

theorem skipWs_length_le (b : Bytes) : (skipWs b).length ≤ b.length := by
  obtain ⟨w, _, h⟩ := skipWs_split b
  have := congrArg List.length h
  simp at this; omega

theorem skipWs_head_not_ws {b : Bytes} {c : UInt8} {r : Bytes} (h : skipWs b = c :: r) : isWs c = false := by
  induction b with
  | nil => simp [skipWs] at h
  | cons x xs ih =>
    simp only [skipWs] at h
    split at h
    · exact ih h
    · next hx => simp only [List.cons.injEq] at h; rw [← h.1]; simpa using hx

theorem skipWs_idem_of_head {c : UInt8} {r : Bytes} (h : isWs c = false) : skipWs (c :: r) = c :: r := by
  simp [skipWs, h]

/-! ### literals -/

theorem stripPrefix_eq {p b r : Bytes} (h : stripPrefix p b = some r) : b = p ++ r := by
  induction p generalizing b with
  | nil => simp [stripPrefix] at h; simp [h]
  | cons x xs ih =>
    cases b with
    | nil => simp [stripPrefix] at h
    | cons c cs =>
      simp only [stripPrefix] at h
      split at h
      · next hx => subst hx; rw [ih h]; rfl
      · simp at h

/-! ### numbers -/

theorem isDigit_iff (c : UInt8) : isDigit c = true ↔ Digit c := by simp [isDigit, Digit]

theorem digits_spec (b : Bytes) : b = (digits b).1 ++ (digits b).2 ∧ Digits0 (digits b).1 := by
  induction b with
  | nil => exact ⟨rfl, by intro c hc; cases hc⟩
  | cons c r ih =>
    simp only [digits]
    split
    · next h =>
      refine ⟨by simp only [List.cons_append]; rw [← ih.1], ?_⟩
      intro x hx
      rcases List.mem_cons.mp hx with rfl | hx
      · exact (isDigit_iff _).1 h
      · exact ih.2 x hx
    · exact ⟨rfl, by intro c hc; cases hc⟩

theorem fracPart_spec {b f r : Bytes} (h : fracPart b = some (f, r)) : b = f ++ r ∧ JFrac f := by
  unfold fracPart at h
  split at h
  · simp at h; obtain ⟨rfl, rfl⟩ := h; exact ⟨rfl, .none⟩
  · next c r' =>
    split at h
    · next hc =>
      subst hc
      simp only at h
      split at h
      · simp at h
      · next hne =>
        simp only [Option.some.injEq, Prod.mk.injEq] at h
        obtain ⟨rfl, rfl⟩ := h
        have hd := digits_spec r'
        refine ⟨by simp only [List.cons_append]; rw [← hd.1], .some _ ⟨?_, hd.2⟩⟩
        intro e; simp [e] at hne
    · simp at h; obtain ⟨rfl, rfl⟩ := h; exact ⟨rfl, .none⟩

theorem expLeaf (c : UInt8) (hce : c = 0x65 ∨ c = 0x45) (sg rr : Bytes) (hsg : sg = [] ∨ sg = [0x2D] ∨ sg = [0x2B])
    (hne : (digits rr).1.isEmpty = false) :
    c :: (sg ++ rr) = (c :: sg ++ (digits rr).1) ++ (digits rr).2 ∧ JExp (c :: sg ++ (digits rr).1) := by
  have hd := digits_spec rr
  refine ⟨?_, .some c sg _ hce hsg ⟨?_, hd.2⟩⟩
  · simp only [List.cons_append, List.append_assoc]
    rw [← hd.1]
  · intro e; simp [e] at hne

theorem expPart_spec {b e r : Bytes} (h : expPart b = some (e, r)) : b = e ++ r ∧ JExp e := by
  cases b with
  | nil => simp [expPart] at h; obtain ⟨rfl, rfl⟩ := h; exact ⟨rfl, .none⟩
  | cons c r' =>
    by_cases hc : (c = 0x65 || c = 0x45) = true
    · have hce : c = 0x65 ∨ c = 0x45 := by simpa using hc
      cases r' with
      | nil => simp [expPart, hc, digits] at h
      | cons s r'' =>
        by_cases hs : (s = 0x2D || s = 0x2B) = true
        · simp only [expPart, hc, hs, if_true] at h
          cases hne : (digits r'').1.isEmpty with
          | true => simp [hne] at h
          | false =>
            simp only [hne, Bool.false_eq_true, if_false, Option.some.injEq, Prod.mk.injEq] at h
            obtain ⟨rfl, rfl⟩ := h
            have hsg : [s] = ([] : Bytes) ∨ [s] = [0x2D] ∨ [s] = [0x2B] := by
              have : s = 0x2D ∨ s = 0x2B := by simpa using hs
              rcases this with rfl | rfl
              · exact Or.inr (Or.inl rfl)
              · exact Or.inr (Or.inr rfl)
            exact expLeaf c hce [s] r'' hsg hne
        · simp only [expPart, hc, hs, if_true, if_false] at h
          cases hne : (digits (s :: r'')).1.isEmpty with
          | true => simp [hne] at h
          | false =>
            simp only [hne, Bool.false_eq_true, if_false, Option.some.injEq, Prod.mk.injEq] at h
            obtain ⟨rfl, rfl⟩ := h
            exact expLeaf c hce [] (s :: r'') (Or.inl rfl) hne
    · simp only [expPart, hc, if_false, Option.some.injEq, Prod.mk.injEq] at h
      obtain ⟨rfl, rfl⟩ := h; exact ⟨rfl, .none⟩

theorem fracExp_spec {pre b l r : Bytes} (h : fracExp pre b = some (l, r)) :
    ∃ f e, l = pre ++ f ++ e ∧ b = f ++ e ++ r ∧ JFrac f ∧ JExp e := by
  unfold fracExp at h
  cases hf : fracPart b with
  | none => simp [hf] at h
  | some f =>
    obtain ⟨f, rf⟩ := f
    simp only [hf] at h
    cases he : expPart rf with
    | none => simp [he] at h
    | some e =>
      obtain ⟨e, re⟩ := e
      simp only [he, Option.some.injEq, Prod.mk.injEq] at h
      obtain ⟨rfl, rfl⟩ := h
      obtain ⟨h1, h2⟩ := fracPart_spec hf
      obtain ⟨h3, h4⟩ := expPart_spec he
      exact ⟨f, e, rfl, by rw [h1, h3, List.append_assoc], h2, h4⟩

theorem numLeaf0 (sg : Bytes) (hsg : sg = [] ∨ sg = [0x2D]) (r l rest : Bytes)
    (h : fracExp (sg ++ [0x30]) r = some (l, rest)) : sg ++ 0x30 :: r = l ++ rest ∧ JNumber l := by
  obtain ⟨f, e, hl, hr, hf, he⟩ := fracExp_spec h
  subst hl
  refine ⟨?_, .mk sg [0x30] f e hsg .zero hf he⟩
  rw [hr]; simp [List.append_assoc]

theorem numLeaf19 (sg : Bytes) (hsg : sg = [] ∨ sg = [0x2D]) (c : UInt8) (hc : (decide (0x31 ≤ c) && decide (c ≤ 0x39)) = true)
    (r l rest : Bytes) (h : fracExp (sg ++ c :: (digits r).1) (digits r).2 = some (l, rest)) :
    sg ++ c :: r = l ++ rest ∧ JNumber l := by
  have hd := digits_spec r
  obtain ⟨f, e, hl, hr, hf, he⟩ := fracExp_spec h
  subst hl
  have h19 : Digit19 c := by simpa [Digit19] using hc
  refine ⟨?_, .mk sg (c :: (digits r).1) f e hsg (.nonzero c _ h19 hd.2) hf he⟩
  conv => lhs; rw [hd.1, hr]
  simp [List.append_assoc]

theorem numBody_spec (sg : Bytes) (hsg : sg = [] ∨ sg = [0x2D]) (c : UInt8) (r l rest : Bytes)
    (h : (if c = 0x30 then fracExp (sg ++ [c]) r
          else if (decide (0x31 ≤ c) && decide (c ≤ 0x39)) = true then fracExp (sg ++ c :: (digits r).1) (digits r).2
          else none) = some (l, rest)) : sg ++ c :: r = l ++ rest ∧ JNumber l := by
  split at h
  · next hc => subst hc; exact numLeaf0 sg hsg r l rest h
  · split at h
    · next hc => exact numLeaf19 sg hsg c hc r l rest h
    · simp at h

/-- `lexNum` cuts the input after a number of the grammar. -/
theorem lexNum_spec {b l r : Bytes} (h : lexNum b = some (l, r)) : b = l ++ r ∧ JNumber l := by
  cases b with
  | nil => simp [lexNum] at h
  | cons c r' =>
    by_cases hc : c = 0x2D
    · subst hc
      cases r' with
      | nil => simp [lexNum] at h
      | cons c2 r2 =>
        simp only [lexNum, if_true] at h
        exact numBody_spec [0x2D] (Or.inr rfl) c2 r2 l r h
    · simp only [lexNum, hc, if_false] at h
      exact numBody_spec [] (Or.inl rfl) c r' l r h

end JsonV.Lemmas.GlueMeaningLex
