/-
C11 lemmas: `Utf8.valid` coincides with `WellFormed`; every JSON string literal that is valid per RFC 8259 §7
(`Spec.StringSpec.Unescapes`, one constructor per grammar production) unquotes to its meaning.  Core Lean only.
-/
import JsonV.Lemmas.QuoteSpec

namespace JsonV.Lemmas.QuoteMeaning
open JsonV JsonV.Model.Utf8 JsonV.Model.Quote JsonV.Lemmas.QuoteUtf8 JsonV.Lemmas.QuoteL JsonV.Spec.StringSpec JsonV.Lemmas.QuoteSpec

/-! ### `Utf8.valid` and `WellFormed` -/

theorem validAux_iff (fuel : Nat) (p : Bytes) (h : p.length ≤ fuel) : validAux fuel p = true ↔ illFormedCount p = 0 := by
  induction fuel generalizing p with
  | zero =>
    have : p = [] := List.eq_nil_of_length_eq_zero (by omega)
    subst this; simp [validAux, illFormedCount]
  | succ n ih =>
    match p with
    | [] => simp [validAux, illFormedCount]
    | c :: t =>
      have hp := decodeRune_pos c t
      have hlen : ((c :: t).drop (decodeRune (c :: t)).2).length ≤ n := by
        simp only [List.length_drop, List.length_cons] at h ⊢; omega
      rw [illFormedCount]
      simp only [validAux]
      by_cases hi : illFormedHead (c :: t) = true
      · have := hi
        simp only [illFormedHead, Bool.and_eq_true, decide_eq_true_eq] at this
        simp [hi, this]
      · have hn : ¬ ((decodeRune (c :: t)).1 = runeError ∧ (decodeRune (c :: t)).2 = 1) := by
          simpa [illFormedHead] using hi
        simp only [hn, hi, ↓reduceIte, Bool.false_eq_true, Nat.zero_add]
        exact ih _ hlen

theorem valid_wellFormed (s : Bytes) (h : valid s = true) : WellFormed s :=
  (validAux_iff s.length s (Nat.le_refl _)).mp h

/-! ### RFC 8259 meaning -/

theorem hexVal_eq (x : UInt8) : hexVal x.toNat = hexDigitVal x := by
  simp only [hexVal, hexDigitVal]
  repeat' split
  all_goals first | rfl | omega | (congr 1; omega)

theorem parseHex_eq_hex4 (a b c d : UInt8) : parseHexUint16 [a, b, c, d] = hex4 a b c d := by
  simp only [parseHexUint16, hex4, hexVal_eq]
  cases hexDigitVal a <;> cases hexDigitVal b <;> cases hexDigitVal c <;> cases hexDigitVal d <;> simp
  omega

theorem unqStep_simple (e v : UInt8) (h : (e, v) ∈ simpleEscapes) (tail : Bytes) :
    unqStep (0x5c :: e :: tail) = .cont [v] 2 none := by
  simp only [simpleEscapes, List.mem_cons, Prod.mk.injEq, List.not_mem_nil, or_false] at h
  rw [unqStep_backslash]
  rcases h with ⟨rfl, rfl⟩ | ⟨rfl, rfl⟩ | ⟨rfl, rfl⟩ | ⟨rfl, rfl⟩ | ⟨rfl, rfl⟩ | ⟨rfl, rfl⟩ | ⟨rfl, rfl⟩ | ⟨rfl, rfl⟩ <;>
    simp [unqEscape]

theorem unqStep_unicode (a b c d : UInt8) (v : Nat) (h : hex4 a b c d = some v) (hs : isSurrogate v = false) (tail : Bytes) :
    unqStep (0x5c :: 0x75 :: a :: b :: c :: d :: tail) = .cont (encodeRune v) 6 none := by
  rw [unqStep_backslash]
  simp [unqEscape, unqEscapeU, parseHex_eq_hex4, h, hs]

theorem unqStep_pair (a b c d a' b' c' d' : UInt8) (hi lo : Nat) (h1 : hex4 a b c d = some hi) (h2 : hex4 a' b' c' d' = some lo)
    (hh : isHighSurrogate hi = true) (hl : isLowSurrogate lo = true) (tail : Bytes) :
    unqStep (0x5c :: 0x75 :: a :: b :: c :: d :: 0x5c :: 0x75 :: a' :: b' :: c' :: d' :: tail) =
      .cont (encodeRune (0x10000 + (hi - 0xD800) * 0x400 + (lo - 0xDC00))) 12 none := by
  rw [unqStep_backslash]
  have hs : isSurrogate hi = true := by
    simp only [isHighSurrogate, isSurrogate, Bool.and_eq_true, decide_eq_true_eq] at hh ⊢; omega
  have hr : utf16DecodeRune hi lo = 0x10000 + (hi - 0xD800) * 0x400 + (lo - 0xDC00) := by
    simp only [utf16DecodeRune, hh, hl, Bool.and_self, ↓reduceIte]; omega
  have hne : ¬ (0x10000 + (hi - 0xD800) * 0x400 + (lo - 0xDC00) = runeError) := by simp only [runeError]; omega
  simp [unqEscape, unqEscapeU, unqSurrogate, parseHex_eq_hex4, h1, h2, hs, hr, hne]

theorem unqStep_unescaped (p : Bytes) (r : Nat) (hd : decodeRune p = (r, p.length)) (hp : p ≠ [])
    (hi : illFormedHead p = false) (h20 : 0x20 ≤ r) (hq : r ≠ 0x22) (hb : r ≠ 0x5c) (tail : Bytes) :
    unqStep (p ++ tail) = .cont p p.length none := by
  match p, hp with
  | c :: t, _ =>
    by_cases h0 : c.toNat < runeSelf
    · rw [decodeRune_ascii c t h0] at hd
      have hlen : t = [] := by
        have : (c :: t).length = 1 := by injection hd with _ h2; exact h2.symm
        simpa using this
      have hr : r = c.toNat := by injection hd with h1 _; exact h1.symm
      subst hlen; subst hr
      have : noEscape c.toNat = true := by
        simp only [noEscape, Bool.and_eq_true, decide_eq_true_eq, ne_eq]
        exact ⟨⟨⟨h0, h20⟩, hb⟩, hq⟩
      simpa using unqStep_plain c tail this
    · rcases decodeRune_high c t h0 with h1 | h1
      · have h2 : (decodeRune (c :: t)).2 = (c :: t).length := by rw [hd]
        have := unqStep_multi c t tail h0 h1
        rw [h2, List.take_length] at this
        exact this
      · simp [illFormedHead, h1] at hi

theorem unqLoop_meaning {body m : Bytes} (h : Unescapes body m) (e : Err) : unqLoop (body ++ [0x22]) e = (m, e) := by
  induction h with
  | nil => simpa using unqLoop_close e
  | @unescaped p rest m r hd hp hi h20 hq hb _ ih =>
    rw [List.append_assoc, unqLoop_cont e (unqStep_unescaped p r hd hp hi h20 hq hb _)]
    simp [ih]
  | @simple e' v rest m hmem _ ih =>
    rw [List.cons_append, List.cons_append, unqLoop_cont e (unqStep_simple e' v hmem _)]
    simp [ih]
  | @unicode a b c d v rest m h4 hs _ ih =>
    simp only [List.cons_append]
    rw [unqLoop_cont e (unqStep_unicode a b c d v h4 hs _)]
    simp [ih]
  | @pair a b c d a' b' c' d' hi lo rest m h1 h2 hh hl _ ih =>
    simp only [List.cons_append]
    rw [unqLoop_cont e (unqStep_pair a b c d a' b' c' d' hi lo h1 h2 hh hl _)]
    simp [ih]

theorem appendUnquote_meaning (lit m : Bytes) (h : StringLiteral lit m) : appendUnquote lit = (m, Err.ok) := by
  obtain ⟨body, rfl, hb⟩ := h
  simp only [appendUnquote, ↓reduceIte]
  exact unqLoop_meaning hb Err.ok

end JsonV.Lemmas.QuoteMeaning
