/-
ISO 8601 durations, part 3: the writer's shape, the parser on that shape, and the round trip for every int64.
Core Lean only.
-/
import JsonV.Lemmas.TimeISOParts

namespace JsonV.Model.Time
open JsonV

/-! ### the accurate-units block on the writer's components -/

theorem parseTimePart_parts (ff : FloatFrac) (h m s ns : Nat) (hns : ns < 1000000000)
    (hne : (hPart h ++ (mPart m ++ sPart s ns)).length > 0)
    (hsum : h * hourNs + m * minuteNs + ns + s * secondNs < U64) :
    ∃ sf, parseTimePart ff (cleanSt 0 false) (hPart h ++ (mPart m ++ sPart s ns))
      = cleanSt (h * hourNs + m * minuteNs + ns + s * secondNs) sf := by
  have hh : h < U64 := by simp only [hourNs] at hsum; omega
  have hm : m < U64 := by simp only [minuteNs] at hsum; omega
  have hs : s < U64 := by simp only [secondNs] at hsum; omega
  have s1 := step_H ff 0 h (mPart m ++ sPart s ns) (ms_avoid_H m s ns) (by omega) hh
  have s2 := step_M ff (0 + h * hourNs) m (sPart s ns) (s_avoid_M s ns) (by omega) hm
  obtain ⟨sf, s3⟩ := step_S ff (0 + h * hourNs + m * minuteNs) s ns hns (by omega) hs
  refine ⟨sf, ?_⟩
  unfold parseTimePart
  rw [if_pos hne]
  simp only [s1, s2, s3]
  simp [cleanSt]

/-- the block on "0S" (the zero duration). -/
theorem parseTimePart_zero (ff : FloatFrac) :
    parseTimePart ff (cleanSt 0 false) (natDigits 0 ++ 83 :: []) = cleanSt 0 false := by
  have hav : ∀ (a b : UInt8), (a.toNat < 48 ∨ 57 < a.toNat) → (b.toNat < 48 ∨ 57 < b.toNat) → (83 : UInt8) ≠ a → (83 : UInt8) ≠ b →
      ∀ c ∈ natDigits 0 ++ 83 :: [], c ≠ a ∧ c ≠ b := by
    intro a b ha hb h1 h2 c hc
    rcases List.mem_append.mp hc with h | h
    · exact digits_avoid (natDigits_allDigits 0) ha hb c h
    · have := List.mem_singleton.mp h; subst this; exact ⟨h1, h2⟩
  have s1 := mayParseUnit_absent ff (cleanSt 0 false) (natDigits 0 ++ 83 :: []) 72 104 hourNs
    (hav 72 104 (by decide) (by decide) (by decide) (by decide))
  have s2 := mayParseUnit_absent ff (cleanSt 0 false) (natDigits 0 ++ 83 :: []) 77 109 minuteNs
    (hav 77 109 (by decide) (by decide) (by decide) (by decide))
  have s3 := mayParseUnit_whole ff 0 0 [] 83 115 secondNs (by decide) (by decide) (by decide) (by decide) (by decide)
  unfold parseTimePart
  rw [if_pos (by simp)]
  simp only [s1, s2, s3]
  simp [cleanSt]

/-! ### the whole parser on `[-]PT<body>` -/

theorem consumeSign_P (rest : Bytes) : consumeSign (80 :: rest) true = (80 :: rest, false) := by
  have h1 : (80 : UInt8) ≠ cMinus := by decide
  have h2 : (80 : UInt8) ≠ cPlus := by decide
  simp [consumeSign, h1, h2]

theorem parseISO_shape (ff : FloatFrac) (neg : Bool) (body : Bytes) (hne : body.length > 0) :
    parseDurationISO8601 ff ((if neg then [cMinus] else []) ++ 80 :: 84 :: body)
      = isoFinish (parseTimePart ff (cleanSt 0 false) body) neg := by
  have hcs : consumeSign ((if neg then [cMinus] else []) ++ 80 :: 84 :: body) true = (80 :: 84 :: body, neg) := by
    cases neg with
    | true => simp only [if_true]; exact consumeSign_minus _ _
    | false => simp only [Bool.false_eq_true, if_false, List.nil_append]; exact consumeSign_P _
  have hP := cutBytes_head 80 112 (84 :: body)
  have hT := cutBytes_head 84 116 body
  have hb : body ≠ [] := by intro e; rw [e] at hne; simp at hne
  have hlen : decide (body.length = 0) = false := by simp [hb]
  have hlen2 : decide (([] : Bytes).length + body.length = 0) = false := by simp [hb]
  have hdate : ∀ st, parseDatePart ff st [] = st := by intro st; simp [parseDatePart]
  unfold parseDurationISO8601
  simp only [hcs, hP, hT, hdate, hlen, hlen2]
  rfl

theorem isoFinish_natAbs (d : Int) (h0 : -9223372036854775808 ≤ d) (h1 : d < 9223372036854775808) (sf : Bool) :
    isoFinish (cleanSt d.natAbs sf) (decide (d < 0)) = (d, none, false) := by
  unfold isoFinish cleanSt
  simp only [mayApply_natAbs d h0 h1]
  simp

/-! ### the writer -/

theorem appendISO_shape (d : Int) (h0 : -9223372036854775808 ≤ d) (h1 : d < 9223372036854775808) (hd : d ≠ 0) :
    appendDurationISO8601 [] d = (if decide (d < 0) then [cMinus] else []) ++ 80 :: 84 ::
      (hPart (d.natAbs / 1000000000 / 60 / 60) ++ (mPart (d.natAbs / 1000000000 / 60 % 60) ++
        sPart (d.natAbs / 1000000000 % 60) (d.natAbs % 1000000000))) := by
  have hfr : d.natAbs % 1000000000 < 10 ^ 9 := by
    have : (10 : Nat) ^ 9 = 1000000000 := by decide
    rw [this]; exact Nat.mod_lt _ (by decide)
  unfold appendDurationISO8601
  rw [if_neg hd, mayAppend_spec [] d h0 h1]
  simp only [div64, Nat.zero_mul, Nat.zero_add]
  have hfrac : ∀ b, appendFracBase10 b (d.natAbs % 1000000000) 1000000000 = b ++ fracText 9 (d.natAbs % 1000000000) := by
    intro b
    have := appendFrac_eq' b 9 _ hfr
    have e : (10 : Nat) ^ 9 = 1000000000 := by decide
    rw [e] at this; exact this
  simp only [hfrac]
  unfold hPart mPart sPart
  by_cases hn : d < 0 <;> by_cases hh : d.natAbs / 1000000000 / 60 / 60 > 0 <;>
    by_cases hm : d.natAbs / 1000000000 / 60 % 60 > 0 <;>
    by_cases hs : (d.natAbs / 1000000000 % 60 > 0 ∨ d.natAbs % 1000000000 > 0) <;>
    simp [hn, hh, hm, hs]

/-- `durISO_rt`: for every int64 `d`, whatever the float-branch parameter (the writer never emits a fraction
of an hour or a minute, so the parser never enters that branch). -/
theorem durISO_roundtrip (ff : FloatFrac) (d : Int) (h0 : -9223372036854775808 ≤ d) (h1 : d < 9223372036854775808) :
    parseDurationISO8601 ff (appendDurationISO8601 [] d) = (d, none, false) := by
  by_cases hd : d = 0
  · subst hd
    have e : appendDurationISO8601 [] 0 = (if false then [cMinus] else []) ++ 80 :: 84 :: (natDigits 0 ++ 83 :: []) := by
      have : natDigits 0 = [48] := by rw [natDigits_lt (by decide)]; rfl
      rw [this]; simp [appendDurationISO8601]
    rw [e, parseISO_shape ff false _ (by simp), parseTimePart_zero]
    exact isoFinish_natAbs 0 (by decide) (by decide) false
  · rw [appendISO_shape d h0 h1 hd]
    have hsumEq : (d.natAbs / 1000000000 / 60 / 60) * hourNs + (d.natAbs / 1000000000 / 60 % 60) * minuteNs
        + d.natAbs % 1000000000 + (d.natAbs / 1000000000 % 60) * secondNs = d.natAbs := by
      simp only [hourNs, minuteNs, secondNs]; omega
    have hne : (hPart (d.natAbs / 1000000000 / 60 / 60) ++ (mPart (d.natAbs / 1000000000 / 60 % 60) ++
        sPart (d.natAbs / 1000000000 % 60) (d.natAbs % 1000000000))).length > 0 := by
      have hpos : 0 < d.natAbs := by omega
      have hnd : ∀ x, 0 < (natDigits x).length := by
        intro x
        cases hx : natDigits x with
        | nil => exact absurd hx (natDigits_ne_nil x)
        | cons _ _ => simp
      unfold hPart mPart sPart
      by_cases hh : d.natAbs / 1000000000 / 60 / 60 > 0
      · have := hnd (d.natAbs / 1000000000 / 60 / 60); simp [hh]; omega
      · by_cases hm : d.natAbs / 1000000000 / 60 % 60 > 0
        · have := hnd (d.natAbs / 1000000000 / 60 % 60); simp [hh, hm]; omega
        · have hs : d.natAbs / 1000000000 % 60 > 0 ∨ d.natAbs % 1000000000 > 0 := by omega
          have := hnd (d.natAbs / 1000000000 % 60)
          simp [hh, hm, hs]; omega
    obtain ⟨sf, hp⟩ := parseTimePart_parts ff _ _ _ _ (Nat.mod_lt _ (by decide)) hne
      (by rw [hsumEq]; simp only [U64]; omega)
    rw [parseISO_shape ff (decide (d < 0)) _ hne, hp, hsumEq]
    exact isoFinish_natAbs d h0 h1 sf

end JsonV.Model.Time
