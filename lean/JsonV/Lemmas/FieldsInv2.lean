/-
Second invariant of the search: index paths are pairwise different (in the history and in `allFields`),
every queued entry is the child of a handled field, `allFields` is ordered by depth, and every handled
declaration is well-formed (`GoodDecl`, from the absence of errors).
-/
import JsonV.Lemmas.FieldsInvStep

set_option linter.unusedSimpArgs false

namespace JsonV.Lemmas.Fields
open JsonV JsonV.Model JsonV.Model.Fields JsonV.Spec.FieldRule

/-- Field `j` of struct `sid` is an embedded fallback (for the model). -/
def Fb (g : Graph) (sid : StructId) (j : Nat) : Prop := ∃ d, FieldAt g sid j d ∧ ∃ o, actOf d = .fallback o

structure Inv2 (g : Graph) (P R : List QE) (cur : Option (QE × Nat)) (s : St) : Prop where
  histND : ((hist P R s).map (·.index)).Nodup
  queueS : ∀ e' ∈ s.queue, ∃ e j, Done P cur e j ∧ e'.index = e.index ++ [j]
  allND : (s.all.map (·.index)).Nodup
  allSorted : s.all.Pairwise (fun a b => a.depth ≤ b.depth)
  good : ∀ e j d, Done P cur e j → FieldAt g e.sid j d → GoodDecl d
  fbS : ∀ f ∈ s.fbs, ∃ e j, Done P cur e j ∧ Fb g e.sid j ∧ f.index = e.index ++ [j]
  fbC : ∀ e j, Done P cur e j → Fb g e.sid j → ∃ f ∈ s.fbs, f.index = e.index ++ [j]
  fbND : (s.fbs.map (·.index)).Nodup
  fbSorted : s.fbs.Pairwise (fun a b => a.depth ≤ b.depth)

variable {g : Graph} {root : StructId} {k : Nat} {P R' : List QE} {qe : QE} {i : Nat} {d : FieldDecl} {s : St}

theorem Inv2.congr {P R cur} {s s' : St} (h : Inv2 g P R cur s)
    (hq : s'.queue = s.queue) (ha : s'.all = s.all) (hb : s'.fbs = s.fbs) : Inv2 g P R cur s' := by
  have hh : hist P R s' = hist P R s := by simp [hist, hq]
  exact ⟨by rw [hh]; exact h.histND, by rw [hq]; exact h.queueS, by rw [ha]; exact h.allND, by rw [ha]; exact h.allSorted, h.good,
    by rw [hb]; exact h.fbS, by rw [hb]; exact h.fbC, by rw [hb]; exact h.fbND, by rw [hb]; exact h.fbSorted⟩

theorem Inv2.orErr {P R cur} {s : St} (h : Inv2 g P R cur s) (e : Option Err) : Inv2 g P R cur (s.orErr e) := by
  apply h.congr <;> (unfold St.orErr; split <;> rfl)

theorem append_singleton_inj {α} {a b : List α} {x y : α} (h : a ++ [x] = b ++ [y]) : a = b ∧ x = y := by
  have := List.append_inj' h rfl
  exact ⟨this.1, by simpa using this.2⟩

/-- No handled field has the index path of the field being handled now. -/
theorem fresh (_h : Inv g root k P (qe :: R') (some (qe, i)) s) (h2 : Inv2 g P (qe :: R') (some (qe, i)) s)
    {e : QE} {j : Nat} (hd : Done P (some (qe, i)) e j) : e.index ++ [j] ≠ qe.index ++ [i] := by
  intro heq
  obtain ⟨h1, h3⟩ := append_singleton_inj heq
  rcases hd with hd | ⟨i', hc, hj⟩
  · have hnd := h2.histND
    have hsplit : hist P (qe :: R') s = P ++ (qe :: (R' ++ s.queue)) := by simp [hist]
    rw [hsplit, List.map_append, List.nodup_append] at hnd
    exact hnd.2.2 _ (List.mem_map.mpr ⟨e, hd, rfl⟩) _ (List.mem_map.mpr ⟨qe, List.mem_cons_self .., rfl⟩) h1
  · simp only [Option.some.injEq, Prod.mk.injEq] at hc
    omega

theorem Inv.all_depth_le (h : Inv g root k P (qe :: R') (some (qe, i)) s) : ∀ f ∈ s.all, f.depth ≤ k + 1 := by
  intro f hf
  obtain ⟨e, j, hd, _, hi⟩ := h.allS f hf
  have hk : qe.index.length = k := h.depthR qe (List.mem_cons_self ..)
  unfold RField.depth
  rw [hi]
  rcases hd with hd | ⟨i', hc, _⟩
  · have := h.depthP e hd; simp; omega
  · simp only [Option.some.injEq, Prod.mk.injEq] at hc
    rw [← hc.1]; simp; omega

theorem Inv2.step_same (h : Inv g root k P (qe :: R') (some (qe, i)) s) (h2 : Inv2 g P (qe :: R') (some (qe, i)) s)
    (hf : FieldAt g qe.sid i d) (hgd : GoodDecl d)
    (s' : St) (hq : s'.queue = s.queue)
    (ha : s'.all = s.all ∨ ∃ o, s'.all = s.all ++ [{ id := s.all.length, index := qe.index ++ [i], opts := o }])
    (hb : ((∀ o, actOf d ≠ .fallback o) ∧ s'.fbs = s.fbs) ∨
          ∃ o, actOf d = .fallback o ∧ s'.fbs = s.fbs ++ [{ id := 0, index := qe.index ++ [i], opts := o }]) :
    Inv2 g P (qe :: R') (some (qe, i + 1)) s' := by
  have hh : hist P (qe :: R') s' = hist P (qe :: R') s := by simp [hist, hq]
  have hk : qe.index.length = k := h.depthR qe (List.mem_cons_self ..)
  have fb_depth : ∀ f ∈ s.fbs, f.depth ≤ k + 1 := by
    intro f hfm
    obtain ⟨e, j, hd, _, hi⟩ := h2.fbS f hfm
    unfold RField.depth
    rw [hi]
    rcases hd with hd | ⟨i', hc, _⟩
    · have := h.depthP e hd; simp; omega
    · simp only [Option.some.injEq, Prod.mk.injEq] at hc
      rw [← hc.1]; simp; omega
  refine ⟨by rw [hh]; exact h2.histND, ?_, ?_, ?_, ?_, ?_, ?_, ?_, ?_⟩
  · intro e' he'
    rw [hq] at he'
    obtain ⟨e, j, hd, hi⟩ := h2.queueS e' he'
    exact ⟨e, j, done_mono hd, hi⟩
  · rcases ha with ha | ⟨o, ha⟩ <;> rw [ha]
    · exact h2.allND
    · rw [List.map_append, List.nodup_append]
      refine ⟨h2.allND, by simp, ?_⟩
      intro a ha' b hb
      simp only [List.map_cons, List.map_nil, List.mem_singleton] at hb
      obtain ⟨f, hfm, rfl⟩ := List.mem_map.mp ha'
      obtain ⟨e, j, hd, _, hi⟩ := h.allS f hfm
      rw [hb, hi]
      exact fresh h h2 hd
  · rcases ha with ha | ⟨o, ha⟩ <;> rw [ha]
    · exact h2.allSorted
    · rw [List.pairwise_append]
      refine ⟨h2.allSorted, List.pairwise_singleton _ _, ?_⟩
      intro a ha' b hb
      rw [List.mem_singleton.mp hb]
      have := h.all_depth_le a ha'
      simp [RField.depth, hk]; unfold RField.depth at this; omega
  · intro e j d' hd hf'
    rcases done_succ hd with hd | ⟨rfl, rfl⟩
    · exact h2.good e j d' hd hf'
    · unfold FieldAt at hf hf'
      rw [hf] at hf'; cases hf'; exact hgd
  · intro f hfm
    rcases hb with ⟨_, hb⟩ | ⟨o, ho, hb⟩
    · rw [hb] at hfm
      obtain ⟨e, j, hd, hfb, hi⟩ := h2.fbS f hfm
      exact ⟨e, j, done_mono hd, hfb, hi⟩
    · rw [hb] at hfm
      rcases List.mem_append.mp hfm with hfm | hfm
      · obtain ⟨e, j, hd, hfb, hi⟩ := h2.fbS f hfm
        exact ⟨e, j, done_mono hd, hfb, hi⟩
      · rw [List.mem_singleton.mp hfm]
        exact ⟨qe, i, Or.inr ⟨i + 1, rfl, Nat.lt_succ_self i⟩, ⟨d, hf, o, ho⟩, rfl⟩
  · intro e j hd hfb
    rcases done_succ hd with hd | ⟨rfl, rfl⟩
    · obtain ⟨f, hfm, hi⟩ := h2.fbC e j hd hfb
      refine ⟨f, ?_, hi⟩
      rcases hb with ⟨_, hb⟩ | ⟨_, _, hb⟩ <;> rw [hb]
      · exact hfm
      · exact List.mem_append_left _ hfm
    · obtain ⟨d', hf', o', ho'⟩ := hfb
      unfold FieldAt at hf hf'
      rw [hf] at hf'; cases hf'
      rcases hb with ⟨hno, _⟩ | ⟨o, _, hb⟩
      · exact absurd ho' (hno o')
      · exact ⟨_, by rw [hb]; exact List.mem_append_right _ (List.mem_singleton.mpr rfl), rfl⟩
  · rcases hb with ⟨_, hb⟩ | ⟨o, _, hb⟩ <;> rw [hb]
    · exact h2.fbND
    · rw [List.map_append, List.nodup_append]
      refine ⟨h2.fbND, by simp, ?_⟩
      intro a ha' b hb'
      simp only [List.map_cons, List.map_nil, List.mem_singleton] at hb'
      obtain ⟨f, hfm, rfl⟩ := List.mem_map.mp ha'
      obtain ⟨e, j, hd, _, hi⟩ := h2.fbS f hfm
      rw [hb', hi]
      exact fresh h h2 hd
  · rcases hb with ⟨_, hb⟩ | ⟨o, _, hb⟩ <;> rw [hb]
    · exact h2.fbSorted
    · rw [List.pairwise_append]
      refine ⟨h2.fbSorted, List.pairwise_singleton _ _, ?_⟩
      intro a ha' b hb'
      rw [List.mem_singleton.mp hb']
      have := fb_depth a ha'
      simp [RField.depth, hk]; unfold RField.depth at this; omega

theorem Inv2.step_enqueue_visit (h : Inv g root k P (qe :: R') (some (qe, i)) s) (h2 : Inv2 g P (qe :: R') (some (qe, i)) s)
    (hf : FieldAt g qe.sid i d) (hgd : GoodDecl d) {t : StructId} (ha : actOf d = .enqueue t) (hv : qe.visit = true) :
    Inv2 g P (qe :: R') (some (qe, i + 1)) (applyAction qe i (.enqueue t) s) := by
  let enew : QE := { sid := t, index := qe.index ++ [i], visit := !s.seen.contains t }
  have hq : (applyAction qe i (.enqueue t) s).queue = s.queue ++ [enew] := by simp [applyAction, hv, enew]
  have hall : (applyAction qe i (.enqueue t) s).all = s.all := by simp [applyAction, hv]
  have hh : hist P (qe :: R') (applyAction qe i (.enqueue t) s) = hist P (qe :: R') s ++ [enew] := by
    simp [hist, hq]
  have hk : qe.index.length = k := h.depthR qe (List.mem_cons_self ..)
  have hfbs : (applyAction qe i (.enqueue t) s).fbs = s.fbs := by simp [applyAction, hv]
  refine ⟨?_, ?_, by rw [hall]; exact h2.allND, by rw [hall]; exact h2.allSorted, ?_, ?_, ?_,
    by rw [hfbs]; exact h2.fbND, by rw [hfbs]; exact h2.fbSorted⟩
  · rw [hh, List.map_append, List.nodup_append]
    refine ⟨h2.histND, by simp, ?_⟩
    intro a ha b hb
    simp only [List.map_cons, List.map_nil, List.mem_singleton] at hb
    obtain ⟨e', he', rfl⟩ := List.mem_map.mp ha
    rw [hb]
    intro heq
    -- e' has length k+1, so it sits in the queue
    have hlen : e'.index.length = k + 1 := by rw [heq]; simp [enew, hk]
    simp only [hist, List.mem_append] at he'
    rcases he' with (he' | he') | he'
    · have := h.depthP e' he'; omega
    · have := h.depthR e' he'; omega
    · obtain ⟨e, j, hd, hi⟩ := h2.queueS e' he'
      exact fresh h h2 hd (hi ▸ heq)
  · intro e' he'
    rw [hq] at he'
    rcases List.mem_append.mp he' with he' | he'
    · obtain ⟨e, j, hd, hi⟩ := h2.queueS e' he'
      exact ⟨e, j, done_mono hd, hi⟩
    · rw [List.mem_singleton.mp he']
      exact ⟨qe, i, Or.inr ⟨i + 1, rfl, Nat.lt_succ_self i⟩, rfl⟩
  · intro e j d' hd hf'
    rcases done_succ hd with hd | ⟨rfl, rfl⟩
    · exact h2.good e j d' hd hf'
    · unfold FieldAt at hf hf'
      rw [hf] at hf'; cases hf'; exact hgd
  · intro f hfm
    rw [hfbs] at hfm
    obtain ⟨e, j, hd, hfb, hi⟩ := h2.fbS f hfm
    exact ⟨e, j, done_mono hd, hfb, hi⟩
  · intro e j hd hfb
    rw [hfbs]
    rcases done_succ hd with hd | ⟨rfl, rfl⟩
    · exact h2.fbC e j hd hfb
    · obtain ⟨d', hf', o', ho'⟩ := hfb
      unfold FieldAt at hf hf'
      rw [hf] at hf'; cases hf'
      rw [ha] at ho'; cases ho'

/-- One field, both invariants. -/
theorem step_both (h : Inv g root k P (qe :: R') (some (qe, i)) s) (h2 : Inv2 g P (qe :: R') (some (qe, i)) s)
    (hf : FieldAt g qe.sid i d) (hgd : GoodDecl d) :
    Inv g root k P (qe :: R') (some (qe, i + 1)) (applyAction qe i (actOf d) s) ∧
    Inv2 g P (qe :: R') (some (qe, i + 1)) (applyAction qe i (actOf d) s) := by
  cases ha : actOf d with
  | skip =>
    exact ⟨h.step_same hf _ rfl rfl (fun t ht => by rw [ha] at ht; cases ht) (Or.inl ⟨fun o ho => (by rw [ha] at ho; cases ho), rfl⟩),
      h2.step_same h hf hgd _ rfl (Or.inl rfl) (Or.inl ⟨fun o ho => (by rw [ha] at ho; cases ho), rfl⟩)⟩
  | fallback o =>
    exact ⟨h.step_same hf _ rfl rfl (fun t ht => by rw [ha] at ht; cases ht) (Or.inl ⟨fun o ho => (by rw [ha] at ho; cases ho), rfl⟩),
      h2.step_same h hf hgd _ rfl (Or.inl rfl) (Or.inr ⟨o, ha, rfl⟩)⟩
  | field o =>
    exact ⟨h.step_same hf _ rfl rfl (fun t ht => by rw [ha] at ht; cases ht) (Or.inr ⟨o, ha, rfl⟩),
      h2.step_same h hf hgd _ rfl (Or.inr ⟨o, rfl⟩) (Or.inl ⟨fun o ho => (by rw [ha] at ho; cases ho), rfl⟩)⟩
  | enqueue t =>
    cases hv : qe.visit with
    | true => exact ⟨h.step_enqueue_visit hgd hf ha hv, h2.step_enqueue_visit h hf hgd ha hv⟩
    | false =>
      refine ⟨h.step_enqueue_novisit hf ha hv, h2.step_same h hf hgd _ ?_ (Or.inl ?_)
        (Or.inl ⟨fun o ho => (by rw [ha] at ho; cases ho), ?_⟩)⟩ <;> simp [applyAction, hv]

end JsonV.Lemmas.Fields
