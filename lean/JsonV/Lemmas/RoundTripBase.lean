/-
Helper lemmas for the L3 round trip (C04L3), part 1: integer literals, the member order of
Deterministic maps, an induction principle for `GoVal`, and the generic element/member loops.
-/
import JsonV.Model.Marshal
import JsonV.Lemmas.MergeClauses
import JsonV.Lemmas.TimeUint

namespace JsonV.Lemmas.RoundTrip
open JsonV JsonV.Spec JsonV.Model JsonV.Lemmas.Merge

/-! ### Integer literals: `strconv.AppendInt/AppendUint` then the int/uint arshalers' parse -/

theorem isDigit_eq : Model.isDigit = Time.isDigit := by funext c; rfl

theorem parseNat_natDigits (n : Nat) : parseNat (Time.natDigits n) = some n := by
  unfold parseNat
  have h1 : (Time.natDigits n).isEmpty = false := by
    cases h : Time.natDigits n with
    | nil => exact absurd h (Time.natDigits_ne_nil n)
    | cons a r => rfl
  have h2 : (Time.natDigits n).all Model.isDigit = true := by
    rw [isDigit_eq]; exact Time.natDigits_allDigits n
  have h3 : ((Time.natDigits n).head? == some 0x30 && Time.natDigits n != [0x30]) = false := by
    have := Time.natDigits_head_ok n
    cases hh : ((Time.natDigits n).head? == some 0x30 && Time.natDigits n != [0x30]) with
    | false => rfl
    | true =>
      exfalso
      apply this
      simp only [Bool.and_eq_true, beq_iff_eq, bne_iff_ne] at hh
      exact ⟨hh.1, hh.2⟩
  rw [h1, h2, h3]
  simp only [Bool.not_true, Bool.or_self, Bool.false_eq_true, if_false, Option.some.injEq]
  exact Time.decValue_natDigits n

theorem natDigits_head_ne_minus (n : Nat) : ((Time.natDigits n).head? == some 0x2d) = false := by
  have hall := Time.natDigits_allDigits n
  cases h : Time.natDigits n with
  | nil => rfl
  | cons a r =>
    rw [h] at hall
    simp only [List.all_cons, Bool.and_eq_true] at hall
    have ha := (Time.isDigit_iff a).1 hall.1
    simp only [List.head?_cons]
    cases hb : (some a == some (0x2d : UInt8)) with
    | false => rfl
    | true =>
      simp only [beq_iff_eq, Option.some.injEq] at hb
      subst hb
      exact absurd ha.1 (by decide)

theorem unmUint_natDigits (b n : Nat) (h : n < 2 ^ b) : unmUint b (.num (Time.natDigits n)) = .ok (.uint n) := by
  simp only [unmUint, parseNat_natDigits]
  have : ¬ n > 2 ^ b - 1 := by omega
  simp [this]

theorem unmInt_intDigits (b : Nat) (i : Int) (h0 : -(2 ^ (b - 1) : Int) ≤ i) (h1 : i < (2 ^ (b - 1) : Int)) :
    unmInt b (.num (Time.intDigits i)) = .ok (.int i) := by
  have hcast : (2 ^ (b - 1) : Int) = ((2 ^ (b - 1) : Nat) : Int) := by simp
  rw [hcast] at h0 h1
  have hpos : 0 < 2 ^ (b - 1) := Nat.pos_of_ne_zero (by simp)
  generalize hp : 2 ^ (b - 1) = p at h0 h1 hpos
  unfold Time.intDigits
  by_cases hn : i < 0
  · rw [if_pos hn]
    have hm : ((Time.cMinus :: Time.natDigits (-i).toNat).head? == some 0x2d) = true := rfl
    simp only [unmInt, hm, if_true, List.drop_one, List.tail_cons, parseNat_natDigits, hp]
    have hc : ¬ ((-i).toNat > p) := by omega
    simp only [Bool.true_and, Bool.not_true, Bool.false_and, Bool.or_false, decide_eq_true_eq, hc, if_false]
    congr 2
    omega
  · rw [if_neg hn]
    simp only [unmInt, natDigits_head_ne_minus, Bool.false_eq_true, if_false, parseNat_natDigits, hp]
    have hc : ¬ (i.toNat > p - 1) := by omega
    simp only [Bool.false_and, Bool.not_false, Bool.true_and, Bool.false_or, decide_eq_true_eq, hc, if_false]
    congr 2
    omega

/-! ### Member order -/

section SortSec
variable {α : Type}

theorem keyLe_trans (a b c : Bytes × α) (h1 : keyLe a b = true) (h2 : keyLe b c = true) : keyLe a c = true := by
  simp only [keyLe, decide_eq_true_eq] at *
  exact List.le_trans h1 h2

theorem keyLe_total (a b : Bytes × α) : (keyLe a b || keyLe b a) = true := by
  simp only [keyLe, Bool.or_eq_true, decide_eq_true_eq]
  exact List.le_total a.1 b.1

theorem sortMembers_perm (ms : List (Bytes × α)) : (sortMembers ms).Perm ms := List.mergeSort_perm ms keyLe

theorem sortMembers_pairwise (ms : List (Bytes × α)) :
    (sortMembers ms).Pairwise (fun a b => keyLe a b = true) :=
  List.pairwise_mergeSort keyLe_trans keyLe_total ms

theorem sortMembers_idem (ms : List (Bytes × α)) : sortMembers (sortMembers ms) = sortMembers ms :=
  List.mergeSort_of_pairwise (sortMembers_pairwise ms)

theorem mem_sortMembers {ms : List (Bytes × α)} {p : Bytes × α} : p ∈ sortMembers ms ↔ p ∈ ms :=
  (sortMembers_perm ms).mem_iff

theorem akeys_sortMembers_perm (ms : List (Bytes × α)) : (akeys (sortMembers ms)).Perm (akeys ms) :=
  (sortMembers_perm ms).map Prod.fst

theorem nodup_sortMembers {ms : List (Bytes × α)} (h : (akeys ms).Nodup) : (akeys (sortMembers ms)).Nodup :=
  (akeys_sortMembers_perm ms).nodup_iff.2 h

theorem mem_akeys_sortMembers {ms : List (Bytes × α)} {k : Bytes} : k ∈ akeys (sortMembers ms) ↔ k ∈ akeys ms :=
  (akeys_sortMembers_perm ms).mem_iff

end SortSec

/-! ### Induction on values -/

theorem GoVal.induct {P : GoVal → Prop}
    (hbool : ∀ b, P (.bool b)) (hint : ∀ i, P (.int i)) (huint : ∀ n, P (.uint n))
    (hfloat : ∀ l, P (.float l)) (hstr : ∀ s, P (.str s)) (hnilSlice : P .nilSlice)
    (hslice : ∀ vs, (∀ v ∈ vs, P v) → P (.sliceOf vs)) (harray : ∀ vs, (∀ v ∈ vs, P v) → P (.arrayOf vs))
    (hnilMap : P .nilMap) (hmap : ∀ ms : List (Bytes × GoVal), (∀ k v, (k, v) ∈ ms → P v) → P (.mapOf ms))
    (hnilPtr : P .nilPtr) (hptr : ∀ v, P v → P (.ptrTo v))
    (hstruct : ∀ fvs : List (Bytes × GoVal), (∀ k v, (k, v) ∈ fvs → P v) → P (.structOf fvs))
    (hnilIface : P .nilIface) (hiface : ∀ v, P v → P (.ifaceOf v)) : ∀ v, P v := by
  intro v
  refine GoVal.rec (motive_1 := P) (motive_2 := fun vs => ∀ v ∈ vs, P v)
    (motive_3 := fun ms => ∀ k v, (k, v) ∈ ms → P v) (motive_4 := fun p => P p.2)
    hbool hint huint hfloat hstr hnilSlice hslice harray hnilMap hmap hnilPtr hptr hstruct hnilIface hiface
    ?_ ?_ ?_ ?_ ?_ v
  · intro x hx; cases hx
  · intro h t ih1 ih2 x hx
    cases List.mem_cons.1 hx with
    | inl e => exact e ▸ ih1
    | inr e => exact ih2 x e
  · intro n x hx; cases hx
  · intro h t ih1 ih2 n x hx
    cases List.mem_cons.1 hx with
    | inl e => subst e; exact ih1
    | inr e => exact ih2 n x e
  · intro _ _ ih; exact ih

/-! ### List forms of the recursive predicates -/

theorem allB_iff {α : Type} (p : α → Bool) (l : List α) : allB p l = true ↔ ∀ a ∈ l, p a = true := by
  induction l with
  | nil => simp [allB]
  | cons a r ih => simp [allB, ih]

theorem safeL_iff (o : MOpts) (vs : List GoVal) : safeL o vs = true ↔ ∀ v ∈ vs, safe o v = true := by
  induction vs with
  | nil => simp [safeL]
  | cons a r ih => simp [safeL, ih]

theorem safeM_iff (o : MOpts) (ms : List (Bytes × GoVal)) :
    safeM o ms = true ↔ ∀ k v, (k, v) ∈ ms → safe o v = true := by
  induction ms with
  | nil => simp [safeM]
  | cons p r ih =>
    obtain ⟨k, y⟩ := p
    simp only [safeM, Bool.and_eq_true, ih, List.mem_cons, Prod.mk.injEq]
    constructor
    · rintro ⟨h1, h2⟩ n x (⟨rfl, rfl⟩ | h)
      · exact h1
      · exact h2 n x h
    · intro h
      exact ⟨h k y (Or.inl ⟨rfl, rfl⟩), fun n x hx => h n x (Or.inr hx)⟩

theorem anyTypedL_iff (vs : List GoVal) : anyTypedL vs = true ↔ ∀ v ∈ vs, anyTyped v = true := by
  induction vs with
  | nil => simp [anyTypedL]
  | cons a r ih => simp [anyTypedL, ih]

theorem anyTypedM_iff (ms : List (Bytes × GoVal)) :
    anyTypedM ms = true ↔ ∀ k v, (k, v) ∈ ms → Utf8.valid k = true ∧ anyTyped v = true := by
  induction ms with
  | nil => simp [anyTypedM]
  | cons p r ih =>
    obtain ⟨k, y⟩ := p
    simp only [anyTypedM, Bool.and_eq_true, ih, List.mem_cons, Prod.mk.injEq]
    constructor
    · rintro ⟨⟨h0, h1⟩, h2⟩ n x (⟨rfl, rfl⟩ | h)
      · exact ⟨h0, h1⟩
      · exact h2 n x h
    · intro h
      exact ⟨h k y (Or.inl ⟨rfl, rfl⟩), fun n x hx => h n x (Or.inr hx)⟩

theorem veqM_iff (ms ms' : List (Bytes × GoVal)) :
    veqM ms ms' ↔ ∀ k v, (k, v) ∈ ms → ∃ w, alookup k ms' = some w ∧ veq v w := by
  induction ms with
  | nil => simp [veqM]
  | cons p r ih =>
    obtain ⟨k, y⟩ := p
    simp only [veqM, ih, List.mem_cons, Prod.mk.injEq]
    constructor
    · rintro ⟨h1, h2⟩ n x (⟨rfl, rfl⟩ | h)
      · cases hl : alookup n ms' with
        | none => simp [hl] at h1
        | some w => simp only [hl] at h1; exact ⟨w, rfl, h1⟩
      · exact h2 n x h
    · intro h
      refine ⟨?_, fun n x hx => h n x (Or.inr hx)⟩
      obtain ⟨w, hw, hv⟩ := h k y (Or.inl ⟨rfl, rfl⟩)
      simp only [hw]; exact hv

/-! ### The tie of the structural `any` marshal loops to the generic ones -/

theorem marAnyL_eq (o : MOpts) (vs : List GoVal) : marAnyL o vs = marList (marAny o) vs := by
  induction vs with
  | nil => simp [marAnyL, marList]
  | cons v r ih => simp only [marAnyL, marList, ih]

theorem marAnyM_eq (o : MOpts) (ms : List (Bytes × GoVal)) : marAnyM o ms = marMembers (marAny o) ms := by
  induction ms with
  | nil => simp [marAnyM, marMembers]
  | cons p r ih => obtain ⟨k, v⟩ := p; simp only [marAnyM, marMembers, ih]

end JsonV.Lemmas.RoundTrip
