/-
The search invariant through a whole struct, a whole level and the whole search.
-/
import JsonV.Lemmas.FieldsInvStep

set_option linter.unusedSimpArgs false

namespace JsonV.Lemmas.Fields
open JsonV JsonV.Model JsonV.Model.Fields JsonV.Spec.FieldRule

variable {g : Graph} {root : StructId} {k : Nat} {P R' : List QE} {qe : QE} {s : St}

theorem Inv.step (hg : ReachGood g root) {i : Nat} {d : FieldDecl}
    (h : Inv g root k P (qe :: R') (some (qe, i)) s) (hf : FieldAt g qe.sid i d) :
    Inv g root k P (qe :: R') (some (qe, i + 1)) (applyAction qe i (actOf d) s) := by
  cases ha : actOf d with
  | skip =>
    exact h.step_same hf _ rfl rfl (fun t ht => by rw [ha] at ht; cases ht) (Or.inl ⟨fun o ho => (by rw [ha] at ho; cases ho), rfl⟩)
  | fallback o =>
    exact h.step_same hf _ rfl rfl (fun t ht => by rw [ha] at ht; cases ht) (Or.inl ⟨fun o ho => (by rw [ha] at ho; cases ho), rfl⟩)
  | field o =>
    exact h.step_same hf _ rfl rfl (fun t ht => by rw [ha] at ht; cases ht) (Or.inr ⟨o, ha, rfl⟩)
  | enqueue t =>
    cases hv : qe.visit with
    | true => exact h.step_enqueue_visit hg hf ha hv
    | false => exact h.step_enqueue_novisit hf ha hv

theorem Inv.processField (hg : ReachGood g root) {i : Nat} {d : FieldDecl} (lc : Local)
    (h : Inv g root k P (qe :: R') (some (qe, i)) s) (hf : FieldAt g qe.sid i d) :
    Inv g root k P (qe :: R') (some (qe, i + 1)) (processField qe i d s lc).1 := by
  rw [processField_eq, decideField_act]
  exact (h.orErr _).step hg hf

theorem drop_cons_getElem? {α} {l : List α} {i : Nat} {d : α} {ds : List α} (h : l.drop i = d :: ds) :
    l[i]? = some d ∧ l.drop (i + 1) = ds := by
  constructor
  · have := List.getElem?_drop (xs := l) (i := i) (j := 0)
    rw [h] at this
    simpa using this.symm
  · rw [← List.drop_drop, h]; rfl

theorem Inv.processFields (hg : ReachGood g root) : ∀ (ds : List FieldDecl) (i : Nat) (s : St) (lc : Local),
    (g.fieldsOf qe.sid).drop i = ds → Inv g root k P (qe :: R') (some (qe, i)) s →
    Inv g root k P (qe :: R') (some (qe, i + ds.length)) (processFields qe i ds s lc).1
  | [], i, s, lc, _, h => by simpa [Model.Fields.processFields] using h
  | d :: ds, i, s, lc, hd, h => by
    obtain ⟨hf, hd'⟩ := drop_cons_getElem? hd
    have h1 := h.processField hg lc hf
    have h2 := Inv.processFields hg ds (i + 1) _ (Model.Fields.processField qe i d s lc).2 hd' h1
    simp only [Model.Fields.processFields, List.length_cons]
    have : i + (ds.length + 1) = i + 1 + ds.length := by omega
    rw [this]
    exact h2

theorem Inv.start (h : Inv g root k P (qe :: R') none s) : Inv g root k P (qe :: R') (some (qe, 0)) s := by
  refine ⟨h.depthP, h.depthR, h.depthQ, h.seenW, h.seenH, h.firstW, h.firstP, ?_, h.reach, ?_, ?_, ?_⟩
  · intro e j t hd
    rcases hd with hd | ⟨i, hc, hj⟩
    · exact h.kids e j t (Or.inl hd)
    · simp only [Option.some.injEq, Prod.mk.injEq] at hc; omega
  · intro e j o hd
    rcases hd with hd | ⟨i, hc, hj⟩
    · exact h.memb e j o (Or.inl hd)
    · simp only [Option.some.injEq, Prod.mk.injEq] at hc; omega
  · intro f hf
    obtain ⟨e, j, hd, hm, hi⟩ := h.allS f hf
    rcases hd with hd | ⟨i, hc, _⟩
    · exact ⟨e, j, Or.inl hd, hm, hi⟩
    · cases hc
  · intro qe' i' hc
    simp only [Option.some.injEq, Prod.mk.injEq] at hc
    exact ⟨R', by rw [hc.1]⟩

theorem fieldAt_lt {sid : StructId} {j : Nat} {d : FieldDecl} (h : FieldAt g sid j d) : j < (g.fieldsOf sid).length := by
  unfold FieldAt at h
  exact (List.getElem?_eq_some_iff.mp h).1

theorem Inv.finish (h : Inv g root k P (qe :: R') (some (qe, (g.fieldsOf qe.sid).length)) s) :
    Inv g root k (P ++ [qe]) R' none s := by
  have hh : hist (P ++ [qe]) R' s = hist P (qe :: R') s := by simp [hist]
  have hdone : ∀ e j, (j < (g.fieldsOf e.sid).length) → Done (P ++ [qe]) none e j → Done P (some (qe, (g.fieldsOf qe.sid).length)) e j := by
    intro e j hj hd
    rcases hd with hd | ⟨i, hc, _⟩
    · rcases List.mem_append.mp hd with hd | hd
      · exact Or.inl hd
      · rw [List.mem_singleton.mp hd] at hj ⊢
        exact Or.inr ⟨_, rfl, hj⟩
    · cases hc
  refine ⟨?_, fun e he => h.depthR e (List.mem_cons_of_mem _ he), h.depthQ, by rw [hh]; exact h.seenW, by rw [hh]; exact h.seenH,
    by rw [hh]; exact h.firstW, by rw [hh]; exact h.firstP, ?_, by rw [hh]; exact h.reach, ?_, ?_, ?_⟩
  · intro e he
    rcases List.mem_append.mp he with he | he
    · exact h.depthP e he
    · rw [List.mem_singleton.mp he]; exact Nat.le_of_eq (h.depthR qe (List.mem_cons_self ..))
  · intro e j t hd hv hk
    rw [hh]
    obtain ⟨d, hf, _⟩ := hk
    exact h.kids e j t (hdone e j (fieldAt_lt hf) hd) hv ⟨d, hf, ‹_›⟩
  · intro e j o hd hm
    obtain ⟨d, hf, _⟩ := hm
    exact h.memb e j o (hdone e j (fieldAt_lt hf) hd) ⟨d, hf, ‹_›⟩
  · intro f hf
    obtain ⟨e, j, hd, hm, hi⟩ := h.allS f hf
    refine ⟨e, j, ?_, hm, hi⟩
    rcases hd with hd | ⟨i, hc, _⟩
    · exact Or.inl (List.mem_append_left _ hd)
    · simp only [Option.some.injEq, Prod.mk.injEq] at hc
      exact Or.inl (List.mem_append_right _ (List.mem_singleton.mpr hc.1.symm))
  · intro qe' i' hc; cases hc

theorem Inv.processStruct (hg : ReachGood g root) (h : Inv g root k P (qe :: R') none s) :
    Inv g root k (P ++ [qe]) R' none (processStruct g qe s) := by
  have h1 := Inv.processFields hg (g.fieldsOf qe.sid) 0 s {} (by simp) h.start
  rw [Nat.zero_add] at h1
  have h2 := h1.finish
  unfold Model.Fields.processStruct
  dsimp only
  split
  · exact h2.orErr _
  · exact h2

theorem Inv.processLevel (hg : ReachGood g root) : ∀ (R : List QE) (P : List QE) (s : St),
    Inv g root k P R none s → Inv g root k (P ++ R) [] none (processLevel g R s)
  | [], P, s, h => by simpa [Model.Fields.processLevel] using h
  | qe :: R', P, s, h => by
    have h1 := h.processStruct hg
    have h2 := Inv.processLevel hg R' (P ++ [qe]) _ h1
    simpa [Model.Fields.processLevel] using h2

/-- Turning the queue of a finished level into the frontier of the next one. -/
theorem Inv.nextLevel (h : Inv g root k P [] none s) :
    Inv g root (k + 1) P s.queue none { s with queue := [] } := by
  have hh : hist P s.queue { s with queue := [] } = hist P [] s := by simp [hist]
  refine ⟨fun e he => Nat.le_succ_of_le (h.depthP e he), h.depthQ, (by intro e he; cases he),
    by rw [hh]; exact h.seenW, by rw [hh]; exact h.seenH, by rw [hh]; exact h.firstW, by rw [hh]; exact h.firstP,
    by rw [hh]; exact h.kids, by rw [hh]; exact h.reach, h.memb, h.allS, by intro _ _ hc; cases hc⟩

/-- The invariant at the end of `bfs`, for a call in the recursive shape (`frontier = s.queue`). -/
theorem Inv.bfs (hg : ReachGood g root) : ∀ (fuel : Nat) (s : St) (k : Nat) (P : List QE),
    Inv g root k P s.queue none { s with queue := [] } →
    ∃ k' P', (∀ e ∈ P, e ∈ P') ∧ Inv g root k' P' (bfs g fuel s.queue s).queue none { (bfs g fuel s.queue s) with queue := [] }
  | 0, s, k, P, h => ⟨k, P, fun _ h => h, by simpa [Model.Fields.bfs] using h⟩
  | fuel + 1, s, k, P, h => by
    cases hq : s.queue with
    | nil => exact ⟨k, P, fun _ h => h, by simpa [Model.Fields.bfs, hq] using h⟩
    | cons qe rest =>
      rw [hq] at h
      have h1 := (Inv.processLevel hg (qe :: rest) P _ h).nextLevel
      obtain ⟨k', P', hsub, h2⟩ := Inv.bfs hg fuel _ _ _ h1
      exact ⟨k', P', fun e he => hsub e (List.mem_append_left _ he), by simpa [Model.Fields.bfs] using h2⟩

theorem Inv.init : Inv g root 0 [] [{ sid := root, index := [], visit := true }] none { seen := [root] } := by
  refine ⟨(by intro e he; cases he), ?_, (by intro e he; cases he), ?_, ?_, ?_, ?_, ?_, ?_, ?_, ?_, by intro _ _ hc; cases hc⟩
  · intro e he; rw [List.mem_singleton.mp he]; rfl
  · intro t ht
    have : t = root := by simpa using ht
    exact ⟨{ sid := root, index := [], visit := true }, by simp [hist], this.symm, rfl⟩
  · intro e he
    have : e = { sid := root, index := [], visit := true } := by simpa [hist] using he
    rw [this]; simp
  · intro e he hv
    have : e = { sid := root, index := [], visit := true } := by simpa [hist] using he
    rw [this] at hv; cases hv
  · simp [hist]
  · intro e j t hd
    rcases hd with hd | ⟨i, hc, _⟩
    · cases hd
    · cases hc
  · intro e he
    have : e = { sid := root, index := [], visit := true } := by simpa [hist] using he
    rw [this]; exact Reach.root
  · intro e j o hd
    rcases hd with hd | ⟨i, hc, _⟩
    · cases hd
    · cases hc
  · intro f hf; cases hf

/-- The invariant holds when `search` returns. -/
theorem Inv.search (hg : ReachGood g root) :
    ∃ k P, ({ sid := root, index := [], visit := true } : QE) ∈ P ∧
      Inv g root k P (search g root).queue none { (search g root) with queue := [] } := by
  unfold Model.Fields.search
  have h0 : Inv g root 0 [] [{ sid := root, index := [], visit := true }] none
      { ({ seen := [root] } : St) with queue := [] } := Inv.init
  have h1 := (Inv.processLevel hg _ [] _ h0).nextLevel
  obtain ⟨k', P', hsub, h2⟩ := Inv.bfs hg (g.length + 1) _ _ _ h1
  exact ⟨k', P', hsub _ (by simp), by simpa [Model.Fields.bfs] using h2⟩

end JsonV.Lemmas.Fields
