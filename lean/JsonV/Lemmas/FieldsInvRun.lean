/-
The search invariants through a whole struct, a whole level and the whole search, for an error-free run
(`(search g root).err = none`): the absence of an error makes every handled declaration well-formed.
-/
import JsonV.Lemmas.FieldsInv2

set_option linter.unusedSimpArgs false

namespace JsonV.Lemmas.Fields
open JsonV JsonV.Model JsonV.Model.Fields JsonV.Spec.FieldRule

/-! ### errors are sticky -/

theorem err_applyAction (qe : QE) (i : Nat) (a : Action) (s : St) : (applyAction qe i a s).err = s.err := by
  cases a <;> simp [applyAction]
  split <;> rfl

theorem orErr_err_none {s : St} {e : Option Err} (h : (s.orErr e).err = none) : s.err = none ∧ e = none := by
  unfold St.orErr at h
  cases hs : s.err <;> simp [hs] at h ⊢
  exact h

theorem processField_err_none {qe : QE} {i : Nat} {d : FieldDecl} {s : St} {lc : Local}
    (h : (processField qe i d s lc).1.err = none) : s.err = none ∧ (decideField d lc).2.1 = none := by
  rw [processField_eq] at h
  simp only [err_applyAction] at h
  exact orErr_err_none h

theorem processFields_err_none {qe : QE} : ∀ (ds : List FieldDecl) (i : Nat) (s : St) (lc : Local),
    (processFields qe i ds s lc).1.err = none → s.err = none
  | [], _, _, _, h => by simpa [processFields] using h
  | d :: ds, i, s, lc, h => by
    simp only [processFields] at h
    exact (processField_err_none (processFields_err_none ds (i + 1) _ _ h)).1

theorem processStruct_err_none {g : Graph} {qe : QE} {s : St} (h : (processStruct g qe s).err = none) :
    (processFields qe 0 (g.fieldsOf qe.sid) s {}).1.err = none := by
  unfold processStruct at h
  dsimp only at h
  split at h
  · exact (orErr_err_none h).1
  · exact h

theorem processLevel_err_none {g : Graph} : ∀ (R : List QE) (s : St), (processLevel g R s).err = none → s.err = none
  | [], _, h => by simpa [processLevel] using h
  | qe :: rest, s, h => by
    simp only [processLevel] at h
    exact processFields_err_none _ _ _ _ (processStruct_err_none (processLevel_err_none rest _ h))

theorem bfs_err_none {g : Graph} : ∀ (fuel : Nat) (F : List QE) (s : St), (bfs g fuel F s).err = none → s.err = none
  | 0, _, _, h => by simpa [bfs] using h
  | fuel + 1, [], s, h => by simpa [bfs] using h
  | fuel + 1, qe :: rest, s, h => by
    simp only [bfs] at h
    have := processLevel_err_none _ _ (bfs_err_none fuel _ _ h)
    simpa using this

/-! ### the invariants through the run -/

structure Inv3 (g : Graph) (root : StructId) (k : Nat) (P R : List QE) (cur : Option (QE × Nat)) (s : St) : Prop where
  a : Inv g root k P R cur s
  b : Inv2 g P R cur s

variable {g : Graph} {root : StructId} {k : Nat} {P R' : List QE} {qe : QE} {s : St}

theorem Inv3.processField {i : Nat} {d : FieldDecl} (lc : Local)
    (h : Inv3 g root k P (qe :: R') (some (qe, i)) s) (hf : FieldAt g qe.sid i d)
    (herr : (processField qe i d s lc).1.err = none) :
    Inv3 g root k P (qe :: R') (some (qe, i + 1)) (processField qe i d s lc).1 := by
  have hgd : GoodDecl d := goodDecl_of_no_error d lc (processField_err_none herr).2
  rw [processField_eq, decideField_act]
  have := step_both (h.a.orErr (decideField d lc).2.1) (h.b.orErr (decideField d lc).2.1) hf hgd
  exact ⟨this.1, this.2⟩

theorem drop_cons_getElem? {α} {l : List α} {i : Nat} {d : α} {ds : List α} (h : l.drop i = d :: ds) :
    l[i]? = some d ∧ l.drop (i + 1) = ds := by
  constructor
  · have := List.getElem?_drop (xs := l) (i := i) (j := 0)
    rw [h] at this
    simpa using this.symm
  · rw [← List.drop_drop, h]; rfl

theorem Inv3.processFields : ∀ (ds : List FieldDecl) (i : Nat) (s : St) (lc : Local),
    (g.fieldsOf qe.sid).drop i = ds → Inv3 g root k P (qe :: R') (some (qe, i)) s →
    (processFields qe i ds s lc).1.err = none →
    Inv3 g root k P (qe :: R') (some (qe, i + ds.length)) (processFields qe i ds s lc).1
  | [], i, s, lc, _, h, _ => by simpa [Model.Fields.processFields] using h
  | d :: ds, i, s, lc, hd, h, herr => by
    obtain ⟨hf, hd'⟩ := drop_cons_getElem? hd
    simp only [Model.Fields.processFields] at herr
    have h1 := h.processField lc hf (processFields_err_none _ _ _ _ herr)
    have h2 := Inv3.processFields ds (i + 1) _ (Model.Fields.processField qe i d s lc).2 hd' h1 herr
    simp only [Model.Fields.processFields, List.length_cons]
    have : i + (ds.length + 1) = i + 1 + ds.length := by omega
    rw [this]
    exact h2

theorem Inv.start (h : Inv g root k P (qe :: R') none s) : Inv g root k P (qe :: R') (some (qe, 0)) s := by
  refine ⟨h.depthP, h.depthR, h.depthQ, h.seenW, h.seenH, h.firstW, h.firstP, ?_, h.reach, ?_, ?_, ?_⟩
  · intro e j t hd
    rcases hd with hd | ⟨i, hc, hj⟩
    · exact h.kids e j t (Or.inl hd)
    · simp only [Option.some.injEq, Prod.mk.injEq] at hc; omega
  · intro e j o hd
    rcases hd with hd | ⟨i, hc, hj⟩
    · exact h.memb e j o (Or.inl hd)
    · simp only [Option.some.injEq, Prod.mk.injEq] at hc; omega
  · intro f hf
    obtain ⟨e, j, hd, hm, hi⟩ := h.allS f hf
    rcases hd with hd | ⟨i, hc, _⟩
    · exact ⟨e, j, Or.inl hd, hm, hi⟩
    · cases hc
  · intro qe' i' hc
    simp only [Option.some.injEq, Prod.mk.injEq] at hc
    exact ⟨R', by rw [hc.1]⟩

theorem Inv2.start (h : Inv2 g P (qe :: R') none s) : Inv2 g P (qe :: R') (some (qe, 0)) s := by
  refine ⟨h.histND, ?_, h.allND, h.allSorted, ?_, ?_, ?_, h.fbND, h.fbSorted⟩
  · intro e' he'
    obtain ⟨e, j, hd, hi⟩ := h.queueS e' he'
    rcases hd with hd | ⟨i, hc, _⟩
    · exact ⟨e, j, Or.inl hd, hi⟩
    · cases hc
  · intro e j d hd
    rcases hd with hd | ⟨i, hc, hj⟩
    · exact h.good e j d (Or.inl hd)
    · simp only [Option.some.injEq, Prod.mk.injEq] at hc; omega
  · intro f hf
    obtain ⟨e, j, hd, hfb, hi⟩ := h.fbS f hf
    rcases hd with hd | ⟨i, hc, _⟩
    · exact ⟨e, j, Or.inl hd, hfb, hi⟩
    · cases hc
  · intro e j hd
    rcases hd with hd | ⟨i, hc, hj⟩
    · exact h.fbC e j (Or.inl hd)
    · simp only [Option.some.injEq, Prod.mk.injEq] at hc; omega

theorem fieldAt_lt {sid : StructId} {j : Nat} {d : FieldDecl} (h : FieldAt g sid j d) : j < (g.fieldsOf sid).length := by
  unfold FieldAt at h
  exact (List.getElem?_eq_some_iff.mp h).1

theorem done_finish {e : QE} {j : Nat} (hj : j < (g.fieldsOf e.sid).length) (hd : Done (P ++ [qe]) none e j) :
    Done P (some (qe, (g.fieldsOf qe.sid).length)) e j := by
  rcases hd with hd | ⟨i, hc, _⟩
  · rcases List.mem_append.mp hd with hd | hd
    · exact Or.inl hd
    · rw [List.mem_singleton.mp hd] at hj ⊢
      exact Or.inr ⟨_, rfl, hj⟩
  · cases hc

theorem done_finish' {e : QE} {j : Nat} {n : Nat} (hd : Done P (some (qe, n)) e j) : Done (P ++ [qe]) none e j := by
  rcases hd with hd | ⟨i, hc, _⟩
  · exact Or.inl (List.mem_append_left _ hd)
  · simp only [Option.some.injEq, Prod.mk.injEq] at hc
    exact Or.inl (List.mem_append_right _ (List.mem_singleton.mpr hc.1.symm))

theorem Inv.finish (h : Inv g root k P (qe :: R') (some (qe, (g.fieldsOf qe.sid).length)) s) :
    Inv g root k (P ++ [qe]) R' none s := by
  have hh : hist (P ++ [qe]) R' s = hist P (qe :: R') s := by simp [hist]
  refine ⟨?_, fun e he => h.depthR e (List.mem_cons_of_mem _ he), h.depthQ, by rw [hh]; exact h.seenW, by rw [hh]; exact h.seenH,
    by rw [hh]; exact h.firstW, by rw [hh]; exact h.firstP, ?_, by rw [hh]; exact h.reach, ?_, ?_, ?_⟩
  · intro e he
    rcases List.mem_append.mp he with he | he
    · exact h.depthP e he
    · rw [List.mem_singleton.mp he]; exact Nat.le_of_eq (h.depthR qe (List.mem_cons_self ..))
  · intro e j t hd hv hk
    rw [hh]
    obtain ⟨d, hf, hact⟩ := hk
    exact h.kids e j t (done_finish (fieldAt_lt hf) hd) hv ⟨d, hf, hact⟩
  · intro e j o hd hm
    obtain ⟨d, hf, hact⟩ := hm
    exact h.memb e j o (done_finish (fieldAt_lt hf) hd) ⟨d, hf, hact⟩
  · intro f hf
    obtain ⟨e, j, hd, hm, hi⟩ := h.allS f hf
    exact ⟨e, j, done_finish' hd, hm, hi⟩
  · intro qe' i' hc; cases hc

theorem Inv2.finish (h : Inv2 g P (qe :: R') (some (qe, (g.fieldsOf qe.sid).length)) s) :
    Inv2 g (P ++ [qe]) R' none s := by
  have hh : hist (P ++ [qe]) R' s = hist P (qe :: R') s := by simp [hist]
  refine ⟨by rw [hh]; exact h.histND, ?_, h.allND, h.allSorted, ?_, ?_, ?_, h.fbND, h.fbSorted⟩
  · intro e' he'
    obtain ⟨e, j, hd, hi⟩ := h.queueS e' he'
    exact ⟨e, j, done_finish' hd, hi⟩
  · intro e j d hd hf
    exact h.good e j d (done_finish (fieldAt_lt hf) hd) hf
  · intro f hf
    obtain ⟨e, j, hd, hfb, hi⟩ := h.fbS f hf
    exact ⟨e, j, done_finish' hd, hfb, hi⟩
  · intro e j hd hfb
    obtain ⟨d, hf, ho⟩ := hfb
    exact h.fbC e j (done_finish (fieldAt_lt hf) hd) ⟨d, hf, ho⟩

theorem Inv3.processStruct (h : Inv3 g root k P (qe :: R') none s) (herr : (processStruct g qe s).err = none) :
    Inv3 g root k (P ++ [qe]) R' none (processStruct g qe s) := by
  have h1 := Inv3.processFields (g.fieldsOf qe.sid) 0 s {} (by simp) ⟨h.a.start, h.b.start⟩ (processStruct_err_none herr)
  rw [Nat.zero_add] at h1
  have h2 : Inv3 g root k (P ++ [qe]) R' none _ := ⟨h1.a.finish, h1.b.finish⟩
  unfold Model.Fields.processStruct
  dsimp only
  split
  · exact ⟨h2.a.orErr _, h2.b.orErr _⟩
  · exact h2

theorem Inv3.processLevel : ∀ (R : List QE) (P : List QE) (s : St),
    Inv3 g root k P R none s → (processLevel g R s).err = none → Inv3 g root k (P ++ R) [] none (processLevel g R s)
  | [], P, s, h, _ => by simpa [Model.Fields.processLevel] using h
  | qe :: R', P, s, h, herr => by
    simp only [Model.Fields.processLevel] at herr
    have h1 := h.processStruct (processLevel_err_none _ _ herr)
    have h2 := Inv3.processLevel R' (P ++ [qe]) _ h1 herr
    simpa [Model.Fields.processLevel] using h2

/-- Turning the queue of a finished level into the frontier of the next one. -/
theorem Inv3.nextLevel (h : Inv3 g root k P [] none s) :
    Inv3 g root (k + 1) P s.queue none { s with queue := [] } := by
  have hh : hist P s.queue { s with queue := [] } = hist P [] s := by simp [hist]
  refine ⟨⟨fun e he => Nat.le_succ_of_le (h.a.depthP e he), h.a.depthQ, (by intro e he; cases he),
    by rw [hh]; exact h.a.seenW, by rw [hh]; exact h.a.seenH, by rw [hh]; exact h.a.firstW, by rw [hh]; exact h.a.firstP,
    by rw [hh]; exact h.a.kids, by rw [hh]; exact h.a.reach, h.a.memb, h.a.allS, by intro _ _ hc; cases hc⟩,
    ⟨by rw [hh]; exact h.b.histND, (by intro e he; cases he), h.b.allND, h.b.allSorted, h.b.good,
      h.b.fbS, h.b.fbC, h.b.fbND, h.b.fbSorted⟩⟩

/-- The invariants at the end of `bfs`, for a call in the recursive shape (`frontier = s.queue`). -/
theorem Inv3.bfs : ∀ (fuel : Nat) (s : St) (k : Nat) (P : List QE),
    Inv3 g root k P s.queue none { s with queue := [] } → (bfs g fuel s.queue s).err = none →
    ∃ k' P', (∀ e ∈ P, e ∈ P') ∧
      Inv3 g root k' P' (bfs g fuel s.queue s).queue none { (bfs g fuel s.queue s) with queue := [] }
  | 0, s, k, P, h, _ => ⟨k, P, fun _ h => h, by simpa [Model.Fields.bfs] using h⟩
  | fuel + 1, s, k, P, h, herr => by
    cases hq : s.queue with
    | nil => exact ⟨k, P, fun _ h => h, by simpa [Model.Fields.bfs, hq] using h⟩
    | cons qe rest =>
      rw [hq] at h herr
      simp only [Model.Fields.bfs] at herr
      have h1 := (Inv3.processLevel (qe :: rest) P _ h (bfs_err_none _ _ _ herr)).nextLevel
      obtain ⟨k', P', hsub, h2⟩ := Inv3.bfs fuel _ _ _ h1 herr
      exact ⟨k', P', fun e he => hsub e (List.mem_append_left _ he), by simpa [Model.Fields.bfs] using h2⟩

theorem Inv.init : Inv g root 0 [] [{ sid := root, index := [], visit := true }] none { seen := [root] } := by
  refine ⟨(by intro e he; cases he), ?_, (by intro e he; cases he), ?_, ?_, ?_, ?_, ?_, ?_, ?_, ?_, by intro _ _ hc; cases hc⟩
  · intro e he; rw [List.mem_singleton.mp he]; rfl
  · intro t ht
    have : t = root := by simpa using ht
    exact ⟨{ sid := root, index := [], visit := true }, by simp [hist], this.symm, rfl⟩
  · intro e he
    have : e = { sid := root, index := [], visit := true } := by simpa [hist] using he
    rw [this]; simp
  · intro e he hv
    have : e = { sid := root, index := [], visit := true } := by simpa [hist] using he
    rw [this] at hv; cases hv
  · simp [hist]
  · intro e j t hd
    rcases hd with hd | ⟨i, hc, _⟩
    · cases hd
    · cases hc
  · intro e he
    have : e = { sid := root, index := [], visit := true } := by simpa [hist] using he
    rw [this]; exact Reach.root
  · intro e j o hd
    rcases hd with hd | ⟨i, hc, _⟩
    · cases hd
    · cases hc
  · intro f hf; cases hf

theorem Inv2.init : Inv2 g [] [{ sid := root, index := [], visit := true }] none { seen := [root] } := by
  refine ⟨by simp [hist], (by intro e he; cases he), by simp, by simp, ?_, (by intro f hf; cases hf), ?_, by simp, by simp⟩
  · intro e j d hd
    rcases hd with hd | ⟨i, hc, _⟩
    · cases hd
    · cases hc
  · intro e j hd
    rcases hd with hd | ⟨i, hc, _⟩
    · cases hd
    · cases hc

/-- The invariants hold when an error-free `search` returns. -/
theorem Inv3.search (herr : (Model.Fields.search g root).err = none) :
    ∃ k P, ({ sid := root, index := [], visit := true } : QE) ∈ P ∧
      Inv3 g root k P (Model.Fields.search g root).queue none { (Model.Fields.search g root) with queue := [] } := by
  have hb : Model.Fields.search g root =
      Model.Fields.bfs g (g.length + 1)
        (Model.Fields.processLevel g [{ sid := root, index := [], visit := true }] { ({ seen := [root] } : St) with queue := [] }).queue
        (Model.Fields.processLevel g [{ sid := root, index := [], visit := true }] { ({ seen := [root] } : St) with queue := [] }) := rfl
  rw [hb] at herr ⊢
  have h0 : Inv3 g root 0 [] [{ sid := root, index := [], visit := true }] none
      { ({ seen := [root] } : St) with queue := [] } := ⟨Inv.init, Inv2.init⟩
  have h1 := (Inv3.processLevel _ [] _ h0 (bfs_err_none _ _ _ herr)).nextLevel
  obtain ⟨k', P', hsub, h2⟩ := Inv3.bfs (g.length + 1) _ _ _ h1 herr
  exact ⟨k', P', hsub _ (by simp), h2⟩

end JsonV.Lemmas.Fields
