/-
Executable model of /repo/internal/jsonwire/decode.go (layer L0, the byte scanners).  Core Lean only.

One Lean function per Go function / label / loop body.  Conventions:
* a scanner takes the (remaining) input as `Bytes` and returns the NUMBER of bytes consumed
  (Go's `n`) plus an error CLASS `Err` (never message text);
* Go's index arithmetic `b[n:]` is `b.drop n`; loops whose body advances by a variable amount are
  split into a non-recursive *step* (the loop body) and a fuelled driver (fuel = input length + 1,
  every step consumes at least one byte);
* all positions returned by the loop bodies are relative to the start of the iteration, which is
  exact because every Go `return` inside the loops reports either the current `n` or `resumeOffset`
  (= the `n` at which the current escape sequence started).
-/
import JsonV.Model.Basic
import JsonV.Model.Utf8

namespace JsonV.Model.Wire
open JsonV JsonV.Model

/-- Error classes of the decoder side (DESIGN.md §4).  `ok` is Go's `nil`.
`eof` is `io.ErrUnexpectedEOF` (truncated input), `ioEOF` is `io.EOF` (clean end of a stream);
`mismatchDelim`, `maxDepth`, `dupName` come from package jsontext (Model/Validate.lean);
`nonStringName`, `missingValue`, `invalidNamespace` are the remaining state-machine errors (Model/TokenLoop.lean);
`fuel` and `bug` are artefacts of totalisation (out of fuel / Go `panic("BUG…")`), shown unreachable. -/
inductive Err
  | ok | eof | invalidChar | invalidEscape | invalidUTF8
  | dupName | maxDepth | mismatchDelim | ioEOF | fuel | bug
  | nonStringName | missingValue | invalidNamespace
  deriving DecidableEq, Repr, Inhabited

/-- `jsonwire.ValueFlags`: bit 1 = stringNonVerbatim, bit 2 = stringNonCanonical. -/
structure ValueFlags where
  nonVerbatim : Bool := false
  nonCanonical : Bool := false
  deriving DecidableEq, Repr, Inhabited

namespace ValueFlags
def join (f g : ValueFlags) : ValueFlags := ⟨f.nonVerbatim || g.nonVerbatim, f.nonCanonical || g.nonCanonical⟩
def isVerbatim (f : ValueFlags) : Bool := !f.nonVerbatim
def isCanonical (f : ValueFlags) : Bool := !f.nonCanonical
def toNat (f : ValueFlags) : Nat := (if f.nonVerbatim then 1 else 0) + (if f.nonCanonical then 2 else 0)
def nv : ValueFlags := ⟨true, false⟩
def nc : ValueFlags := ⟨false, true⟩
def nvnc : ValueFlags := ⟨true, true⟩
end ValueFlags

/-- `len(b) < k` without walking the whole list. -/
def lenLt : Bytes → Nat → Bool
  | _, 0 => false
  | [], _+1 => true
  | _ :: r, k+1 => lenLt r k

/-! ### Whitespace and literals -/

def isWs (c : UInt8) : Bool := c == 0x20 || c == 0x09 || c == 0x0D || c == 0x0A

/-- `ConsumeWhitespace` (decode.go:33). -/
def consumeWhitespace : Bytes → Nat
  | [] => 0
  | c :: r => if isWs c then consumeWhitespace r + 1 else 0

def litNull : Bytes := [0x6E, 0x75, 0x6C, 0x6C]
def litFalse : Bytes := [0x66, 0x61, 0x6C, 0x73, 0x65]
def litTrue : Bytes := [0x74, 0x72, 0x75, 0x65]

/-- `ConsumeNull` / `ConsumeFalse` / `ConsumeTrue` (decode.go:43-72) for the literal `lit`. -/
def consumeExact (lit : Bytes) (b : Bytes) : Nat :=
  if b.take lit.length == lit then lit.length else 0

def consumeNull (b : Bytes) : Nat := consumeExact litNull b
def consumeFalse (b : Bytes) : Nat := consumeExact litFalse b
def consumeTrue (b : Bytes) : Nat := consumeExact litTrue b

/-- `ConsumeLiteral(b, lit)` (decode.go:76). -/
def consumeLiteral : Bytes → Bytes → Nat × Err
  | _, [] => (0, .ok)
  | [], _ :: _ => (0, .eof)
  | c :: b, l :: lit =>
    if c != l then (0, .invalidChar)
    else let (n, e) := consumeLiteral b lit; (n + 1, e)

/-! ### Numbers -/

def isDigit (c : UInt8) : Bool := 0x30 ≤ c && c ≤ 0x39
def isDigit19 (c : UInt8) : Bool := 0x31 ≤ c && c ≤ 0x39

/-- the loop `for len(b) > n && '0' <= b[n] && b[n] <= '9' { n++ }` -/
def digitRun : Bytes → Nat
  | [] => 0
  | c :: r => if isDigit c then digitRun r + 1 else 0

/-- the last test of ConsumeSimpleNumber: `len(b) <= n || (b[n] != '.' && b[n] != 'e' && b[n] != 'E')`
with `rest = b[n:]`. -/
def simpleNumberFin (n : Nat) (rest : Bytes) : Nat :=
  match rest with
  | [] => n
  | d :: _ => if d != 0x2E && d != 0x65 && d != 0x45 then n else 0

/-- `ConsumeSimpleNumber` (decode.go:426). -/
def consumeSimpleNumber (b : Bytes) : Nat :=
  match b with
  | [] => 0
  | c :: r =>
    if c == 0x30 then simpleNumberFin 1 r
    else if isDigit19 c then simpleNumberFin (1 + digitRun r) (r.drop (digitRun r))
    else 0

/-- `ConsumeNumberState` values. -/
def stInit : Nat := 0
def stBeforeIntegerDigits : Nat := 1
def stWithinIntegerDigits : Nat := 2
def stBeforeFractionalDigits : Nat := 3
def stWithinFractionalDigits : Nat := 4
def stBeforeExponentDigits : Nat := 5
def stWithinExponentDigits : Nat := 6

/-- label `beforeExponent:` (decode.go:541).  `r = b[n:]`, `st` is the current `state`
(returned unchanged on the invalid-character path).  Result is relative to `n`. -/
def numExponent (st : Nat) (r : Bytes) : Nat × Nat × Err :=
  match r with
  | [] => (0, st, .ok)
  | c :: r1 =>
    if c == 0x65 || c == 0x45 then
      let s : Nat := match r1 with
        | [] => 0
        | d :: _ => if d == 0x2D || d == 0x2B then 1 else 0
      match r1.drop s with
      | [] => (0, stBeforeExponentDigits, .eof)
      | d :: r2 =>
        if isDigit d then (1 + s + 1 + digitRun r2, stWithinExponentDigits, .ok)
        else (1 + s, st, .invalidChar)
    else (0, st, .ok)

/-- label `beforeFractional:` (decode.go:522). -/
def numFractional (st : Nat) (r : Bytes) : Nat × Nat × Err :=
  match r with
  | [] => numExponent st r
  | c :: r1 =>
    if c == 0x2E then
      match r1 with
      | [] => (0, stBeforeFractionalDigits, .eof)
      | d :: r2 =>
        if isDigit d then
          let k := digitRun r2
          let (m, st', e) := numExponent stWithinFractionalDigits (r2.drop k)
          (2 + k + m, st', e)
        else (1, st, .invalidChar)
    else numExponent st r

/-- label `beforeInteger:` (decode.go:500).  Faithful to the code's `b[0] == '-'` (not `b[n]`);
absolute positions. -/
def numInteger (st : Nat) (b : Bytes) (n : Nat) : Nat × Nat × Err :=
  let n1 : Nat := match b with
    | [] => n
    | c :: _ => if c == 0x2D then n + 1 else n
  match b.drop n1 with
  | [] => (n, stBeforeIntegerDigits, .eof)
  | c :: r =>
    if c == 0x30 then
      let (m, st', e) := numFractional stBeforeFractionalDigits r
      (n1 + 1 + m, st', e)
    else if isDigit19 c then
      let k := digitRun r
      let (m, st', e) := numFractional stWithinIntegerDigits (r.drop k)
      (n1 + 1 + k + m, st', e)
    else (n1, st, .invalidChar)

/-- `ConsumeNumberResumable(b, resumeOffset, state)` (decode.go:472). -/
def consumeNumberResumable (b : Bytes) (resumeOffset : Nat) (state : Nat) : Nat × Nat × Err :=
  let n := resumeOffset
  if state > stInit then
    -- first switch: the three "within" states consume digits
    let within := state == stWithinIntegerDigits || state == stWithinFractionalDigits || state == stWithinExponentDigits
    let n' := if within then n + digitRun (b.drop n) else n
    if within && lenLt b (n' + 1) then (n', state, .ok) else
    let state' := if within then state + 1 else state
    -- second switch
    if state' == stBeforeIntegerDigits then numInteger state' b n'
    else if state' == stBeforeFractionalDigits then
      let (m, st', e) := numFractional state' (b.drop n'); (n' + m, st', e)
    else if state' == stBeforeExponentDigits then
      let (m, st', e) := numExponent state' (b.drop n'); (n' + m, st', e)
    else (n', state', .ok)
  else numInteger state b n

/-- `ConsumeNumber` (decode.go:465). -/
def consumeNumber (b : Bytes) : Nat × Err :=
  let (n, _, e) := consumeNumberResumable b 0 stInit
  (n, e)

/-! ### Strings -/

/-- `escapeASCII[c] == 0` for `c < utf8.RuneSelf` — the bytes `ConsumeSimpleString` runs over.
(The table itself is regenerated; `Props/C01.lean` proves this predicate equals the table.) -/
def simpleByte (c : UInt8) : Bool :=
  c < 0x80 && 0x20 ≤ c && c != 0x22 && c != 0x5C && c != 0x3C && c != 0x3E && c != 0x26

def simpleRun : Bytes → Nat
  | [] => 0
  | c :: r => if simpleByte c then simpleRun r + 1 else 0

/-- `ConsumeSimpleString` (decode.go:97). -/
def consumeSimpleString (b : Bytes) : Nat :=
  match b with
  | [] => 0
  | c :: r =>
    if c == 0x22 then
      let k := simpleRun r
      match r.drop k with
      | [] => 0
      | q :: _ => if q == 0x22 then k + 2 else 0
    else 0

/-- the closure `noEscape` in ConsumeStringResumable / AppendUnquote. -/
def noEscape (c : UInt8) : Bool := c < 0x80 && 0x20 ≤ c && c != 0x5C && c != 0x22

def hexVal (c : UInt8) : Option Nat :=
  if 0x30 ≤ c && c ≤ 0x39 then some (c.toNat - 0x30)
  else if 0x61 ≤ c && c ≤ 0x66 then some (10 + c.toNat - 0x61)
  else if 0x41 ≤ c && c ≤ 0x46 then some (10 + c.toNat - 0x41)
  else none

def isHex (c : UInt8) : Bool := (hexVal c).isSome

/-- `parseHexUint16` (decode.go:568): exactly four hex digits. -/
def parseHexUint16 (b : Bytes) : Option Nat :=
  match b with
  | [a, b, c, d] =>
    match hexVal a, hexVal b, hexVal c, hexVal d with
    | some a, some b, some c, some d => some (((a * 16 + b) * 16 + c) * 16 + d)
    | _, _, _, _ => none
  | _ => none

/-- `hasEscapedUTF16Prefix` (decode.go:390), the loop over `i` starting at `i`. -/
def hasEscapedUTF16PrefixAux (lower : Bool) : Nat → Bytes → Bool
  | _, [] => true
  | i, c :: r =>
    if i == 0 && c != 0x5C then false
    else if i == 1 && c != 0x75 then false
    else if i == 2 && lower && c != 0x64 && c != 0x44 then false
    else if i == 3 && lower && !(0x63 ≤ c && c ≤ 0x66) && !(0x43 ≤ c && c ≤ 0x46) then false
    else if decide (i ≥ 2) && decide (i < 6) && !isHex c then false
    else hasEscapedUTF16PrefixAux lower (i + 1) r

def hasEscapedUTF16Prefix (b : Bytes) (lower : Bool) : Bool := hasEscapedUTF16PrefixAux lower 0 b

/-- One iteration of a scanning loop: either continue `k` bytes further, or return. -/
inductive Step
  | cont (k : Nat) (f : ValueFlags)
  | stop (k : Nat) (f : ValueFlags) (e : Err)
  deriving Repr

/-- the canonical-form bookkeeping for `\uXXXX` (decode.go:191-207); `hex4` are the four digits. -/
def escapeCanonFlags (v1 : Nat) (hex4 : Bytes) : ValueFlags :=
  if v1 == 0x08 || v1 == 0x0C || v1 == 0x0A || v1 == 0x0D || v1 == 0x09 then .nc
  else if v1 ≥ 0x20 then .nc
  else if hex4.any (fun c => 0x41 ≤ c && c ≤ 0x46) then .nc else {}

/-- The `case r == '\\'` arm (decode.go:162-231).  `r = b[n:]` starts with the backslash. -/
def stringEscape (validate : Bool) (r : Bytes) : Step :=
  match r with
  | [] => .stop 0 .nv .eof
  | [_] => .stop 0 .nv .eof                                   -- len(b) < n+2
  | _ :: e :: r2 =>
    if e == 0x2F then .cont 2 .nvnc
    else if e == 0x22 || e == 0x5C || e == 0x62 || e == 0x66 || e == 0x6E || e == 0x72 || e == 0x74 then .cont 2 .nv
    else if e == 0x75 then
      if lenLt r 6 then
        if hasEscapedUTF16Prefix r false then .stop 0 .nv .eof
        else .stop 0 .nvnc .invalidEscape
      else
        match parseHexUint16 (r2.take 4) with
        | none => .stop 0 .nvnc .invalidEscape
        | some v1 =>
          let f := ValueFlags.nv.join (escapeCanonFlags v1 (r2.take 4))
          let r6 := r.drop 6
          if validate && Utf8.isSurrogate v1 then
            if lenLt r6 6 then
              if hasEscapedUTF16Prefix r6 true then .stop 0 f .eof
              else .stop 0 (f.join .nc) .invalidEscape
            else
              match r6 with
              | a :: b :: r8 =>
                match parseHexUint16 (r8.take 4) with
                | none => .stop 0 (f.join .nc) .invalidEscape
                | some v2 =>
                  if a != 0x5C || b != 0x75 then .stop 0 (f.join .nc) .invalidEscape
                  else if Utf8.utf16DecodeRune v1 v2 == Utf8.runeError then .stop 0 (f.join .nc) .invalidEscape
                  else .cont 12 f
              | _ => .stop 0 f .bug                           -- unreachable: len(r6) ≥ 6
          else .cont 6 f
    else .stop 0 .nvnc .invalidEscape

/-- The body of the outer `for` of ConsumeStringResumable (decode.go:137-249) at `r = b[n:]`
(the inner fast loop over `noEscape` bytes is one `cont 1` per byte). -/
def stringStep (validate : Bool) (r : Bytes) : Step :=
  match r with
  | [] => .stop 0 {} .eof
  | c :: _ =>
    if noEscape c then .cont 1 {}
    else if c == 0x22 then .stop 1 {} .ok
    else
      let (rune, rn) := Utf8.decodeRune r
      if rn > 1 then .cont rn {}
      else if rune == 0x5C then stringEscape validate r
      else if rune == Utf8.runeError then
        if !Utf8.fullRune r then .stop 0 {} .eof
        else if validate then .stop 0 .nvnc .invalidUTF8
        else .cont 1 .nvnc
      else if rune < 0x20 then .stop 0 .nvnc .invalidChar
      else .stop 0 {} .bug

/-- The outer loop.  Fuel: every `cont` advances by ≥ 1 byte, so `r.length + 1` suffices. -/
def stringLoop (validate : Bool) : Nat → Bytes → Nat × ValueFlags × Err
  | 0, _ => (0, {}, .fuel)
  | fuel + 1, r =>
    match stringStep validate r with
    | .stop k f e => (k, f, e)
    | .cont k f =>
      let (n, f', e) := stringLoop validate fuel (r.drop k)
      (k + n, f.join f', e)

/-- `ConsumeStringResumable(flags, b, resumeOffset, validateUTF8)` (decode.go:123) with `*flags = 0` on entry. -/
def consumeStringResumable (b : Bytes) (resumeOffset : Nat) (validate : Bool) : Nat × ValueFlags × Err :=
  if resumeOffset > 0 then
    let (n, f, e) := stringLoop validate (b.length + 1) (b.drop resumeOffset)
    (resumeOffset + n, f, e)
  else
    match b with
    | [] => (0, {}, .eof)
    | c :: r =>
      if c == 0x22 then
        let (n, f, e) := stringLoop validate (r.length + 1) r
        (1 + n, f, e)
      else (0, {}, .invalidChar)

/-- `ConsumeString` (decode.go:117). -/
def consumeString (b : Bytes) (validate : Bool) : Nat × ValueFlags × Err :=
  consumeStringResumable b 0 validate

/-! ### AppendUnquote -/

/-- One iteration of AppendUnquote's loop: bytes appended to `dst`, and a newly assigned `err` if any. -/
inductive UStep
  | cont (k : Nat) (out : Bytes) (err : Option Err)
  | stop (out : Bytes) (e : Err)
  /-- closing quote found; `more` = bytes follow it -/
  | close (more : Bool)
  deriving Repr

def runeErrorBytes : Bytes := [0xEF, 0xBF, 0xBD]

/-- The `case r == '\\'` arm of AppendUnquote (decode.go:302-363). -/
def unquoteEscape (r : Bytes) : UStep :=
  match r with
  | [] => .stop [] .eof
  | [_] => .stop [] .eof
  | _ :: e :: r2 =>
    if e == 0x22 || e == 0x5C || e == 0x2F then .cont 2 [e] none
    else if e == 0x62 then .cont 2 [0x08] none
    else if e == 0x66 then .cont 2 [0x0C] none
    else if e == 0x6E then .cont 2 [0x0A] none
    else if e == 0x72 then .cont 2 [0x0D] none
    else if e == 0x74 then .cont 2 [0x09] none
    else if e == 0x75 then
      if lenLt r 6 then
        if hasEscapedUTF16Prefix r false then .stop [] .eof else .stop [] .invalidEscape
      else
        match parseHexUint16 (r2.take 4) with
        | none => .stop [] .invalidEscape
        | some v1 =>
          let r6 := r.drop 6
          if Utf8.isSurrogate v1 then
            if lenLt r6 6 then
              if hasEscapedUTF16Prefix r6 true then .stop runeErrorBytes .eof
              else .cont 6 runeErrorBytes (some .invalidEscape)
            else
              match r6 with
              | a :: b :: r8 =>
                match parseHexUint16 (r8.take 4) with
                | none => .cont 6 runeErrorBytes (some .invalidEscape)
                | some v2 =>
                  if a != 0x5C || b != 0x75 then .cont 6 runeErrorBytes (some .invalidEscape)
                  else if Utf8.utf16DecodeRune v1 v2 == Utf8.runeError then .cont 6 runeErrorBytes (some .invalidEscape)
                  else .cont 12 (Utf8.encodeRune (Utf8.utf16DecodeRune v1 v2)) none
              | _ => .stop [] .bug
          else .cont 6 (Utf8.encodeRune v1) none
    else .stop [] .invalidEscape

/-- The body of AppendUnquote's outer loop (decode.go:272-383) at `r = src[n:]`. -/
def unquoteStep (r : Bytes) : UStep :=
  match r with
  | [] => .stop [] .eof
  | c :: r1 =>
    if noEscape c then .cont 1 [c] none
    else if c == 0x22 then .close (!r1.isEmpty)
    else
      let (rune, rn) := Utf8.decodeRune r
      if rn > 1 then .cont rn (r.take rn) none
      else if rune == 0x5C then unquoteEscape r
      else if rune == Utf8.runeError then
        if !Utf8.fullRune r then .stop [] .eof
        else .cont rn runeErrorBytes (some .invalidUTF8)
      else if rune < 0x20 then .stop [] .invalidChar
      else .stop [] .bug

/-- AppendUnquote's loop; `err` is the Go variable `err` (last assignment wins). -/
def unquoteLoop : Nat → Bytes → Err → Bytes × Err
  | 0, _, _ => ([], .fuel)
  | fuel + 1, r, err =>
    match unquoteStep r with
    | .stop out e => (out, e)
    | .close more => ([], if more then .invalidChar else err)
    | .cont k out err' =>
      let (o, e) := unquoteLoop fuel (r.drop k) (err'.getD err)
      (out ++ o, e)

/-- `AppendUnquote(nil, src)` (decode.go:257): the unescaped bytes and the error class. -/
def unquote (src : Bytes) : Bytes × Err :=
  match src with
  | [] => ([], .eof)
  | c :: r => if c == 0x22 then unquoteLoop (r.length + 1) r .ok else ([], .invalidChar)

/-! ### wire.go: TrimSuffix* (used by the encoder slices) -/

/-- `TrimSuffixWhitespace` (wire.go:21). -/
def trimSuffixWhitespace (b : Bytes) : Bytes :=
  (b.reverse.dropWhile isWs).reverse

/-- the middle loop of `TrimSuffixString` on the REVERSED slice: drop bytes until the last byte is
a quote whose predecessor is not a backslash (or fewer than two bytes remain). -/
def trimSuffixStringLoop : Bytes → Bytes
  | a :: b :: r => if a == 0x22 && b != 0x5C then a :: b :: r else trimSuffixStringLoop (b :: r)
  | r => r

/-- `TrimSuffixString` (wire.go:32). -/
def trimSuffixString (b : Bytes) : Bytes :=
  let dropQuote (r : Bytes) : Bytes := match r with
    | c :: r' => if c == 0x22 then r' else r
    | [] => []
  (dropQuote (trimSuffixStringLoop (dropQuote b.reverse))).reverse

/-- `HasSuffixByte` / `TrimSuffixByte` (wire.go:47-58). -/
def hasSuffixByte (b : Bytes) (c : UInt8) : Bool := b.getLast? == some c
def trimSuffixByte (b : Bytes) (c : UInt8) : Bytes := if hasSuffixByte b c then b.dropLast else b

end JsonV.Model.Wire
