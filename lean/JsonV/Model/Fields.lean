/-
Model of `makeStructFields` (`/repo/fields.go:80-355`) over an abstract, finite graph of struct types,
and of the member lookup done by the struct unmarshaler (`/repo/arshal_default.go:1325-1367`).
Core Lean only.

What is abstracted (stays on the Go side, validated by the harness): `reflect` (field enumeration, kinds,
method sets) is replaced by the table `Graph`; the tag *string* is replaced by its parsed content
(`FieldDecl.name … format`, `tagErr` = "parseFieldOptions reported an error").
Everything else follows the code: same order of checks, same first-error-wins (`cmp.Or`), same queue
discipline (`seen`, `visitChildren`), same sorts and the same dominance filter.
-/
import JsonV.Model.Fold

namespace JsonV.Model.Fields
open JsonV JsonV.Model

abbrev StructId := Nat

/-- What the code needs to know about the Go type of a field (after `indirectType`). -/
inductive TypeRef
  /-- a struct type (by value) -/
  | struct (id : StructId)
  /-- an unnamed pointer to a struct type -/
  | ptr (id : StructId)
  /-- `jsontext.Value` -/
  | fbValue
  /-- a map whose key kind is string and whose key type has no marshal/unmarshal methods -/
  | fbMap
  /-- a map whose key kind is string but whose key type implements marshal/unmarshal methods -/
  | fbMapBadKey
  /-- anything else -/
  | other
deriving DecidableEq, Repr, Inhabited

def TypeRef.structId? : TypeRef → Option StructId
  | .struct t => some t
  | .ptr t => some t
  | _ => none

/-- One Go struct field as `reflect.StructField` + the parsed `json` tag present it. -/
structure FieldDecl where
  /-- `sf.Name` -/
  goName : Bytes
  /-- `sf.IsExported()` -/
  exported : Bool := true
  /-- `sf.Anonymous` (Go embedding) -/
  anonymous : Bool := false
  /-- a `json` key is present in the struct tag -/
  hasTag : Bool := false
  /-- the tag is exactly `-` -/
  tagDash : Bool := false
  /-- `parseFieldOptions` reports an error for the tag text (syntax, duplicates, `case` misuse, …) -/
  tagErr : Bool := false
  /-- the explicit JSON name, if the tag gives one (`hasName`) -/
  name : Option Bytes := none
  /-- 0, `caseIgnore` = 1, `caseStrict` = 2 (3 = both; then `tagErr` is set) -/
  casing : Nat := 0
  /-- the `embed` tag option -/
  embedOpt : Bool := false
  omitzero : Bool := false
  omitempty : Bool := false
  string : Bool := false
  /-- a non-empty `format` tag option -/
  format : Bool := false
  ty : TypeRef := .other
  /-- `indirectType(typ)` implements a marshal/unmarshal method (and is not `jsontext.Value`) -/
  methods : Bool := false
  /-- `indirectType(typ)` implements `IsZero() bool` -/
  isZeroer : Bool := false
deriving Repr, Inhabited

/-- The struct types: `g[id]` is the field list of struct `id`; ids out of range are empty structs. -/
abbrev Graph := List (List FieldDecl)

def Graph.fieldsOf (g : Graph) (id : StructId) : List FieldDecl := g.getD id []

/-- `fieldOptions` of fields.go (`quotedName` is a function of `name`; `format` reduced to non-emptiness). -/
structure FieldOpts where
  name : Bytes := []
  hasName : Bool := false
  nameNeedEscape : Bool := false
  casing : Nat := 0
  embed : Bool := false
  omitzero : Bool := false
  omitempty : Bool := false
  string : Bool := false
  format : Bool := false
deriving Repr, DecidableEq, Inhabited

/-- `structField`: id, full index path (before `reindex`), options. -/
structure RField where
  id : Nat
  index : List Nat
  opts : FieldOpts
deriving Repr, DecidableEq, Inhabited

def RField.name (f : RField) : Bytes := f.opts.name
def RField.hasName (f : RField) : Bool := f.opts.hasName
def RField.depth (f : RField) : Nat := f.index.length

/-- The class of the FIRST error `makeStructFields` records (`serr`), in source order of the checks. -/
inductive Err
  | tag                    -- parseFieldOptions error (incl. "unexported field cannot have non-ignored tag")
  | embeddedNeedsName      -- embedded field of non-struct type must be explicitly given a JSON name
  | embedOtherOptions      -- cannot have any options other than `embed`
  | embedMethods           -- embedded type must not implement marshal or unmarshal methods
  | embedUnexported        -- embedded (fallback-typed) field is not exported
  | embedBadMapKey         -- embedded map key implements methods
  | embedBadType           -- embedded field must be a struct, map of string key, or jsontext.Value
  | multipleFallbacks      -- two embedded fallbacks in one struct
  | unexportedField        -- field is not exported
  | unexportedMethods      -- unexported embedded struct needs method calls
  | nameConflict           -- two fields of ONE struct with the same JSON name
  | noExportedFields       -- errNoExportedFields
deriving Repr, DecidableEq, Inhabited

/-- `jsonwire.NeedEscape(name)`, the loop with fuel = number of bytes (each iteration consumes at least one):
an ASCII byte with `escapeASCII[c] > 0` (control, `"`, `&`, `<`, `>`, `\\`), or a rune that decodes to U+FFFD
(ill-formed UTF-8 included), U+2028 or U+2029.
It only feeds the "other options than `embed`" ERROR test, never the resolution. -/
def needEscapeAux : Nat → Bytes → Bool
  | 0, _ => false
  | _ + 1, [] => false
  | fuel + 1, c :: rest =>
    if c.toNat < Utf8.runeSelf then
      if c.toNat < 0x20 || c.toNat == 0x22 || c.toNat == 0x26 || c.toNat == 0x3C || c.toNat == 0x3E || c.toNat == 0x5C then true
      else needEscapeAux fuel rest
    else
      let rn := Utf8.decodeRune (c :: rest)
      if rn.1 == 0xFFFD || rn.1 == 0x2028 || rn.1 == 0x2029 then true
      else needEscapeAux fuel (rest.drop (rn.2 - 1))

def needEscape (b : Bytes) : Bool := needEscapeAux b.length b

/-- Observable result of `parseFieldOptions(sf)`: (options, ignored, error). -/
def parseOpts (d : FieldDecl) : FieldOpts × Bool × Option Err :=
  if d.tagDash then ({}, true, none)
  else if !d.exported && !d.anonymous then ({}, true, if d.hasTag then some .tag else none)
  else
    let nm := d.name.getD d.goName
    ({ name := nm, hasName := d.name.isSome, nameNeedEscape := needEscape nm, casing := d.casing,
       embed := d.embedOpt, omitzero := d.omitzero, omitempty := d.omitempty, string := d.string,
       format := d.format },
     false, if d.tagErr then some .tag else none)

/-- A queue entry of the breadth-first search. -/
structure QE where
  sid : StructId
  index : List Nat
  /-- `visitChildren` -/
  visit : Bool
deriving Repr, DecidableEq, Inhabited

/-- The variables of `makeStructFields` that live across the whole search. -/
structure St where
  /-- entries appended to `queue` and not yet processed, oldest first -/
  queue : List QE := []
  /-- `seen` -/
  seen : List StructId := []
  /-- `allFields` -/
  all : List RField := []
  /-- `embeddedFallbacks` -/
  fbs : List RField := []
  /-- `serr` -/
  err : Option Err := none
  /-- `fs.errUnsupportedFormat != nil` -/
  errFormat : Bool := false
deriving Repr, Inhabited

/-- `serr = cmp.Or(serr, e)`. -/
def St.orErr (s : St) (e : Option Err) : St :=
  match s.err with
  | some _ => s
  | none => { s with err := e }

/-- The variables that are reset for every struct visited. -/
structure Local where
  /-- `embeddedFallbackIndex >= 0` -/
  hasFallback : Bool := false
  /-- keys of `namesIndex` -/
  names : List Bytes := []
  anyTag : Bool := false
  anyField : Bool := false
deriving Repr, Inhabited

/-- `handleField`. -/
def handleField (d : FieldDecl) (index : List Nat) (o : FieldOpts) (s : St) (lc : Local) : St × Local :=
  let blocked : Option Err :=
    if !d.exported then
      if !(d.anonymous && d.ty.structId?.isSome) then some .unexportedField
      else if d.methods || (o.omitzero && d.isZeroer) then some .unexportedMethods
      else none
    else none
  match blocked with
  | some e => (s.orErr (some e), lc)
  | none =>
    let s := if lc.names.contains o.name then s.orErr (some .nameConflict) else s
    let lc := { lc with names := o.name :: lc.names }
    let f : RField := { id := s.all.length, index := index, opts := o }
    ({ s with all := s.all ++ [f], errFormat := s.errFormat || o.format }, lc)

/-- `f.fieldOptions != fieldOptions{name: f.name, quotedName: f.quotedName, embed: true}`. -/
def hasOtherOptions (o : FieldOpts) : Bool :=
  o != { name := o.name, embed := true }

/-- `handleEmbed`. -/
def handleEmbed (qe : QE) (d : FieldDecl) (index : List Nat) (o : FieldOpts) (s : St) (lc : Local) : St × Local :=
  if hasOtherOptions o && o.hasName then
    handleField d index o (s.orErr (some .embedOtherOptions)) lc   -- invalid embedded field; treat as regular field
  else
    let s := if hasOtherOptions o then s.orErr (some .embedOtherOptions) else s
    let o : FieldOpts := if hasOtherOptions o then { name := o.name, embed := o.embed } else o
    let s := if d.methods then s.orErr (some .embedMethods) else s
    match d.ty.structId? with
    | some t =>
      let s := if qe.visit then { s with queue := s.queue ++ [{ sid := t, index := index, visit := !s.seen.contains t }] } else s
      ({ s with seen := if s.seen.contains t then s.seen else t :: s.seen }, lc)
    | none =>
      if !d.exported then (s.orErr (some .embedUnexported), lc)
      else
        match d.ty with
        | .fbValue | .fbMap =>
          let s := if lc.hasFallback then s.orErr (some .multipleFallbacks) else s
          ({ s with fbs := s.fbs ++ [{ id := 0, index := index, opts := o }] }, { lc with hasFallback := true })
        | .fbMapBadKey => handleField d index o (s.orErr (some .embedBadMapKey)) lc
        | _ => handleField d index o (s.orErr (some .embedBadType)) lc

/-- The body of `for i := range t.NumField()` for one field. -/
def processField (qe : QE) (i : Nat) (d : FieldDecl) (s : St) (lc : Local) : St × Local :=
  let lc := { lc with anyTag := lc.anyTag || d.hasTag }
  let po := parseOpts d
  let s := s.orErr po.2.2
  if po.2.1 then (s, lc) else
  let lc := { lc with anyField := true }
  let index := qe.index ++ [i]
  let o := po.1
  if d.anonymous && !o.hasName then
    if d.ty.structId?.isSome then handleEmbed qe d index { o with embed := true } s lc
    else
      let s := s.orErr (some .embeddedNeedsName)
      if o.embed then handleEmbed qe d index o s lc else handleField d index o s lc
  else if o.embed then handleEmbed qe d index o s lc
  else handleField d index o s lc

/-- The field loop of one struct, from field number `i` on. -/
def processFields (qe : QE) : Nat → List FieldDecl → St → Local → St × Local
  | _, [], s, lc => (s, lc)
  | i, d :: ds, s, lc =>
    let r := processField qe i d s lc
    processFields qe (i + 1) ds r.1 r.2

/-- One iteration of `for queueIndex < len(queue)`: all fields of `qe.sid`, then the
`errNoExportedFields` test. -/
def processStruct (g : Graph) (qe : QE) (s : St) : St :=
  let fs := g.fieldsOf qe.sid
  let r := processFields qe 0 fs s {}
  if !fs.isEmpty && !r.2.anyTag && !r.2.anyField then r.1.orErr (some .noExportedFields) else r.1

/-- Process the entries of one BFS level in queue order; entries they append form the next level. -/
def processLevel (g : Graph) : List QE → St → St
  | [], s => s
  | qe :: rest, s => processLevel g rest (processStruct g qe s)

/-- Struct ids of `g` that are not yet in `seen` (the termination measure of the search). -/
def unseen (g : Graph) (seen : List StructId) : Nat :=
  ((List.range g.length).filter (fun t => !seen.contains t)).length

/-- The whole search, level by level.  Only an entry with `visit = true` can append entries, and such an
entry is only created for a struct id that was not in `seen`; the `fuel` argument is the number of levels
still allowed, and `search` starts it at `g.length + 2` (`Lemmas/FieldsL.lean: bfs_fuel_suffices`:
the search is finished — empty queue — when it returns, for every graph). -/
def bfs (g : Graph) : Nat → List QE → St → St
  | 0, _, s => s
  | fuel + 1, frontier, s =>
    match frontier with
    | [] => s
    | _ =>
      let s' := processLevel g frontier { s with queue := [] }
      bfs g fuel s'.queue s'

/-- `queue := []queueEntry{{root, nil, true}}; seen := {root: true}` and the search loop. -/
def search (g : Graph) (root : StructId) : St :=
  bfs g (g.length + 2) [{ sid := root, index := [], visit := true }] { seen := [root] }

/-- `strings.Compare` / `slices.Compare` on byte strings: lexicographic `≤`. -/
def bytesLe : Bytes → Bytes → Bool
  | [], _ => true
  | _ :: _, [] => false
  | a :: as, b :: bs => a.toNat < b.toNat || (a == b && bytesLe as bs)

/-- `slices.Compare(x.index, y.index) ≤ 0`. -/
def indexLe : List Nat → List Nat → Bool
  | [], _ => true
  | _ :: _, [] => false
  | a :: as, b :: bs => a < b || (a == b && indexLe as bs)

/-- The comparator of the stable sort: name, then depth, then explicitly named first. -/
def candLe (x y : RField) : Bool :=
  if x.name != y.name then bytesLe x.name y.name
  else if x.depth != y.depth then x.depth < y.depth
  else x.hasName || !y.hasName

/-- The dominance loop: per group of equal names keep the first element iff it is alone, or
shallower than the second, or differs from it in `hasName`. -/
def dominant : List RField → List RField
  | [] => []
  | f :: rest =>
    let grp := rest.takeWhile (fun x => x.name == f.name)
    let keep := match grp with
      | [] => true
      | f1 :: _ => f.depth != f1.depth || f.hasName != f1.hasName
    if keep then f :: dominant (rest.dropWhile (fun x => x.name == f.name))
    else dominant (rest.dropWhile (fun x => x.name == f.name))
termination_by l => l.length
decreasing_by
  all_goals simp_wf
  all_goals exact Nat.lt_succ_of_le (List.dropWhile_sublist _).length_le

/-- `for i := range flattened { flattened[i].id = i }`. -/
def renumber : Nat → List RField → List RField
  | _, [] => []
  | i, f :: fs => { f with id := i } :: renumber (i + 1) fs

/-- Result of `makeStructFields`. -/
structure StructFields where
  /-- `fs.flattened`: final (index-path) order, ids renumbered breadth-first -/
  flattened : List RField
  /-- `fs.embeddedFallback` -/
  fallback : Option RField
  /-- `serr` -/
  err : Option Err
  /-- `fs.errUnsupportedFormat != nil` -/
  errFormat : Bool
deriving Repr, Inhabited

/-- Everything after the search loop. -/
def finish (s : St) : StructFields :=
  let sorted := s.all.mergeSort candLe
  let dom := dominant sorted
  let byId := dom.mergeSort (fun x y => x.id ≤ y.id)
  let ren := renumber 0 byId
  let flat := ren.mergeSort (fun x y => indexLe x.index y.index)
  let fb := match s.fbs with
    | [] => none
    | [f] => some f
    | f0 :: f1 :: _ => if f0.depth != f1.depth then some f0 else none
  { flattened := flat, fallback := fb, err := s.err, errFormat := s.errFormat }

/-- `makeStructFields(root)`. -/
def flatten (g : Graph) (root : StructId) : StructFields := finish (search g root)

/-! ### Lookup of a member name by the struct unmarshaler -/

inductive Lookup
  | found (f : RField)
  | ambiguous
  | unknown
deriving Repr, DecidableEq, Inhabited

/-- `fs.byFoldedName[foldName(name)]`: the fields with that folded name, in breadth-first id order. -/
def foldedCandidates (foldRune : Nat → Nat) (fs : List RField) (name : Bytes) : List RField :=
  (fs.filter (fun f => Fold.foldName foldRune f.name == Fold.foldName foldRune name)).mergeSort (fun x y => x.id ≤ y.id)

/-- arshal_default.go:1325-1338: exact name first (`byActualName`), else the folded candidates that
`matchFoldedName`, the first one in id order; more than one is `errAmbiguousName` unless
`ReportErrorsWithLegacySemantics`.  (`byActualName` is a map filled in list order: with duplicate names
the LAST would win; `flatten_names_nodup` shows there are none.) -/
def lookup (foldRune : Nat → Nat) (fs : List RField) (name : Bytes) (fl : Fold.MatchFlags) : Lookup :=
  match fs.find? (fun f => f.name == name) with
  | some f => .found f
  | none =>
    let ms := (foldedCandidates foldRune fs name).filter
      (fun f => Fold.matchFoldedName foldRune f.name f.opts.casing name fl)
    match ms with
    | [] => .unknown
    | [f] => .found f
    | f :: _ :: _ => if fl.legacyErrors then .found f else .ambiguous

/-- What the unmarshaler does with a member whose name resolves to no field
(arshal_default.go:1339-1366). -/
inductive UnknownAction
  | skip | reject | toFallback
deriving Repr, DecidableEq, Inhabited

def unknownAction (hasFallback rejectUnknown : Bool) : UnknownAction :=
  if hasFallback then .toFallback else if rejectUnknown then .reject else .skip

/-! ### Omission decisions of the struct marshaler (arshal_default.go:1152-1178) -/

/-- Is the member of field `o` left out, given facts about the field value:
`zero` (IsZero method or Go zero value), `legacyEmpty` (`isLegacyEmpty`), `jsonEmpty`
(the value encodes as null, "", {} or []). -/
def omitted (o : FieldOpts) (omitZeroStructFields omitEmptyLegacy : Bool) (zero legacyEmpty jsonEmpty : Bool) : Bool :=
  ((o.omitzero || omitZeroStructFields) && zero) ||
  (o.omitempty && omitEmptyLegacy && legacyEmpty) ||
  (o.omitempty && !omitEmptyLegacy && jsonEmpty)

/-- Which `f.isZero` closure `handleField` installs for a field (fields.go:219-236); it depends on the field's
static TYPE only — in particular NOT on whether the field carries the `omitzero` tag. -/
inductive ZeroKind
  /-- no `IsZero() bool` in the method set of the type or of its pointer: `f.isZero == nil`, reflect's zero test -/
  | none
  /-- interface kind whose method set has `IsZero`: nil interface, or interface holding a nil pointer, or the method -/
  | iface
  /-- pointer kind whose method set has `IsZero`: nil pointer, or the method -/
  | ptr
  /-- the type itself implements `IsZero`: the method -/
  | value
  /-- only the pointer to the type implements `IsZero`: the method on the address -/
  | addr
deriving Repr, DecidableEq, Inhabited

/-- `(f.isZero == nil && v.IsZero()) || (f.isZero != nil && f.isZero(v))` (arshal_default.go:1155). -/
def fieldIsZero (k : ZeroKind) (isNil elemNilPtr methodZero goZero : Bool) : Bool :=
  match k with
  | .none => goZero
  | .iface => isNil || elemNilPtr || methodZero
  | .ptr => isNil || methodZero
  | .value => methodZero
  | .addr => methodZero

/-- The omission decision with the zero test spelled out. -/
def omittedZ (o : FieldOpts) (omitZeroStructFields omitEmptyLegacy : Bool) (k : ZeroKind)
    (isNil elemNilPtr methodZero goZero legacyEmpty jsonEmpty : Bool) : Bool :=
  omitted o omitZeroStructFields omitEmptyLegacy (fieldIsZero k isNil elemNilPtr methodZero goZero) legacyEmpty jsonEmpty

end JsonV.Model.Fields
