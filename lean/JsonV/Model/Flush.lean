/-
C07 — model of the encoder's output path (jsontext/encode.go, internal/jsonwire/wire.go).  Core Lean only.

Part (i): the four byte-level helpers of wire.go:20-59, one Lean function per Go function.  The Go code scans
backwards from the end of the slice; the models work on the REVERSED buffer (head = last byte) and the
public wrappers reverse in and out, so that every Go loop `for n >= 0 && P(b[n]) { n-- }` is a structural
recursion on the reversed list.

Part (ii): an abstract encoder: `delivered` (what the io.Writer accepted so far), `buf` (encodeBuffer.Buf, the
written but unflushed bytes), `last`/`stack` (Tokens.Last / Tokens.Stack reduced to (isObject, Length())).
`NeedFlush`'s capacity test `len(e.Buf) > 3*cap(e.Buf)/4` is replaced by an adversarial Bool per opportunity
(`Sched.want`), the writer by an adversarial action per call (`WAct`): accept everything, or accept n ≤ len bytes
and return an error.  `Flush`, `avoidFlush`, `UnwriteEmptyObjectMember`, `UnwriteOnlyObjectMemberName` are
modelled on the bytes exactly as written in encode.go:159-332.  The *bytes.Buffer special case of Flush is the
`WAct.ok` behaviour (bb.Write never fails).
-/
import JsonV.Model.Basic

namespace JsonV.Model.Flush
open JsonV

/-! ### (i) wire.go helpers -/

/-- `b[n] == ' ' || b[n] == '\t' || b[n] == '\r' || b[n] == '\n'` -/
def isWs (c : UInt8) : Bool := c == 0x20 || c == 0x09 || c == 0x0d || c == 0x0a

/-- TrimSuffixWhitespace on the reversed buffer. -/
def trimWsR (r : List UInt8) : List UInt8 := r.dropWhile isWs

/-- wire.go:21 -/
def trimSuffixWhitespace (b : Bytes) : Bytes := (trimWsR b.reverse).reverse

/-- TrimSuffixByte on the reversed buffer: `if len(b) > 0 && b[len(b)-1] == c { return b[:len(b)-1] }`. -/
def trimByteR (r : List UInt8) (c : UInt8) : List UInt8 :=
  match r with
  | x :: r' => if x == c then r' else x :: r'
  | [] => []

/-- wire.go:53 -/
def trimSuffixByte (b : Bytes) (c : UInt8) : Bytes := (trimByteR b.reverse c).reverse

/-- wire.go:47 -/
def hasSuffixByte (b : Bytes) (c : UInt8) : Bool :=
  match b.reverse with
  | x :: _ => x == c
  | [] => false

/-- The loop of TrimSuffixString (wire.go:37):
`for len(b) >= 2 && !(b[len(b)-1] == '"' && b[len(b)-2] != '\\') { b = b[:len(b)-1] }`. -/
def scanOpenR : List UInt8 → List UInt8
  | a :: b :: r => if a == 0x22 && b != 0x5c then a :: b :: r else scanOpenR (b :: r)
  | r => r

/-- TrimSuffixString on the reversed buffer: drop a closing quote, run the loop, drop the opening quote. -/
def trimStringR (r : List UInt8) : List UInt8 :=
  trimByteR (scanOpenR (trimByteR r 0x22)) 0x22

/-- wire.go:32 -/
def trimSuffixString (b : Bytes) : Bytes := (trimStringR b.reverse).reverse

/-! ### avoidFlush / UnwriteEmptyObjectMember on bytes -/

/-- The suffix table shared by avoidFlush (encode.go:243) and UnwriteEmptyObjectMember (encode.go:265-279):
(second-to-last byte, last byte, number of value bytes that the unwrite removes = len of `null`, `""`, `{}`, `[]`).
Tied to the literals of the Go source by `Props.C07.tie_avoidFlush_suffixes` / `tie_unwrite_literals`. -/
def emptySuffixes : List (UInt8 × UInt8 × Nat) :=
  [(0x6c, 0x6c, 4), (0x22, 0x22, 2), (0x7b, 0x7d, 2), (0x5b, 0x5d, 2)]

/-- The `switch string(b[len(b)-2:])` of avoidFlush (encode.go:243): "ll", `""`, "{}", "[]".
Argument: the reversed buffer. -/
def endsEmptyR : List UInt8 → Bool
  | x :: y :: _ =>
    (y == 0x6c && x == 0x6c) || (y == 0x22 && x == 0x22) || (y == 0x7b && x == 0x7d) || (y == 0x5b && x == 0x5d)
  | _ => false

/-- The detection part of UnwriteEmptyObjectMember (encode.go:263-283) on the reversed buffer:
the number of value bytes to remove, 0 meaning "not empty" (including the early `return false` for `\""`). -/
def emptyLenR : List UInt8 → Nat
  | x :: y :: z :: _ =>
    if y == 0x6c && x == 0x6c then 4
    else if y == 0x22 && x == 0x22 then (if z == 0x5c then 0 else 2)
    else if y == 0x7b && x == 0x7d then 2
    else if y == 0x5b && x == 0x5d then 2
    else 0
  | _ => 0

/-- The byte part of UnwriteEmptyObjectMember (encode.go:260-292) on the reversed buffer.
`none`: the Go code would slice out of range (`ll` in a 3-byte buffer) — never produced by the encoder;
`some (r, false)`: not empty, nothing changed; `some (r, true)`: the member was removed. -/
def unwriteEmptyR (r : List UInt8) : Option (List UInt8 × Bool) :=
  let n := emptyLenR r
  if n == 0 then some (r, false)
  else if r.length < n then none
  else
    let r := r.drop n
    let r := trimWsR r
    let r := trimByteR r 0x3a
    let r := trimStringR r
    let r := trimWsR r
    let r := trimByteR r 0x2c
    some (r, true)

def unwriteEmptyBytes (b : Bytes) : Option (Bytes × Bool) :=
  (unwriteEmptyR b.reverse).map (fun p => (p.1.reverse, p.2))

/-- The byte part of UnwriteOnlyObjectMemberName (encode.go:318-321). -/
def unwriteNameBytes (b : Bytes) : Bytes := trimSuffixWhitespace (trimSuffixString b)

/-! ### (ii) the encoder's output state -/

/-- One stateEntry reduced to what the output path looks at: isObject() and Length(). -/
structure Frame where
  isObj : Bool
  len : Nat
deriving DecidableEq, Repr

/-- NeedObjectName / needObjectValue (state.go:474/486). -/
def Frame.needName (f : Frame) : Bool := f.isObj && f.len % 2 == 0
def Frame.needValue (f : Frame) : Bool := f.isObj && f.len % 2 == 1
def Frame.inc (f : Frame) : Frame := { f with len := f.len + 1 }

structure Enc where
  delivered : Bytes := []
  buf : Bytes := []
  last : Frame := ⟨false, 0⟩
  stack : List Frame := []
  /-- Flags.Get(OmitTopLevelNewline): set by Marshal/MarshalWrite, clear for an Encoder -/
  omitNL : Bool := false
deriving DecidableEq, Repr

def Enc.total (e : Enc) : Bytes := e.delivered ++ e.buf

/-- Tokens.Depth() -/
def Enc.depth (e : Enc) : Nat := e.stack.length + 1

inductive Tok
  | scalar (text : Bytes)   -- a literal or a number
  | str (body : Bytes)      -- '"' body '"' (already escaped)
  | openObj | closeObj | openArr | closeArr
deriving DecidableEq, Repr

def Tok.text : Tok → Bytes
  | .scalar t => t
  | .str b => 0x22 :: b ++ [0x22]
  | .openObj => [0x7b]
  | .closeObj => [0x7d]
  | .openArr => [0x5b]
  | .closeArr => [0x5d]

def Tok.isClose : Tok → Bool
  | .closeObj | .closeArr => true
  | _ => false

/-- MayAppendDelim (state.go:389), as a function of Tokens.Last / Tokens.Stack. -/
def delim (last : Frame) (stack : List Frame) (t : Tok) : Bytes :=
  if last.needValue then [0x3a]
  else if decide (last.len > 0) && !t.isClose && !stack.isEmpty then [0x2c]
  else []

/-- The state-machine checks that make WriteToken return before touching e.Buf (state.go:270-345). -/
def accepts (last : Frame) (stack : List Frame) : Tok → Bool
  | .scalar _ | .openObj | .openArr => !last.needName
  | .str _ => true
  | .closeObj => last.isObj && !last.needValue && !stack.isEmpty
  | .closeArr => !last.isObj && !stack.isEmpty

/-- appendLiteral/appendString/pushObject/popObject/pushArray/popArray on (Last, Stack). -/
def nextFrames (last : Frame) (stack : List Frame) : Tok → Option (Frame × List Frame)
  | .scalar _ | .str _ => some (last.inc, stack)
  | .openObj => some (⟨true, 0⟩, last.inc :: stack)
  | .openArr => some (⟨false, 0⟩, last.inc :: stack)
  | .closeObj | .closeArr =>
    match stack with
    | p :: s => some (p, s)
    | [] => none

/-- WriteToken/WriteValue/AppendRaw up to `e.Buf = b`: delimiter, whitespace `ws` (chosen by the caller of the model:
a space after the delimiter and/or newline+indent), token text; then the state machine update.
`none` = the call is rejected and nothing changes. -/
def write (e : Enc) (t : Tok) (ws : Bytes) : Option Enc :=
  if !accepts e.last e.stack t then none else
  match nextFrames e.last e.stack t with
  | none => none
  | some (l, s) => some { e with buf := e.buf ++ delim e.last e.stack t ++ ws ++ t.text, last := l, stack := s }

/-- avoidFlush (encode.go:231-249). -/
def avoidFlush (e : Enc) : Bool :=
  if e.last.len == 0 then true
  else if e.last.needValue then true
  else if e.last.needName && decide (e.buf.length ≥ 2) then endsEmptyR e.buf.reverse
  else false

/-- What one Write call of the io.Writer does: accept everything, or accept `n` bytes (clamped to the length) and
return an error.  (A writer returning n < len with a nil error violates io.Writer and is outside the model.) -/
inductive WAct
  | ok
  | fail (n : Nat)
deriving DecidableEq, Repr

/-- Flush (encode.go:159-224), without the buffer-growth heuristics (which only change capacities). -/
def flush (e : Enc) (a : WAct) : Enc :=
  if avoidFlush e then e else
  let b := if e.depth == 1 && !e.omitNL then e.buf ++ [0x0a] else e.buf
  match a with
  | .ok => { e with delivered := e.delivered ++ b, buf := [] }
  | .fail n => { e with delivered := e.delivered ++ b.take n, buf := b.drop n }

/-- UnwriteEmptyObjectMember (encode.go:253-308); the name-stack and namespace updates are not part of this model.
Outside its precondition the Go function panics ("BUG: must be called on an object after writing a value"); the
model then leaves the state alone and reports false. -/
def unwriteEmpty (e : Enc) : Enc × Bool :=
  if !(e.last.isObj && e.last.needName && decide (e.last.len > 0)) then (e, false) else
  match unwriteEmptyBytes e.buf with
  | some (b, true) => ({ e with buf := b, last := ⟨true, e.last.len - 2⟩ }, true)
  | _ => (e, false)

/-- UnwriteOnlyObjectMemberName (encode.go:312-332); precondition `isObject && Length() == 1`. -/
def unwriteName (e : Enc) : Enc :=
  if !(e.last.isObj && e.last.len == 1) then e else
  { e with buf := unwriteNameBytes e.buf, last := ⟨true, 0⟩ }

inductive Op
  | tok (t : Tok) (ws : Bytes)
  | unwriteEmpty
  | unwriteName
deriving DecidableEq, Repr

/-- The adversary's choices at the flush opportunity that follows a write: whether the capacity test of NeedFlush
fires, and what the writer does if Flush reaches it. -/
structure Sched where
  want : Bool
  act : WAct
deriving DecidableEq, Repr

/-- One call.  After an accepted write: `if e.NeedFlush() { return e.Flush() }` with
NeedFlush = `Depth() == 1 || <capacity test>`. -/
def step (e : Enc) (op : Op) (s : Sched) : Enc :=
  match op with
  | .tok t ws =>
    match write e t ws with
    | none => e
    | some e' => if e'.stack.isEmpty || s.want then flush e' s.act else e'
  | .unwriteEmpty => (unwriteEmpty e).1
  | .unwriteName => unwriteName e

def run (e : Enc) : List (Op × Sched) → Enc
  | [] => e
  | (op, s) :: rest => run (step e op s) rest

end JsonV.Model.Flush
