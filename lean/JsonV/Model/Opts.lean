/-
Model of `jsonopts.Struct`, `Struct.Join`, `GetOption` (internal/jsonopts/options.go:27-186)
and of package json's `JoinUnknownOption`/`GetUnknownOption` (options.go:258-287).
Flag identifiers come from the regenerated `Gen.Constants`.
-/
import JsonV.Model.Basic
import JsonV.Model.Flags
import JsonV.Gen.Constants

namespace JsonV.Model
open JsonV.Gen

def bv (n : Nat) : BitVec 64 := BitVec.ofNat 64 n

namespace F
def multiline := bv jsonflags.c_Multiline
def indent := bv jsonflags.c_Indent
def indentPrefix := bv jsonflags.c_IndentPrefix
def byteLimit := bv jsonflags.c_ByteLimit
def depthLimit := bv jsonflags.c_DepthLimit
def marshalers := bv jsonflags.c_Marshalers
def unmarshalers := bv jsonflags.c_Unmarshalers
def formatTag := bv jsonflags.c_FormatTag
def formatTagSupported := bv jsonflags.c_FormatTagSupported
def stringifyNumbers := bv jsonflags.c_StringifyNumbers
def stringTag := bv jsonflags.c_StringTag
def nonBoolean := bv jsonflags.c_NonBooleanFlags
def spaceAfterColon := bv jsonflags.c_SpaceAfterColon
def spaceAfterComma := bv jsonflags.c_SpaceAfterComma
def defaultV1 := bv jsonflags.c_DefaultV1Flags
end F

/-- `jsonopts.Struct` (pointers to Marshalers/Unmarshalers are abstract identities, 0 = nil). -/
structure Struct where
  flags : Flags := Flags.empty
  indent : Bytes := []
  indentPrefix : Bytes := []
  byteLimit : Int := 0
  depthLimit : Int := 0
  marshalers : Nat := 0
  unmarshalers : Nat := 0
  format : Bytes := []
deriving DecidableEq, Repr, Inhabited

/-- The dynamic types that `Struct.Join` switches over. -/
inductive Opt where
  | nil
  | bools (f : BitVec 64)
  | formatTagSupport (b : Bool)
  | indent (s : Bytes)
  | indentPrefix (s : Bytes)
  | byteLimit (n : Int)
  | depthLimit (n : Int)
  | marshalers (id : Nat)
  | unmarshalers (id : Nat)
  | struct (s : Struct)
deriving DecidableEq, Repr, Inhabited

def one : BitVec 64 := 1#64

/-- The seven conditional field copies of the `*Struct` case (options.go:158-180): each value
slot is copied iff the source has the flag guarding it. -/
def Struct.copySlots (d src : Struct) : Struct :=
  { flags := d.flags
    indent := if src.flags.has F.indent then src.indent else d.indent
    indentPrefix := if src.flags.has F.indentPrefix then src.indentPrefix else d.indentPrefix
    byteLimit := if src.flags.has F.byteLimit then src.byteLimit else d.byteLimit
    depthLimit := if src.flags.has F.depthLimit then src.depthLimit else d.depthLimit
    marshalers := if src.flags.has F.marshalers then src.marshalers else d.marshalers
    unmarshalers := if src.flags.has F.unmarshalers then src.unmarshalers else d.unmarshalers
    format := if src.flags.has F.formatTag then src.format else d.format }

/-- One iteration of the loop of `Struct.Join` (options.go:133-186, options.go:273-286). -/
def Struct.joinOne (dst : Struct) : Opt → Struct
  | .nil => dst
  | .bools f => { dst with flags := dst.flags.set f }
  | .formatTagSupport b =>
      { dst with flags := dst.flags.set (F.formatTagSupported ||| (if b then one else 0#64)) }
  | .indent s => { dst with flags := dst.flags.set (F.multiline ||| F.indent ||| one), indent := s }
  | .indentPrefix s =>
      { dst with flags := dst.flags.set (F.multiline ||| F.indentPrefix ||| one), indentPrefix := s }
  | .byteLimit n => { dst with flags := dst.flags.set (F.byteLimit ||| one), byteLimit := n }
  | .depthLimit n => { dst with flags := dst.flags.set (F.depthLimit ||| one), depthLimit := n }
  | .marshalers id => { dst with flags := dst.flags.set (F.marshalers ||| one), marshalers := id }
  | .unmarshalers id => { dst with flags := dst.flags.set (F.unmarshalers ||| one), unmarshalers := id }
  | .struct src =>
      let d := { dst with flags := dst.flags.join src.flags }
      if src.flags.has F.nonBoolean then d.copySlots src else d

def Struct.join (dst : Struct) (srcs : List Opt) : Struct := srcs.foldl Struct.joinOne dst

/-- `JoinOptions(srcs...)`. -/
def joinOptions (srcs : List Opt) : Struct := Struct.join {} srcs

/-- What `GetOption` is asked for (the dynamic type of `setter(zero)`). -/
inductive Key where
  | flag (f : BitVec 64)      -- a `jsonflags.Bools` setter; `f` is its identifier bit(s)
  | formatTagSupport
  | indent | indentPrefix | byteLimit | depthLimit | marshalers | unmarshalers
deriving DecidableEq, Repr

inductive Val where
  | bool (b : Bool) | bytes (s : Bytes) | int (n : Int) | ptr (id : Nat)
deriving DecidableEq, Repr

/-- `GetOption` on a collapsed `*Struct` (options.go:72-124, options.go:260-272).
Returns the value (zero value if absent) and the `ok` result. -/
def Struct.getOption (s : Struct) : Key → Val × Bool
  | .flag f =>
      let v := s.flags.get f
      let ok := s.flags.has f
      if !ok && f == F.stringifyNumbers && s.flags.get F.stringTag then (.bool true, true)
      else (.bool v, ok)
  | .formatTagSupport => (.bool (s.flags.get F.formatTagSupported), s.flags.has F.formatTagSupported)
  | .indent => if !s.flags.has F.indent then (.bytes [], false) else (.bytes s.indent, true)
  | .indentPrefix => if !s.flags.has F.indentPrefix then (.bytes [], false) else (.bytes s.indentPrefix, true)
  | .byteLimit => if !s.flags.has F.byteLimit then (.int 0, false) else (.int s.byteLimit, true)
  | .depthLimit => if !s.flags.has F.depthLimit then (.int 0, false) else (.int s.depthLimit, true)
  | .marshalers => if !s.flags.has F.marshalers then (.ptr 0, false) else (.ptr s.marshalers, true)
  | .unmarshalers => if !s.flags.has F.unmarshalers then (.ptr 0, false) else (.ptr s.unmarshalers, true)

def defaultOptionsV2 : Struct := { flags := ⟨F.defaultV1, 0#64⟩ }
def defaultOptionsV1 : Struct := { flags := ⟨F.defaultV1, F.defaultV1⟩ }

end JsonV.Model
