/-
Models of the pure code that package v1 (/repo/v1) adds on top of v2.  Core Lean only.

* `htmlEscape`  — `appendHTMLEscape` (/repo/v1/indent.go:26-46).  The Go loop walks `src` by index with a pending
  `start`; every time it meets `<`, `>`, `&` it flushes `src[start:i]`, appends `\u00XX` and sets `start = i+1`; every
  time it meets `E2 80 A8|A9` (with `i+2 < len(src)`) it flushes, appends `\u202X` and sets `start = i+3` (the two
  continuation bytes it then walks over are neither of the special ASCII bytes nor `E2`, so nothing happens until
  `i` has passed `start`).  In (consumed, rest) style that is the recursive scanner below.
* `unescape`    — the inverse used to state that the meaning is preserved: the five six-byte sequences that
  `htmlEscape` writes (backslash, `u`, then `003c`, `003e`, `0026`, `2028`, `2029`) are turned back.
* `valid`       — what `v1.Valid` accepts (/repo/v1/scanner.go:26 `checkValid`: one `ReadValue` of a jsontext decoder
  with AllowDuplicateNames and AllowInvalidUTF8, then `CheckEOF`): the RFC 8259 grammar with arbitrary bytes
  ≥ 0x20 in strings, any `\uXXXX`, duplicate names allowed, nesting depth ≤ 10000.  Written as a pushdown
  recogniser over the bytes; every step consumes at least one byte, so `fuel = length + 1` suffices
  (`valid_fuel_mono` in Lemmas/V1L).
* `trailingWs`, `isBlank` — the two predicates of `appendIndent` (/repo/v1/indent.go:95 and :127).
-/
import JsonV.Model.Basic
import JsonV.Model.Validate
import JsonV.Model.Format

namespace JsonV.Model.V1
open JsonV

/-- `"0123456789abcdef"[n]` for `n < 16`. -/
def hexLower (n : UInt8) : UInt8 := if n < 10 then 0x30 + n else 0x57 + n

def isHtmlByte (c : UInt8) : Bool := c == 0x3C || c == 0x3E || c == 0x26

/-- `'\\', 'u', '0', '0', hex[c>>4], hex[c&0xF]` -/
def esc00 (c : UInt8) : Bytes := [0x5C, 0x75, 0x30, 0x30, hexLower (c >>> 4), hexLower (c &&& 0xF)]

/-- `'\\', 'u', '2', '0', '2', hex[c&0xF]` -/
def esc202 (c : UInt8) : Bytes := [0x5C, 0x75, 0x32, 0x30, 0x32, hexLower (c &&& 0xF)]

/-- `src[i+2]&^1 == 0xA8` -/
def isLsByte (c : UInt8) : Bool := c == 0xA8 || c == 0xA9

def htmlEscape : Bytes → Bytes
  | c :: c1 :: c2 :: rest' =>
    if isHtmlByte c then esc00 c ++ htmlEscape (c1 :: c2 :: rest')
    else if c == 0xE2 && c1 == 0x80 && isLsByte c2 then esc202 c2 ++ htmlEscape rest'
    else c :: htmlEscape (c1 :: c2 :: rest')
  | c :: rest => if isHtmlByte c then esc00 c ++ htmlEscape rest else c :: htmlEscape rest
  | [] => []
termination_by b => b.length

/-- Does the text contain `E2 80 A8` or `E2 80 A9` (U+2028 / U+2029 in UTF-8) as a contiguous triple? -/
def hasLS : Bytes → Bool
  | a :: b :: c :: rest => (a == 0xE2 && b == 0x80 && isLsByte c) || hasLS (b :: c :: rest)
  | _ => false
termination_by b => b.length

/-- What the six bytes after nothing, i.e. `\ u a b c d`, stand for (only the five escapes `htmlEscape` writes). -/
def unesc6 (a b c d : UInt8) : Option Bytes :=
  if a == 0x30 && b == 0x30 && c == 0x33 && d == 0x63 then some [0x3C]
  else if a == 0x30 && b == 0x30 && c == 0x33 && d == 0x65 then some [0x3E]
  else if a == 0x30 && b == 0x30 && c == 0x32 && d == 0x36 then some [0x26]
  else if a == 0x32 && b == 0x30 && c == 0x32 && d == 0x38 then some [0xE2, 0x80, 0xA8]
  else if a == 0x32 && b == 0x30 && c == 0x32 && d == 0x39 then some [0xE2, 0x80, 0xA9]
  else none

def unescape : Bytes → Bytes
  | x :: u :: a :: b :: c :: d :: rest' =>
    if x == 0x5C && u == 0x75 then
      match unesc6 a b c d with
      | some o => o ++ unescape rest'
      | none => x :: unescape (u :: a :: b :: c :: d :: rest')
    else x :: unescape (u :: a :: b :: c :: d :: rest')
  | x :: rest => x :: unescape rest
  | [] => []
termination_by b => b.length

/-- Number of `<`, `>`, `&` that `htmlEscape` replaces, and number of U+2028/9 triples it replaces. -/
def escCounts : Bytes → Nat × Nat
  | c :: c1 :: c2 :: rest' =>
    if isHtmlByte c then ((escCounts (c1 :: c2 :: rest')).1 + 1, (escCounts (c1 :: c2 :: rest')).2)
    else if c == 0xE2 && c1 == 0x80 && isLsByte c2 then ((escCounts rest').1, (escCounts rest').2 + 1)
    else escCounts (c1 :: c2 :: rest')
  | c :: rest => if isHtmlByte c then ((escCounts rest).1 + 1, (escCounts rest).2) else escCounts rest
  | [] => (0, 0)
termination_by b => b.length

/-! ### appendIndent predicates -/

def isJsonWs (c : UInt8) : Bool := c == 0x20 || c == 0x0A || c == 0x0D || c == 0x09

/-- `src[len(bytes.TrimRight(src, " \n\r\t")):]` -/
def trailingWs (b : Bytes) : Bytes := (b.reverse.takeWhile isJsonWs).reverse

/-- `len(strings.Trim(s, " \t")) == 0` -/
def isBlank (s : Bytes) : Bool := s.all (fun c => c == 0x20 || c == 0x09)

/-! ### v1.Valid -/

def maxDepth : Nat := 10000

def isDigit (c : UInt8) : Bool := 0x30 ≤ c && c ≤ 0x39
def isHex (c : UInt8) : Bool := isDigit c || (0x41 ≤ c && c ≤ 0x46) || (0x61 ≤ c && c ≤ 0x66)

/-- after the opening quote: returns the rest after the closing quote -/
def scanString : Bytes → Option Bytes
  | [] => none
  | c :: rest =>
    if c == 0x22 then some rest
    else if c < 0x20 then none
    else if c == 0x5C then
      match rest with
      | e :: rest1 =>
        if e == 0x22 || e == 0x5C || e == 0x2F || e == 0x62 || e == 0x66 || e == 0x6E || e == 0x72 || e == 0x74 then scanString rest1
        else if e == 0x75 then
          match rest1 with
          | h1 :: h2 :: h3 :: h4 :: rest2 => if isHex h1 && isHex h2 && isHex h3 && isHex h4 then scanString rest2 else none
          | _ => none
        else none
      | [] => none
    else scanString rest
termination_by b => b.length

def dropDigits (b : Bytes) : Bytes := b.dropWhile isDigit

/-- at the first byte of a number (`-` or a digit): returns the rest after the longest number -/
def scanNumber (b : Bytes) : Option Bytes :=
  let b1 := match b with
    | 0x2D :: r => r
    | _ => b
  match b1 with
  | [] => none
  | d :: r =>
    if !isDigit d then none else
    let afterInt := if d == 0x30 then r else dropDigits r
    let afterFrac : Option Bytes :=
      match afterInt with
      | 0x2E :: f =>
        (match f with
         | fd :: _ => if isDigit fd then some (dropDigits f) else none
         | [] => none)
      | _ => some afterInt
    match afterFrac with
    | none => none
    | some af =>
      match af with
      | e :: x =>
        if e == 0x65 || e == 0x45 then
          let x1 := match x with
            | s :: y => if s == 0x2B || s == 0x2D then y else x
            | [] => x
          match x1 with
          | ed :: _ => if isDigit ed then some (dropDigits x1) else none
          | [] => none
        else some af
      | [] => some af

def dropPrefix (p b : Bytes) : Option Bytes :=
  if p.isPrefixOf b then some (b.drop p.length) else none

inductive Mode where
  | value | arrFirst | objFirst | objName | colon | afterValue
  deriving DecidableEq, Repr

/-- start of a value: returns the new stack and mode, or none -/
def startValue (c : UInt8) (rest : Bytes) (stack : List Bool) : Option (Bytes × List Bool × Mode) :=
  if c == 0x7B then (if stack.length < maxDepth then some (rest, true :: stack, Mode.objFirst) else none)
  else if c == 0x5B then (if stack.length < maxDepth then some (rest, false :: stack, Mode.arrFirst) else none)
  else if c == 0x22 then (scanString rest).map (fun r => (r, stack, Mode.afterValue))
  else if c == 0x2D || isDigit c then (scanNumber (c :: rest)).map (fun r => (r, stack, Mode.afterValue))
  else if c == 0x6E then (dropPrefix [0x75, 0x6C, 0x6C] rest).map (fun r => (r, stack, Mode.afterValue))
  else if c == 0x74 then (dropPrefix [0x72, 0x75, 0x65] rest).map (fun r => (r, stack, Mode.afterValue))
  else if c == 0x66 then (dropPrefix [0x61, 0x6C, 0x73, 0x65] rest).map (fun r => (r, stack, Mode.afterValue))
  else none

def run : Nat → Bytes → List Bool → Mode → Bool
  | 0, _, _, _ => false
  | fuel + 1, b, stack, mode =>
    match b.dropWhile isJsonWs with
    | [] => mode == Mode.afterValue && stack.isEmpty
    | c :: rest =>
      match mode with
      | Mode.afterValue =>
        (match stack with
         | [] => false
         | true :: st => if c == 0x2C then run fuel rest stack Mode.objName
                         else if c == 0x7D then run fuel rest st Mode.afterValue else false
         | false :: st => if c == 0x2C then run fuel rest stack Mode.value
                          else if c == 0x5D then run fuel rest st Mode.afterValue else false)
      | Mode.colon => if c == 0x3A then run fuel rest stack Mode.value else false
      | Mode.objName =>
        if c == 0x22 then (match scanString rest with
                           | some r => run fuel r stack Mode.colon
                           | none => false) else false
      | Mode.objFirst =>
        if c == 0x7D then run fuel rest stack.tail Mode.afterValue
        else if c == 0x22 then (match scanString rest with
                                | some r => run fuel r stack Mode.colon
                                | none => false) else false
      | Mode.arrFirst =>
        if c == 0x5D then run fuel rest stack.tail Mode.afterValue
        else (match startValue c rest stack with
              | some (r, st, m) => run fuel r st m
              | none => false)
      | Mode.value =>
        (match startValue c rest stack with
         | some (r, st, m) => run fuel r st m
         | none => false)

/-- An independent second recogniser of the same acceptance set (hand-written push-down automaton over bytes).
It is NOT what the theorems speak about; the harness checks `validPda = valid = v1.Valid = encoding/json.Valid` on
every generated input, and `Props/C09.validPda_eq_valid_full` keeps the unproved equality visible. -/
def validPda (b : Bytes) : Bool := run (b.length + 1) b [] Mode.value

/-- The decoder options `checkValid` sets (/repo/v1/scanner.go:30): AllowDuplicateNames | AllowInvalidUTF8. -/
def permissive : Validate.VOpts := ⟨true, true⟩

/-- `v1.Valid(data)` = `checkValid(data) == nil` (/repo/v1/scanner.go:22-44): ONE `ReadValue` of a fresh jsontext
decoder over the whole buffer with the two permissive flags, then `CheckEOF` — which is exactly slice C01's model
`Validate.validText` (consumeValue at the top level, then only whitespace) instantiated at those flags. -/
def valid (b : Bytes) : Bool := Validate.isValid permissive b

/-! ### v1.Compact and v1.Indent (/repo/v1/indent.go:48-140, as fixed by /repo commit 2a3df4e)

Both call `jsontext.AppendFormat` with AllowDuplicateNames, AllowInvalidUTF8, PreserveRawStrings — slice C12's
`Fmt.format` (strings and numbers verbatim, delimiters and whitespace regenerated). -/

/-- `v1.Compact`: `none` = error (dst is left as it was). -/
def compact (src : Bytes) : Option Bytes := Fmt.compact src

def spaces (n : Nat) : Bytes := List.replicate n 0x20

/-- What the `n` placeholder spaces after a newline become: `copy(spaces, invalidPrefix)` and then
`copy(spaces, invalidIndent)` until the run is used up, i.e. the first `n` bytes of `pre ++ ind ++ ind ++ …`.
(With `ind = ""` and `n > len(pre)` the Go loop would not terminate — the D4b defect, unreachable on formatted
output where `n = len(pre) + k·len(ind)`; the model leaves those bytes as spaces.) -/
def fill (pre ind : Bytes) (n : Nat) : Bytes :=
  let s := (pre ++ Fmt.repeatBytes ind n).take n
  s ++ spaces (n - s.length)

/-- `replacePlaceholders` of appendIndent: after every `\n`, the run of spaces that follows is overwritten. -/
def replacePH (pre ind : Bytes) : Bytes → Bytes
  | [] => []
  | c :: rest =>
    if c == 0x0A then
      let n := (rest.takeWhile (· == 0x20)).length
      0x0A :: (fill pre ind n ++ replacePH pre ind (rest.drop n))
    else c :: replacePH pre ind rest
termination_by b => b.length
decreasing_by
  all_goals simp_wf
  all_goals omega

/-- `v1.Indent(dst, src, prefix, indent)`: the bytes appended to dst, `none` = error (nothing appended).
Blank prefix and indent (spaces and tabs only): format directly.  Otherwise: format with placeholder spaces of the
same lengths, overwrite the placeholders line by line, and only THEN append the trailing whitespace of src. -/
def indent (pre ind src : Bytes) : Option Bytes :=
  if isBlank pre && isBlank ind then
    (Fmt.indent pre ind src).map (· ++ trailingWs src)
  else
    (Fmt.indent (spaces pre.length) (spaces ind.length) src).map (fun out => replacePH pre ind out ++ trailingWs src)

end JsonV.Model.V1
