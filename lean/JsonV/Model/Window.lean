/-
Abstract model of the decode buffer of jsontext/decode.go (`decodeBuffer`, lines 92-115) and of `fetch`
(lines 175-253).  Capacity and growth only decide HOW MANY bytes the next Read may deliver, so they are not
modelled: `fetch k` takes the next `k` bytes of the pending stream, for every `k` (every chunking).

  buf[0:prevEnd]          already read      buf[prevStart:prevEnd]  previous token/value
  buf[prevEnd:len(buf)]   unread            baseOffset              absolute offset of buf[0]

`consumed` is a ghost field: the bytes dropped from the front of the buffer so far.  Core Lean only.
-/
import JsonV.Model.Basic

namespace JsonV.Model.Window
open JsonV

structure Window where
  buf : Bytes
  prevStart : Nat
  prevEnd : Nat
  baseOffset : Nat
  /-- the part of the stream the reader has not handed out yet -/
  pending : Bytes
  /-- ghost: the bytes that were dropped from the front of `buf` -/
  consumed : Bytes
  deriving Repr

/-- `Decoder.InputOffset` = `previousOffsetEnd` -/
def Window.inputOffset (w : Window) : Nat := w.baseOffset + w.prevEnd
/-- `Decoder.UnreadBuffer` -/
def Window.unread (w : Window) : Bytes := w.buf.drop w.prevEnd

/-- a streaming decoder before the first read -/
def init (stream : Bytes) : Window :=
  { buf := [], prevStart := 0, prevEnd := 0, baseOffset := 0, pending := stream, consumed := [] }

/-- a decoder over a whole slice (`rd == nil`) -/
def initWhole (stream : Bytes) : Window :=
  { buf := stream, prevStart := 0, prevEnd := 0, baseOffset := 0, pending := [], consumed := [] }

/-- `fetch` (decode.go:224-243): drop `buf[:prevStart]` (by copying down or into a grown buffer), add `prevStart`
to `baseOffset`, rebase `prevEnd`, append the next `k` bytes the reader delivers. -/
def fetch (w : Window) (k : Nat) : Window :=
  { buf := w.buf.drop w.prevStart ++ w.pending.take k
    prevStart := 0
    prevEnd := w.prevEnd - w.prevStart
    baseOffset := w.baseOffset + w.prevStart
    pending := w.pending.drop k
    consumed := w.consumed ++ w.buf.take w.prevStart }

/-- a successful ReadToken/ReadValue: `d.prevStart, d.prevEnd = pos-n, pos` with `prevEnd ≤ pos-n ≤ pos ≤ len(buf)`;
anything else is not a step of the decoder and leaves the window alone. -/
def advance (w : Window) (s e : Nat) : Window :=
  if w.prevEnd ≤ s ∧ s ≤ e ∧ e ≤ w.buf.length then { w with prevStart := s, prevEnd := e } else w

/-- `invalidatePreviousRead` (decode.go:261): overwrite the first byte of the previous value, forget it. -/
def invalidate (w : Window) : Window :=
  if w.prevStart < w.prevEnd ∧ w.prevStart < w.buf.length then
    { w with buf := w.buf.set w.prevStart 0x23, prevStart := w.prevEnd }
  else w

inductive Op where
  | fetch (k : Nat)
  | advance (s e : Nat)
  | invalidate
  deriving Repr

def step (w : Window) : Op → Window
  | .fetch k => fetch w k
  | .advance s e => advance w s e
  | .invalidate => invalidate w

def run (w : Window) : List Op → Window
  | [] => w
  | op :: ops => run (step w op) ops

/-- The invariant behind "InputOffset + UnreadBuffer": everything from `InputOffset` on is, byte for byte, the
unread part of the buffer followed by what the reader still holds; nothing is lost or duplicated.
(Bytes before `prevEnd` may have been overwritten by `invalidate`, so nothing is claimed about them.) -/
def Inv (stream : Bytes) (w : Window) : Prop :=
  w.prevStart ≤ w.prevEnd ∧ w.prevEnd ≤ w.buf.length ∧
  stream.length = w.baseOffset + w.buf.length + w.pending.length ∧
  stream.drop (w.baseOffset + w.prevEnd) = w.buf.drop w.prevEnd ++ w.pending

/-- The literal form for decoders that never overwrite the buffer (whole slice, *bytes.Buffer). -/
def InvExact (stream : Bytes) (w : Window) : Prop :=
  w.prevStart ≤ w.prevEnd ∧ w.prevEnd ≤ w.buf.length ∧
  stream = w.consumed ++ w.buf ++ w.pending ∧ w.consumed.length = w.baseOffset

def Op.isInvalidate : Op → Bool
  | .invalidate => true
  | _ => false

end JsonV.Model.Window
