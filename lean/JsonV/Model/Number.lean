/-
C10 — number conversions.  Executable model of the number code of /repo (core Lean only).

  (a) jsonwire.ParseUint                      internal/jsonwire/decode.go
  (b) makeIntArshaler / makeUintArshaler      arshal_default.go   (unmarshal side, incl. the quoted form)
  (c) Token.Int / Token.Uint / Token.Float    jsontext/token.go   (raw number literals)
  (d) jsonwire.AppendFloat                    internal/jsonwire/encode.go, as a function of strconv's
                                              shortest decomposition (neg, digits, dp) and of strconv's
                                              %e / %f layout (fmtE / fmtF of internal/strconv/ftoa.go)
  (e) jsonwire.ReformatNumber                 internal/jsonwire/encode.go (after ConsumeNumber)
  (f) strconv.AppendUint / AppendInt          decimal digits

The model mirrors what the code does: same case splits, same order of tests, wrapping 64-bit
arithmetic where the Go code wraps.  strconv.ParseFloat and the shortest-digit generation are
parameters; `parseFloatExact` below is their *specification* (correct rounding, computed with
exact integer arithmetic) that the oracle plugs in and the harness validates against strconv
and math/big.
-/
import JsonV.Model.Basic
import JsonV.Gen.Constants
import JsonV.Model.WireDecode

namespace JsonV.Model.Number
open JsonV

/-! ## (a) jsonwire.ParseUint -/

/-- `'0' <= c && c <= '9'` -/
def isDigit (c : UInt8) : Bool := 48 ≤ c && c ≤ 57

def maxUint64 : UInt64 := 18446744073709551615

/-- `const unsafeWidth = 20`, regenerated from the source (Tie A). -/
def unsafeWidth : Nat := JsonV.Gen.jsonwire.c_ParseUint_unsafeWidth

/-- `for ; len(b) > n && ('0' <= b[n] && b[n] <= '9'); n++ { v = 10*v + uint64(b[n]-'0') }`
with wrapping `uint64` arithmetic.  The first argument is `b[n:]`. -/
def parseUintLoop : Bytes → Nat → UInt64 → Nat × UInt64
  | [], n, v => (n, v)
  | c :: rest, n, v =>
    if isDigit c then parseUintLoop rest (n + 1) (10 * v + (c - 48).toUInt64) else (n, v)

/-- jsonwire.ParseUint.  `(0,false)` on a syntax error, `(MaxUint64,false)` on overflow. -/
def parseUint (b : Bytes) : UInt64 × Bool :=
  let (n, v) := parseUintLoop b 0 0
  -- case n == 0 || len(b) != n || (b[0] == '0' && string(b) != "0"):
  if n == 0 || b.length != n || (b.head? == some 48 && b != [48]) then (0, false)
  -- case n >= unsafeWidth && (b[0] != '1' || v < 1e19 || n > unsafeWidth):
  else if decide (n ≥ unsafeWidth) && (b.head? != some 49 || v < 10000000000000000000 || decide (n > unsafeWidth)) then
    (maxUint64, false)
  else (v, true)

/-! ## (b) integer unmarshalers of arshal_default.go -/

/-- Error classes of the arshalers: `strconv.ErrSyntax`, `strconv.ErrRange`, and the
kind mismatch (`newUnmarshalErrorAfter(dec, t, nil)`). -/
inductive ArshErr where
  | syntax | range | mismatch
  deriving DecidableEq, Repr

/-- Go's `uint64(1) << s` for a non-negative shift count: 0 once `s ≥ 64`. -/
def shl1 (s : Nat) : UInt64 := UInt64.ofBitVec ((1 : BitVec 64) <<< s)

/-- `reflect.Value.SetInt(x)` on a `bits`-wide signed kind keeps the low `bits` bits (two's complement). -/
def wrapInt (bits : Nat) (x : Int) : Int := Int.bmod x (2 ^ bits)

/-- `reflect.Value.SetUint(x)` on a `bits`-wide unsigned kind keeps the low `bits` bits. -/
def wrapUint (bits : Nat) (x : Nat) : Nat := x % 2 ^ bits

/-- The `case '0':` arm of makeIntArshaler's unmarshal (also reached from the quoted form):
`val` is the number literal, or the unquoted contents of the JSON string. -/
def unmarshalInt (bits : Nat) (val : Bytes) : Except ArshErr Int :=
  -- neg := len(val) > 0 && val[0] == '-'
  let neg := val.head? == some 45
  let negOffset := if neg then 1 else 0
  let (n, ok) := parseUint (val.drop negOffset)
  let maxInt : UInt64 := shl1 (bits - 1)
  let overflow := (neg && n > maxInt) || (!neg && n > maxInt - 1)
  if !ok then
    if n != maxUint64 then .error .syntax else .error .range
  else if overflow then .error .range
  else if neg then .ok (wrapInt bits (0 - n).toInt64.toInt)     -- va.SetInt(int64(-n))
  else .ok (wrapInt bits n.toInt64.toInt)                        -- va.SetInt(int64(+n))

/-- The `case '0':` arm of makeUintArshaler's unmarshal. -/
def unmarshalUint (bits : Nat) (val : Bytes) : Except ArshErr Nat :=
  let (n, ok) := parseUint val
  let maxUint : UInt64 := shl1 bits
  let overflow := n > maxUint - 1
  if !ok then
    if n != maxUint64 then .error .syntax else .error .range
  else if overflow then .error .range
  else .ok (wrapUint bits n.toNat)

/-- Kind of the JSON value handed to a number arshaler. -/
inductive VKind where
  | null | str | num | other
  deriving DecidableEq, Repr

/-- Outcome of a number unmarshal: the value stored, "zero stored" for null, or an error. -/
inductive Stored (α : Type) where
  | set (v : α) | null | err (e : ArshErr)
  deriving Repr

/-- The `switch k` of makeIntArshaler's unmarshal without the v1 legacy arm
(`StringifyWithLegacySemantics`, which delegates to strconv.ParseInt).  `stringify` is
`NeedObjectName() || StringifyNumbers|StringTag`; for `k = str`, `val` is the unquoted content. -/
def unmarshalIntValue (bits : Nat) (stringify : Bool) (k : VKind) (val : Bytes) : Stored Int :=
  match k with
  | .null => .null
  | .str => if !stringify then .err .mismatch else
      match unmarshalInt bits val with | .ok v => .set v | .error e => .err e
  | .num => if stringify then .err .mismatch else
      match unmarshalInt bits val with | .ok v => .set v | .error e => .err e
  | .other => .err .mismatch

def unmarshalUintValue (bits : Nat) (stringify : Bool) (k : VKind) (val : Bytes) : Stored Nat :=
  match k with
  | .null => .null
  | .str => if !stringify then .err .mismatch else
      match unmarshalUint bits val with | .ok v => .set v | .error e => .err e
  | .num => if stringify then .err .mismatch else
      match unmarshalUint bits val with | .ok v => .set v | .error e => .err e
  | .other => .err .mismatch

/-! ## floating-point values as exact dyadic numbers -/

/-- A float64/float32 value: `(-1)^neg * mant * 2^exp`, or an infinity.  (NaN never arises from a JSON number.) -/
structure Fl where
  neg : Bool
  inf : Bool
  mant : Nat
  exp : Int
  deriving Repr, DecidableEq

namespace Fl
def isZero (f : Fl) : Bool := !f.inf && f.mant == 0
/-- `|f| ≥ k` for a natural number `k`. -/
def absGe (f : Fl) (k : Nat) : Bool :=
  f.inf || (if f.exp ≥ 0 then decide (f.mant * 2 ^ f.exp.toNat ≥ k) else decide (f.mant ≥ k * 2 ^ (-f.exp).toNat))
/-- `|f| > k`. -/
def absGt (f : Fl) (k : Nat) : Bool :=
  f.inf || (if f.exp ≥ 0 then decide (f.mant * 2 ^ f.exp.toNat > k) else decide (f.mant > k * 2 ^ (-f.exp).toNat))
/-- `⌊|f|⌋` of a finite value. -/
def truncAbs (f : Fl) : Nat :=
  if f.exp ≥ 0 then f.mant * 2 ^ f.exp.toNat else f.mant / 2 ^ (-f.exp).toNat
end Fl

/-- token.go `f64toi64` (NaN cannot occur here): saturate, else truncate toward zero. -/
def f64toi64 (f : Fl) : Int :=
  if !f.neg && f.absGe (2 ^ 63) then 2 ^ 63 - 1                 -- f64 >= maxInt64+1
  else if f.neg && f.absGt (2 ^ 63) then -(2 ^ 63)              -- f64 < minInt64
  else if f.neg then -(f.truncAbs : Int) else f.truncAbs

/-- token.go `f64tou64`. -/
def f64tou64 (f : Fl) : Nat :=
  if !f.neg && f.absGe (2 ^ 64) then 2 ^ 64 - 1                 -- f64 >= maxUint64+1
  else if f.neg && !f.isZero then 0                             -- f64 < minUint64
  else f.truncAbs                                               -- (-0 → 0)

/-! ## (c) Token.Int / Token.Uint / Token.Float on a raw number literal -/

inductive NumErr where
  | none | syntax | range
  deriving DecidableEq, Repr

/-- Token.Int for a raw token whose text `buf` is a JSON number.  `pf` is `strconv.ParseFloat(·, 64)`. -/
def tokenInt (pf : Bytes → Fl) (buf : Bytes) : Int × NumErr :=
  if buf.head? == some 45 then
    -- switch abs, ok := jsonwire.ParseUint(buf[len("-"):]); { case abs > -minInt64: …; case ok: … }
    let (abs, ok) := parseUint (buf.drop 1)
    if abs > 9223372036854775808 then (-(2 ^ 63), .range)
    else if ok then (((-1 : Int64) * abs.toInt64).toInt, .none)      -- -1 * int64(abs), wrapping
    else (f64toi64 (pf buf), .syntax)
  else
    let (abs, ok) := parseUint buf
    if abs > 9223372036854775807 then (2 ^ 63 - 1, .range)
    else if ok then (abs.toInt64.toInt, .none)
    else (f64toi64 (pf buf), .syntax)

/-- Token.Uint for a raw number token. -/
def tokenUint (pf : Bytes → Fl) (buf : Bytes) : Nat × NumErr :=
  let (abs, ok) := parseUint buf
  if ok then (abs.toNat, .none)
  else if abs == maxUint64 then (2 ^ 64 - 1, .range)
  else (f64tou64 (pf buf), .syntax)

/-- Token.Float for a raw number token: `strconv.ParseFloat(buf, bits)`; the only error is ErrRange (±Inf). -/
def tokenFloat (pfBits : Bytes → Fl) (buf : Bytes) : Fl × NumErr :=
  let f := pfBits buf
  (f, if f.inf then .range else .none)

/-! ## (d) jsonwire.AppendFloat on strconv's shortest decomposition -/

/-- ASCII of one decimal digit. -/
def digitByte (d : Nat) : UInt8 := UInt8.ofNat (48 + d)

/-- strconv `fmtE` (`%e`): `d.ddde±dd`; `ds` are the decimal digits, `dp` the decimal point position
(value = 0.d₁d₂…d_k × 10^dp), `prec` the number of digits after the point. -/
def fmtE (neg : Bool) (ds : List Nat) (dp : Int) (prec : Nat) : Bytes :=
  let nd := ds.length
  (if neg then [45] else []) ++
  [match ds with | [] => 48 | d :: _ => digitByte d] ++
  (if prec > 0 then
      let m := min nd (prec + 1)
      46 :: (((ds.take m).drop 1).map digitByte ++ List.replicate (prec + 1 - max m 1) 48)
    else []) ++
  [101] ++
  (let exp : Int := if nd == 0 then 0 else dp - 1
   let sign : UInt8 := if exp < 0 then 45 else 43
   let e := exp.natAbs
   sign :: (if e < 10 then [48, digitByte e]
            else if e < 100 then [digitByte (e / 10), digitByte (e % 10)]
            else [digitByte (e / 100), digitByte (e / 10 % 10), digitByte (e % 10)]))

/-- strconv `fmtF` (`%f`): `ddd.ddd`. -/
def fmtF (neg : Bool) (ds : List Nat) (dp : Int) (prec : Nat) : Bytes :=
  let nd := ds.length
  (if neg then [45] else []) ++
  (if dp > 0 then
      let m := min nd dp.toNat
      (ds.take m).map digitByte ++ List.replicate (dp.toNat - m) 48
    else [48]) ++
  (if prec > 0 then
      46 :: (List.range prec).map (fun (i : Nat) =>
        let j : Int := dp + (i : Int)
        if 0 ≤ j ∧ j < nd then digitByte (ds.getD j.toNat 0) else 48)
    else [])

/-- `strconv.AppendFloat(dst, src, fmt, -1, bits)` given the shortest digits: the precision rule of
genericFtoa (`'e'`: nd-1, `'f'`: max(nd-dp, 0)) followed by fmtE / fmtF. -/
def strconvShortest (useE : Bool) (neg : Bool) (ds : List Nat) (dp : Int) : Bytes :=
  if useE then fmtE neg ds dp (ds.length - 1)
  else fmtF neg ds dp ((ds.length : Int) - dp).toNat

/-- `// Clean up e-09 to e-9.` -/
def cleanExp (dst : Bytes) : Bytes :=
  match dst.reverse with
  | last :: z :: m :: e :: rest =>
    -- n >= 4 && dst[n-4] == 'e' && dst[n-3] == '-' && dst[n-2] == '0'
    if e == 101 && m == 45 && z == 48 then (last :: m :: e :: rest).reverse else dst
  | _ => dst

/-- The format choice of AppendFloat, `abs != 0 && (abs < 1e-6 || abs >= 1e21)` (evaluated in float32 for
bits = 32), expressed on the shortest decomposition: for a non-zero value `0.d₁…d_k × 10^dp` with `d₁ ≠ 0`
this is `dp ≤ -6 ∨ dp ≥ 22`.  (That the floating-point comparisons select exactly this is an IEEE-754
rounding-interval fact; it is validated by the harness on all float32 and at every neighbour of the switch points.) -/
def useExp (ds : List Nat) (dp : Int) : Bool :=
  !ds.isEmpty && (decide (dp < -5) || decide (dp > 21))

/-- jsonwire.AppendFloat for a finite value with shortest decomposition `(neg, ds, dp)`
(zero is `ds = []`, `dp = 0`).  NaN/Inf are the caller's business. -/
def appendFloat (neg : Bool) (ds : List Nat) (dp : Int) : Bytes :=
  let e := useExp ds dp
  let dst := strconvShortest e neg ds dp
  if e then cleanExp dst else dst

/-! ## (f) strconv.AppendUint / AppendInt, base 10 -/

/-- Decimal digits of `n`, most significant first (`0 ↦ [0]`). -/
def natDigits (n : Nat) : List Nat :=
  if _h : n < 10 then [n] else natDigits (n / 10) ++ [n % 10]
termination_by n
decreasing_by omega

def formatUint (n : Nat) : Bytes := (natDigits n).map digitByte

def formatInt (i : Int) : Bytes :=
  if i < 0 then 45 :: formatUint i.natAbs else formatUint i.natAbs

/-! ## specification of strconv.ParseFloat: the correctly rounded value -/

/-- Value of a digit string (any bytes; a non-digit contributes `c - 48` truncated at 0). -/
def decVal (b : Bytes) : Nat := b.foldl (fun a c => 10 * a + (c.toNat - 48)) 0

/-- Binary floating-point format: precision `p`, least exponent of the integral significand, greatest such exponent. -/
structure FloatFmt where
  p : Nat
  emin : Int
  emax : Int

def fmt64 : FloatFmt := ⟨53, -1074, 971⟩
def fmt32 : FloatFmt := ⟨24, -149, 104⟩

/-- Round the positive rational `num/den` to nearest, ties to even, in format `ff`.
Result `(mant, exp, overflow)` with `mant < 2^p`, `exp ≥ emin`. -/
def roundRat (ff : FloatFmt) (num den : Nat) : Nat × Int × Bool :=
  if num == 0 || den == 0 then (0, ff.emin, false) else
  -- 2^(a-b-1) < num/den < 2^(a-b+1)
  let a : Int := num.log2
  let b : Int := den.log2
  let scale (e : Int) : Nat × Nat :=          -- num/den / 2^e as a fraction
    if e ≥ 0 then (num, den * 2 ^ e.toNat) else (num * 2 ^ (-e).toNat, den)
  let e1 : Int := a - b - ff.p
  let (n1, d1) := scale e1
  let e2 : Int := if n1 / d1 ≥ 2 ^ ff.p then e1 + 1 else e1
  let e : Int := if e2 < ff.emin then ff.emin else e2
  let (n, d) := scale e
  let q := n / d
  let r := n % d
  let q' := if 2 * r > d || (2 * r == d && q % 2 == 1) then q + 1 else q
  let (m, e') : Nat × Int := if q' == 2 ^ ff.p then (2 ^ (ff.p - 1), e + 1) else (q', e)
  if e' > ff.emax then (0, 0, true) else (m, e', false)

/-- Split a JSON number literal `-? int frac? exp?` into sign, coefficient digits (integer and fraction
digits concatenated), number of fraction digits, and the signed exponent.  Total on arbitrary bytes. -/
def splitNumber (b : Bytes) : Bool × Bytes × Nat × Int :=
  let neg := b.head? == some 45
  let b1 := if neg then b.drop 1 else b
  let ip := b1.takeWhile isDigit
  let r1 := b1.dropWhile isDigit
  let (fp, r2) : Bytes × Bytes := match r1 with
    | 46 :: t => (t.takeWhile isDigit, t.dropWhile isDigit)
    | _ => ([], r1)
  let ex : Int := match r2 with
    | c :: t => if c == 101 || c == 69 then
        (match t with
         | 45 :: u => -(decVal (u.takeWhile isDigit) : Int)
         | 43 :: u => (decVal (u.takeWhile isDigit) : Int)
         | u => (decVal (u.takeWhile isDigit) : Int))
      else 0
    | [] => 0
  (neg, ip ++ fp, fp.length, ex)

/-- The correctly rounded binary value of a JSON number literal: what strconv.ParseFloat is documented to
return (nearest, ties to even; ±Inf beyond the largest finite value).  Exact integer arithmetic; the two
clamps on the decimal exponent are exact (a non-zero `c·10^e10` with `e10 > 400` overflows every format,
and `c·10^e10 < 10^(e10+len)` with `e10 + len < -400` rounds to zero). -/
def parseFloatExact (ff : FloatFmt) (b : Bytes) : Fl :=
  let (neg, coefDigits, nfrac, ex) := splitNumber b
  let coef := decVal coefDigits
  let e10 : Int := ex - nfrac
  if coef == 0 then ⟨neg, false, 0, ff.emin⟩
  else if e10 > 400 then ⟨neg, true, 0, 0⟩
  else if e10 + coefDigits.length < -400 then ⟨neg, false, 0, ff.emin⟩
  else
    let (m, e, ovf) :=
      if e10 ≥ 0 then roundRat ff (coef * 10 ^ e10.toNat) 1 else roundRat ff coef (10 ^ (-e10).toNat)
    if ovf then ⟨neg, true, 0, 0⟩ else ⟨neg, false, m, e⟩

/-- IEEE-754 bit pattern of a value produced by `roundRat` (normalised: `mant < 2^p`, `exp ≥ emin`,
`mant ≥ 2^(p-1)` unless `exp = emin`). -/
def Fl.toBits (ff : FloatFmt) (f : Fl) : Nat :=
  let expBits := if ff.p == 53 then 11 else 8
  let sign := if f.neg then 2 ^ (expBits + ff.p - 1) else 0
  if f.inf then sign + (2 ^ expBits - 1) * 2 ^ (ff.p - 1)
  else if f.mant < 2 ^ (ff.p - 1) then sign + f.mant
  else sign + ((f.exp - ff.emin).toNat + 1) * 2 ^ (ff.p - 1) + (f.mant - 2 ^ (ff.p - 1))

/-! ## (c') typed tokens: jsontext.Int / Uint / Float / Float32 and the accessors on them -/

/-- A jsontext.Token of kind number: raw text from a Decoder (or the global `zeroNumber`), or the exact form
`Token{str: "i"|"u"|"f"|"F", num}`.  A float32 token is stored widened (exactly) to the value it denotes. -/
inductive Tok where
  | raw (buf : Bytes)
  | int (num : UInt64)                 -- str "i": num = uint64(n), n ≠ 0
  | uint (num : UInt64)                -- str "u": num ≠ 0
  | float (f : Fl) (is32 : Bool)       -- str "f" / "F": finite, not +0
  deriving Repr

/-- jsontext.Int: `if n == 0 { return zeroNumber }; Token{str: "i", num: uint64(n)}`. -/
def mkInt (n : Int) : Tok := if n == 0 then .raw [48] else .int (Int64.ofInt n).toUInt64

/-- jsontext.Uint. -/
def mkUint (n : Nat) : Tok := if n == 0 then .raw [48] else .uint (UInt64.ofNat n)

/-- jsontext.Float for a finite value: `+0` is `zeroNumber`, everything else (also `-0`) is exact. -/
def mkFloat (f : Fl) (is32 : Bool) : Tok :=
  if f.isZero && !f.neg then .raw [48]
  else if f.isZero then .float f false        -- Float32(±0) goes through Float(float64(n))
  else .float f is32

/-- `math.Trunc(f) == f` for a non-NaN value. -/
def Fl.isIntegral (f : Fl) : Bool :=
  f.inf || decide (f.exp ≥ 0) || f.mant % 2 ^ (-f.exp).toNat == 0

/-- Token.Int, all number forms (token.go `func (t Token) Int()`). -/
def tokInt (pf : Bytes → Fl) : Tok → Int × NumErr
  | .raw buf => tokenInt pf buf
  | .int num => (num.toInt64.toInt, .none)                              -- case 'i': int64(t.num)
  | .uint num =>                                                        -- case 'u'
    if num > 9223372036854775807 then (2 ^ 63 - 1, .range) else (num.toInt64.toInt, .none)
  | .float f _ =>                                                       -- case 'f', 'F'
    let i := f64toi64 f
    if !f.isIntegral then (i, .syntax)
    -- (i64 == minInt64 && f64 < minInt64) || (i64 == maxInt64 && f64 >= maxInt64+1)
    else if (i == -(2 ^ 63) && f.neg && f.absGt (2 ^ 63)) || (i == 2 ^ 63 - 1 && !f.neg && f.absGe (2 ^ 63)) then (i, .range)
    else (i, .none)

/-- Token.Uint, all number forms. -/
def tokUint (pf : Bytes → Fl) : Tok → Nat × NumErr
  | .raw buf => tokenUint pf buf
  | .uint num => (num.toNat, .none)
  | .int num => if num.toInt64 < 0 then (0, .syntax) else (num.toNat, .none)
  | .float f _ =>
    let u := f64tou64 f
    if !f.isIntegral || f.neg then (u, .syntax)                         -- math.Signbit(f64): also -0
    -- (u64 == minUint64 && f64 < minUint64) || (u64 == maxUint64 && f64 >= maxUint64+1); the first cannot hold here
    else if u == 2 ^ 64 - 1 && f.absGe (2 ^ 64) then (u, .range)
    else (u, .none)

/-- Round a dyadic value to a binary format (Go's float64→float32 and int→float conversions: nearest, ties to even). -/
def roundFl (ff : FloatFmt) (f : Fl) : Fl :=
  if f.inf then f else
  if f.mant == 0 then ⟨f.neg, false, 0, ff.emin⟩ else
  let (m, e, ovf) := if f.exp ≥ 0 then roundRat ff (f.mant * 2 ^ f.exp.toNat) 1 else roundRat ff f.mant (2 ^ (-f.exp).toNat)
  if ovf then ⟨f.neg, true, 0, 0⟩ else ⟨f.neg, false, m, e⟩

/-- token.go `func (t Token) float(bits int)`: the float64 it returns, and the error class. -/
def tokFloatBits (pf64 pf32 : Bytes → Fl) (bits32 : Bool) : Tok → Fl × NumErr
  | .raw buf => tokenFloat (if bits32 then pf32 else pf64) buf
  | .float f true => (f, .none)                                         -- case 'F'
  | .float f false =>                                                   -- case 'f'
    if bits32 && !f.inf && (roundFl fmt32 f).inf then (f, .range) else (f, .none)
  | .int num => (roundFl fmt64 ⟨decide (num.toInt64 < 0), false, num.toInt64.toInt.natAbs, 0⟩, .none)   -- float64(int64(t.num))
  | .uint num => (roundFl fmt64 ⟨false, false, num.toNat, 0⟩, .none)                                   -- float64(uint64(t.num))

/-- Token.Float. -/
def tokFloat64 (pf64 pf32 : Bytes → Fl) (t : Tok) : Fl × NumErr := tokFloatBits pf64 pf32 false t

/-- Token.Float32: `f, err := t.float(32); return float32(f), err` (a second rounding for 'i', 'u', 'f'). -/
def tokFloat32 (pf64 pf32 : Bytes → Fl) (t : Tok) : Fl × NumErr :=
  let (f, e) := tokFloatBits pf64 pf32 true t
  (roundFl fmt32 f, e)

/-- Decode an IEEE-754 bit pattern (finite values and infinities; NaN is not a number token). -/
def Fl.ofBits (ff : FloatFmt) (bits : Nat) : Fl :=
  let expBits := if ff.p == 53 then 11 else 8
  let neg := bits / 2 ^ (expBits + ff.p - 1) % 2 == 1
  let be := bits / 2 ^ (ff.p - 1) % 2 ^ expBits
  let frac := bits % 2 ^ (ff.p - 1)
  if be == 2 ^ expBits - 1 then ⟨neg, true, 0, 0⟩
  else if be == 0 then ⟨neg, false, frac, ff.emin⟩
  else ⟨neg, false, 2 ^ (ff.p - 1) + frac, ff.emin + (be : Int) - 1⟩

/-! ## (b') float unmarshaler of arshal_default.go (makeFloatArshaler), number and quoted-number arms -/

/-- The `switch k` of makeFloatArshaler's unmarshal without the v1 legacy arm and without the `nonfinite` format
("NaN"/"Infinity" strings).  `stringify` is `NeedObjectName() || StringifyNumbers|StringTag`; for `k = str`,
`val` is the unquoted content, which must be consumed entirely by `jsonwire.ConsumeNumber`
(`if n, err := jsonwire.ConsumeNumber(val); n != len(val) || err != nil { ErrSyntax }`).
`pf` is `strconv.ParseFloat(·, bits)`; an overflow (±Inf) is ErrRange. -/
def unmarshalFloatValue (pf : Bytes → Fl) (stringify : Bool) (k : VKind) (val : Bytes) : Stored Fl :=
  let parse : Stored Fl := let fv := pf val; if fv.inf then .err .range else .set fv
  match k with
  | .null => .null
  | .str =>
    if !stringify then .err .mismatch
    else if (Wire.consumeNumber val).1 != val.length || (Wire.consumeNumber val).2 != Wire.Err.ok then .err .syntax
    else parse
  | .num => if stringify then .err .mismatch else parse
  | .other => .err .mismatch

/-- The v1 legacy arm of the quoted form (`StringifyWithLegacySemantics`: v1 `,string` fields and v1 map keys):
```
n, err := strconv.ParseFloat(string(val), bits)       // Go syntax, at the width of the DESTINATION
if err != nil { if string(val) == "null" { SetFloat(0); return nil }; return errors.Unwrap(err) }
va.SetFloat(n)
```
`pfGo` is `strconv.ParseFloat(·, bits)` on the Go float syntax: a syntax error, a range error (±Inf), or a value
(which may be ±Inf for the literals `inf`/`infinity`). -/
def unmarshalFloatLegacy (pfGo : Bytes → Except NumErr Fl) (val : Bytes) : Stored Fl :=
  match pfGo val with
  | .ok f => .set f
  | .error e =>
    if val == [110, 117, 108, 108] then .null
    else match e with
      | .range => .err .range
      | _ => .err .syntax

/-- `strconv.ParseFloat(·, bits)` restricted to the JSON number grammar (on which the Go and JSON syntaxes agree):
the correctly rounded value, ErrRange on overflow; anything else is reported as a syntax error here (the oracle is
only asked about JSON numbers, `null`, and contents both grammars reject). -/
def pfGoOnJson (isNum : Bytes → Bool) (ff : FloatFmt) (b : Bytes) : Except NumErr Fl :=
  if isNum b then
    let f := parseFloatExact ff b
    if f.inf then .error .range else .ok f
  else .error .syntax

/-! ## (e) jsonwire.ReformatNumber (after ConsumeNumber succeeded on `src[:n]`) -/

def maxExactIntegerDigits : Nat := JsonV.Gen.jsonwire.c_ReformatNumber_maxExactIntegerDigits

/-- Largest finite float64, `math.MaxFloat64 = (2^53-1)·2^971`. -/
def maxFloat64 (neg : Bool) : Fl := ⟨neg, false, 2 ^ 53 - 1, 971⟩

/-- ReformatNumber on the consumed number `num = src[:n]`.  `canonInts`/`canonFloats` are the flags
CanonicalizeRawInts / CanonicalizeRawFloats; `pf` is `strconv.ParseFloat(·, 64)`; `af` is
`AppendFloat(dst, ·, 64)`. -/
def reformatNumber (pf : Bytes → Fl) (af : Fl → Bytes) (canonInts canonFloats : Bool) (num : Bytes) : Bytes :=
  if !(canonInts || canonFloats) then num else          -- !flags.Get(CanonicalizeNumbers)
  let isFloat := num.any (fun c => c == 46 || c == 101 || c == 69)
  let verbatim : Bool :=
    if num == [45, 48] then false                        -- "-0": canonicalize regardless of kind
    else if isFloat then !canonFloats
    else !canonInts || decide (num.length < maxExactIntegerDigits)
  if verbatim then num else
  let fv := pf num
  let fv := if fv.isZero then { fv with neg := false }   -- fv == 0: normalize negative zero
            else if fv.inf then maxFloat64 fv.neg        -- ±Inf → ±MaxFloat64
            else fv
  af fv

end JsonV.Model.Number
