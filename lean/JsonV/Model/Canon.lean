/-
Token/tree-level model of `jsontext.Value.Canonicalize` (value.go:227-233 → `Value.format` →
`encoderState.WriteValue` with CanonicalizeRawInts, CanonicalizeRawFloats, ReorderRawObjects and the
strict I-JSON defaults).  Core Lean only (linked into the oracle).

The Go code does, in this order:
  1. `reformatValue` streams the value into the encoder buffer: whitespace dropped, every string literal
     validated (well-formed UTF-8, no lone surrogate escapes) and re-quoted minimally (`ReformatString`),
     every number literal through `ReformatNumber`, duplicate member names rejected, depth ≤ maxNestingDepth;
  2. `mustReorderObjects` sorts the members of every object of that compact text, innermost objects first,
     by `objectMember.Compare` on the unquoted names;
  3. `Value.format` commits the buffer.

The model follows the same order on a tree of tokens:
  tokenize (C12: lexer + grammar + depth)  →  parse into `JV`  →  `strict`  →  `respell`  →  `sortTree`
  →  `JV.toks`  →  `renderCompact` (C12).

Pieces reused from the other slices: `Fmt.tokenize`/`renderCompact` (C12), `Quote.appendUnquote`/`appendQuote`
(C11; the verbatim fast path of ReformatString for already-canonical literals is not mirrored: the model always
unquotes and re-quotes, which C11 proves gives the RFC 8785 spelling), `Number.reformatNumber`/`appendFloat`
(C10), `Reorder.memberLe`/`isSorted` (this slice).  `strconv.ParseFloat` and the shortest-digit generation are
the parameter `FloatCodec` (no laws are part of the structure).
-/
import JsonV.Model.Format
import JsonV.Model.Quote
import JsonV.Model.Number
import JsonV.Model.Reorder

namespace JsonV.Canon
open JsonV JsonV.Fmt JsonV.Model JsonV.Model.Utf8

/-! ### the float parameter -/

/-- `parse` is `strconv.ParseFloat(lit, 64)`; `shortest f` is strconv's shortest round-trip decomposition
`0.d₁…d_k × 10^n` of the magnitude of a finite `f` (zero: `([], 0)`), as used by `AppendFloat`. -/
structure FloatCodec where
  parse : Bytes → Number.Fl
  shortest : Number.Fl → List Nat × Int

/-- `jsonwire.AppendFloat(dst, f, 64)` on top of the parameter. -/
def FloatCodec.append (fp : FloatCodec) (f : Number.Fl) : Bytes :=
  Number.appendFloat f.neg (fp.shortest f).1 (fp.shortest f).2

/-- `ReformatNumber` under CanonicalizeRawInts|CanonicalizeRawFloats (C10's model, both flags set). -/
def canonNum (fp : FloatCodec) (lit : Bytes) : Bytes :=
  Number.reformatNumber fp.parse fp.append true true lit

/-! ### strings -/

/-- The text a string literal denotes (`jsonwire.AppendUnquote`). -/
def unq (lit : Bytes) : Bytes := (Quote.appendUnquote lit).1

/-- The strict (I-JSON) test of a literal that is already lexically a string: every escape is valid (no lone
surrogate) and the text is well-formed UTF-8.  (`AppendUnquote` reports any ill-formed byte as an error, so
the second conjunct is implied by the first for the real code; it is kept explicit so that the theorems do not
depend on that implication.) -/
def strOK (lit : Bytes) : Bool := (Quote.appendUnquote lit).2 == Quote.Err.ok && valid (unq lit)

/-- The re-quoted literal: `AppendQuote` without escape flags on the unquoted text. -/
def canonStr (lit : Bytes) : Bytes := (Quote.appendQuote {} (unq lit)).1

def canonAtom (fp : FloatCodec) : Tok → Tok
  | .str r => .str (canonStr r)
  | .num r => .num (canonNum fp r)
  | t => t

/-! ### trees of tokens -/

inductive JV where
  /-- a scalar token: string, number, `null`, `true`, `false` -/
  | atom (t : Tok)
  | arr (es : List JV)
  /-- members as (raw name literal, value) -/
  | obj (ms : List (Bytes × JV))
  deriving Repr

mutual
def JV.toks : JV → List Tok
  | .atom t => [t]
  | .arr es => Tok.ba :: (toksL es ++ [Tok.ea])
  | .obj ms => Tok.bo :: (toksM ms ++ [Tok.eo])
def toksL : List JV → List Tok
  | [] => []
  | e :: es => e.toks ++ toksL es
def toksM : List (Bytes × JV) → List Tok
  | [] => []
  | (n, v) :: ms => Tok.str n :: (v.toks ++ toksM ms)
end

/-! ### parser (fuel = number of tokens + 1; `Lemmas.CanonTree.parseV_toks`: the fuel suffices) -/

mutual
def parseV : Nat → List Tok → Option (JV × List Tok)
  | 0, _ => none
  | fuel + 1, ts =>
    match ts with
    | [] => none
    | .ba :: r =>
      match parseL fuel r with
      | some (es, r') => some (.arr es, r')
      | none => none
    | .bo :: r =>
      match parseM fuel r with
      | some (ms, r') => some (.obj ms, r')
      | none => none
    | .ea :: _ => none
    | .eo :: _ => none
    | t :: r => some (.atom t, r)
/-- elements up to and including the closing `]` -/
def parseL : Nat → List Tok → Option (List JV × List Tok)
  | 0, _ => none
  | fuel + 1, ts =>
    match ts with
    | .ea :: r => some ([], r)
    | _ =>
      match parseV fuel ts with
      | some (e, r) =>
        match parseL fuel r with
        | some (es, r') => some (e :: es, r')
        | none => none
      | none => none
/-- members up to and including the closing `}` -/
def parseM : Nat → List Tok → Option (List (Bytes × JV) × List Tok)
  | 0, _ => none
  | fuel + 1, ts =>
    match ts with
    | .eo :: r => some ([], r)
    | .str n :: r =>
      match parseV fuel r with
      | some (v, r') =>
        match parseM fuel r' with
        | some (ms, r'') => some ((n, v) :: ms, r'')
        | none => none
      | none => none
    | _ => none
end

def parse (ts : List Tok) : Option JV :=
  match parseV (ts.length + 1) ts with
  | some (t, []) => some t
  | _ => none

/-- The tree of a JSON text (whitespace, delimiters and the nesting limit are handled by `tokenize`). -/
def parseText (b : Bytes) : Option JV :=
  match tokenize b with
  | some ts => parse ts
  | none => none

/-! ### step 1: validation and re-spelling -/

/-- Names of an object as texts. -/
def names (ms : List (Bytes × JV)) : List Bytes := ms.map (fun p => unq p.1)

mutual
/-- I-JSON strictness: every string literal passes `strOK`, no object has two members with the same name. -/
def strict : JV → Bool
  | .atom (.str r) => strOK r
  | .atom _ => true
  | .arr es => strictL es
  | .obj ms => strictM ms && decide (names ms).Nodup
def strictL : List JV → Bool
  | [] => true
  | e :: es => strict e && strictL es
def strictM : List (Bytes × JV) → Bool
  | [] => true
  | (n, v) :: ms => strOK n && strict v && strictM ms
end

mutual
def respell (fp : FloatCodec) : JV → JV
  | .atom t => .atom (canonAtom fp t)
  | .arr es => .arr (respellL fp es)
  | .obj ms => .obj (respellM fp ms)
def respellL (fp : FloatCodec) : List JV → List JV
  | [] => []
  | e :: es => respell fp e :: respellL fp es
def respellM (fp : FloatCodec) : List (Bytes × JV) → List (Bytes × JV)
  | [] => []
  | (n, v) :: ms => (canonStr n, respell fp v) :: respellM fp ms
end

/-! ### step 2: reordering (`mustReorderObjectsFromDecoder`) -/

/-- `,"name":value` as it stands in the buffer (the leading comma is trimmed by the comparator anyway). -/
def memberBytes (p : Bytes × JV) : Bytes := 0x2c :: (p.1 ++ 0x3a :: renderCompact p.2.toks)

/-- The `objectMember` of one member: the unquoted name and its raw text. -/
def mem (p : Bytes × JV) : Reorder.Member := ⟨unq p.1, memberBytes p⟩

/-- The members of one object after its values have been reordered: untouched when the scan found them
strictly increasing, else `slices.SortFunc` with `objectMember.Compare`. -/
def sortObj (ms : List (Bytes × JV)) : List (Bytes × JV) :=
  if Reorder.isSorted (ms.map mem) then ms
  else ms.mergeSort (fun p q => Reorder.memberLe (mem p) (mem q))

mutual
def sortTree : JV → JV
  | .atom t => .atom t
  | .arr es => .arr (sortL es)
  | .obj ms => .obj (sortObj (sortM ms))
def sortL : List JV → List JV
  | [] => []
  | e :: es => sortTree e :: sortL es
/-- the values of the members reordered, the members themselves still in input order -/
def sortM : List (Bytes × JV) → List (Bytes × JV)
  | [] => []
  | (n, v) :: ms => (n, sortTree v) :: sortM ms
end

/-! ### Value.Canonicalize -/

def canonTree (fp : FloatCodec) (t : JV) : JV := sortTree (respell fp t)

/-- `none`: an error is returned and the value is left unmodified. -/
def canonicalize (fp : FloatCodec) (b : Bytes) : Option Bytes :=
  match parseText b with
  | some t => if strict t then some (renderCompact (canonTree fp t).toks) else none
  | none => none

end JsonV.Canon
