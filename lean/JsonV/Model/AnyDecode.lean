/-
C03 — model of the two internal routes by which the library decodes a JSON text into an
untyped Go value, at tree level.  Core Lean only.

Mirrored Go code (default options unless said otherwise):

* `fastValue / fastMembers / fastElems`  =  arshal_any.go `unmarshalValueAny`, `unmarshalObjectAny`,
  `unmarshalArrayAny` — the specialised decoder for `any`: recursive descent over tokens, duplicate
  names detected by looking the decoded name up in the map being built (`if _, ok := obj[name]; ok`),
  string VALUES interned through `makeString` (names come from `Token.String`, not interned),
  numbers through `strconv.ParseFloat` (parameter `fp`; `none` = `ErrRange`).
* `genValue / genMembers / genElems`  =  arshal_default.go `makeInterfaceArshaler.unmarshal` (with a nil
  interface), `makeMapArshaler.unmarshal` for `map[string]any`, `makeSliceArshaler.unmarshal` for `[]any`,
  and the `bool`, `string`, `float64` arshalers the interface arshaler dispatches to on `PeekKind`.
  Names go through the string arshaler, hence through `makeString` (the cache evolves differently
  from the fast route).  The duplicate test is `va.MapIndex(k).IsValid()` on the map being built.
  `fastOK` is the test `optimizeCommon && t == anyType && !AllowDuplicateNames|FormatTag &&
  (no Unmarshalers with fromAny)` evaluated by the interface arshaler: when it holds the arshaler calls
  `unmarshalValueAny`.  `opt` is the part of that test that depends on the options only; element
  types of `map[string]any` and `[]any` are `any`, so nested values use `fastOK := opt`.
* `makeString` = intern.go: a 256-slot cache indexed by `hash64` (the REGENERATED body
  `Gen.json_hash64`, Tie A) of the first/last bytes; the cached string is returned only when it
  equals the bytes.

Abstractions (stated in meta/C03.json):
* tokens come from the RFC lexers of `Spec/Meaning.lean` (`lexStr`, `lexNum`, `lexScalar`, `skipWs`);
  the agreement of the real scanners with them is checked by the harness (Tie B), not proved here;
* the Decoder's delimiter state machine is abstracted to "a colon after each name, a comma before
  each non-first element"; the Go loop `for dec.PeekKind() != '}' { body }` is rotated: the test for
  the first iteration is made right after the opening token, the tests for later iterations at the end
  of the body.  Every violation is a fatal SyntacticError raised by the next Read*;
* errors are classes.  Under the default options `isFatalError` is true for every error, so
  decoding stops at the first error in document order (the `cmp.Or` bookkeeping for
  ReportErrorsWithLegacySemantics is not modelled);
* `depth` is `len(Tokens.Stack)`: `pushObject/pushArray` fail with errMaxDepth when it equals
  `maxNestingDepth` (regenerated constant);
* a Go map is an association list in insertion order; `mapInsert` overwrites like `m[k] = v`.
-/
import JsonV.Spec.Meaning
import JsonV.Gen.Constants
import JsonV.Gen.Straight

namespace JsonV.Model.AnyDecode
open JsonV JsonV.Spec.Meaning

/-- Error classes. `mismatch`: a JSON kind that the typed target cannot hold (SemanticError). -/
inductive Err where
  | syntax | dup | range | mismatch
  deriving DecidableEq, Repr, Inhabited

/-- Untyped Go values; `F` is the representation of float64 (a parameter, see `FloatParse`). -/
inductive GoAny (F : Type) where
  | nil
  | bool (b : Bool)
  | str (s : Bytes)
  | f64 (x : F)
  | slice (xs : List (GoAny F))
  | map (ms : List (Bytes × GoAny F))
  deriving Inhabited

/-- `strconv.ParseFloat(lit, 64)` on a literal of the JSON grammar: `none` = ErrRange. Trusted parameter. -/
abbrev FloatParse (F : Type) := Bytes → Option F

def maxDepth : Nat := JsonV.Gen.jsontext.c_maxNestingDepth

/-! ### makeString (intern.go) -/

/-- `stringCache = [256]string`, all entries initially "". -/
structure Cache where
  slots : Array Bytes

def Cache.empty : Cache := ⟨Array.replicate 256 []⟩
def Cache.get (c : Cache) (i : Nat) : Bytes := c.slots.getD i []
def Cache.set (c : Cache) (i : Nat) (s : Bytes) : Cache := ⟨c.slots.setIfInBounds i s⟩

def le32 (b0 b1 b2 b3 : UInt8) : BitVec 32 :=
  BitVec.ofNat 32 (b0.toNat + b1.toNat * 256 + b2.toNat * 65536 + b3.toNat * 16777216)
def le16 (b0 b1 : UInt8) : BitVec 32 := BitVec.ofNat 32 (b0.toNat + b1.toNat * 256)

/-- The hash computed by `makeString` from the fixed-width prefix and suffix (callers guarantee 2 ≤ len). -/
def hashOf (b : Bytes) : BitVec 32 :=
  let n := b.length
  let g (i : Nat) : UInt8 := b.getD i 0
  if n ≥ 8 then
    JsonV.Gen.json_hash64 (le32 (g 0) (g 1) (g 2) (g 3)) (le32 (g 4) (g 5) (g 6) (g 7)) ^^^
    JsonV.Gen.json_hash64 (le32 (g (n-8)) (g (n-7)) (g (n-6)) (g (n-5))) (le32 (g (n-4)) (g (n-3)) (g (n-2)) (g (n-1)))
  else if n ≥ 4 then
    JsonV.Gen.json_hash64 (le32 (g 0) (g 1) (g 2) (g 3)) (le32 (g (n-4)) (g (n-3)) (g (n-2)) (g (n-1)))
  else
    JsonV.Gen.json_hash64 (le16 (g 0) (g 1)) (le16 (g (n-2)) (g (n-1)))

/-- The cache slot `makeString` uses for `b`, `none` when `b` is not cached (length < 2 or > 256). -/
def slotOf (b : Bytes) : Option Nat :=
  if b.length < JsonV.Gen.json.c_makeString_minCachedLen ∨ b.length > JsonV.Gen.json.c_makeString_maxCachedLen then none
  else some ((hashOf b).toNat % 256)

/-- `makeString(c, b)`: (the returned string, the cache afterwards). -/
def makeString (c : Cache) (b : Bytes) : Bytes × Cache :=
  match slotOf b with
  | none => (b, c)                        -- return string(b)
  | some i =>
    let s := c.get i
    if s = b then (s, c)                  -- if s := (*c)[i]; s == string(b) { return s }
    else (b, c.set i b)                   -- s := string(b); (*c)[i] = s; return s

/-! ### Go maps as association lists -/

def mapHas {α : Type} (m : List (Bytes × α)) (k : Bytes) : Bool := m.any (fun e => e.1 == k)

/-- `m[k] = v` -/
def mapInsert {α : Type} : List (Bytes × α) → Bytes → α → List (Bytes × α)
  | [], k, v => [(k, v)]
  | (k', v') :: m, k, v => if k' = k then (k, v) :: m else (k', v') :: mapInsert m k v

/-- Result of a decoding step: (value, unread input, cache) or the first error. -/
abbrev Res (α : Type) := Except Err (α × Bytes × Cache)

section
variable {F : Type} (fp : FloatParse F)

/-! ### The specialised route: arshal_any.go -/

mutual
/-- `unmarshalValueAny` (with `unmarshalObjectAny`/`unmarshalArrayAny` up to their loops).
`b` has no leading whitespace (`PeekKind` skipped it); `d` = number of open containers. -/
def fastValue : Nat → Nat → Cache → Bytes → Res (GoAny F)
  | 0, _, _, _ => .error .syntax
  | fuel+1, d, c, b =>
    match b with
    | [] => .error .syntax
    | k :: r =>
      if k = 0x7B then            -- case '{': unmarshalObjectAny; ReadToken pushes the object
        if d = maxDepth then .error .syntax else
        match skipWs r with        -- obj := make(map[string]any); for dec.PeekKind() != '}'
        | [] => .error .syntax
        | k' :: r' =>
          if k' = 0x7D then .ok (.map [], r', c)
          else
            match fastMembers fuel (d + 1) [] c (k' :: r') with
            | .ok (ms, r'', c') => .ok (.map ms, r'', c')
            | .error e => .error e
      else if k = 0x5B then       -- case '[': unmarshalArrayAny; arr := []any{}
        if d = maxDepth then .error .syntax else
        match skipWs r with
        | [] => .error .syntax
        | k' :: r' =>
          if k' = 0x5D then .ok (.slice [], r', c)
          else
            match fastElems fuel (d + 1) [] c (k' :: r') with
            | .ok (xs, r'', c') => .ok (.slice xs, r'', c')
            | .error e => .error e
      else                        -- default: xd.ReadValue(&flags); switch val.Kind()
        match lexScalar (k :: r) with
        | none => .error .syntax
        | some (.null, r') => .ok (.nil, r', c)
        | some (.bool v, r') => .ok (.bool v, r', c)
        | some (.str s, r') =>
          let m := makeString c s    -- makeString(xd.StringCache, val)
          .ok (.str m.1, r', m.2)
        | some (.num l, r') =>
          match fp l with            -- strconv.ParseFloat(string(val), 64)
          | some x => .ok (.f64 x, r', c)
          | none => .error .range
        | some (_, _) => .error .syntax    -- unreachable: lexScalar yields scalars only

/-- Body of the loop of `unmarshalObjectAny`, entered at the start of a member. -/
def fastMembers : Nat → Nat → List (Bytes × GoAny F) → Cache → Bytes → Res (List (Bytes × GoAny F))
  | 0, _, _, _, _ => .error .syntax
  | fuel+1, d, obj, c, b =>
    match b with
    | [] => .error .syntax
    | k :: r =>
      if k = 0x22 then                   -- tok, err := dec.ReadToken(); name := tok.String()
        match lexStr r with
        | none => .error .syntax
        | some (name, r1) =>
          if mapHas obj name then .error .dup      -- if _, ok := obj[name]; ok
          else
            match skipWs r1 with
            | [] => .error .syntax
            | k2 :: r2 =>
              if k2 = 0x3A then
                match fastValue fuel d c (skipWs r2) with   -- val, err := unmarshalValueAny(dec, uo)
                | .error e => .error e
                | .ok (v, r3, c3) =>
                  let obj' := mapInsert obj name v          -- obj[name] = val
                  match skipWs r3 with
                  | [] => .error .syntax
                  | k4 :: r4 =>
                    if k4 = 0x2C then fastMembers fuel d obj' c3 (skipWs r4)
                    else if k4 = 0x7D then .ok (obj', r4, c3)
                    else .error .syntax
              else .error .syntax
      else .error .syntax

/-- Body of the loop of `unmarshalArrayAny`, entered at the start of an element. -/
def fastElems : Nat → Nat → List (GoAny F) → Cache → Bytes → Res (List (GoAny F))
  | 0, _, _, _, _ => .error .syntax
  | fuel+1, d, arr, c, b =>
    match fastValue fuel d c b with          -- val, err := unmarshalValueAny(dec, uo)
    | .error e => .error e
    | .ok (v, r3, c3) =>
      let arr' := arr ++ [v]                  -- arr = append(arr, val)
      match skipWs r3 with
      | [] => .error .syntax
      | k4 :: r4 =>
        if k4 = 0x2C then fastElems fuel d arr' c3 (skipWs r4)
        else if k4 = 0x5D then .ok (arr', r4, c3)
        else .error .syntax
end

/-! ### The generic route: arshal_default.go -/

def isNumStart (k : UInt8) : Bool := k = 0x2D || (0x30 ≤ k && k ≤ 0x39)

mutual
/-- `makeInterfaceArshaler(t).unmarshal` into a nil interface of a type equivalent to `any`.
`fastOK` = the optimisation test (t == anyType and the options allow it); `opt` = the options part. -/
def genValue (opt : Bool) : Bool → Nat → Nat → Cache → Bytes → Res (GoAny F)
  | _, 0, _, _, _ => .error .syntax
  | fastOK, fuel+1, d, c, b =>
    match b with
    | [] => .error .syntax
    | k :: r =>
      if k = 0x6E then                 -- if dec.PeekKind() == 'n' { dec.ReadToken(); va.SetZero() }
        match stripPrefix litNull (k :: r) with
        | some r' => .ok (.nil, r', c)
        | none => .error .syntax
      else if fastOK then fastValue fp (fuel + 1) d c (k :: r)      -- v, err := unmarshalValueAny(dec, uo)
      else if k = 0x66 || k = 0x74 then      -- boolType: tok ← ReadToken; va.SetBool(tok.Bool())
        match lexScalar (k :: r) with
        | some (.bool v, r') => .ok (.bool v, r', c)
        | _ => .error .syntax
      else if k = 0x22 then                  -- stringType: ReadValue; UnquoteMayCopy; makeString
        match lexStr r with
        | some (s, r') =>
          let m := makeString c s
          .ok (.str m.1, r', m.2)
        | none => .error .syntax
      else if isNumStart k then              -- float64Type: ReadValue; strconv.ParseFloat
        match lexNum (k :: r) with
        | some (l, r') =>
          match fp l with
          | some x => .ok (.f64 x, r', c)
          | none => .error .range
        | none => .error .syntax
      else if k = 0x7B then                  -- mapStringAnyType: ReadToken '{'; va.Set(reflect.MakeMap(t))
        if d = maxDepth then .error .syntax else
        match skipWs r with
        | [] => .error .syntax
        | k' :: r' =>
          if k' = 0x7D then .ok (.map [], r', c)
          else
            match genMembers opt fuel (d + 1) [] c (k' :: r') with
            | .ok (ms, r'', c') => .ok (.map ms, r'', c')
            | .error e => .error e
      else if k = 0x5B then                  -- sliceAnyType: ReadToken '['; i == 0 ⇒ va.Set(emptySlice)
        if d = maxDepth then .error .syntax else
        match skipWs r with
        | [] => .error .syntax
        | k' :: r' =>
          if k' = 0x5D then .ok (.slice [], r', c)
          else
            match genElems opt fuel (d + 1) [] c (k' :: r') with
            | .ok (xs, r'', c') => .ok (.slice xs, r'', c')
            | .error e => .error e
      else .error .syntax                    -- default: _, err := dec.ReadValue(); return err

/-- Loop body of the `map[string]any` arshaler (map initially empty, so `seen` is not allocated). -/
def genMembers (opt : Bool) : Nat → Nat → List (Bytes × GoAny F) → Cache → Bytes → Res (List (Bytes × GoAny F))
  | 0, _, _, _, _ => .error .syntax
  | fuel+1, d, m, c, b =>
    match b with
    | [] => .error .syntax
    | k :: r =>
      if k = 0x22 then                   -- unmarshalKey = string arshaler: ReadValue, makeString
        match lexStr r with
        | none => .error .syntax
        | some (raw, r1) =>
          let ks := makeString c raw
          let name := ks.1
          if mapHas m name then .error .dup      -- va.MapIndex(k.Value).IsValid() && !AllowDuplicateNames
          else
            match skipWs r1 with
            | [] => .error .syntax
            | k2 :: r2 =>
              if k2 = 0x3A then
                match genValue opt opt fuel d ks.2 (skipWs r2) with     -- unmarshalVal(dec, v, uo)
                | .error e => .error e
                | .ok (v, r3, c3) =>
                  let m' := mapInsert m name v                  -- va.SetMapIndex(k.Value, v.Value)
                  match skipWs r3 with
                  | [] => .error .syntax
                  | k4 :: r4 =>
                    if k4 = 0x2C then genMembers opt fuel d m' c3 (skipWs r4)
                    else if k4 = 0x7D then .ok (m', r4, c3)
                    else .error .syntax
              else .error .syntax
      else .error .syntax

/-- Loop body of the `[]any` arshaler. -/
def genElems (opt : Bool) : Nat → Nat → List (GoAny F) → Cache → Bytes → Res (List (GoAny F))
  | 0, _, _, _, _ => .error .syntax
  | fuel+1, d, arr, c, b =>
    match genValue opt opt fuel d c b with       -- unmarshal(dec, v, uo) on va.Index(i)
    | .error e => .error e
    | .ok (v, r3, c3) =>
      let arr' := arr ++ [v]
      match skipWs r3 with
      | [] => .error .syntax
      | k4 :: r4 =>
        if k4 = 0x2C then genElems opt fuel d arr' c3 (skipWs r4)
        else if k4 = 0x5D then .ok (arr', r4, c3)
        else .error .syntax
end

/-! ### Entry points: `unmarshalDecode(dec, out, uo, last=true)` followed by `CheckEOF` -/

/-- Drop the cache and require that only whitespace follows (`CheckEOF`). -/
def finish (r : Res (GoAny F)) : Except Err (GoAny F) :=
  match r with
  | .error e => .error e
  | .ok (v, rest, _) => if (skipWs rest).isEmpty then .ok v else .error .syntax

/-- Fuel used by the entry points: two units per input byte always suffice (see `Lemmas/MeaningFuel`). -/
def fuelFor (b : Bytes) : Nat := 2 * b.length + 2

/-- `json.Unmarshal(b, &x)` with `var x any`, default options: the specialised route. -/
def fast (c : Cache) (b : Bytes) : Except Err (GoAny F) :=
  finish (fastValue fp (fuelFor b) 0 c (skipWs b))

/-- Target of interface type.  `isAny`: the static type is exactly `any` (false for a named empty
interface); `opt`: the options permit the specialised decoder. -/
def unmarshalIface (isAny opt : Bool) (c : Cache) (b : Bytes) : Except Err (GoAny F) :=
  finish (genValue fp opt (isAny && opt) (fuelFor b) 0 c (skipWs b))

/-- The generic machinery all the way down (options that disable the specialised decoder but keep
the default semantics, e.g. an `Unmarshalers` value with `fromAny` whose functions decline). -/
def generic (c : Cache) (b : Bytes) : Except Err (GoAny F) := unmarshalIface fp true false c b

/-- Target `map[string]any` (nil): the map arshaler at the top; `null` leaves the nil map. -/
def unmarshalMap (opt : Bool) (c : Cache) (b : Bytes) : Except Err (GoAny F) :=
  finish (
    match skipWs b with
    | [] => .error .syntax
    | k :: r =>
      if k = 0x7B then
        match skipWs r with
        | [] => .error .syntax
        | k' :: r' =>
          if k' = 0x7D then .ok (.map [], r', c)
          else
            match genMembers fp opt (2 * b.length + 1) 1 [] c (k' :: r') with
            | .ok (ms, r'', c') => .ok (.map ms, r'', c')
            | .error e => .error e
      else if k = 0x6E then
        match stripPrefix litNull (k :: r) with
        | some r' => .ok (.nil, r', c)
        | none => .error .syntax
      else if k = 0x5B then .error .mismatch
      else match lexScalar (k :: r) with
        | some _ => .error .mismatch
        | none => .error .syntax)

/-- Target `[]any` (nil): the slice arshaler at the top. -/
def unmarshalSlice (opt : Bool) (c : Cache) (b : Bytes) : Except Err (GoAny F) :=
  finish (
    match skipWs b with
    | [] => .error .syntax
    | k :: r =>
      if k = 0x5B then
        match skipWs r with
        | [] => .error .syntax
        | k' :: r' =>
          if k' = 0x5D then .ok (.slice [], r', c)
          else
            match genElems fp opt (2 * b.length + 1) 1 [] c (k' :: r') with
            | .ok (xs, r'', c') => .ok (.slice xs, r'', c')
            | .error e => .error e
      else if k = 0x6E then
        match stripPrefix litNull (k :: r) with
        | some r' => .ok (.nil, r', c)
        | none => .error .syntax
      else if k = 0x7B then .error .mismatch
      else match lexScalar (k :: r) with
        | some _ => .error .mismatch
        | none => .error .syntax)

end

/-! ### From the meaning of a text to the Go value it must produce -/

section
variable {F : Type} (fp : FloatParse F)

mutual
/-- The untyped Go value of a tree; `none` when some number overflows float64. -/
def toGo : MTree → Option (GoAny F)
  | .null => some .nil
  | .bool b => some (.bool b)
  | .str s => some (.str s)
  | .num l => (fp l).map .f64
  | .arr xs => (toGoList xs).map .slice
  | .obj ms => (toGoMembers ms).map .map
def toGoList : List MTree → Option (List (GoAny F))
  | [] => some []
  | x :: xs =>
    match toGo x with
    | none => none
    | some v => (toGoList xs).map (v :: ·)
def toGoMembers : List (Bytes × MTree) → Option (List (Bytes × GoAny F))
  | [] => some []
  | (k, x) :: ms =>
    match toGo x with
    | none => none
    | some v => (toGoMembers ms).map ((k, v) :: ·)
end

end

end JsonV.Model.AnyDecode
