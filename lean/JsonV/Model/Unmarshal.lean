/-
L3 — model of `json.Unmarshal` *into an existing value* under the default (v2) options, one
function per `make<Kind>Arshaler(...).unmarshal` of /repo/arshal_default.go.  Core Lean only.

    unm o T j prior : Except Err GoVal

is the value left in a destination of Go type `T` that held `prior`, after unmarshaling the JSON
value whose tree is `j`, under the option record `o` (`UOpts`: default options, plus
`UnmarshalArrayFromAnyLength` and `AllowDuplicateNames` as switches); `.error` means the call reports an error (what is left in the
destination is not modelled then: C14 only speaks about successful calls; every semantic error
is fatal under the default options, errors.go:62 `isFatalError`).

Per kind (line numbers of /repo/arshal_default.go):
  * bool/string/ints/uints/float64 (:159-206, :258-311, :484-561, :583-651, :689-769):
    `null` ⇒ zero value, matching kind ⇒ replaced, other kind ⇒ error.  Ints: `jsonwire.ParseUint`
    on the literal (digits only, so `1.0`/`1e2` ⇒ syntax error) and a range check per width
    (modelled on unbounded naturals: ParseUint's own overflow signal `MaxUint64,false` and the
    width test collapse into one comparison).  float64 keeps the literal (see GoVal.lean).
  * slice (:1552-1603): `null` ⇒ nil; `[`: length set to capacity, every reused element is
    `SetZero`ed before decoding (`mustZero`), grown elements are fresh, finally `SetLen(i)` or the
    shared empty slice ⇒ the result is exactly the new elements decoded into zero values; the
    prior only donates capacity, which is not part of a `GoVal`.
  * array (:1664-1706): `null` ⇒ zero; `[`: element i is `SetZero`ed then decoded, surplus
    elements are skipped (still syntax-checked), missing ones zeroed, and then a length mismatch is
    an error unless `UnmarshalArrayFromAnyLength` (`o.arrayAnyLen`).
  * map (:972-1077): `null` ⇒ nil map; `{`: nil map allocated; per member: a name seen earlier in
    this object ⇒ duplicate-name error; existing entry ⇒ *copied* into a fresh addressable value,
    decoded into, stored back (merge); no entry ⇒ decoded into a zero value and stored.
  * struct (:1298-1416): `null` ⇒ zero struct; `{`: per member: known name (exact match, default
    options) ⇒ decode into the field in place; unknown ⇒ value skipped (syntax-checked);
    repeated name ⇒ duplicate-name error.
  * pointer (:1752-1790): `null` ⇒ nil; nil pointer ⇒ allocate a zero pointee; decode into pointee.
  * interface `any` (:1889-1957): `null` ⇒ nil interface; nil interface ⇒ untyped fast path
    (arshal_any.go:64-289: bool / float64 / string / []any / map[string]any, all fresh);
    non-nil interface ⇒ the dynamic value is shallow-copied into a new addressable value of its
    dynamic type, unmarshaled into *by that type's arshaler*, and stored back: so a held
    `map[string]any` is merged into, a held `[]any` is replaced, a held scalar is replaced when
    the JSON kind fits and is an error otherwise (e.g. a string into a held float64).
    `unmAny` spells this out structurally on the tree; `Lemmas/MergeBase.lean: unmAny_dyn` proves
    it equals "`unm (dynType dv) j dv`, re-wrapped".
-/
import JsonV.Model.GoVal

namespace JsonV.Model
open JsonV JsonV.Spec

/-- Error classes (never message text). -/
inductive Err where
  | kind        -- JSON kind not accepted by the Go type (SemanticError without Err)
  | numSyntax   -- strconv.ErrSyntax (non-integer literal into an integer type)
  | range       -- strconv.ErrRange
  | dup         -- duplicate object member name (SyntacticError)
  | arrayLen    -- too few / too many array elements
  | illTyped    -- the prior value does not have the shape of the type (not a Go state)
  | unmodelled  -- interface holding a dynamic type outside the modelled universe
deriving Repr, DecidableEq, Inhabited

/-- The options that change merge behaviour and are modelled. -/
structure UOpts where
  /-- `jsonv1.UnmarshalArrayFromAnyLength` -/
  arrayAnyLen : Bool := false
  /-- `jsontext.AllowDuplicateNames`: no duplicate-name check anywhere (neither in the object loops of
  struct/map/any — arshal_default.go:1017-1021, :1335, :1361 — nor in the tokenizer while a value is
  skipped or pre-read with `ReadValue`); a repeated name is unmarshaled INTO what the earlier member
  left (struct field in place, map entry copy-merge-store, and for `any` the untyped fast path is
  disabled (:1905) so the generic path — map[string]any / []any arshalers — runs, which merges). -/
  allowDup : Bool := false
deriving Repr, Inhabited

/-- The tokenizer accepts the value `j` while skipping / pre-reading it: no repeated member name
inside, unless duplicate names are allowed. -/
def skipOK (o : UOpts) (j : JTree) : Bool := o.allowDup || j.dupFree

abbrev Dec := JTree → GoVal → Except Err GoVal

/-! ### Scalars -/

def isDigit (c : UInt8) : Bool := 0x30 ≤ c && c ≤ 0x39

/-- `jsonwire.ParseUint` (internal/jsonwire/decode.go:593) on unbounded naturals:
`none` when the text is not a plain digit string without superfluous leading zero. -/
def parseNat (b : Bytes) : Option Nat :=
  if b.isEmpty || !b.all isDigit || (b.head? == some 0x30 && b != [0x30]) then none
  else some (b.foldl (fun v c => 10 * v + (c.toNat - 48)) 0)

def unmBool : JTree → Except Err GoVal
  | .null => .ok (.bool false)
  | .bool b => .ok (.bool b)
  | _ => .error .kind

/-- `ReadValue` (used by the string, int, uint and float arshalers, not by bool) consumes and
validates the whole JSON value before the kind switch, so a duplicate name inside a value of the
wrong kind is reported as the (syntactic) duplicate-name error rather than the kind mismatch. -/
def wrongKind (o : UOpts) (j : JTree) : Err := if skipOK o j then .kind else .dup

def unmString (o : UOpts) : JTree → Except Err GoVal
  | .null => .ok (.str [])
  | .str s => .ok (.str s)
  | j => .error (wrongKind o j)

def unmFloat (o : UOpts) : JTree → Except Err GoVal
  | .null => .ok (.float [0x30])
  | .num l => .ok (.float l)
  | j => .error (wrongKind o j)

def unmInt (o : UOpts) (bits : Nat) : JTree → Except Err GoVal
  | .null => .ok (.int 0)
  | .num l =>
    let neg := l.head? == some 0x2d
    match parseNat (if neg then l.drop 1 else l) with
    | none => .error .numSyntax
    | some n =>
      let maxInt := 2 ^ (bits - 1)
      if (neg && n > maxInt) || (!neg && n > maxInt - 1) then .error .range
      else .ok (.int (if neg then -(n : Int) else (n : Int)))
  | j => .error (wrongKind o j)

def unmUint (o : UOpts) (bits : Nat) : JTree → Except Err GoVal
  | .null => .ok (.uint 0)
  | .num l =>
    match parseNat l with
    | none => .error .numSyntax
    | some n => if n > 2 ^ bits - 1 then .error .range else .ok (.uint n)
  | j => .error (wrongKind o j)

/-! ### Generic loops (parameterised by the element decoder) -/

/-- Slice element loop: every element is decoded into a zero value `z`. -/
def elemsFresh (f : Dec) (z : GoVal) : List JTree → Except Err (List GoVal)
  | [] => .ok []
  | x :: r =>
    match f x z with
    | .error e => .error e
    | .ok v =>
      match elemsFresh f z r with
      | .error e => .error e
      | .ok vs => .ok (v :: vs)

/-- Array element loop for an array type of length `n`: decode into zeroed elements, skip surplus
elements (SkipValue still rejects duplicate names), zero-fill missing ones. -/
def arrayElems (o : UOpts) (f : Dec) (z : GoVal) : Nat → List JTree → Except Err (List GoVal)
  | 0, [] => .ok []
  | 0, x :: r => if skipOK o x then arrayElems o f z 0 r else .error .dup
  | n+1, [] => .ok (List.replicate (n+1) z)
  | n+1, x :: r =>
    match f x z with
    | .error e => .error e
    | .ok v =>
      match arrayElems o f z n r with
      | .error e => .error e
      | .ok vs => .ok (v :: vs)

/-- Object member loop shared by maps and structs.  `dec n` is the decoder of the destination
named `n` (`none`: unknown struct member, skipped), `zeroOf n` its zero value (used when a map has
no entry yet), `seen` the names read so far in this object, `m` the destination so far. -/
def objFold (o : UOpts) (dec : Bytes → Option Dec) (zeroOf : Bytes → GoVal) :
    List (Bytes × JTree) → List Bytes → List (Bytes × GoVal) → Except Err (List (Bytes × GoVal))
  | [], _, m => .ok m
  | (n, j) :: r, seen, m =>
    if !o.allowDup && seen.contains n then .error .dup else
    match dec n with
    | none => if skipOK o j then objFold o dec zeroOf r (n :: seen) m else .error .dup
    | some f =>
      match f j ((alookup n m).getD (zeroOf n)) with
      | .error e => .error e
      | .ok v => objFold o dec zeroOf r (n :: seen) (aset n v m)

/-! ### `any` -/

def isBoolV : GoVal → Bool | .bool _ => true | _ => false
def isFloatV : GoVal → Bool | .float _ => true | _ => false
def isStrV : GoVal → Bool | .str _ => true | _ => false
def isSliceV : GoVal → Bool | .nilSlice => true | .sliceOf _ => true | _ => false

/-- Error of unmarshaling `j` into a held dynamic value `dv` that does not accept its kind:
the arshaler of the dynamic type decides (float64/string read the whole value first, see
`wrongKind`; bool, []any, map[string]any read one token). -/
def heldMismatch (o : UOpts) (j : JTree) (dv : GoVal) : Err :=
  if dv.dynType.isSome then (if isFloatV dv || isStrV dv then wrongKind o j else .kind) else .unmodelled

/-- Check of the dynamic value held by a non-nil interface against the JSON kind. -/
def anyPrior (o : UOpts) (j : JTree) (p : GoVal) (accept : GoVal → Bool) : Except Err Unit :=
  match p with
  | .nilIface => .ok ()
  | .ifaceOf dv => if accept dv then .ok () else .error (heldMismatch o j dv)
  | _ => .error .illTyped

mutual
/-- Unmarshal into a destination of type `any` holding `p` (`nilIface` or `ifaceOf dv`). -/
def unmAny (o : UOpts) : JTree → GoVal → Except Err GoVal
  | .null, _ => .ok .nilIface
  | .bool b, p =>
    match anyPrior o (.bool b) p isBoolV with
    | .error e => .error e
    | .ok _ => .ok (.ifaceOf (.bool b))
  | .num l, p =>
    match anyPrior o (.num l) p isFloatV with
    | .error e => .error e
    | .ok _ => .ok (.ifaceOf (.float l))
  | .str s, p =>
    match anyPrior o (.str s) p isStrV with
    | .error e => .error e
    | .ok _ => .ok (.ifaceOf (.str s))
  | .arr xs, p =>
    match anyPrior o (.arr xs) p isSliceV with
    | .error e => .error e
    | .ok _ =>
      match unmAnyL o xs with
      | .error e => .error e
      | .ok vs => .ok (.ifaceOf (.sliceOf vs))
  | .obj ms, p =>
    match p with
    | .nilIface =>
      match unmAnyM o ms [] [] with
      | .error e => .error e
      | .ok m => .ok (.ifaceOf (.mapOf m))
    | .ifaceOf .nilMap =>
      match unmAnyM o ms [] [] with
      | .error e => .error e
      | .ok m => .ok (.ifaceOf (.mapOf m))
    | .ifaceOf (.mapOf m0) =>
      match unmAnyM o ms [] m0 with
      | .error e => .error e
      | .ok m => .ok (.ifaceOf (.mapOf m))
    | .ifaceOf dv => .error (heldMismatch o (.obj ms) dv)
    | _ => .error .illTyped
/-- `elemsFresh (unmAny o) nilIface` -/
def unmAnyL (o : UOpts) : List JTree → Except Err (List GoVal)
  | [] => .ok []
  | x :: r =>
    match unmAny o x .nilIface with
    | .error e => .error e
    | .ok v =>
      match unmAnyL o r with
      | .error e => .error e
      | .ok vs => .ok (v :: vs)
/-- `objFold o (fun _ => some (unmAny o)) (fun _ => nilIface)` -/
def unmAnyM (o : UOpts) : List (Bytes × JTree) → List Bytes → List (Bytes × GoVal) → Except Err (List (Bytes × GoVal))
  | [], _, m => .ok m
  | (n, j) :: r, seen, m =>
    if !o.allowDup && seen.contains n then .error .dup else
    match unmAny o j ((alookup n m).getD .nilIface) with
    | .error e => .error e
    | .ok v => unmAnyM o r (n :: seen) (aset n v m)
end

/-! ### All types -/

/-- Zero value of the struct field named `n` (`nilIface` if there is no such field; never used
for a well-typed prior, whose fields are all present). -/
def fieldZero (fs : List (Bytes × GoType)) (n : Bytes) : GoVal :=
  match alookup n fs with
  | some t => t.zero
  | none => .nilIface

mutual
def unm (o : UOpts) : GoType → JTree → GoVal → Except Err GoVal
  | .bool, j, _ => unmBool j
  | .int b, j, _ => unmInt o b j
  | .uint b, j, _ => unmUint o b j
  | .float64, j, _ => unmFloat o j
  | .string, j, _ => unmString o j
  | .slice t, j, _ =>
    match j with
    | .null => .ok .nilSlice
    | .arr xs =>
      match elemsFresh (unm o t) t.zero xs with
      | .error e => .error e
      | .ok vs => .ok (.sliceOf vs)
    | _ => .error .kind
  | .array n t, j, _ =>
    match j with
    | .null => .ok (.arrayOf (List.replicate n t.zero))
    | .arr xs =>
      match arrayElems o (unm o t) t.zero n xs with
      | .error e => .error e
      | .ok vs => if xs.length != n && !o.arrayAnyLen then .error .arrayLen else .ok (.arrayOf vs)
    | _ => .error .kind
  | .map t, j, p =>
    match j with
    | .null => .ok .nilMap
    | .obj ms =>
      match p with
      | .nilMap =>
        match objFold o (fun _ => some (unm o t)) (fun _ => t.zero) ms [] [] with
        | .error e => .error e
        | .ok m => .ok (.mapOf m)
      | .mapOf m0 =>
        match objFold o (fun _ => some (unm o t)) (fun _ => t.zero) ms [] m0 with
        | .error e => .error e
        | .ok m => .ok (.mapOf m)
      | _ => .error .illTyped
    | _ => .error .kind
  | .ptr t, j, p =>
    match j with
    | .null => .ok .nilPtr
    | _ =>
      match p with
      | .nilPtr =>
        match unm o t j t.zero with
        | .error e => .error e
        | .ok v => .ok (.ptrTo v)
      | .ptrTo v0 =>
        match unm o t j v0 with
        | .error e => .error e
        | .ok v => .ok (.ptrTo v)
      | _ => .error .illTyped
  | .struct fs, j, p =>
    match j with
    | .null => .ok (.structOf (GoType.zeroFields fs))
    | .obj ms =>
      match p with
      | .structOf fvs =>
        match objFold o (fieldDec o fs) (fieldZero fs) ms [] fvs with
        | .error e => .error e
        | .ok m => .ok (.structOf m)
      | _ => .error .illTyped
    | _ => .error .kind
  | .any, j, p => unmAny o j p
/-- Decoder of the struct field with JSON name `n` (exact match), if any. -/
def fieldDec (o : UOpts) : List (Bytes × GoType) → Bytes → Option Dec
  | [], _ => none
  | (fn, ft) :: r, n => if fn = n then some (unm o ft) else fieldDec o r n
end

/-- A chain of unmarshal calls into the same destination. -/
def unmChain (o : UOpts) (T : GoType) : List JTree → GoVal → Except Err GoVal
  | [], v => .ok v
  | j :: js, v =>
    match unm o T j v with
    | .error e => .error e
    | .ok v' => unmChain o T js v'

end JsonV.Model
