/-
Model of the decoder's string interning cache (repo/intern.go): `hash64`, the choice of
the hashed prefix/suffix window by length class, and `makeString` with its 256-slot cache.

`makeString c b` returns the string form of `b` and the new cache.  The cached string is
returned only when it is byte-equal to `b` (`s == string(b)` in the Go code), which is what
makes the cache transparent (Props/C18 `intern_transparent`).

Core Lean only (the oracle links this file).
-/
import JsonV.Model.Basic

namespace JsonV.Model.Intern
open JsonV

/-! ### hash64 (intern.go:58) -/

def prime3 : BitVec 32 := 0xc2b2ae3d#32
def prime4 : BitVec 32 := 0x27d4eb2f#32
def prime5 : BitVec 32 := 0x165667b1#32

/-- `hash64(lo, hi)`: XXH32 of an 8-byte string without the final avalanche. -/
def hash64 (lo hi : BitVec 32) : BitVec 32 :=
  let h := prime5 + 8#32
  let h := h + lo * prime3
  let h := BitVec.rotateLeft h 17 * prime4
  let h := h + hi * prime3
  let h := BitVec.rotateLeft h 17 * prime4
  h

/-! ### little-endian windows -/

/-- `binary.LittleEndian.UintN` of a byte window, as a natural number. -/
def leNat : Bytes → Nat
  | [] => 0
  | x :: xs => x.toNat + 256 * leNat xs

/-- `b[i:j]`. -/
def window (b : Bytes) (i j : Nat) : Bytes := (b.drop i).take (j - i)

def minCachedLen : Nat := 2
def maxCachedLen : Nat := 256
def numSlots : Nat := 256

/-- The hash `h` computed by `makeString` for a string whose length is in the cached range.
Three length classes, exactly as the `switch` in intern.go:31-43. -/
def hashOf (b : Bytes) : BitVec 32 :=
  let n := b.length
  if n ≥ 8 then
    let lo := leNat (window b 0 8)
    let hi := leNat (window b (n - 8) n)
    hash64 (BitVec.ofNat 32 lo) (BitVec.ofNat 32 (lo >>> 32)) ^^^
      hash64 (BitVec.ofNat 32 hi) (BitVec.ofNat 32 (hi >>> 32))
  else if n ≥ 4 then
    hash64 (BitVec.ofNat 32 (leNat (window b 0 4))) (BitVec.ofNat 32 (leNat (window b (n - 4) n)))
  else if n ≥ 2 then
    hash64 (BitVec.ofNat 32 (leNat (window b 0 2))) (BitVec.ofNat 32 (leNat (window b (n - 2) n)))
  else 0#32

/-- `i := h % uint32(len(*c))`. -/
def slot (b : Bytes) : Fin numSlots := ⟨(hashOf b).toNat % numSlots, Nat.mod_lt _ (by decide)⟩

/-! ### the cache -/

/-- `stringCache = [256]string`; the zero value holds empty strings. -/
abbrev Cache := Vector Bytes numSlots

def Cache.empty : Cache := Vector.replicate numSlots []

/-- Is `b` in the length range that goes through the cache? -/
def cached (b : Bytes) : Bool := decide (minCachedLen ≤ b.length) && decide (b.length ≤ maxCachedLen)

/-- `makeString(c, b)` for a non-nil cache. -/
def makeString (c : Cache) (b : Bytes) : Bytes × Cache :=
  if !cached b then (b, c)          -- `return string(b)`
  else
    let i := slot b
    let s := c[i]
    if s = b then (s, c)            -- `if s := (*c)[i]; s == string(b) { return s }`
    else (b, c.set i b)             -- `s := string(b); (*c)[i] = s; return s`

/-- A history of `makeString` calls on one cache: the strings returned, and the final cache. -/
def runAll (c : Cache) : List Bytes → List Bytes × Cache
  | [] => ([], c)
  | b :: bs =>
    let (s, c1) := makeString c b
    let (ss, c2) := runAll c1 bs
    (s :: ss, c2)

/-- The invariant the code maintains: every slot is empty or holds a cacheable string that hashes to it. -/
def Inv (c : Cache) : Prop :=
  ∀ i : Fin numSlots, c[i] = [] ∨ (cached c[i] = true ∧ slot c[i] = i)

end JsonV.Model.Intern
