/-
C20 — depth accounting of jsontext.

Two mechanisms bound the nesting of JSON values in the Go code:

* the **token path** (ReadToken / WriteToken / SkipValue): `stateMachine.pushObject/pushArray`
  refuse when `len(m.Stack) == maxNestingDepth` (state.go:308, 343) — modelled in `Model/State.lean`;
* the **value path** (ReadValue / WriteValue / Format / IsValid …): `consumeValue/consumeArray/
  consumeObject` (decode.go:856-1130) and `reformatValue/reformatArray/reformatObject`
  (encode.go:668-890) pass a `depth` argument down, starting from `Tokens.Depth()`, test
  `depth == maxNestingDepth+1` at every opening bracket *before* looking at the contents, and
  increment it after the empty-container shortcut.

This file models the operations that drive the state machine (`Op`, `step`, `Reach`), a
canonical descent (`pushes`), and the value path on *skeletons*: the bracket structure of a
text with every scalar, name, colon and comma elided (they never touch `depth`).
Core Lean only.
-/
import JsonV.Model.State

namespace JsonV.Model.Depth
open JsonV.Model

/-! ### Token path: every way the coder drives the state machine -/

/-- One call on the state machine (the `maxDepth` parameter is fixed outside). -/
inductive Op where
  | lit | str | num | pushO | popO | pushA | popA
  | disableNs      -- Tokens.Last.DisableNamespace()
  | invalidate     -- Tokens.InvalidateDisabledNamespaces()
deriving DecidableEq, Repr

def step (max : Nat) (m : Machine) : Op → Except SMErr Machine
  | .lit => m.appendLiteral
  | .str => m.appendString
  | .num => m.appendNumber
  | .pushO => m.pushObject max
  | .popO => m.popObject
  | .pushA => m.pushArray max
  | .popA => m.popArray
  | .disableNs => .ok { m with last := m.last.disableNamespace }
  | .invalidate => .ok m.invalidateDisabledNamespaces

/-- Machines reachable from `reset` by successful calls (a failed call leaves the machine unchanged). -/
inductive Reach (max : Nat) : Machine → Prop where
  | init : Reach max Machine.init
  | step {m m' : Machine} (op : Op) : Reach max m → step max m op = .ok m' → Reach max m'

/-- Run a script of calls, ignoring the ones that fail (as a caller that checks errors and goes on). -/
def run (max : Nat) : List Op → Machine → Machine
  | [], m => m
  | op :: ops, m =>
    match step max m op with
    | .ok m' => run max ops m'
    | .error _ => run max ops m

/-- Descend one level "after a valid position": inside an object the member name comes first. -/
def pushKind (max : Nat) (obj : Bool) (m : Machine) : Except SMErr Machine :=
  match (if m.last.needObjectName then m.appendString else .ok m) with
  | .error e => .error e
  | .ok m1 => if obj then m1.pushObject max else m1.pushArray max

/-- `pushes max ks m`: open `ks.length` containers, `true` = object, `false` = array. -/
def pushes (max : Nat) : List Bool → Machine → Except SMErr Machine
  | [], m => .ok m
  | k :: ks, m =>
    match pushKind max k m with
    | .error e => .error e
    | .ok m1 => pushes max ks m1

/-! ### Value path on skeletons -/

/-- Skeleton symbols: `[` `]` `{` `}` and "a scalar".  Names, colons and commas are elided. -/
inductive Sym where
  | oa | ca | oo | co | sc
deriving DecidableEq, Repr, Inhabited

inductive VErr where
  | maxDepth   -- errMaxDepth
  | syntax     -- any other syntactic error (wrong closer, truncated input)
  | fuel       -- the model ran out of fuel (never happens with fuel > 2·length, `value_fuel_nest`)
deriving DecidableEq, Repr, Inhabited

mutual
/-- `consumeValue(pos, depth)` / `reformatValue(src, depth)`: returns the unconsumed rest. -/
def value (max : Nat) : Nat → Nat → List Sym → Except VErr (List Sym)
  | 0, _, _ => .error .fuel
  | _ + 1, _, [] => .error .syntax
  | _ + 1, _, .sc :: rest => .ok rest
  | _ + 1, _, .ca :: _ => .error .syntax
  | _ + 1, _, .co :: _ => .error .syntax
  | fuel + 1, depth, .oa :: rest =>
    -- consumeArray: `else if depth == maxNestingDepth+1 { return pos, errMaxDepth }`
    if depth = max + 1 then .error .maxDepth
    -- `if d.buf[pos] == ']' { pos++; return pos, nil }` — before `depth++`
    else if rest.head? = some .ca then .ok rest.tail
    -- `depth++ ; for { … consumeValue(flags, pos, depth) … }`
    else elems max fuel (depth + 1) .ca rest
  | fuel + 1, depth, .oo :: rest =>
    if depth = max + 1 then .error .maxDepth
    else if rest.head? = some .co then .ok rest.tail
    else elems max fuel (depth + 1) .co rest
/-- the `for` loop of consumeArray / consumeObject: values until the closer. -/
def elems (max : Nat) : Nat → Nat → Sym → List Sym → Except VErr (List Sym)
  | 0, _, _, _ => .error .fuel
  | fuel + 1, depth, closer, inp =>
    match value max fuel depth inp with
    | .error e => .error e
    | .ok r =>
      -- `case ']' : return` / `case ',' : continue` — a wrong closer is refused by the next `value`
      if r.head? = some closer then .ok r.tail
      else if r = [] then .error .syntax
      else elems max fuel depth closer r
end

/-- A pure nest: `ks.length` opening brackets, a scalar, the matching closers. -/
def opens : List Bool → List Sym
  | [] => []
  | true :: ks => .oo :: opens ks
  | false :: ks => .oa :: opens ks

def closes : List Bool → List Sym
  | [] => []
  | true :: ks => closes ks ++ [.co]
  | false :: ks => closes ks ++ [.ca]

def nest (ks : List Bool) : List Sym := opens ks ++ .sc :: closes ks

/-- Nest whose innermost container is empty (`[[[]]]`): `ks` are the enclosing levels, `k` the innermost. -/
def nestEmpty (ks : List Bool) (k : Bool) : List Sym :=
  opens ks ++ (if k then [.oo, .co] else [.oa, .ca]) ++ closes ks

/-- `nestDepthOk max start text`: the value path accepts the skeleton when entered at `Tokens.Depth() = start`. -/
def nestDepthOk (max start : Nat) (text : List Sym) : Bool :=
  match value max (2 * text.length + 1) start text with
  | .ok [] => true
  | _ => false

/-- Index (in symbols) at which the value path reports `errMaxDepth`, if it does. -/
def failAt (max start : Nat) (text : List Sym) : Option Nat :=
  -- the refusal is at the first opening bracket whose depth is max+1
  let rec go (depth : Nat) (i : Nat) : List Sym → Option Nat
    | [] => none
    | .oa :: r | .oo :: r => if depth = max + 1 then some i else go (depth + 1) (i + 1) r
    | .ca :: r | .co :: r => go (depth - 1) (i + 1) r
    | .sc :: r => go depth (i + 1) r
  match value max (2 * text.length + 1) start text with
  | .error .maxDepth => go start 0 text
  | _ => none

end JsonV.Model.Depth
