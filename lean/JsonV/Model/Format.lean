/-
Token-level model of `jsontext.Value.Compact` / `Value.Indent` (value.go:137-194, encode.go:668-894)
with the raw-preserving defaults (AllowDuplicateNames, AllowInvalidUTF8, PreserveRawStrings):
strings and numbers are copied verbatim, only delimiters and whitespace are regenerated.

  tokenize : Bytes → Option (List Tok)        lexer (`lex`) + grammar check that drops `,` and `:` (`unpunct`)
  render o : List Tok → Bytes                 delimiters from the grammar state, whitespace from the options
  compact b  = (tokenize b).map renderCompact
  indent o b = (tokenize b).map (render o)
  valueFormat o v                             the commit rule of `Value.format`: untouched on error, no write
                                              when the result equals the current contents

Core Lean only (linked into the oracle).
-/
import JsonV.Spec.Tokens

namespace JsonV.Fmt

/-! ### lexer -/

inductive Lex where
  | tok (t : Tok)
  | delim (d : Delim)
  deriving DecidableEq, Repr

def Lex.bytes : Lex → Bytes
  | .tok t => t.bytes
  | .delim d => d.bytes

def Lex.valid : Lex → Bool
  | .tok t => t.valid
  | .delim _ => true

def mapTok (f : Bytes → Tok) : Option (Bytes × Bytes) → Option (Lex × Bytes)
  | some (a, r) => some (.tok (f a), r)
  | none => none

/-- One lexeme at the start of a text whose first byte is not whitespace. -/
def lex1 : Bytes → Option (Lex × Bytes)
  | [] => none
  | c :: cs =>
    if c = 0x2d ∨ isDigit c = true then mapTok Tok.num (scanNum .start (c :: cs))
    else if c = 0x22 then mapTok (fun a => Tok.str (c :: a)) (scanStr .body cs)
    else if c = 0x7b then some (.tok .bo, cs)
    else if c = 0x7d then some (.tok .eo, cs)
    else if c = 0x5b then some (.tok .ba, cs)
    else if c = 0x5d then some (.tok .ea, cs)
    else if c = 0x2c then some (.delim .comma, cs)
    else if c = 0x3a then some (.delim .colon, cs)
    else if c = 0x6e then
      match cs with
      | 0x75 :: 0x6c :: 0x6c :: r => some (.tok .null, r)
      | _ => none
    else if c = 0x74 then
      match cs with
      | 0x72 :: 0x75 :: 0x65 :: r => some (.tok .tru, r)
      | _ => none
    else if c = 0x66 then
      match cs with
      | 0x61 :: 0x6c :: 0x73 :: 0x65 :: r => some (.tok .fls, r)
      | _ => none
    else none

def consL (l : Lex) : Option (List Lex) → Option (List Lex)
  | some ls => some (l :: ls)
  | none => none

/-- The lexer with explicit fuel (one unit per lexeme or whitespace byte; `lexF_fuel`: length + 1 suffices). -/
def lexF : Nat → Bytes → Option (List Lex)
  | 0, _ => none
  | _ + 1, [] => some []
  | n + 1, c :: cs =>
    if isWs c = true then lexF n cs
    else
      match lex1 (c :: cs) with
      | some (l, r) => consL l (lexF n r)
      | none => none

def lex (b : Bytes) : Option (List Lex) := lexF (b.length + 1) b

/-! ### grammar check: drop the delimiters -/

def consT (t : Tok) : Option (List Tok) → Option (List Tok)
  | some ts => some (t :: ts)
  | none => none

def unpunct : Stack → List Lex → Option (List Tok)
  | st, [] => if st = [.top1] then some [] else none
  | st, .tok t :: ls =>
    match step st t with
    | some (none, st') => consT t (unpunct st' ls)
    | _ => none
  | st, .delim d :: .tok t :: ls =>
    match step st t with
    | some (some d', st') => if d = d' then consT t (unpunct st' ls) else none
    | _ => none
  | _, _ => none

def tokenize (b : Bytes) : Option (List Tok) :=
  match lex b with
  | some ls => unpunct [.top0] ls
  | none => none

/-! ### renderer -/

structure WsOpts where
  pre : Bytes        -- WithIndentPrefix
  ind : Bytes        -- WithIndent
  multi : Bool       -- Multiline
  spColon : Bool     -- SpaceAfterColon
  spComma : Bool     -- SpaceAfterComma

def compactOpts : WsOpts := ⟨[], [], false, false, false⟩

def WsOpts.Blank (o : WsOpts) : Prop := allWs o.pre = true ∧ allWs o.ind = true

def repeatBytes (b : Bytes) : Nat → Bytes
  | 0 => []
  | k + 1 => b ++ repeatBytes b k

/-- encoderState.AppendIndent for nesting level `k` (members of the top-level container have level 1). -/
def nl (o : WsOpts) (k : Nat) : Bytes :=
  if o.multi then 0x0a :: (o.pre ++ repeatBytes o.ind k) else []

def sp (b : Bool) : Bytes := if b then [0x20] else []

/-- Whitespace between the delimiter (if any) and token `t` when the context is `st`.
`st.length - 1` is the number of open containers. -/
def wsBefore (o : WsOpts) (st : Stack) (t : Tok) : Bytes :=
  match st with
  | .arr0 :: s => if t = .ea then [] else nl o s.length
  | .arrN :: s => if t = .ea then nl o (s.length - 1) else sp o.spComma ++ nl o s.length
  | .obj0 :: s => if t = .eo then [] else nl o s.length
  | .objV :: s => if t = .eo then nl o (s.length - 1) else sp o.spComma ++ nl o s.length
  | .objK :: _ => sp o.spColon
  | _ => []

def delimPiece : Option Delim → List (Bytes × Lex)
  | some d => [([], .delim d)]
  | none => []

/-- The output as (whitespace, lexeme) pieces.  Tokens that the grammar does not allow are emitted bare
(the theorems only speak about well-nested lists). -/
def pieces (o : WsOpts) : Stack → List Tok → List (Bytes × Lex)
  | _, [] => []
  | st, t :: ts =>
    match step st t with
    | some (d, st') => delimPiece d ++ (wsBefore o st t, .tok t) :: pieces o st' ts
    | none => ([], .tok t) :: pieces o st ts

def flatWs : List (Bytes × Lex) → Bytes
  | [] => []
  | (w, l) :: rest => w ++ (l.bytes ++ flatWs rest)

def render (o : WsOpts) (ts : List Tok) : Bytes := flatWs (pieces o [.top0] ts)

def renderCompact (ts : List Tok) : Bytes := render compactOpts ts

def renderIndent (pre ind : Bytes) (spColon spComma multi : Bool) (ts : List Tok) : Bytes :=
  render ⟨pre, ind, multi, spColon, spComma⟩ ts

/-! ### the operations -/

def format (o : WsOpts) (b : Bytes) : Option Bytes :=
  match tokenize b with
  | some ts => some (render o ts)
  | none => none

/-- `Value.Compact()` with no caller options. -/
def compact (b : Bytes) : Option Bytes := format compactOpts b

/-- `Value.Indent(WithIndentPrefix(pre), WithIndent(ind))`. -/
def indent (pre ind : Bytes) (b : Bytes) : Option Bytes := format ⟨pre, ind, true, true, false⟩ b

/-- Result of `(*Value).format`: the contents afterwards, whether an error was returned and whether
the buffer was written (value.go:142-147: error ⇒ return before any write; `bytes.Equal` ⇒ no write). -/
structure FormatResult where
  val : Bytes
  err : Bool
  wrote : Bool
  deriving DecidableEq, Repr

def valueFormat (o : WsOpts) (v : Bytes) : FormatResult :=
  match format o v with
  | none => ⟨v, true, false⟩
  | some out => if v = out then ⟨v, false, false⟩ else ⟨out, false, true⟩

/-- `AppendFormat(dst, src)`: on error all of `src` is appended. -/
def appendFormat (o : WsOpts) (dst src : Bytes) : Bytes × Bool :=
  match format o src with
  | none => (dst ++ src, true)
  | some out => (dst ++ out, false)

end JsonV.Fmt
