/-
L3 — the universe of Go types and Go values used by the arshal models (C14 here; C03, C04,
C08 extend it).  Core Lean only.

`GoType` covers the kinds whose default (un)marshalers live in /repo/arshal_default.go and that
can be built with `reflect`: scalars, slices, arrays, maps with string keys, pointers, structs
with plain `json:"name"` fields (no embedding, no options), and the empty interface `any`.

Deliberately outside the universe (the harness never generates them; `GoType.wf` excludes them):
  * `[]uint8` / `[N]uint8` — these are routed to the *bytes* arshaler (base64 strings),
  * named types with methods, `time.Time`, `time.Duration`, non-string map keys, embedded
    fields, `string`/`format`/`omit…` tag options, non-empty interfaces.

`GoVal` mirrors the types.  Conventions:
  * `int i` / `uint n` are unbounded here; the *unmarshaler* range-checks per width.
  * `float lit` — a float64 is represented by the JSON number literal it was parsed from
    (`0` for the zero value).  The model does not contain strconv.ParseFloat; the harness
    compares such a value with the real float64 through `strconv.ParseFloat(lit)`.  Literals
    that overflow float64 are outside the model (the real code reports a range error).
  * `sliceOf vs` is a non-nil slice of exactly `vs` (length = `vs.length`); capacity and the
    contents of the backing array beyond the length are *not* part of the value, which is exactly
    the claim of C14's slice clause that the harness tests on the real code.
  * `mapOf ms` is a non-nil map as an association list in insertion order without repeated keys
    (`Spec.aset` keeps that invariant).  Go maps are unordered: the oracle prints entries sorted
    by key, and two models of the same Go map may differ in order.  All C14 theorems happen to
    hold with plain equality, which is stronger than equality as finite maps.
  * `structOf fvs` lists the fields in declaration order together with their JSON names.
  * `ptrTo v` is a non-nil pointer; pointers are compared by content (no aliasing in the model —
    the unmarshaler never creates two references to one allocation inside one result).
  * `nilIface` / `ifaceOf v`: an interface value.  The dynamic type of `ifaceOf v` is determined
    by the constructor of `v` and restricted to what untyped decoding produces
    (`bool`, `float64`, `string`, `[]any`, `map[string]any`), see `dynType`.  Interfaces holding
    other dynamic types (user-stored pointers, named types) are outside the model.
-/
import JsonV.Model.Basic
import JsonV.Spec.Tree

namespace JsonV.Model
open JsonV JsonV.Spec

inductive GoType where
  | bool
  | int (bits : Nat)      -- int8/16/32/64 (Go `int` is `int 64` on the verified platform)
  | uint (bits : Nat)
  | float64
  | string
  | slice (t : GoType)
  | array (n : Nat) (t : GoType)
  | map (t : GoType)      -- map[string]t
  | ptr (t : GoType)
  | struct (fields : List (Bytes × GoType))   -- JSON name, type
  | any
deriving Repr, Inhabited

inductive GoVal where
  | bool (b : Bool)
  | int (i : Int)
  | uint (n : Nat)
  | float (lit : Bytes)
  | str (s : Bytes)
  | nilSlice
  | sliceOf (vs : List GoVal)
  | arrayOf (vs : List GoVal)
  | nilMap
  | mapOf (ms : List (Bytes × GoVal))
  | nilPtr
  | ptrTo (v : GoVal)
  | structOf (fvs : List (Bytes × GoVal))
  | nilIface
  | ifaceOf (v : GoVal)
deriving Repr, Inhabited

namespace GoType

mutual
/-- The Go zero value of a type. -/
def zero : GoType → GoVal
  | .bool => .bool false
  | .int _ => .int 0
  | .uint _ => .uint 0
  | .float64 => .float [0x30]
  | .string => .str []
  | .slice _ => .nilSlice
  | .array n t => .arrayOf (List.replicate n (zero t))
  | .map _ => .nilMap
  | .ptr _ => .nilPtr
  | .struct fs => .structOf (zeroFields fs)
  | .any => .nilIface
def zeroFields : List (Bytes × GoType) → List (Bytes × GoVal)
  | [] => []
  | (n, t) :: r => (n, zero t) :: zeroFields r
end

mutual
/-- Well-formed types of the modelled universe: struct field names are pairwise distinct
(otherwise Go's field resolution drops them, C15) and no `[]uint8` / `[N]uint8`. -/
def wf : GoType → Bool
  | .slice t => (match t with | .uint 8 => false | _ => true) && wf t
  | .array _ t => (match t with | .uint 8 => false | _ => true) && wf t
  | .map t => wf t
  | .ptr t => wf t
  | .struct fs => nodupB (akeys fs) && wfFields fs
  | _ => true
def wfFields : List (Bytes × GoType) → Bool
  | [] => true
  | (_, t) :: r => wf t && wfFields r
end

end GoType

namespace GoVal

/-- Dynamic type of the value stored in an interface (restricted universe, see header). -/
def dynType : GoVal → Option GoType
  | .bool _ => some .bool
  | .float _ => some .float64
  | .str _ => some .string
  | .nilSlice => some (.slice .any)
  | .sliceOf _ => some (.slice .any)
  | .nilMap => some (.map .any)
  | .mapOf _ => some (.map .any)
  | _ => none

end GoVal

/-! ### Wire encoding of types and values (oracle line protocol)

Types (prefix tokens):  `b` | `i8 i16 i32 i64` | `u8 u16 u32 u64` | `f` | `s` | `L t` | `R<n> t` |
`M t` | `P t` | `T<k> (name-hex t)×k` | `a`.

Values (prefix tokens): `b0 b1` | `i<decimal>` | `u<decimal>` | `F<hex literal>` | `s<hex>` |
`Ln` nil slice | `L<k> v×k` | `R<k> v×k` | `Mn` nil map | `M<k> (key-hex v)×k` (printed sorted by
key bytes) | `Pn` | `P v` | `T<k> (name-hex v)×k` | `In` nil interface | `I v`. -/
namespace GoWire
open TreeWire

mutual
def parseType : Nat → List String → Option (GoType × List String)
  | 0, _ => none
  | _, [] => none
  | fuel+1, tok :: rest =>
    match tok.toList with
    | ['b'] => some (.bool, rest)
    | ['f'] => some (.float64, rest)
    | ['s'] => some (.string, rest)
    | ['a'] => some (.any, rest)
    | 'i' :: k => (String.ofList k).toNat?.map (fun k => (.int k, rest))
    | 'u' :: k => (String.ofList k).toNat?.map (fun k => (.uint k, rest))
    | ['L'] => (parseType fuel rest).map (fun (t, r) => (.slice t, r))
    | ['M'] => (parseType fuel rest).map (fun (t, r) => (.map t, r))
    | ['P'] => (parseType fuel rest).map (fun (t, r) => (.ptr t, r))
    | 'R' :: k => match (String.ofList k).toNat? with
        | some n => (parseType fuel rest).map (fun (t, r) => (.array n t, r))
        | none => none
    | 'T' :: k => match (String.ofList k).toNat? with
        | some k => (parseFields fuel k rest).map (fun (fs, r) => (.struct fs, r))
        | none => none
    | _ => none
def parseFields : Nat → Nat → List String → Option (List (Bytes × GoType) × List String)
  | 0, _, _ => none
  | _, 0, rest => some ([], rest)
  | _, _+1, [] => none
  | fuel+1, k+1, name :: toks =>
    match unhex name, parseType fuel toks with
    | some n, some (t, r) => (parseFields fuel k r).map (fun (fs, r') => ((n, t) :: fs, r'))
    | _, _ => none
end

def parseTypeToks (toks : List String) : Option (GoType × List String) := parseType (2 * toks.length + 2) toks

mutual
def parseVal : Nat → List String → Option (GoVal × List String)
  | 0, _ => none
  | _, [] => none
  | fuel+1, tok :: rest =>
    match tok.toList with
    | ['b', '0'] => some (.bool false, rest)
    | ['b', '1'] => some (.bool true, rest)
    | 'i' :: k => (String.ofList k).toInt?.map (fun k => (.int k, rest))
    | 'u' :: k => (String.ofList k).toNat?.map (fun k => (.uint k, rest))
    | 'F' :: h => (unhex (String.ofList h)).map (fun b => (.float b, rest))
    | 's' :: h => (unhex (String.ofList h)).map (fun b => (.str b, rest))
    | ['L', 'n'] => some (.nilSlice, rest)
    | ['M', 'n'] => some (.nilMap, rest)
    | ['P', 'n'] => some (.nilPtr, rest)
    | ['I', 'n'] => some (.nilIface, rest)
    | ['P'] => (parseVal fuel rest).map (fun (v, r) => (.ptrTo v, r))
    | ['I'] => (parseVal fuel rest).map (fun (v, r) => (.ifaceOf v, r))
    | 'L' :: k => match (String.ofList k).toNat? with
        | some k => (parseVals fuel k rest).map (fun (vs, r) => (.sliceOf vs, r))
        | none => none
    | 'R' :: k => match (String.ofList k).toNat? with
        | some k => (parseVals fuel k rest).map (fun (vs, r) => (.arrayOf vs, r))
        | none => none
    | 'M' :: k => match (String.ofList k).toNat? with
        | some k => (parseNamed fuel k rest).map (fun (ms, r) => (.mapOf ms, r))
        | none => none
    | 'T' :: k => match (String.ofList k).toNat? with
        | some k => (parseNamed fuel k rest).map (fun (ms, r) => (.structOf ms, r))
        | none => none
    | _ => none
def parseVals : Nat → Nat → List String → Option (List GoVal × List String)
  | 0, _, _ => none
  | _, 0, rest => some ([], rest)
  | fuel+1, k+1, toks =>
    match parseVal fuel toks with
    | some (x, r) => (parseVals fuel k r).map (fun (xs, r') => (x :: xs, r'))
    | none => none
def parseNamed : Nat → Nat → List String → Option (List (Bytes × GoVal) × List String)
  | 0, _, _ => none
  | _, 0, rest => some ([], rest)
  | _, _+1, [] => none
  | fuel+1, k+1, name :: toks =>
    match unhex name, parseVal fuel toks with
    | some n, some (x, r) => (parseNamed fuel k r).map (fun (ms, r') => ((n, x) :: ms, r'))
    | _, _ => none
end

def parseValToks (toks : List String) : Option (GoVal × List String) := parseVal (2 * toks.length + 2) toks

/-- Lexicographic order on byte strings (Go's `bytes.Compare` / string `<`). -/
def bytesLt : Bytes → Bytes → Bool
  | [], [] => false
  | [], _ :: _ => true
  | _ :: _, [] => false
  | a :: x, b :: y => if a < b then true else if b < a then false else bytesLt x y

/-- Insertion sort of map entries by key (printing only). -/
def insertSorted (p : Bytes × α) : List (Bytes × α) → List (Bytes × α)
  | [] => [p]
  | q :: r => if bytesLt p.1 q.1 then p :: q :: r else q :: insertSorted p r

def sortByKey (ms : List (Bytes × α)) : List (Bytes × α) := ms.foldr insertSorted []

mutual
def emitVal : GoVal → List String → List String
  | .bool false, acc => "b0" :: acc
  | .bool true, acc => "b1" :: acc
  | .int i, acc => ("i" ++ toString i) :: acc
  | .uint n, acc => ("u" ++ toString n) :: acc
  | .float l, acc => ("F" ++ hexOf l) :: acc
  | .str s, acc => ("s" ++ hexOf s) :: acc
  | .nilSlice, acc => "Ln" :: acc
  | .sliceOf vs, acc => ("L" ++ toString vs.length) :: emitVals vs acc
  | .arrayOf vs, acc => ("R" ++ toString vs.length) :: emitVals vs acc
  | .nilMap, acc => "Mn" :: acc
  | .mapOf ms, acc => ("M" ++ toString ms.length) :: emitNamed ms acc
  | .nilPtr, acc => "Pn" :: acc
  | .ptrTo v, acc => "P" :: emitVal v acc
  | .structOf fvs, acc => ("T" ++ toString fvs.length) :: emitNamed fvs acc
  | .nilIface, acc => "In" :: acc
  | .ifaceOf v, acc => "I" :: emitVal v acc
def emitVals : List GoVal → List String → List String
  | [], acc => acc
  | x :: r, acc => emitVal x (emitVals r acc)
def emitNamed : List (Bytes × GoVal) → List String → List String
  | [], acc => acc
  | (n, x) :: r, acc => hexOf n :: emitVal x (emitNamed r acc)
end

mutual
/-- Canonical form for printing: map entries sorted by key, recursively. -/
def canon : GoVal → GoVal
  | .sliceOf vs => .sliceOf (canonL vs)
  | .arrayOf vs => .arrayOf (canonL vs)
  | .mapOf ms => .mapOf (sortByKey (canonM ms))
  | .ptrTo v => .ptrTo (canon v)
  | .structOf fvs => .structOf (canonM fvs)
  | .ifaceOf v => .ifaceOf (canon v)
  | v => v
def canonL : List GoVal → List GoVal
  | [] => []
  | x :: r => canon x :: canonL r
def canonM : List (Bytes × GoVal) → List (Bytes × GoVal)
  | [] => []
  | (n, x) :: r => (n, canon x) :: canonM r
end

/-- The canonical printer: map entries sorted by key. -/
def renderVal (v : GoVal) : String := " ".intercalate (emitVal (canon v) [])

end GoWire

end JsonV.Model
