/-
Executable model of the TOKEN path of jsontext's decoder over a complete in-memory buffer:
`decoderState.ReadToken` (/repo/jsontext/decode.go:471-664) on a fresh decoder, driven in a loop
until the first error (io.EOF at a value boundary, or anything else).

The state machine is `JsonV.Model.Machine` (Model/State.lean, the packed `stateEntry` words, tied to
the regenerated code by slice C06); the namespaces (`d.Namespaces`, one per open object, only kept when
duplicate names are rejected) are lists of unescaped names as in Model/Validate.lean; `d.Names`
(only used for error pointers) is not modelled.  As in Validate.lean `fetch` fails with
io.ErrUnexpectedEOF, and results carry the offset RELATIVE to the unread input that the Go code
passes to `wrapSyntacticError`.

Order of checks, as in the code: leading whitespace; end of input (io.EOF iff depth = 1); an optional
`:`/`,` and whitespace; `needDelim(next) != delim` (checkDelim: error at the first non-blank byte);
then the token is LEXED; only then is it offered to the state machine (so a non-string token in name
position is scanned before ErrNonStringName is raised — finding F2 of slice C16), and for a name the
namespace is consulted before `appendString`.
Core Lean only.
-/
import JsonV.Model.Validate
import JsonV.Model.State

namespace JsonV.Model.TokenLoop
open JsonV JsonV.Model JsonV.Model.Wire JsonV.Model.Validate

/-- the decoder state that matters for acceptance -/
structure TState where
  m : Machine := {}
  /-- `d.Namespaces`: innermost object first; empty when duplicate names are allowed -/
  nss : List (List Bytes) := []
  deriving Repr

def smErr : SMErr → Err
  | .nonStringName => .nonStringName
  | .invalidNamespace => .invalidNamespace
  | .maxDepth => .maxDepth
  | .mismatchDelim => .mismatchDelim
  | .missingValue => .missingValue

/-- outcome of one ReadToken: an error at an offset, or the new `prevEnd` and state -/
inductive TRes
  | err (off : Nat) (e : Err)
  | tok (n : Nat) (st : TState)
  deriving Repr

/-- offer a lexed token of `n` bytes at `pos` to a state-machine operation -/
def feed (st : TState) (pos n : Nat) (op : Machine → Except SMErr Machine) : TRes :=
  match op st.m with
  | .error se => .err pos (smErr se)
  | .ok m' => .tok (pos + n) { st with m := m' }

/-- `case '"'` of ReadToken after the string has been lexed: `q` is the quoted string, `fl` its flags -/
def feedString (o : VOpts) (st : TState) (pos : Nat) (q : Bytes) (fl : ValueFlags) : TRes :=
  let go (nss : List (List Bytes)) : TRes :=
    match st.m.appendString with
    | .error se => .err pos (smErr se)
    | .ok m' => .tok (pos + q.length) { m := m', nss := nss }
  if st.m.last.needObjectName then
    if !o.allowDup then
      if !st.m.last.isValidNamespace then .err pos .invalidNamespace
      else if st.m.last.isActiveNamespace then
        match st.nss with
        | [] => .err pos .bug                                   -- one namespace per open object
        | names :: rest =>
          let name := unescapedName q fl                         -- insertQuoted(name, flags.IsVerbatim())
          if names.contains name then .err pos .dupName
          else go ((names ++ [name]) :: rest)
      else go st.nss
    else go st.nss
  else go st.nss

/-- the `switch next` of ReadToken; `r` starts at `pos` with the first byte of the token -/
def lexToken (o : VOpts) (st : TState) (pos : Nat) (r : Bytes) : TRes :=
  match r with
  | [] => .err pos .bug
  | c :: _ =>
    let k := normKind c
    let lit (l : Bytes) : TRes :=
      let (n, e) := valueLiteral l r
      if e != .ok then .err (pos + n) e else feed st pos n Machine.appendLiteral
    if k == 0x6E then lit litNull
    else if k == 0x66 then lit litFalse
    else if k == 0x74 then lit litTrue
    else if k == 0x22 then
      let (n, fl, e) := valueString o r
      if e != .ok then .err (pos + n) e else feedString o st pos (r.take n) fl
    else if k == 0x30 then
      let (n, e) := valueNumber r
      if e != .ok then .err (pos + n) e else feed st pos n Machine.appendNumber
    else if k == 0x7B then
      match st.m.pushObject maxNestingDepth with
      | .error se => .err pos (smErr se)
      | .ok m' => .tok (pos + 1) { m := m', nss := if o.allowDup then st.nss else [] :: st.nss }
    else if k == 0x7D then
      match st.m.popObject with
      | .error se => .err pos (smErr se)
      | .ok m' => .tok (pos + 1) { m := m', nss := if o.allowDup then st.nss else st.nss.drop 1 }
    else if k == 0x5B then feed st pos 1 (Machine.pushArray maxNestingDepth)
    else if k == 0x5D then feed st pos 1 Machine.popArray
    else .err pos .invalidChar

/-- `decoderState.ReadToken` on unread input `r` (no cached peek). -/
def readToken (o : VOpts) (st : TState) (r : Bytes) : TRes :=
  let w := consumeWhitespace r
  match r.drop w with
  | [] => .err w (if st.m.depth == 1 then .ioEOF else .eof)
  | c :: rest =>
    if c == 0x3A || c == 0x2C then
      let w2 := consumeWhitespace rest
      match rest.drop w2 with
      | [] =>
        -- checkDelimBeforeIOError: a string is assumed to follow
        if st.m.needDelim 0x22 != c then .err w .invalidChar else .err (w + 1 + w2) .eof
      | c1 :: rest1 =>
        if st.m.needDelim (normKind c1) != c then .err w .invalidChar
        else lexToken o st (w + 1 + w2) (c1 :: rest1)
    else
      if st.m.needDelim (normKind c) != 0 then .err w .invalidChar
      else lexToken o st w (c :: rest)

/-- A ReadToken loop: the number of completed top-level values, the absolute offset and the class the
loop ended with (`ioEOF` = clean end at a value boundary). -/
def tokenLoop (o : VOpts) : Nat → TState → Bytes → Nat → Nat → Nat × Nat × Err
  | 0, _, _, cnt, base => (cnt, base, .fuel)
  | fuel + 1, st, r, cnt, base =>
    match readToken o st r with
    | .err off e => (cnt, base + off, e)
    | .tok n st' =>
      if n == 0 then (cnt, base, .bug)                -- a token consumes at least one byte
      else tokenLoop o fuel st' (r.drop n) (if st'.m.depth == 1 then cnt + 1 else cnt) (base + n)

def tokens (o : VOpts) (b : Bytes) : Nat × Nat × Err := tokenLoop o (b.length + 1) {} b 0 0

/-- `Value.IsValid`-style verdict by tokens: exactly one value, then a clean end. -/
def isValidByTokens (o : VOpts) (b : Bytes) : Bool :=
  let (cnt, _, e) := tokens o b
  cnt == 1 && e == .ioEOF

end JsonV.Model.TokenLoop
