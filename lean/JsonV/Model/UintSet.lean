/-
Model of `uintSet64` / `uintSet` (repo/arshal_default.go:2002-2043): the bit set with which struct
(un)marshaling remembers which field ids were already seen.  Core Lean only.

Go `uint` indices are modelled as `Nat` (field ids are far below 2^64); the 64-bit words are `BitVec 64`.
`hi` grows on demand.  The Go code extends `hi` to its *capacity* after `append`
(`s.hi = s.hi[:cap(s.hi)]`), i.e. by an allocator-dependent number of zero words; the model grows to
exactly `iHi+1` words.  Extra zero words are unobservable through `has`/`insert` (lemma `bit_grow`),
which is all the hooks and the callers use.
-/
namespace JsonV.Model

/-- `func (s uintSet64) has(i uint) bool { return s&(1<<i) > 0 }` -/
def UintSet64.has (s : BitVec 64) (i : Nat) : Bool := BitVec.ult 0#64 (s &&& (1#64 <<< i))

/-- `func (s *uintSet64) set(i uint) { *s |= 1 << i }` -/
def UintSet64.set (s : BitVec 64) (i : Nat) : BitVec 64 := s ||| (1#64 <<< i)

structure UintSet where
  lo : BitVec 64
  hi : List (BitVec 64)
deriving Repr, DecidableEq

namespace UintSet

/-- The word size that appears as the literal `64` in `uintSet.has` / `uintSet.insert`
(`i < 64`, `i -= 64`, `i/64`, `i%64`); tied to the regenerated literals by `Props.C08.tie_uintset_literals`. -/
def wordBits : Nat := 64

/-- The zero value of the Go struct. -/
def empty : UintSet := ⟨0#64, []⟩

/-- `func (s *uintSet) has(i uint) bool` -/
def has (s : UintSet) (i : Nat) : Bool :=
  if i < wordBits then
    UintSet64.has s.lo i
  else
    let i := i - wordBits
    let iHi := i / wordBits
    let iLo := i % wordBits
    decide (iHi < s.hi.length) && UintSet64.has (s.hi.getD iHi 0#64) iLo

/-- `hi` after the growth step of `insert` (`append(s.hi, make([]uintSet64, iHi+1-len(s.hi))...)`). -/
def grow (hi : List (BitVec 64)) (iHi : Nat) : List (BitVec 64) :=
  if iHi ≥ hi.length then hi ++ List.replicate (iHi + 1 - hi.length) 0#64 else hi

/-- `func (s *uintSet) insert(i uint) bool`: the new set and whether this was the first insertion. -/
def insert (s : UintSet) (i : Nat) : UintSet × Bool :=
  if i < wordBits then
    let has := UintSet64.has s.lo i
    (⟨UintSet64.set s.lo i, s.hi⟩, !has)
  else
    let i := i - wordBits
    let iHi := i / wordBits
    let iLo := i % wordBits
    let hi := grow s.hi iHi
    let w := hi.getD iHi 0#64
    let has := UintSet64.has w iLo
    (⟨s.lo, hi.set iHi (UintSet64.set w iLo)⟩, !has)

/-- A sequence of inserts: the final set and the result of every insert, in order. -/
def insertAll : UintSet → List Nat → UintSet × List Bool
  | s, [] => (s, [])
  | s, i :: is =>
    let r := s.insert i
    let rest := insertAll r.1 is
    (rest.1, r.2 :: rest.2)

end UintSet

/-- How struct unmarshaling uses the set (arshal_default.go:1314-1372): names that resolve to a declared
field go through `seenIdxs.insert(f.id)`; the object is rejected at the first name whose field was seen.
`true` = every name accepted. -/
def seenAccepts {α : Type} (resolve : α → Option Nat) : List α → UintSet → Bool
  | [], _ => true
  | n :: rest, seen =>
    match resolve n with
    | none => seenAccepts resolve rest seen
    | some f =>
      let r := seen.insert f
      if r.2 then seenAccepts resolve rest r.1 else false

end JsonV.Model
