/-
Model of the token-level `jsontext.Encoder` (layer L1): `WriteToken` (jsontext/encode.go:347-432),
`WriteValue` (527-606), `appendWhitespace`/`AppendIndent` (635-663), `reformatValue`/`reformatObject`/
`reformatArray` (668-894) and the parts of `internal/jsonwire` they call (`AppendQuote`, `ConsumeString`,
`AppendUnquote`, `ConsumeNumber`, `ConsumeLiteral`, `ConsumeWhitespace`).

State: `out` = every byte produced so far (flushed ++ buffered: the writer never fails here, C07 covers
writers), the state machine, the stack of object namespaces, the options.  `TagFlags`, `maxValue`, the
`objectNameStack` (only used for JSON pointers) and buffer capacities are not modelled.

The model mirrors the ORDER of the Go code: the output is built in a local `b` (delimiter, whitespace,
token text), then the state machine / namespace is consulted, and `e.Buf = b` is committed only on
success, followed by the top-level newline of `Flush`.  An error returns the unchanged state.

Simplifications, each validated by the correspondence harness (family `enc`):
 * a number token is its rendered text (`Token.appendNumber` cannot fail for Int/Uint/Float tokens);
 * the scanners of raw values are the jsonwire models of slice C01 (Model/WireDecode.lean through
   Model/Validate.lean: `valueLiteral`, `valueString` = ConsumeSimpleString/ConsumeString, `valueNumber`,
   `unescapedName` = what `insertQuoted` stores), so that the encoder's validator and the decoder's validator
   share their leaves; `ReformatString` is modelled as `quote (unescaped literal)`: the verbatim-copy fast paths
   (`ConsumeSimpleString`, `IsCanonical` without escape flags) produce the same bytes;
 * the flags `PreserveRawStrings`,
   `CanonicalizeRawInts/Floats`, `ReorderRawObjects`, `OmitTopLevelNewline` are off;
 * errors are classes (no offsets, no pointers, no message text).
Core Lean only.
-/
import JsonV.Model.Basic
import JsonV.Model.Utf8
import JsonV.Model.State
import JsonV.Model.Validate

namespace JsonV.Model.Encoder
open JsonV.Model

structure Opts where
  allowDup : Bool := false          -- AllowDuplicateNames
  allowInvalidUTF8 : Bool := false  -- AllowInvalidUTF8
  multiline : Bool := false         -- Multiline
  spaceAfterColon : Bool := false   -- SpaceAfterColon (effective value, after InitializeMultiline)
  spaceAfterComma : Bool := false   -- SpaceAfterComma
  escHTML : Bool := false           -- EscapeForHTML
  escJS : Bool := false             -- EscapeForJS
  indent : Bytes := []              -- effective Indent ("\t" by default under Multiline)
  indentPrefix : Bytes := []        -- IndentPrefix
  maxDepth : Nat := 10000           -- maxNestingDepth (Props instantiate it with the regenerated constant)
deriving Repr, DecidableEq, Inhabited

inductive EncErr where
  | sm (e : SMErr)        -- state machine: nonStringName, invalidNamespace, maxDepth, mismatchDelim, missingValue
  | dupName               -- ErrDuplicateName
  | invalidUTF8           -- jsonwire.ErrInvalidUTF8
  | unexpectedEOF         -- io.ErrUnexpectedEOF (truncated raw value)
  | invalidChar           -- *jsonwire.InvalidTextError, Label "character"
  | invalidEscape         -- *jsonwire.InvalidTextError, Label "escape sequence" / "surrogate pair"
  | bug                   -- a `panic("BUG: …")` of the Go code (proved unreachable)
deriving Repr, DecidableEq, Inhabited

inductive Tok where
  | null | fals | tru
  | str (s : Bytes)       -- jsontext.String(s): the unescaped text
  | num (text : Bytes)    -- jsontext.Int/Uint/Float: the rendered literal
  | beginObj | endObj | beginArr | endArr
deriving Repr, DecidableEq, Inhabited

/-- `Token.Kind()`. -/
def Tok.kind : Tok → UInt8
  | .null => 0x6e | .fals => 0x66 | .tru => 0x74 | .str _ => 0x22 | .num _ => 0x30
  | .beginObj => 0x7b | .endObj => 0x7d | .beginArr => 0x5b | .endArr => 0x5d

structure Enc where
  o : Opts := {}
  out : Bytes := []
  m : Machine := Machine.init
  /-- `Namespaces`: the member names of every open object, innermost first; untouched under `allowDup`. -/
  ns : List (List Bytes) := []
deriving Repr, DecidableEq, Inhabited

/-! ### jsonwire: quoting -/

def hexDigit (n : Nat) : UInt8 := if n < 10 then UInt8.ofNat (48 + n) else UInt8.ofNat (87 + n)

/-- `appendEscapedUTF16`: `\uXXXX`, lower-case hex. -/
def escapedUTF16 (x : Nat) : Bytes :=
  [0x5c, 0x75, hexDigit (x / 4096 % 16), hexDigit (x / 256 % 16), hexDigit (x / 16 % 16), hexDigit (x % 16)]

/-- `appendEscapedASCII`. -/
def escapedASCII (c : UInt8) : Bytes :=
  if c = 0x22 ∨ c = 0x5c then [0x5c, c]
  else if c = 0x08 then [0x5c, 0x62]
  else if c = 0x0c then [0x5c, 0x66]
  else if c = 0x0a then [0x5c, 0x6e]
  else if c = 0x0d then [0x5c, 0x72]
  else if c = 0x09 then [0x5c, 0x74]
  else escapedUTF16 c.toNat

def isHTMLChar (c : UInt8) : Bool := c = 0x3c || c = 0x3e || c = 0x26
/-- `escapeASCII[c] != 0` for `c < 0x80`. -/
def escapeASCII (c : UInt8) : Bool := c < 0x20 || c = 0x22 || c = 0x5c || isHTMLChar c

/-- `utf8.RuneError` as bytes. -/
def replacement : Bytes := [0xef, 0xbf, 0xbd]

/-- Body of `AppendQuote` (between the quotes).  `skip` = continuation bytes of a rune already emitted.
Returns the escaped bytes and `hasInvalidUTF8`. -/
def quoteGo (o : Opts) : Nat → Bytes → Bytes × Bool
  | _, [] => ([], false)
  | skip + 1, _ :: rest => quoteGo o skip rest
  | 0, c :: rest =>
    if c < 0x80 then
      let (t, bad) := quoteGo o 0 rest
      if escapeASCII c && (!isHTMLChar c || o.escHTML) then (escapedASCII c ++ t, bad) else (c :: t, bad)
    else
      let (r, rn) := Utf8.decodeRune (c :: rest)
      if r = Utf8.runeError ∧ rn = 1 then          -- isInvalidUTF8(r, rn)
        let (t, _) := quoteGo o 0 rest
        (replacement ++ t, true)
      else if (r = 0x2028 ∨ r = 0x2029) ∧ o.escJS then
        let (t, bad) := quoteGo o (rn - 1) rest
        (escapedUTF16 r ++ t, bad)
      else
        let (t, bad) := quoteGo o (rn - 1) rest
        ((c :: rest).take rn ++ t, bad)

/-- `AppendQuote(nil, src, flags)`: the quoted string and whether `ErrInvalidUTF8` is returned. -/
def appendQuote (o : Opts) (src : Bytes) : Bytes × Bool :=
  let (body, bad) := quoteGo o 0 src
  (0x22 :: body ++ [0x22], bad && !o.allowInvalidUTF8)

/-! ### jsonwire: unquoting (used for the names of string tokens and raw string values) -/

def hexVal (c : UInt8) : Option Nat :=
  if 0x30 ≤ c ∧ c ≤ 0x39 then some (c.toNat - 0x30)
  else if 0x61 ≤ c ∧ c ≤ 0x66 then some (c.toNat - 0x61 + 10)
  else if 0x41 ≤ c ∧ c ≤ 0x46 then some (c.toNat - 0x41 + 10)
  else none

/-- `parseHexUint16` on exactly four bytes. -/
def hex4 : Bytes → Option Nat
  | [a, b, c, d] =>
    match hexVal a, hexVal b, hexVal c, hexVal d with
    | some a, some b, some c, some d => some (a * 4096 + b * 256 + c * 16 + d)
    | _, _, _, _ => none
  | _ => none

/-- `\uXXXX` (and a following low surrogate) as in `AppendUnquote`: `r` = bytes after `\u`;
returns the rune and the number of bytes consumed after the `u` (4 or 10). -/
def decodeEscU (r : Bytes) : Nat × Nat :=
  match hex4 (r.take 4) with
  | none => (Utf8.runeError, 4)
  | some v1 =>
    if Utf8.isSurrogate v1 then
      match r.drop 4 with
      | 0x5c :: 0x75 :: r3 =>
        match hex4 (r3.take 4) with
        | some v2 =>
          let x := Utf8.utf16DecodeRune v1 v2
          if x = Utf8.runeError then (Utf8.runeError, 4) else (x, 10)
        | none => (Utf8.runeError, 4)
      | _ => (Utf8.runeError, 4)
    else (v1, 4)

def unescapeChar (d : UInt8) : UInt8 :=
  if d = 0x62 then 0x08 else if d = 0x66 then 0x0c else if d = 0x6e then 0x0a
  else if d = 0x72 then 0x0d else if d = 0x74 then 0x09 else d

/-- `AppendUnquote` on the body of a literal accepted by `scanStr` (stops at the closing quote). -/
def unquoteGo : Nat → Bytes → Bytes
  | _, [] => []
  | skip + 1, _ :: rest => unquoteGo skip rest
  | 0, c :: rest =>
    if c = 0x22 then []
    else if c = 0x5c then
      match rest with
      | [] => []
      | d :: r =>
        if d = 0x75 then
          let (x, n) := decodeEscU r
          Utf8.encodeRune x ++ unquoteGo (n + 1) rest
        else unescapeChar d :: unquoteGo 1 rest
    else if c < 0x80 then c :: unquoteGo 0 rest
    else
      let (_, rn) := Utf8.decodeRune (c :: rest)
      if rn > 1 then (c :: rest).take rn ++ unquoteGo (rn - 1) rest
      else replacement ++ unquoteGo 0 rest

/-- Unquote a whole literal `"` body `"`. -/
def unquote (lit : Bytes) : Bytes := unquoteGo 0 (lit.drop 1)

/-- The two options that select the grammar, as the validator model takes them. -/
def vopts (o : Opts) : Validate.VOpts := ⟨o.allowInvalidUTF8, o.allowDup⟩

/-- Error classes of the jsonwire scanners. -/
def wireErr : Wire.Err → EncErr
  | .eof => .unexpectedEOF
  | .invalidChar => .invalidChar
  | .invalidEscape => .invalidEscape
  | .invalidUTF8 => .invalidUTF8
  | _ => .bug

/-- `ConsumeSimpleString`/`ReformatString`: scan the literal at the start of `src`, re-quote its unescaped
value: (output literal, unescaped value = the name `insertQuoted` stores, rest). -/
def reformatString (o : Opts) (src : Bytes) : Except EncErr (Bytes × Bytes × Bytes) :=
  match Validate.valueString (vopts o) src with
  | (n, fl, e) =>
    if e = .ok then
      let name := Validate.unescapedName (src.take n) fl
      .ok ((appendQuote o name).1, name, src.drop n)
    else .error (wireErr e)

/-! ### jsonwire: whitespace, literals, numbers -/

def isWS (c : UInt8) : Bool := c = 0x20 || c = 0x09 || c = 0x0d || c = 0x0a

/-- `src[ConsumeWhitespace(src):]`. -/
def skipWS : Bytes → Bytes
  | [] => []
  | c :: rest => if isWS c then skipWS rest else c :: rest

/-- `ConsumeNull/False/True`, else `ConsumeLiteral(src, lit)`: the rest after the literal, or invalid
character / unexpected EOF. -/
def scanLiteral (src lit : Bytes) : Except EncErr Bytes :=
  match Validate.valueLiteral lit src with
  | (n, e) => if e = .ok then .ok (src.drop n) else .error (wireErr e)

def isDigit (c : UInt8) : Bool := 0x30 ≤ c && c ≤ 0x39

/-- `ConsumeSimpleNumber`, else `ConsumeNumber`: (number text, rest). -/
def scanNumber (src : Bytes) : Except EncErr (Bytes × Bytes) :=
  match Validate.valueNumber src with
  | (n, e) => if e = .ok then .ok (src.take n, src.drop n) else .error (wireErr e)

/-- `Kind(b).normalize()`. -/
def normKind (c : UInt8) : UInt8 :=
  if c = 0x6e ∨ c = 0x66 ∨ c = 0x74 ∨ c = 0x22 ∨ c = 0x7b ∨ c = 0x7d ∨ c = 0x5b ∨ c = 0x5d then c
  else if c = 0x2d ∨ isDigit c then 0x30
  else 0

/-- `Value.Kind()`. -/
def valueKind (v : Bytes) : UInt8 :=
  match skipWS v with
  | [] => 0
  | c :: _ => normKind c

/-! ### Whitespace before a token -/

/-- `AppendIndent(b, n)`. -/
def appendIndent (o : Opts) (b : Bytes) (n : Nat) : Bytes :=
  if n = 0 then b else b ++ [0x0a] ++ o.indentPrefix ++ (List.replicate (n - 1) o.indent).flatten

/-- `appendWhitespace(b, next)`. -/
def appendWhitespace (o : Opts) (m : Machine) (b : Bytes) (next : UInt8) : Bytes :=
  let delim := m.needDelim next
  if delim = 0x3a then
    if o.spaceAfterColon then b ++ [0x20] else b
  else
    let b := if delim = 0x2c ∧ o.spaceAfterComma then b ++ [0x20] else b
    if o.multiline then appendIndent o b (m.needIndent next) else b

/-- Delimiter and whitespace that precede a token of kind `k`: the local `b` at `pos`. -/
def beforeToken (e : Enc) (k : UInt8) : Bytes :=
  appendWhitespace e.o e.m (e.m.mayAppendDelim e.out k) k

/-! ### reformatValue -/

mutual
/-- `reformatValue(dst, src, depth)`: (dst', rest) — fuel `3 * |v| + 4` (the `fuelFor` of the validator model) suffices
(every call consumes one unit; a nesting level costs two units and at least one byte, a loop iteration one unit and at least two bytes). -/
def reformatValue (o : Opts) : Nat → Bytes → Bytes → Nat → Except EncErr (Bytes × Bytes)
  | 0, _, _, _ => .error .bug
  | fuel + 1, dst, src, depth =>
    match src with
    | [] => .error .unexpectedEOF
    | c :: _ =>
      let k := normKind c
      if k = 0x6e then (scanLiteral src [0x6e, 0x75, 0x6c, 0x6c]).map fun r => (dst ++ [0x6e, 0x75, 0x6c, 0x6c], r)
      else if k = 0x66 then
        (scanLiteral src [0x66, 0x61, 0x6c, 0x73, 0x65]).map fun r => (dst ++ [0x66, 0x61, 0x6c, 0x73, 0x65], r)
      else if k = 0x74 then (scanLiteral src [0x74, 0x72, 0x75, 0x65]).map fun r => (dst ++ [0x74, 0x72, 0x75, 0x65], r)
      else if k = 0x22 then (reformatString o src).map fun (q, _, r) => (dst ++ q, r)
      else if k = 0x30 then (scanNumber src).map fun (n, r) => (dst ++ n, r)
      else if k = 0x7b then
        -- reformatObject
        if depth = o.maxDepth + 1 then .error (.sm .maxDepth)
        else
          let dst := dst ++ [0x7b]
          match skipWS (src.drop 1) with
          | [] => .error .unexpectedEOF
          | c1 :: r1 =>
            if c1 = 0x7d then .ok (dst ++ [0x7d], r1)
            else objectLoop o fuel dst (c1 :: r1) (depth + 1) []
      else if k = 0x5b then
        -- reformatArray
        if depth = o.maxDepth + 1 then .error (.sm .maxDepth)
        else
          let dst := dst ++ [0x5b]
          match skipWS (src.drop 1) with
          | [] => .error .unexpectedEOF
          | c1 :: r1 =>
            if c1 = 0x5d then .ok (dst ++ [0x5d], r1)
            else arrayLoop o fuel dst (c1 :: r1) (depth + 1)
      else .error .invalidChar

/-- The `for` loop of `reformatObject` (one iteration per member); `names` = the local namespace. -/
def objectLoop (o : Opts) : Nat → Bytes → Bytes → Nat → List Bytes → Except EncErr (Bytes × Bytes)
  | 0, _, _, _, _ => .error .bug
  | fuel + 1, dst, src, depth, names =>
    let dst := if o.multiline then appendIndent o dst depth else dst
    -- object name
    match skipWS src with
    | [] => .error .unexpectedEOF
    | s0 =>
      match reformatString o s0 with
      | .error e => .error e
      | .ok (q, name, s1) =>
        let dst := dst ++ q
        if !o.allowDup && names.contains name then .error .dupName
        else
          let names := if o.allowDup then names else names ++ [name]
          -- colon
          match skipWS s1 with
          | [] => .error .unexpectedEOF
          | c2 :: s2 =>
            if c2 ≠ 0x3a then .error .invalidChar
            else
              let dst := dst ++ [0x3a]
              let dst := if o.spaceAfterColon then dst ++ [0x20] else dst
              -- value
              match skipWS s2 with
              | [] => .error .unexpectedEOF
              | s3 =>
                match reformatValue o fuel dst s3 depth with
                | .error e => .error e
                | .ok (dst, s4) =>
                  -- comma or end
                  match skipWS s4 with
                  | [] => .error .unexpectedEOF
                  | c5 :: s5 =>
                    if c5 = 0x2c then
                      let dst := dst ++ [0x2c]
                      let dst := if o.spaceAfterComma then dst ++ [0x20] else dst
                      objectLoop o fuel dst s5 depth names
                    else if c5 = 0x7d then
                      let dst := if o.multiline then appendIndent o dst (depth - 1) else dst
                      .ok (dst ++ [0x7d], s5)
                    else .error .invalidChar

/-- The `for` loop of `reformatArray`. -/
def arrayLoop (o : Opts) : Nat → Bytes → Bytes → Nat → Except EncErr (Bytes × Bytes)
  | 0, _, _, _ => .error .bug
  | fuel + 1, dst, src, depth =>
    let dst := if o.multiline then appendIndent o dst depth else dst
    match skipWS src with
    | [] => .error .unexpectedEOF
    | s0 =>
      match reformatValue o fuel dst s0 depth with
      | .error e => .error e
      | .ok (dst, s1) =>
        match skipWS s1 with
        | [] => .error .unexpectedEOF
        | c2 :: s2 =>
          if c2 = 0x2c then
            let dst := dst ++ [0x2c]
            let dst := if o.spaceAfterComma then dst ++ [0x20] else dst
            arrayLoop o fuel dst s2 depth
          else if c2 = 0x5d then
            let dst := if o.multiline then appendIndent o dst (depth - 1) else dst
            .ok (dst ++ [0x5d], s2)
          else .error .invalidChar
end

/-! ### WriteToken / WriteValue -/

/-- `e.Buf = b` followed by `NeedFlush`/`Flush`: a newline after every top-level value. -/
def commit (e : Enc) (b : Bytes) (m : Machine) (ns : List (List Bytes)) : Enc :=
  { e with out := if m.stack.length = 0 then b ++ [0x0a] else b, m := m, ns := ns }

/-- The member-name bookkeeping shared by WriteToken and WriteValue for a string (encode.go:374-386,
559-571): `lit` is the quoted name as written to the buffer.  Returns the new namespace stack. -/
def checkName (e : Enc) (lit : Bytes) : Except EncErr (List (List Bytes)) :=
  if e.m.last.needObjectName && !e.o.allowDup then
    if !e.m.last.isValidNamespace then .error (.sm .invalidNamespace)
    else if e.m.last.isActiveNamespace then
      match e.ns with
      | [] => .error .bug                        -- Namespaces.Last() on an empty stack
      | top :: rest =>
        let name := unquote lit
        if top.contains name then .error .dupName else .ok ((top ++ [name]) :: rest)
    else .ok e.ns
  else .ok e.ns

def liftSM (r : Except SMErr Machine) : Except EncErr Machine :=
  match r with
  | .ok m => .ok m
  | .error e => .error (.sm e)

/-- `WriteToken`.  The result is the new state and `none` (success) or the error; on error the state is `e`. -/
def writeToken (e : Enc) (t : Tok) : Enc × Option EncErr :=
  let b := beforeToken e t.kind
  let fin (text : Bytes) (r : Except EncErr (Machine × List (List Bytes))) : Enc × Option EncErr :=
    match r with
    | .ok (m, ns) => (commit e (b ++ text) m ns, none)
    | .error err => (e, some err)
  let lit (text : Bytes) : Enc × Option EncErr :=
    fin text ((liftSM e.m.appendLiteral).map fun m => (m, e.ns))
  match t with
  | .null => lit [0x6e, 0x75, 0x6c, 0x6c]
  | .fals => lit [0x66, 0x61, 0x6c, 0x73, 0x65]
  | .tru => lit [0x74, 0x72, 0x75, 0x65]
  | .str s =>
    let (q, bad) := appendQuote e.o s
    if bad then (e, some .invalidUTF8)
    else fin q (match checkName e q with
      | .error err => .error err
      | .ok ns => (liftSM e.m.appendString).map fun m => (m, ns))
  | .num text => fin text ((liftSM e.m.appendNumber).map fun m => (m, e.ns))
  | .beginObj =>
    fin [0x7b] ((liftSM (e.m.pushObject e.o.maxDepth)).map fun m => (m, if e.o.allowDup then e.ns else [] :: e.ns))
  | .endObj =>
    fin [0x7d] ((liftSM e.m.popObject).map fun m => (m, if e.o.allowDup then e.ns else e.ns.drop 1))
  | .beginArr => fin [0x5b] ((liftSM (e.m.pushArray e.o.maxDepth)).map fun m => (m, e.ns))
  | .endArr => fin [0x5d] ((liftSM e.m.popArray).map fun m => (m, e.ns))

/-- `WriteValue`. -/
def writeValue (e : Enc) (v : Bytes) : Enc × Option EncErr :=
  let k := valueKind v
  let b := beforeToken e k
  match reformatValue e.o (3 * v.length + 4) b (skipWS v) e.m.depth with
  | .error err => (e, some err)
  | .ok (b', rest) =>
    match skipWS rest with
    | _ :: _ => (e, some .invalidChar)            -- "after top-level value"
    | [] =>
      let r : Except EncErr (Machine × List (List Bytes)) :=
        if k = 0x6e ∨ k = 0x66 ∨ k = 0x74 then (liftSM e.m.appendLiteral).map fun m => (m, e.ns)
        else if k = 0x22 then
          match checkName e (b'.drop b.length) with
          | .error err => .error err
          | .ok ns => (liftSM e.m.appendString).map fun m => (m, ns)
        else if k = 0x30 then (liftSM e.m.appendNumber).map fun m => (m, e.ns)
        else if k = 0x7b then
          match e.m.pushObject e.o.maxDepth with
          | .error err => .error (.sm err)
          | .ok m1 => match m1.popObject with
            | .ok m2 => .ok (m2, e.ns)
            | .error _ => .error .bug
        else if k = 0x5b then
          match e.m.pushArray e.o.maxDepth with
          | .error err => .error (.sm err)
          | .ok m1 => match m1.popArray with
            | .ok m2 => .ok (m2, e.ns)
            | .error _ => .error .bug
        else .ok (e.m, e.ns)                        -- unreachable: reformatValue rejects every other kind
      match r with
      | .ok (m, ns) => (commit e b' m ns, none)
      | .error err => (e, some err)

/-- `NewEncoder(w, opts...)`. -/
def new (o : Opts) : Enc := { o := o }

/-! ### Observers of the public API -/

def outputOffset (e : Enc) : Nat := e.out.length
def stackDepth (e : Enc) : Nat := e.m.stack.length
/-- `StackIndex(StackDepth())`: kind byte (0 at top level) and length of the innermost container. -/
def stackIndexLast (e : Enc) : UInt8 × Nat :=
  (if e.m.stack.length = 0 then 0 else if e.m.last.isObject then 0x7b else 0x5b, e.m.last.length)

end JsonV.Model.Encoder
