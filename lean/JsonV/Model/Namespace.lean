/-
Model of `objectNamespace` (repo/jsontext/state.go:708-828): the set of member names of one JSON object
kept by an Encoder/Decoder to reject duplicate names.  Core Lean only.

Go keeps the unquoted names back to back in `allUnquotedNames` with `endOffsets`; the model keeps the list of
names (`names[i]` = `getUnquoted(i)`).  The Go map `mapNames` is modelled as a list-backed set
(`none` = nil map).  Both modes and the switch are kept exactly as in `insert`:
the switch test runs at the start of every insert (also of an insert that then fails), uses the counts
*before* the insert, `length() > 64 || len(allUnquotedNames) > 1024`, and never switches back.
`name` is the already unquoted name (`insertQuoted` unquotes first; unquoting is the `wire` family's model).
-/
import JsonV.Model.Basic
import JsonV.Model.UintSet

namespace JsonV.Model

/-- `ns.length() > 64` -/
def nsCountThreshold : Nat := 64
/-- `len(ns.allUnquotedNames) > 1024` -/
def nsBytesThreshold : Nat := 1024

structure Namespace where
  names : List Bytes
  mapNames : Option (List Bytes)
deriving Repr, DecidableEq

namespace Namespace

/-- The zero value ("an empty namespace ready for use"), also the state after `reset`. -/
def empty : Namespace := ⟨[], none⟩

/-- `ns.length()` -/
def length (ns : Namespace) : Nat := ns.names.length

/-- `len(ns.allUnquotedNames)` -/
def totalBytes (ns : Namespace) : Nat := (ns.names.map List.length).sum

/-- `ns.getUnquoted(i)` (guarded: `none` where Go would panic). -/
def getUnquoted (ns : Namespace) (i : Nat) : Option Bytes := ns.names[i]?

/-- `m[string(name)] = struct{}{}` on the list-backed set. -/
def setInsert (m : List Bytes) (x : Bytes) : List Bytes := if m.contains x then m else x :: m

/-- `delete(m, string(name))` -/
def setDelete (m : List Bytes) (x : Bytes) : List Bytes := m.filter (fun y => !(y == x))

/-- "Switch to a map if the buffer is too large for linear search. This does not add the current name." -/
def maybeSwitch (ns : Namespace) : Namespace :=
  if ns.mapNames.isNone && (decide (ns.length > nsCountThreshold) || decide (ns.totalBytes > nsBytesThreshold)) then
    { ns with mapNames := some (ns.names.foldl setInsert []) }
  else ns

/-- `func (ns *objectNamespace) insert(name []byte, quoted bool) bool` on an unquoted name:
the new namespace and whether the name was inserted. -/
def insert (ns : Namespace) (name : Bytes) : Namespace × Bool :=
  let ns := ns.maybeSwitch
  match ns.mapNames with
  | none =>
    -- linear search over the buffer
    if ns.names.contains name then (ns, false)
    else ({ ns with names := ns.names ++ [name] }, true)
  | some m =>
    if m.contains name then (ns, false)
    else ({ names := ns.names ++ [name], mapNames := some (setInsert m name) }, true)

/-- `func (ns *objectNamespace) removeLast()`.  Go panics on an empty namespace (index -1);
the model is the identity there and every theorem that uses it says so. -/
def removeLast (ns : Namespace) : Namespace :=
  match ns.names.getLast? with
  | none => ns
  | some last => { names := ns.names.dropLast, mapNames := ns.mapNames.map (fun m => setDelete m last) }

/-- `func (ns *objectNamespace) reset()`: lengths to zero and `mapNames = nil` (the capacity trimming is not
observable).  `objectNamespaceStack.push` calls it when it reuses the slot of an earlier sibling object, and the
coders call it between top-level values. -/
def reset (_ns : Namespace) : Namespace := empty

/-- `mapNames != nil` (hook `UsesMap`). -/
def usesMap (ns : Namespace) : Bool := ns.mapNames.isSome

/-- One operation of a history. -/
inductive Op where
  | ins (name : Bytes)
  | rm
  | reset
deriving Repr, DecidableEq

/-- Runs a history; the result of each `ins` is recorded (`rm` and `reset` record nothing). -/
def run : Namespace → List Op → Namespace × List Bool
  | ns, [] => (ns, [])
  | ns, .ins x :: ops =>
    let r := ns.insert x
    let rest := run r.1 ops
    (rest.1, r.2 :: rest.2)
  | ns, .rm :: ops => run ns.removeLast ops
  | ns, .reset :: ops => run ns.reset ops

end Namespace

/-- How struct unmarshaling treats the names of one object under default options
(arshal_default.go:1314-1372): a name that resolves to a declared field is checked with the `seenIdxs`
bit set, any other name (skipped unknown member or embedded fallback) with the coder namespace of the
object.  `true` = every name accepted. -/
def structAccepts {α : Type} (resolve : α → Option Nat) (unq : α → Bytes) :
    List α → UintSet → Namespace → Bool
  | [], _, _ => true
  | n :: rest, seen, ns =>
    match resolve n with
    | none =>
      let r := ns.insert (unq n)
      if r.2 then structAccepts resolve unq rest seen r.1 else false
    | some f =>
      let r := seen.insert f
      if r.2 then structAccepts resolve unq rest r.1 ns else false

end JsonV.Model
