/-
Model of the pure integer codecs of /repo/arshal_time.go (lines ~436-795):
durations as decimal fractions and ISO 8601, Unix timestamps as decimal fractions, and their helpers.
Core Lean only (the oracle links against this file).

Conventions.  A Go `uint64` is a `Nat` below `U64 = 2^64`, a Go `int64`/`time.Duration` is an `Int` in
`[-2^63, 2^63)`.  Every place where the Go code relies on two's-complement wrap-around is written with
`toU64` (conversion `uint64(x)`), `toI64` (conversion `int64(x)`), `wrapI` (an `int64` operation whose
mathematical result may leave the range) or `% U64`; `bits.Mul64/Add64/Div64` are `Nat` arithmetic
split into (hi, lo) words.  Where the code's values provably stay small (digits accumulated by
`parsePaddedBase10` are `< max10 ≤ 10^9`, `nsec` arithmetic is `< 10^18`) plain `Nat` arithmetic IS the
machine arithmetic.  One Lean function per Go function; `append…` functions take the prefix `b` like
the Go code (`bytes.TrimRight` in `appendFracBase10` looks at the whole buffer).
-/
import JsonV.Model.Basic

namespace JsonV.Model.Time
open JsonV

/-! ## machine integers -/

def U64 : Nat := 18446744073709551616
def I63 : Nat := 9223372036854775808
def maxU64 : Nat := 18446744073709551615

/-- `uint64(x)` for an `int64` x (two's complement reinterpretation). -/
def toU64 (i : Int) : Nat := (i % (U64 : Int)).toNat
/-- `int64(x)` for a `uint64` x. -/
def toI64 (n : Nat) : Int := if n % U64 < I63 then ((n % U64 : Nat) : Int) else ((n % U64 : Nat) : Int) - (U64 : Int)
/-- result of an `int64` operation whose exact value is `i` (wraps). -/
def wrapI (i : Int) : Int := toI64 (toU64 i)

/-- `bits.Mul64(x, y) = (hi, lo)`. -/
def mul64 (x y : Nat) : Nat × Nat := ((x * y) / U64, (x * y) % U64)
/-- `bits.Add64(x, y, carry) = (sum, carryOut)`. -/
def add64 (x y c : Nat) : Nat × Nat := ((x + y + c) % U64, (x + y + c) / U64)
/-- `bits.Div64(hi, lo, y) = (quo, rem)`; the code only calls it with `hi = 0` and a non-zero constant `y`. -/
def div64 (hi lo y : Nat) : Nat × Nat := ((hi * U64 + lo) / y, (hi * U64 + lo) % y)

/-! ## bytes -/

def cMinus : UInt8 := 45
def cPlus : UInt8 := 43
def cDot : UInt8 := 46
def cComma : UInt8 := 44
def c0 : UInt8 := 48
def c1 : UInt8 := 49
def c9 : UInt8 := 57

def isDigit (c : UInt8) : Bool := c0 ≤ c && c ≤ c9
def digitChar (d : Nat) : UInt8 := UInt8.ofNat (48 + d)
def digitVal (c : UInt8) : Nat := c.toNat - 48

/-- `strconv.AppendUint(nil, n, 10)`. -/
def natDigits (n : Nat) : Bytes :=
  if n < 10 then [digitChar n] else natDigits (n / 10) ++ [digitChar (n % 10)]
decreasing_by omega

/-- `strconv.AppendInt(nil, i, 10)`. -/
def intDigits (i : Int) : Bytes := if i < 0 then cMinus :: natDigits (-i).toNat else natDigits i.toNat

/-- `bytes.TrimRight(b, cutset)` for a cutset given as a predicate. -/
def trimRight (p : UInt8 → Bool) : Bytes → Bytes
  | [] => []
  | x :: xs => match trimRight p xs with
    | [] => if p x then [] else [x]
    | r => x :: r

/-- `jsonwire.ParseUint` digit loop: accumulates `v = 10*v + d` in `uint64` (wraps), counts digits. -/
def scanDigits : Bytes → Nat → Nat → Nat × Nat
  | [], v, n => (v, n)
  | c :: cs, v, n => if isDigit c then scanDigits cs ((10 * v + digitVal c) % U64) (n + 1) else (v, n)

def strZero : Bytes := [c0]

/-- `jsonwire.ParseUint`: `(0,false)` syntax error, `(MaxUint64,false)` overflow. -/
def parseUint (b : Bytes) : Nat × Bool :=
  let (v, n) := scanDigits b 0 0
  if n = 0 ∨ b.length ≠ n ∨ (b.head? = some c0 ∧ b ≠ strZero) then (0, false)
  else if n ≥ 20 ∧ (b.head? ≠ some c1 ∨ v < 10000000000000000000 ∨ n > 20) then (maxU64, false)
  else (v, true)

/-- `consumeSign`. -/
def consumeSign (b : Bytes) (allowPlus : Bool) : Bytes × Bool :=
  match b with
  | c :: rest => if c = cMinus then (rest, true) else if c = cPlus ∧ allowPlus then (rest, false) else (b, false)
  | [] => (b, false)

/-- `bytesCutByte(b, c, include)`: split at the first `c` (kept in the suffix when `include`). -/
def bytesCutByte (c : UInt8) (incl : Bool) : Bytes → Bytes × Bytes
  | [] => ([], [])
  | x :: xs =>
    if x = c then ([], if incl then x :: xs else xs)
    else let r := bytesCutByte c incl xs; (x :: r.1, r.2)

/-- `parseDec2`: byte arithmetic wraps in `uint8`; fewer than two bytes give 0. -/
def parseDec2 : Bytes → UInt8
  | a :: b :: _ => 10 * (a - c0) + (b - c0)
  | _ => 0

/-! ## padded decimals and fractions -/

/-- `appendPaddedBase10(b, n, max10)`. -/
def appendPaddedBase10 (b : Bytes) (n max10 : Nat) : Bytes :=
  if n < max10 / 10 then
    match natDigits (n + max10 / 10) with
    | d :: ds => b ++ (d - 1) :: ds      -- `b[i]--`
    | [] => b
  else b ++ natDigits n

/-- the loop of `parsePaddedBase10`: `(n, remaining b, ok)`; `ok = false` is the early `return n, false`. -/
def parsePaddedLoop (max10 : Nat) (pow10 : Nat) (hp : 0 < pow10) (n : Nat) (b : Bytes) : Nat × Bytes × Bool :=
  if h : pow10 < max10 then
    let n := n * 10
    match b with
    | c :: cs =>
      if c < c0 ∨ c9 < c then (n, b, false)
      else parsePaddedLoop max10 (pow10 * 10) (by omega) (n + digitVal c) cs
    | [] => parsePaddedLoop max10 (pow10 * 10) (by omega) n []
  else (n, b, true)
termination_by max10 - pow10
decreasing_by all_goals omega

/-- `parsePaddedBase10(b, max10)`. -/
def parsePaddedBase10 (b : Bytes) (max10 : Nat) : Nat × Bool :=
  match parsePaddedLoop max10 1 (by decide) 0 b with
  | (n, _, false) => (n, false)
  | (n, rest, true) =>
    if rest.length > 0 ∧ (trimRight isDigit rest).length > 0 then (n, false) else (n, true)

/-- `appendFracBase10(b, n, max10)`. -/
def appendFracBase10 (b : Bytes) (n max10 : Nat) : Bytes :=
  if n = 0 then b else trimRight (· = c0) (appendPaddedBase10 (b ++ [cDot]) n max10)

/-- `parseFracBase10(b, max10)`. -/
def parseFracBase10 (b : Bytes) (max10 : Nat) : Nat × Bool :=
  match b with
  | [] => (0, true)
  | [_] => (0, false)
  | c :: rest => if c ≠ cDot then (0, false) else parsePaddedBase10 rest max10

/-! ## durations -/

inductive Err | syntax | range | inaccurate
  deriving DecidableEq, Repr

/-- `mayAppendDurationSign(b, d)`: `d *= -1` wraps for `MinInt64`; returns `uint64(d)`. -/
def mayAppendDurationSign (b : Bytes) (d : Int) : Bytes × Nat :=
  if d < 0 then (b ++ [cMinus], toU64 (wrapI (d * -1))) else (b, toU64 d)

/-- `mayApplyDurationSign(n, neg)`: `±1 * time.Duration(n)`. -/
def mayApplyDurationSign (n : Nat) (neg : Bool) : Int :=
  if neg then wrapI (-1 * toI64 n) else wrapI (1 * toI64 n)

/-- `appendDurationBase10(b, d, pow10)`. -/
def appendDurationBase10 (b : Bytes) (d : Int) (pow10 : Nat) : Bytes :=
  let (b, n) := mayAppendDurationSign b d
  let (whole, frac) := div64 0 n pow10
  let b := b ++ natDigits whole
  appendFracBase10 b frac pow10

/-- `parseDurationBase10(b, pow10)`. -/
def parseDurationBase10 (b : Bytes) (pow10 : Nat) : Except Err Int :=
  let (suffix, neg) := consumeSign b false
  let (wholeBytes, fracBytes) := bytesCutByte cDot true suffix
  let (whole, okWhole) := parseUint wholeBytes
  let (frac, okFrac) := parseFracBase10 fracBytes pow10
  let (hi, lo) := mul64 whole pow10
  let (sum, co) := add64 lo frac 0
  let d := mayApplyDurationSign sum neg
  if (!okWhole ∧ whole ≠ maxU64) ∨ !okFrac then .error .syntax
  else if !okWhole ∨ hi > 0 ∨ co > 0 ∨ neg ≠ decide (d < 0) then .error .range
  else .ok d

def secondNs : Nat := 1000000000
def minuteNs : Nat := 60000000000
def hourNs : Nat := 3600000000000
def dayNs : Nat := 86400000000000
def weekNs : Nat := 604800000000000
/-- `time.Duration(daysPerYear*24*60*60*1e9)` and `time.Duration(daysPerYear/12*24*60*60*1e9)` (exact constants). -/
def yearNs : Nat := 31556952000000000
def monthNs : Nat := 2629746000000000

/-- `appendDurationISO8601(b, d)`. -/
def appendDurationISO8601 (b : Bytes) (d : Int) : Bytes :=
  if d = 0 then b ++ [80, 84, 48, 83] -- "PT0S"
  else
    let (b, n) := mayAppendDurationSign b d
    let b := b ++ [80, 84] -- "PT"
    let (n, nsec) := div64 0 n 1000000000
    let (n, sec) := div64 0 n 60
    let (hour, min) := div64 0 n 60
    let b := if hour > 0 then b ++ natDigits hour ++ [72] else b
    let b := if min > 0 then b ++ natDigits min ++ [77] else b
    if sec > 0 ∨ nsec > 0 then appendFracBase10 (b ++ natDigits sec) nsec 1000000000 ++ [83] else b

/-- `cutBytes` (local closure of `parseDurationISO8601`): split at the first `c0` or `c1`. -/
def cutBytes (ca cb : UInt8) : Bytes → Bytes × Bytes × Bool
  | [] => ([], [], false)
  | x :: xs =>
    if x = ca ∨ x = cb then ([], xs, true)
    else let r := cutBytes ca cb xs; (x :: r.1, r.2.1, r.2.2)

/-- the variables captured by the closures of `parseDurationISO8601`. -/
structure IsoSt where
  invalid : Bool := false
  overflow : Bool := false
  inaccurate : Bool := false
  sawFrac : Bool := false
  sumNanos : Nat := 0
  /-- model bookkeeping only: the float branch (fraction of an hour/minute/date unit) was taken. -/
  usedFloat : Bool := false

/-- leading-zero trimming loop `for len(whole) > 1 && whole[0] == '0'`. -/
def trimLeadingZeros : Bytes → Bytes
  | c :: d :: rest => if c = c0 then trimLeadingZeros (d :: rest) else c :: d :: rest
  | b => b

/-- The float branch of `mayParseUnit` (fraction of a unit other than the second):
`f, err := strconv.ParseFloat("0."+frac, 64); n = uint64(math.Round(f * float64(unit)))`.
It is a parameter of the model: `none` = ParseFloat reported an error, `some n` = the rounded product. -/
abbrev FloatFrac := Bytes → Nat → Option Nat

/-- first half of the body of `mayParseUnit` (`if ok { … }`): a fraction was found after the whole number. -/
def unitFrac (ff : FloatFrac) (st : IsoSt) (frac : Bytes) (unit : Nat) : IsoSt :=
  let st := { st with sawFrac := true, invalid := st.invalid || decide (frac.length = 0) || decide (unit > hourNs) }
  let (n, st) :=
    if unit = secondNs then
      let r := parsePaddedBase10 frac secondNs
      (r.1, { st with invalid := st.invalid || !r.2 })
    else
      match ff frac unit with
      | none => (0, { st with invalid := true, usedFloat := true })
      | some n =>
        let bad := decide ((trimRight isDigit (frac.drop 1)).length > 0)
        (n, { st with usedFloat := true, invalid := st.invalid || bad })
  let (s, co) := add64 st.sumNanos n 0
  { st with sumNanos := s, overflow := st.overflow || decide (co > 0) }

/-- second half of the body of `mayParseUnit`: trim leading zeros, `ParseUint`, `Mul64`, `Add64`, flags. -/
def unitWhole (st : IsoSt) (whole : Bytes) (unit : Nat) : IsoSt :=
  let whole := trimLeadingZeros whole
  let (n, okn) := parseUint whole
  let (hi, lo) := mul64 n unit
  let (s, co) := add64 st.sumNanos lo 0
  { st with sumNanos := s,
            invalid := st.invalid || (!okn && decide (n ≠ maxU64)),
            overflow := st.overflow || (!okn && decide (n = maxU64)) || decide (hi > 0) || decide (co > 0),
            inaccurate := st.inaccurate || decide (unit > hourNs) }

/-- `mayParseUnit(b, desHi, desLo, unit)`; returns the new captured state and the remaining bytes. -/
def mayParseUnit (ff : FloatFrac) (st : IsoSt) (b : Bytes) (desHi desLo : UInt8) (unit : Nat) : IsoSt × Bytes :=
  let (number, suffix, ok) := cutBytes desHi desLo b
  if !ok ∨ st.sawFrac then (st, b)
  else
    let (whole, frac, okc) := cutBytes cDot cComma number
    let st := if okc then unitFrac ff st frac unit else st
    (unitWhole st whole unit, suffix)

/-- the `if len(durDate) > 0 { … }` block (nominal units). -/
def parseDatePart (ff : FloatFrac) (st : IsoSt) (durDate : Bytes) : IsoSt :=
  if durDate.length > 0 then
    let (st, r) := mayParseUnit ff st durDate 89 121 yearNs   -- 'Y' 'y'
    let (st, r) := mayParseUnit ff st r 77 109 monthNs        -- 'M' 'm'
    let (st, r) := mayParseUnit ff st r 87 119 weekNs         -- 'W' 'w'
    let (st, r) := mayParseUnit ff st r 68 100 dayNs          -- 'D' 'd'
    { st with invalid := st.invalid || decide (r.length > 0) }
  else st

/-- the `if len(durTime) > 0 { … }` block (accurate units). -/
def parseTimePart (ff : FloatFrac) (st : IsoSt) (durTime : Bytes) : IsoSt :=
  if durTime.length > 0 then
    let (st, r) := mayParseUnit ff st durTime 72 104 hourNs   -- 'H' 'h'
    let (st, r) := mayParseUnit ff st r 77 109 minuteNs       -- 'M' 'm'
    let (st, r) := mayParseUnit ff st r 83 115 secondNs       -- 'S' 's'
    { st with invalid := st.invalid || decide (r.length > 0) }
  else st

/-- the tail of `parseDurationISO8601`: apply the sign, overflow test, error selection. -/
def isoFinish (st : IsoSt) (neg : Bool) : Int × Option Err × Bool :=
  let d := mayApplyDurationSign st.sumNanos neg
  let overflow := st.overflow || (decide (neg ≠ decide (d < 0)) && decide (d ≠ 0))
  if st.invalid then (0, some .syntax, st.usedFloat)
  else if overflow then (0, some .range, st.usedFloat)
  else if st.inaccurate then (d, some .inaccurate, st.usedFloat)
  else (d, none, st.usedFloat)

/-- `parseDurationISO8601(b)`: `(d, none)` success, `(d, some inaccurate)` best effort, `(0, some e)` error.
The third component reports whether the float branch was used (bookkeeping for the oracle). -/
def parseDurationISO8601 (ff : FloatFrac) (b : Bytes) : Int × Option Err × Bool :=
  let (suffix, neg) := consumeSign b true
  let (pre, suffix, okP) := cutBytes 80 112 suffix            -- 'P' 'p'
  let (durDate, durTime, okT) := cutBytes 84 116 suffix       -- 'T' 't'
  let st : IsoSt := { invalid := decide (pre.length > 0) || !okP || (okT && decide (durTime.length = 0)) || decide (durDate.length + durTime.length = 0) }
  let st := parseDatePart ff st durDate
  let st := parseTimePart ff st durTime
  isoFinish st neg

/-! ## Unix timestamps as (sec, nsec) pairs

`time.Time` enters only through `t.Unix()`/`t.Nanosecond()` (append) and `time.Unix(sec, nsec).UTC()`
followed by `t.Unix() < 0` (parse).  For `nsec ∈ [0, 10^9)` — which the parser guarantees —
`time.Unix(sec, nsec).Unix() = sec` for every `int64` sec (the internal epoch shift wraps there and
back); this fact about package time is an assumption of the model (validated by the harness). -/

/-- `negateSecNano(sec, nsec)`. -/
def negateSecNano (sec nsec : Int) : Int × Int :=
  let sec := toI64 (U64 - 1 - toU64 sec)            -- ^sec
  let nsec := wrapI (wrapI (-nsec) + 1000000000)    -- -nsec + 1e9
  let sec := wrapI (sec + Int.tdiv nsec 1000000000) -- sec += int64(nsec / 1e9)   (Go `/` truncates)
  let nsec := Int.tmod nsec 1000000000              -- nsec %= 1e9                (Go `%` truncates)
  (sec, nsec)

/-- `appendTimeUnix(b, t, pow10)` on `(sec, nsec) = (t.Unix(), t.Nanosecond())`. -/
def appendTimeUnix (b : Bytes) (sec nsec : Int) (pow10 : Nat) : Bytes :=
  let (b, sec, nsec) := if sec < 0 then
      let r := negateSecNano sec nsec; (b ++ [cMinus], r.1, r.2)
    else (b, sec, nsec)
  let usec := toU64 sec
  let unsec := toU64 nsec
  if pow10 = 1 then
    appendFracBase10 (b ++ natDigits usec) unsec 1000000000
  else if usec < 1000000000 then
    let b := b ++ natDigits ((usec * pow10 + unsec / (1000000000 / pow10)) % U64)
    appendFracBase10 b ((unsec * pow10 % U64) % 1000000000) 1000000000
  else
    let b := b ++ natDigits usec
    let b := appendPaddedBase10 b (unsec / (1000000000 / pow10)) pow10
    appendFracBase10 b ((unsec * pow10 % U64) % 1000000000) 1000000000

/-- `int(math.Log10(float64(pow10)))` for the four legal bases (0 otherwise; the slow path is only reached with pow10 > 1). -/
def log10w (pow10 : Nat) : Nat :=
  if pow10 = 1000 then 3 else if pow10 = 1000000 then 6 else if pow10 = 1000000000 then 9 else 0

/-- `parseTimeUnix(b, pow10)` returning `(sec, nsec)` of the resulting `time.Time`. -/
def parseTimeUnix (b : Bytes) (pow10 : Nat) : Except Err (Int × Int) :=
  let (suffix, neg) := consumeSign b false
  let (wholeBytes, fracBytes) := bytesCutByte cDot true suffix
  let (whole, okWhole) := parseUint wholeBytes
  let (frac, okFrac) := parseFracBase10 fracBytes (1000000000 / pow10)
  let (sec, nsec, whole, okWhole) : Int × Int × Nat × Bool :=
    if pow10 = 1 then (toI64 whole, toI64 frac, whole, okWhole)
    else if okWhole then (toI64 (whole / pow10), toI64 ((whole % pow10) * (1000000000 / pow10) + frac), whole, okWhole)
    else if whole = maxU64 then
      let width := log10w pow10
      let (whole', okWhole') := parseUint (wholeBytes.take (wholeBytes.length - width))
      let (mid, _) := parsePaddedBase10 (wholeBytes.drop (wholeBytes.length - width)) pow10
      (toI64 whole', toI64 (mid * (1000000000 / pow10) + frac), whole', okWhole')
    else (0, 0, whole, okWhole)
  let (sec, nsec) := if neg then negateSecNano sec nsec else (sec, nsec)
  -- t := time.Unix(sec, nsec).UTC();  t.Unix() = sec  (assumption above)
  if (!okWhole ∧ whole ≠ maxU64) ∨ !okFrac then .error .syntax
  else if !okWhole ∨ neg ≠ decide (sec < 0) then .error .range
  else .ok (sec, nsec)

end JsonV.Model.Time
