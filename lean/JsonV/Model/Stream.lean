/-
Executable model of the STREAMING decoder of jsontext (`decoderState.ReadToken`, /repo/jsontext/decode.go:471-664,
with `d.rd` an arbitrary io.Reader that is not a *bytes.Buffer):

  * the reader is adversarial: a list of `Event`s — a chunk of bytes (possibly empty: a `(0, nil)` Read), a
    transient fault (`(0, err)`), or `eof`;
  * the decode buffer is the `Window` of Model/Window.lean: `invalidatePreviousRead`, then every `fetch` drops
    `buf[:prevStart]`, re-bases and appends the delivered bytes, a successful read advances `prevStart/prevEnd`;
  * the four refill loops `decoderState.consumeWhitespace / consumeLiteral / consumeString / consumeNumber`
    (decode.go:838-967) drive the resumable scanners of Model/Resume.lean across refills;
  * the token-level control flow (leading blanks, `:`/`,`, `needDelim`, the `switch next`, the state machine, the
    namespaces) is that of Model/TokenLoop.lean, which models the same function over a complete buffer.

What is scanned is always `buf[pos:]` for a position `pos ≥ prevEnd`, and `fetch` keeps everything from `prevStart ≤
prevEnd` on, so the scanning part works on the UNREAD part `u = buf[prevEnd:]` of the buffer, which refills only
extend (`absPos` in the Go code: `pos` is re-based after every fetch); the window bookkeeping is applied to the
result (`commit`).  Several fetches within one call compose to one (`Window.fetch (fetch w j) k = fetch w (j + k)`).
Offsets in results are ABSOLUTE (`baseOffset + pos`, what `wrapSyntacticError` and `InputOffset` report).
Not modelled: `d.Names` (error pointers), the peek cache, buffer capacity/growth (any chunking is possible).
Core Lean only.
-/
import JsonV.Model.Resume
import JsonV.Model.Window
import JsonV.Model.TokenLoop

namespace JsonV.Model.Stream
open JsonV JsonV.Model JsonV.Model.Validate JsonV.Model.TokenLoop JsonV.Model.Window

/-- what one `Read` of the underlying reader does -/
inductive Event where
  | chunk (d : Bytes)
  | fault
  | eof
  deriving Repr, Inhabited

/-- the bytes the reader will still deliver: the chunks in front of the first `eof` -/
def avail : List Event → Bytes
  | [] => []
  | .chunk d :: es => d ++ avail es
  | .fault :: es => avail es
  | .eof :: _ => []

/-- outcome of a refill loop: a result with the grown buffer, the reader's remaining events and whether `fetch` was
entered at all (it compacts the buffer before it reads), or the transient read error -/
inductive Fill (β : Type) where
  | done (b : β) (v : Bytes) (es : List Event) (fetched : Bool)
  | fault (v : Bytes) (es : List Event)

def Fill.setFetched {β : Type} : Fill β → Fill β
  | .done b v es _ => .done b v es true
  | .fault v es => .fault v es

/-- The common shape of the four `for { n, err := Consume…(d.buf[pos:], resume state); if needs more { fetch; continue };
return }` loops.  `step v a` runs the scanner on the buffer `v = d.buf[pos:]` with loop state `a` and either finishes
(`inr`) or asks for more input with the state to resume from (`inl`); `atEof` is what the loop returns when `fetch`
then reports io.ErrUnexpectedEOF.  A fault makes the loop return the I/O error.  An empty chunk is a `(0, nil)` Read:
Go's fetch simply reads again; here the scanner is re-entered at its saved state on the unchanged buffer. -/
def refill {α β : Type} (step : Bytes → α → α ⊕ β) (atEof : Bytes → α → β) (v : Bytes) (a : α) :
    List Event → Fill β
  | [] =>
    match step v a with
    | .inr b => .done b v [] false
    | .inl a' => .done (atEof v a') v [] true
  | .eof :: es =>
    match step v a with
    | .inr b => .done b v (.eof :: es) false
    | .inl a' => .done (atEof v a') v (.eof :: es) true
  | .fault :: es =>
    match step v a with
    | .inr b => .done b v (.fault :: es) false
    | .inl _ => .fault v es
  | .chunk d :: es =>
    match step v a with
    | .inr b => .done b v (.chunk d :: es) false
    | .inl a' => (refill step atEof (v ++ d) a' es).setFetched

/-! ### the four refill loops (decode.go:838-967) -/

/-- body of `decoderState.consumeWhitespace(pos)`: `pos += ConsumeWhitespace(d.buf[pos:]); if d.needMore(pos) …` -/
def wsStep (v : Bytes) (p : Nat) : Nat ⊕ (Nat × Bool) :=
  if p + Resume.consumeWhitespace (v.drop p) = v.length then .inl (p + Resume.consumeWhitespace (v.drop p))
  else .inr (p + Resume.consumeWhitespace (v.drop p), true)

/-- `decoderState.consumeWhitespace(pos)`: (new pos, is there a non-blank byte at it — `false` is io.ErrUnexpectedEOF) -/
def sWhitespace (v : Bytes) (p : Nat) (es : List Event) : Fill (Nat × Bool) :=
  refill wsStep (fun _ p => (p, false)) v p es

def litStep (lit : Bytes) (v : Bytes) (_ : Unit) : Unit ⊕ (Nat × Resume.Err) :=
  if (Resume.consumeLiteral v lit).2 = .eof then .inl () else .inr (Resume.consumeLiteral v lit)

/-- `decoderState.consumeLiteral(pos, lit)` on `v = d.buf[pos:]` -/
def sLiteral (lit : Bytes) (v : Bytes) (es : List Event) : Fill (Nat × Resume.Err) :=
  refill (litStep lit) (fun v _ => Resume.consumeLiteral v lit) v () es

def strStep (validate : Bool) (v : Bytes) (a : Nat × Resume.VFlags) :
    (Nat × Resume.VFlags) ⊕ (Nat × Resume.VFlags × Resume.Err) :=
  if (Resume.consumeStringResumable a.2 v a.1 validate).2.2 = .eof then
    .inl ((Resume.consumeStringResumable a.2 v a.1 validate).1, (Resume.consumeStringResumable a.2 v a.1 validate).2.1)
  else .inr (Resume.consumeStringResumable a.2 v a.1 validate)

/-- `decoderState.consumeString(&flags, pos)` -/
def sString (validate : Bool) (v : Bytes) (es : List Event) : Fill (Nat × Resume.VFlags × Resume.Err) :=
  refill (strStep validate) (fun _ a => (a.1, a.2, .eof)) v (0, .none) es

/-- loop state of consumeNumber: resume offset, scanner state, `mayTerminate := err == nil` of the last scan -/
def numStep (v : Bytes) (a : Nat × Nat × Bool) : (Nat × Nat × Bool) ⊕ (Nat × Resume.Err) :=
  if (Resume.consumeNumberResumable v a.1 a.2.1).2.2 = .eof ∨ (Resume.consumeNumberResumable v a.1 a.2.1).1 = v.length then
    .inl ((Resume.consumeNumberResumable v a.1 a.2.1).1, (Resume.consumeNumberResumable v a.1 a.2.1).2.1,
          decide ((Resume.consumeNumberResumable v a.1 a.2.1).2.2 = .ok))
  else .inr ((Resume.consumeNumberResumable v a.1 a.2.1).1, (Resume.consumeNumberResumable v a.1 a.2.1).2.2)

/-- `decoderState.consumeNumber(pos)`: at the end of the input the number ends if it may (`return pos + n, nil`),
otherwise `return pos, io.ErrUnexpectedEOF` -/
def sNumber (v : Bytes) (es : List Event) : Fill (Nat × Resume.Err) :=
  refill numStep (fun _ a => if a.2.2 then (a.1, .ok) else (0, .eof)) v (0, 0, false) es

/-! ### one token -/

def toWire : Resume.Err → Wire.Err
  | .ok => .ok | .eof => .eof | .invalidChar => .invalidChar
  | .invalidEscape => .invalidEscape | .invalidUTF8 => .invalidUTF8

def toWireFlags (f : Resume.VFlags) : Wire.ValueFlags := ⟨f.nonVerbatim, f.nonCanonical⟩

/-- result of scanning one token: offsets in `r` and `start` (where the token begins) are relative to the start of the
unread buffer the call started with; `u` is that buffer after the refills, `es` what the reader has left, `fetched`
whether `fetch` was entered -/
inductive SRes where
  | fault (u : Bytes) (es : List Event)
  | res (r : TRes) (start : Nat) (u : Bytes) (es : List Event) (fetched : Bool)

/-- a literal/string/number scanned at `pos` of the unread buffer `u` (the scanners see `u[pos:]`) -/
def atPos (u : Bytes) (pos : Nat) (f0 : Bool) {β : Type} (f : Fill β) (k : β → TRes) : SRes :=
  match f with
  | .fault v es => .fault (u.take pos ++ v) es
  | .done b v es f1 => .res (k b) pos (u.take pos ++ v) es (f0 || f1)

/-- the `switch next` of ReadToken (decode.go:521-663) at `pos`, with the inlinable fast paths first;
`f0`: fetch was already entered while skipping blanks -/
def lexS (o : VOpts) (st : TState) (u : Bytes) (pos : Nat) (es : List Event) (f0 : Bool) : SRes :=
  let v := u.drop pos
  match v with
  | [] => .res (.err pos .bug) pos u es f0
  | c :: _ =>
    let k := normKind c
    let lit (l : Bytes) : SRes :=
      if Wire.consumeExact l v != 0 then .res (feed st pos (Wire.consumeExact l v) Machine.appendLiteral) pos u es f0
      else atPos u pos f0 (sLiteral l v es) fun b =>
        if toWire b.2 != .ok then .err (pos + b.1) (toWire b.2) else feed st pos b.1 Machine.appendLiteral
    if k == 0x6E then lit Wire.litNull
    else if k == 0x66 then lit Wire.litFalse
    else if k == 0x74 then lit Wire.litTrue
    else if k == 0x22 then
      if Wire.consumeSimpleString v != 0 then
        .res (feedString o st pos (v.take (Wire.consumeSimpleString v)) {}) pos u es f0
      else
        match sString (!o.allowInvalidUTF8) v es with
        | .fault v' es' => .fault (u.take pos ++ v') es'
        | .done b v' es' f1 =>
          .res (if toWire b.2.2 != .ok then .err (pos + b.1) (toWire b.2.2)
                else feedString o st pos (v'.take b.1) (toWireFlags b.2.1)) pos (u.take pos ++ v') es' (f0 || f1)
    else if k == 0x30 then
      if Wire.consumeSimpleNumber v == 0 || Wire.lenLt v (Wire.consumeSimpleNumber v + 1) then
        atPos u pos f0 (sNumber v es) fun b =>
          if toWire b.2 != .ok then .err (pos + b.1) (toWire b.2) else feed st pos b.1 Machine.appendNumber
      else .res (feed st pos (Wire.consumeSimpleNumber v) Machine.appendNumber) pos u es f0
    else if k == 0x7B then
      match st.m.pushObject maxNestingDepth with
      | .error se => .res (.err pos (smErr se)) pos u es f0
      | .ok m' => .res (.tok (pos + 1) { m := m', nss := if o.allowDup then st.nss else [] :: st.nss }) pos u es f0
    else if k == 0x7D then
      match st.m.popObject with
      | .error se => .res (.err pos (smErr se)) pos u es f0
      | .ok m' => .res (.tok (pos + 1) { m := m', nss := if o.allowDup then st.nss else st.nss.drop 1 }) pos u es f0
    else if k == 0x5B then .res (feed st pos 1 (Machine.pushArray maxNestingDepth)) pos u es f0
    else if k == 0x5D then .res (feed st pos 1 Machine.popArray) pos u es f0
    else .res (.err pos .invalidChar) pos u es f0

/-! ### one value (`decoderState.consumeValue / consumeObject / consumeArray`, decode.go:856-1129)

The recursive descent works on the unread buffer `u` at absolute positions; every blank run, literal, string and
number inside the value is scanned by the corresponding refill loop at its position (`pos` is re-based after every
fetch, so from the point of view of the unread buffer refills only append).  Offsets in results are relative to the
position the function was entered at, with the same arithmetic as Model/Validate.lean, which models the same code
over a complete buffer.  As there, `d.Tokens.Last` in the `default` arm of consumeValue is the top-level entry; the
two classes it chooses between are one class after `wrapSyntacticError` (`Validate.observe`). -/

def Fill.rebase {β : Type} (F : Fill β) (u : Bytes) (q : Nat) : Fill β :=
  match F with
  | .done b x es f => .done b (u.take q ++ x) es f
  | .fault x es => .fault (u.take q ++ x) es

def Fill.map {β γ : Type} (g : β → γ) : Fill β → Fill γ
  | .done b x es f => .done (g b) x es f
  | .fault x es => .fault x es

/-- blanks from position `q` on: (length of the run, is there a non-blank byte behind it) -/
def wsAt (u : Bytes) (q : Nat) (es : List Event) : Fill (Nat × Bool) :=
  (sWhitespace (u.drop q) 0 es).rebase u q

/-- `case 'n' / 'f' / 't'` of consumeValue at `q` -/
def litAt (l : Bytes) (u : Bytes) (q : Nat) (es : List Event) : Fill (Nat × Wire.Err) :=
  if Wire.consumeExact l (u.drop q) != 0 then .done (Wire.consumeExact l (u.drop q), .ok) u es false
  else ((sLiteral l (u.drop q) es).map fun b => (b.1, toWire b.2)).rebase u q

/-- `case '"'` of consumeValue (and the member names of consumeObject) at `q` -/
def strAt (o : VOpts) (u : Bytes) (q : Nat) (es : List Event) : Fill (Nat × Wire.ValueFlags × Wire.Err) :=
  if Wire.consumeSimpleString (u.drop q) != 0 then .done (Wire.consumeSimpleString (u.drop q), {}, .ok) u es false
  else ((sString (!o.allowInvalidUTF8) (u.drop q) es).map fun b => (b.1, toWireFlags b.2.1, toWire b.2.2)).rebase u q

/-- `case '0'` of consumeValue at `q` -/
def numAt (u : Bytes) (q : Nat) (es : List Event) : Fill (Nat × Wire.Err) :=
  if Wire.consumeSimpleNumber (u.drop q) == 0 || Wire.lenLt (u.drop q) (Wire.consumeSimpleNumber (u.drop q) + 1) then
    ((sNumber (u.drop q) es).map fun b => (b.1, toWire b.2)).rebase u q
  else .done (Wire.consumeSimpleNumber (u.drop q), .ok) u es false

/-- result of scanning a value: `n` and the class are what consumeValue returns relative to its start -/
inductive VRes where
  | fault (u : Bytes) (es : List Event)
  | done (n : Nat) (e : Wire.Err) (u : Bytes) (es : List Event) (fetched : Bool)

def VRes.addOff (k : Nat) (f0 : Bool) : VRes → VRes
  | .fault u es => .fault u es
  | .done n e u es f => .done (k + n) e u es (f0 || f)

def VRes.ofFill (f0 : Bool) : Fill (Nat × Wire.Err) → VRes
  | .fault u es => .fault u es
  | .done b u es f => .done b.1 b.2 u es (f0 || f)

def byteAt (u : Bytes) (q : Nat) : UInt8 :=
  match u.drop q with
  | c :: _ => c
  | [] => 0

mutual
/-- decoderState.consumeValue at `p` (`u[p:]` is not empty) -/
def sValue (o : VOpts) : Nat → Nat → Bytes → Nat → List Event → VRes
  | 0, _, u, _, es => .done 0 .fuel u es false
  | fuel + 1, depth, u, p, es =>
    match u.drop p with
    | [] => .done 0 .bug u es false
    | c :: _ =>
      let k := normKind c
      if k == 0x6E then .ofFill false (litAt Wire.litNull u p es)
      else if k == 0x66 then .ofFill false (litAt Wire.litFalse u p es)
      else if k == 0x74 then .ofFill false (litAt Wire.litTrue u p es)
      else if k == 0x22 then .ofFill false ((strAt o u p es).map fun b => (b.1, b.2.2))
      else if k == 0x30 then .ofFill false (numAt u p es)
      else if k == 0x7B then sObject o fuel depth u p es
      else if k == 0x5B then sArray o fuel depth u p es
      else if k == 0x7D then .done 0 .mismatchDelim u es false
      else .done 0 .invalidChar u es false

/-- decoderState.consumeObject at `p` (`u[p]` is `{`) -/
def sObject (o : VOpts) : Nat → Nat → Bytes → Nat → List Event → VRes
  | 0, _, u, _, es => .done 0 .fuel u es false
  | fuel + 1, depth, u, p, es =>
    if depth == maxNestingDepth + 1 then .done 0 .maxDepth u es false else
    match wsAt u (p + 1) es with
    | .fault u1 es1 => .fault u1 es1
    | .done (w, found) u1 es1 f1 =>
      if !found then .done (1 + w) .eof u1 es1 f1
      else if byteAt u1 (p + 1 + w) == 0x7D then .done (1 + w + 1) .ok u1 es1 f1
      else (sObjectLoop o fuel (depth + 1) [] u1 (p + 1 + w) es1).addOff (1 + w) f1

/-- the `for` loop of consumeObject from `p` on -/
def sObjectLoop (o : VOpts) : Nat → Nat → List Bytes → Bytes → Nat → List Event → VRes
  | 0, _, _, u, _, es => .done 0 .fuel u es false
  | fuel + 1, depth, names, u, p, es =>
    -- before name
    match wsAt u p es with
    | .fault u1 es1 => .fault u1 es1
    | .done (w, found) u1 es1 f1 =>
      if !found then .done w .eof u1 es1 f1 else
      match strAt o u1 (p + w) es1 with
      | .fault u2 es2 => .fault u2 es2
      | .done (n, fl, e) u2 es2 f2 =>
        if e != .ok then .done (w + n) e u2 es2 (f1 || f2) else
        let name := unescapedName ((u2.drop (p + w)).take n) fl
        if !o.allowDup && names.contains name then .done w .dupName u2 es2 (f1 || f2) else
        let names' := if o.allowDup then names else names ++ [name]
        -- after name
        match wsAt u2 (p + w + n) es2 with
        | .fault u3 es3 => .fault u3 es3
        | .done (w2, found2) u3 es3 f3 =>
          if !found2 then .done (w + n + w2) .eof u3 es3 (f1 || f2 || f3) else
          if byteAt u3 (p + w + n + w2) != 0x3A then .done (w + n + w2) .invalidChar u3 es3 (f1 || f2 || f3) else
          -- before value
          match wsAt u3 (p + w + n + w2 + 1) es3 with
          | .fault u4 es4 => .fault u4 es4
          | .done (w3, found3) u4 es4 f4 =>
            if !found3 then .done (w + n + w2 + 1 + w3) .eof u4 es4 (f1 || f2 || f3 || f4) else
            match sValue o fuel depth u4 (p + w + n + w2 + 1 + w3) es4 with
            | .fault u5 es5 => .fault u5 es5
            | .done k e u5 es5 f5 =>
              if e != .ok then .done (w + n + w2 + 1 + w3 + k) e u5 es5 (f1 || f2 || f3 || f4 || f5) else
              -- after value
              match wsAt u5 (p + w + n + w2 + 1 + w3 + k) es5 with
              | .fault u6 es6 => .fault u6 es6
              | .done (w4, found4) u6 es6 f6 =>
                if !found4 then .done (w + n + w2 + 1 + w3 + k + w4) .eof u6 es6 (f1 || f2 || f3 || f4 || f5 || f6)
                else if byteAt u6 (p + w + n + w2 + 1 + w3 + k + w4) == 0x2C then
                  (sObjectLoop o fuel depth names' u6 (p + w + n + w2 + 1 + w3 + k + w4 + 1) es6).addOff
                    (w + n + w2 + 1 + w3 + k + w4 + 1) (f1 || f2 || f3 || f4 || f5 || f6)
                else if byteAt u6 (p + w + n + w2 + 1 + w3 + k + w4) == 0x7D then
                  .done (w + n + w2 + 1 + w3 + k + w4 + 1) .ok u6 es6 (f1 || f2 || f3 || f4 || f5 || f6)
                else .done (w + n + w2 + 1 + w3 + k + w4) .invalidChar u6 es6 (f1 || f2 || f3 || f4 || f5 || f6)

/-- decoderState.consumeArray at `p` (`u[p]` is `[`) -/
def sArray (o : VOpts) : Nat → Nat → Bytes → Nat → List Event → VRes
  | 0, _, u, _, es => .done 0 .fuel u es false
  | fuel + 1, depth, u, p, es =>
    if depth == maxNestingDepth + 1 then .done 0 .maxDepth u es false else
    match wsAt u (p + 1) es with
    | .fault u1 es1 => .fault u1 es1
    | .done (w, found) u1 es1 f1 =>
      if !found then .done (1 + w) .eof u1 es1 f1
      else if byteAt u1 (p + 1 + w) == 0x5D then .done (1 + w + 1) .ok u1 es1 f1
      else (sArrayLoop o fuel (depth + 1) u1 (p + 1 + w) es1).addOff (1 + w) f1

/-- the `for` loop of consumeArray from `p` on -/
def sArrayLoop (o : VOpts) : Nat → Nat → Bytes → Nat → List Event → VRes
  | 0, _, u, _, es => .done 0 .fuel u es false
  | fuel + 1, depth, u, p, es =>
    match wsAt u p es with
    | .fault u1 es1 => .fault u1 es1
    | .done (w, found) u1 es1 f1 =>
      if !found then .done w .eof u1 es1 f1 else
      match sValue o fuel depth u1 (p + w) es1 with
      | .fault u2 es2 => .fault u2 es2
      | .done k e u2 es2 f2 =>
        if e != .ok then .done (w + k) e u2 es2 (f1 || f2) else
        match wsAt u2 (p + w + k) es2 with
        | .fault u3 es3 => .fault u3 es3
        | .done (w4, found4) u3 es3 f3 =>
          if !found4 then .done (w + k + w4) .eof u3 es3 (f1 || f2 || f3)
          else if byteAt u3 (p + w + k + w4) == 0x2C then
            (sArrayLoop o fuel depth u3 (p + w + k + w4 + 1) es3).addOff (w + k + w4 + 1) (f1 || f2 || f3)
          else if byteAt u3 (p + w + k + w4) == 0x5D then .done (w + k + w4 + 1) .ok u3 es3 (f1 || f2 || f3)
          else .done (w + k + w4) .invalidChar u3 es3 (f1 || f2 || f3)
end

/-- The common head of ReadToken / ReadValue / PeekKind without a cached peek (decode.go:486-516, 695-725, 324-356),
on the unread buffer `u`: leading blanks, end of input, an optional `:`/`,` and blanks (a read error there is
outranked by an invalid delimiter: `checkDelimBeforeIOError`), `needDelim`; then `lex` handles what starts at the
position found. -/
def scanWith (st : TState) (lex : Bytes → Nat → List Event → Bool → SRes) (u : Bytes) (es : List Event) : SRes :=
  match sWhitespace u 0 es with
  | .fault u1 es1 => .fault u1 es1
  | .done (w, found) u1 es1 f1 =>
    if !found then .res (.err w (if st.m.depth == 1 then .ioEOF else .eof)) w u1 es1 f1
    else
      match u1.drop w with
      | [] => .res (.err w .bug) w u1 es1 f1
      | c :: _ =>
        if c == 0x3A || c == 0x2C then
          -- `pos += 1`, then blanks from there on (the scanner sees `d.buf[pos:]`)
          match sWhitespace (u1.drop (w + 1)) 0 es1 with
          | .fault v2 es2 =>
            if st.m.needDelim 0x22 != c then .res (.err w .invalidChar) w (u1.take (w + 1) ++ v2) es2 true
            else .fault (u1.take (w + 1) ++ v2) es2
          | .done (p, found2) v2 es2 f2 =>
            if !found2 then
              if st.m.needDelim 0x22 != c then .res (.err w .invalidChar) w (u1.take (w + 1) ++ v2) es2 (f1 || f2)
              else .res (.err (w + 1 + p) .eof) (w + 1 + p) (u1.take (w + 1) ++ v2) es2 (f1 || f2)
            else
              match v2.drop p with
              | [] => .res (.err (w + 1 + p) .bug) (w + 1 + p) (u1.take (w + 1) ++ v2) es2 (f1 || f2)
              | c1 :: _ =>
                if st.m.needDelim (normKind c1) != c then .res (.err w .invalidChar) w (u1.take (w + 1) ++ v2) es2 (f1 || f2)
                else lex (u1.take (w + 1) ++ v2) (w + 1 + p) es2 (f1 || f2)
        else
          if st.m.needDelim (normKind c) != 0 then .res (.err w .invalidChar) w u1 es1 f1
          else lex u1 w es1 f1

/-- `decoderState.ReadToken` without a cached peek -/
def scanToken (o : VOpts) (st : TState) (u : Bytes) (es : List Event) : SRes :=
  scanWith st (lexS o st) u es

/-- the same head on a whole buffer `r` (the body of `TokenLoop.readToken` with the `switch next` abstracted) -/
def wholeWith (st : TState) (lexW : Nat → Bytes → TRes) (r : Bytes) : TRes :=
  let w := Wire.consumeWhitespace r
  match r.drop w with
  | [] => .err w (if st.m.depth == 1 then .ioEOF else .eof)
  | c :: rest =>
    if c == 0x3A || c == 0x2C then
      let w2 := Wire.consumeWhitespace rest
      match rest.drop w2 with
      | [] =>
        if st.m.needDelim 0x22 != c then .err w .invalidChar else .err (w + 1 + w2) .eof
      | c1 :: rest1 =>
        if st.m.needDelim (normKind c1) != c then .err w .invalidChar
        else lexW (w + 1 + w2) (c1 :: rest1)
    else
      if st.m.needDelim (normKind c) != 0 then .err w .invalidChar
      else lexW w (c :: rest)

/-! ### the decoder -/

structure SState where
  st : TState := {}
  w : Window
  events : List Event

/-- `NewDecoder(r)` over a reader that will behave as `es` -/
def init (es : List Event) : SState := { w := Window.init (avail es), events := es }

/-- what one call returns: the transient I/O error, a syntactic error at an ABSOLUTE offset, a token or value
given by its kind and the absolute offsets of its first byte and of its end (`InputOffset` afterwards), or — for
SkipValue, which returns nothing — the offset it stopped at -/
inductive Out where
  | fault
  | err (off : Nat) (e : Wire.Err)
  | tok (kind : UInt8) (start stop : Nat)
  | skip (stop : Nat)
  deriving Repr, DecidableEq

/-- all `fetch`es of one call at once (`Window.fetch (fetch w j) k = fetch w (j + k)`): `k` bytes were delivered -/
def commitFetch (w : Window) (fetched : Bool) (k : Nat) : Window :=
  if fetched || k != 0 then Window.fetch w k else w

def kindAt (u : Bytes) (pos : Nat) : UInt8 :=
  match u.drop pos with
  | c :: _ => normKind c
  | [] => 0

/-- The frame of ReadToken and ReadValue: invalidate the previous token, scan on the unread part (`lex` is the
`switch next`), apply the refills to the window, and on success set `d.prevStart, d.prevEnd`: `span k` says whether
the bytes of a result of kind `k` stay addressable (`pos-n, pos`) or not (`pos, pos`). -/
def readWith (lex : TState → Bytes → Nat → List Event → Bool → SRes) (span : UInt8 → Bool) (s : SState) : Out × SState :=
  let w0 := Window.invalidate s.w
  let u := w0.unread
  match scanWith s.st (lex s.st) u s.events with
  | .fault u' es' =>
    (.fault, { s with w := commitFetch w0 true (u'.length - u.length), events := es' })
  | .res r start u' es' fetched =>
    let w1 := commitFetch w0 fetched (u'.length - u.length)
    match r with
    | .err off e => (.err (w1.inputOffset + off) e, { s with w := w1, events := es' })
    | .tok n st' =>
      let k := kindAt u' start
      (.tok k (w1.inputOffset + start) (w1.inputOffset + n),
       { st := st', events := es',
         w := Window.advance w1 (w1.prevEnd + (if span k then start else n)) (w1.prevEnd + n) })

/-- `decoderState.ReadToken` (strings and numbers keep their bytes) -/
def readToken (o : VOpts) (s : SState) : Out × SState :=
  readWith (lexS o) (fun k => k == 0x22 || k == 0x30) s

/-- the state machine part of ReadValue for `{…}` / `[…]` (decode.go:756-770): push, then pop again -/
def containerFeed (st : TState) (pos n : Nat) (k : UInt8) : TRes :=
  if k == 0x7B then
    match st.m.pushObject maxNestingDepth with
    | .error se => .err pos (smErr se)
    | .ok m1 =>
      match m1.popObject with
      | .error _ => .err pos .bug          -- `panic("BUG: popObject should never fail …")`
      | .ok m2 => .tok (pos + n) { st with m := m2 }
  else
    match st.m.pushArray maxNestingDepth with
    | .error se => .err pos (smErr se)
    | .ok m1 =>
      match m1.popArray with
      | .error _ => .err pos .bug
      | .ok m2 => .tok (pos + n) { st with m := m2 }

def isScalarKind (k : UInt8) : Bool := k == 0x6E || k == 0x66 || k == 0x74 || k == 0x22 || k == 0x30

/-- the part of ReadValue behind the head (decode.go:728-776): consumeValue at `pos`, then the state machine.
For the scalar kinds consumeValue runs the same scanners and the state machine is offered the same thing as in
ReadToken, so that arm is `lexS`; a container is scanned completely BEFORE the state machine is asked. -/
def valS (o : VOpts) (fuel : Nat) (st : TState) (u : Bytes) (pos : Nat) (es : List Event) (f0 : Bool) : SRes :=
  if isScalarKind (kindAt u pos) then lexS o st u pos es f0
  else if kindAt u pos == 0x7B || kindAt u pos == 0x5B then
    match sValue o fuel st.m.depth u pos es with
    | .fault u' es' => .fault u' es'
    | .done n e u' es' f1 =>
      .res (if e != .ok then .err (pos + n) e else containerFeed st pos n (kindAt u pos)) pos u' es' (f0 || f1)
  else .res (.err pos (if kindAt u pos == 0x7D then .mismatchDelim else .invalidChar)) pos u es f0

/-- `decoderState.ReadValue` (the value's bytes stay addressable whatever its kind).  `fuel` only bounds the
recursion of the model; Validate.fuelFor of everything that is left always suffices. -/
def readValue (o : VOpts) (s : SState) : Out × SState :=
  readWith (valS o (fuelFor (s.w.unread ++ avail s.events))) (fun _ => true) s

/-- `decoderState.PeekKind` without its cache: find the kind of the next token (refilling as needed), consume
nothing.  `none`: the reader faulted; kind 0: an error that the next read call will report. -/
def peek (s : SState) : Option UInt8 × SState :=
  let w0 := Window.invalidate s.w
  let u := w0.unread
  match scanWith s.st (fun u pos es f => .res (.tok pos s.st) pos u es f) u s.events with
  | .fault u' es' => (none, { s with w := commitFetch w0 true (u'.length - u.length), events := es' })
  | .res r start u' es' fetched =>
    let w1 := commitFetch w0 fetched (u'.length - u.length)
    match r with
    | .err _ _ => (some 0, { s with w := w1, events := es' })
    | .tok _ _ => (some (kindAt u' start), { s with w := w1, events := es' })

/-- the loop of SkipValue for objects and arrays: ReadToken until the depth is back -/
def skipLoop (o : VOpts) : Nat → Nat → SState → Out × SState
  | 0, _, s => (.err 0 .fuel, s)
  | fuel + 1, depth, s =>
    match readToken o s with
    | (.tok _ _ b, s') => if depth ≥ s'.st.m.depth then (.skip b, s') else skipLoop o fuel depth s'
    | (out, s') => (out, s')

/-- `decoderState.SkipValue` (decode.go:416): by tokens for `{`/`[`, otherwise ReadValue.  A fault inside the token
loop is returned with the decoder part-way through the value. -/
def skipValue (o : VOpts) (s : SState) : Out × SState :=
  match peek s with
  | (none, s1) => (.fault, s1)
  | (some k, s1) =>
    if k == 0x7B || k == 0x5B then skipLoop o ((s1.w.unread ++ avail s1.events).length + 1) s1.st.m.depth s1
    else
      match readValue o s1 with
      | (.tok _ _ b, s2) => (.skip b, s2)
      | r => r

inductive Call where
  | readToken | readValue | skipValue
  deriving Repr, DecidableEq

def call (o : VOpts) : Call → SState → Out × SState
  | .readToken => readToken o
  | .readValue => readValue o
  | .skipValue => skipValue o

/-- a script of calls (continuing after errors, as a caller may) -/
def runScript (o : VOpts) : List Call → SState → List Out
  | [], _ => []
  | c :: cs, s => (call o c s).1 :: runScript o cs (call o c s).2

/-- `n` ReadToken calls in a row -/
def run (o : VOpts) : Nat → SState → List Out
  | 0, _ => []
  | n + 1, s => (readToken o s).1 :: run o n (readToken o s).2

/-! ### the same calls on the whole input at once (TokenLoop / Validate), in the same vocabulary -/

/-- where the token of the next ReadToken starts in the unread input `r`: behind blanks, an optional `:`/`,`, blanks -/
def wholeStart (r : Bytes) : Nat :=
  match r.drop (Wire.consumeWhitespace r) with
  | c :: rest =>
    if c == 0x3A || c == 0x2C then Wire.consumeWhitespace r + 1 + Wire.consumeWhitespace rest
    else Wire.consumeWhitespace r
  | [] => Wire.consumeWhitespace r

/-- the decoder over a whole slice: state, unread input, InputOffset -/
structure WState where
  st : TState := {}
  r : Bytes
  off : Nat := 0

def wholeReadWith (lexW : TState → Nat → Bytes → TRes) (s : WState) : Out × WState :=
  match wholeWith s.st (lexW s.st) s.r with
  | .err k e => (.err (s.off + k) e, s)
  | .tok n st' =>
    (.tok (kindAt s.r (wholeStart s.r)) (s.off + wholeStart s.r) (s.off + n), { st := st', r := s.r.drop n, off := s.off + n })

/-- ReadToken over the whole input: `TokenLoop.readToken` (= `wholeWith st (lexToken o st)`) -/
def wholeRead (o : VOpts) (s : WState) : Out × WState := wholeReadWith (lexToken o) s

/-- the `switch next` of ReadValue over the whole input: `Validate.consumeValue` for containers -/
def valW (o : VOpts) (fuel : Nat) (st : TState) (pos : Nat) (r : Bytes) : TRes :=
  if isScalarKind (kindAt r 0) then lexToken o st pos r
  else if kindAt r 0 == 0x7B || kindAt r 0 == 0x5B then
    if (consumeValue o fuel st.m.depth r).2 != .ok then .err (pos + (consumeValue o fuel st.m.depth r).1) (consumeValue o fuel st.m.depth r).2
    else containerFeed st pos (consumeValue o fuel st.m.depth r).1 (kindAt r 0)
  else .err pos (if kindAt r 0 == 0x7D then .mismatchDelim else .invalidChar)

def wholeReadValue (o : VOpts) (s : WState) : Out × WState := wholeReadWith (valW o (fuelFor s.r)) s

def wholePeek (s : WState) : UInt8 :=
  match wholeWith s.st (fun pos _ => .tok pos s.st) s.r with
  | .err _ _ => 0
  | .tok _ _ => kindAt s.r (wholeStart s.r)

def wholeSkipLoop (o : VOpts) : Nat → Nat → WState → Out × WState
  | 0, _, s => (.err 0 .fuel, s)
  | fuel + 1, depth, s =>
    match wholeRead o s with
    | (.tok _ _ b, s') => if depth ≥ s'.st.m.depth then (.skip b, s') else wholeSkipLoop o fuel depth s'
    | (out, s') => (out, s')

def wholeSkipValue (o : VOpts) (s : WState) : Out × WState :=
  if wholePeek s == 0x7B || wholePeek s == 0x5B then wholeSkipLoop o (s.r.length + 1) s.st.m.depth s
  else
    match wholeReadValue o s with
    | (.tok _ _ b, s2) => (.skip b, s2)
    | r => r

def wholeCall (o : VOpts) : Call → WState → Out × WState
  | .readToken => wholeRead o
  | .readValue => wholeReadValue o
  | .skipValue => wholeSkipValue o

def wholeScript (o : VOpts) : List Call → WState → List Out
  | [], _ => []
  | c :: cs, s => (wholeCall o c s).1 :: wholeScript o cs (wholeCall o c s).2

def wholeRun (o : VOpts) : Nat → WState → List Out
  | 0, _ => []
  | n + 1, s => (wholeRead o s).1 :: wholeRun o n (wholeRead o s).2


/-! ### PeekKind with its cache (decode.go:317-365, 475-484, 684-693)

`peekPos` is an index into `d.buf` (non-zero when a kind is cached), `peekErr` the cached error — which may be the
transient I/O error.  PeekKind returns the cached kind if there is one; after a cached ERROR it scans again.
ReadToken / ReadValue return a cached error once and clear the cache; with a cached position they skip the head of
the call (no `invalidatePreviousRead`, no blanks, no delimiter) and reset the cache; otherwise they run as before.
SkipValue starts with PeekKind and then reads: it is modelled on the decoder with the cache dropped. -/

structure PState where
  s : SState
  peekPos : Nat := 0
  peekErr : Option Out := none

/-- a result of a call of the extended script: a read/skip result, or the kind PeekKind returned (0 = KindInvalid) -/
inductive OutP where
  | out (o : Out)
  | kind (k : UInt8)
  deriving Repr, DecidableEq

def peekKind (p : PState) : UInt8 × PState :=
  if p.peekErr.isNone && p.peekPos != 0 then (kindAt p.s.w.buf p.peekPos, p)
  else
    let w0 := Window.invalidate p.s.w
    let u := w0.unread
    match scanWith p.s.st (fun u pos es f => .res (.tok pos p.s.st) pos u es f) u p.s.events with
    | .fault u' es' =>
      (0, { s := { p.s with w := commitFetch w0 true (u'.length - u.length), events := es' }, peekErr := some .fault })
    | .res r start u' es' fetched =>
      let w1 := commitFetch w0 fetched (u'.length - u.length)
      match r with
      | .err off e => (0, { s := { p.s with w := w1, events := es' }, peekErr := some (.err (w1.inputOffset + off) e) })
      | .tok _ _ => (kindAt u' start, { s := { p.s with w := w1, events := es' }, peekPos := w1.prevEnd + start })

/-- ReadToken / ReadValue entered with a cached position `start` (relative to the unread buffer): the `switch next`
runs at once -/
def readCached (lex : TState → Bytes → Nat → List Event → Bool → SRes) (span : UInt8 → Bool) (s : SState) (start : Nat) :
    Out × SState :=
  let u := s.w.unread
  match lex s.st u start s.events false with
  | .fault u' es' => (.fault, { s with w := commitFetch s.w true (u'.length - u.length), events := es' })
  | .res r _ u' es' fetched =>
    let w1 := commitFetch s.w fetched (u'.length - u.length)
    match r with
    | .err off e => (.err (w1.inputOffset + off) e, { s with w := w1, events := es' })
    | .tok n st' =>
      let k := kindAt u' start
      (.tok k (w1.inputOffset + start) (w1.inputOffset + n),
       { st := st', events := es',
         w := Window.advance w1 (w1.prevEnd + (if span k then start else n)) (w1.prevEnd + n) })

def readP (plain : SState → Out × SState) (lex : TState → Bytes → Nat → List Event → Bool → SRes) (span : UInt8 → Bool)
    (p : PState) : Out × PState :=
  match p.peekErr with
  | some e => (e, { s := p.s })
  | none =>
    if p.peekPos != 0 then
      ((readCached lex span p.s (p.peekPos - p.s.w.prevEnd)).1, { s := (readCached lex span p.s (p.peekPos - p.s.w.prevEnd)).2 })
    else ((plain p.s).1, { s := (plain p.s).2 })

def readTokenP (o : VOpts) (p : PState) : Out × PState :=
  readP (readToken o) (lexS o) (fun k => k == 0x22 || k == 0x30) p

def readValueP (o : VOpts) (p : PState) : Out × PState :=
  readP (readValue o) (valS o (fuelFor (p.s.w.unread ++ avail p.s.events))) (fun _ => true) p

inductive CallP where
  | readToken | readValue | skipValue | peekKind
  deriving Repr, DecidableEq

def callP (o : VOpts) : CallP → PState → OutP × PState
  | .readToken, p => (.out (readTokenP o p).1, (readTokenP o p).2)
  | .readValue, p => (.out (readValueP o p).1, (readValueP o p).2)
  | .skipValue, p => (.out (skipValue o p.s).1, { s := (skipValue o p.s).2 })
  | .peekKind, p => (.kind (peekKind p).1, (peekKind p).2)

def runScriptP (o : VOpts) : List CallP → PState → List OutP
  | [], _ => []
  | c :: cs, p => (callP o c p).1 :: runScriptP o cs (callP o c p).2

def wholeCallP (o : VOpts) : CallP → WState → OutP × WState
  | .readToken, s => (.out (wholeRead o s).1, (wholeRead o s).2)
  | .readValue, s => (.out (wholeReadValue o s).1, (wholeReadValue o s).2)
  | .skipValue, s => (.out (wholeSkipValue o s).1, (wholeSkipValue o s).2)
  | .peekKind, s => (.kind (wholePeek s), s)

def wholeScriptP (o : VOpts) : List CallP → WState → List OutP
  | [], _ => []
  | c :: cs, s => (wholeCallP o c s).1 :: wholeScriptP o cs (wholeCallP o c s).2

end JsonV.Model.Stream
