/-
Model of the part of a pooled/reused coder that matters for call isolation (C18).

* `Coder` = what `encoderState.reset` / `decoderState.reset` clear (`state.reset()`:
  `Tokens` incl. `Floor`, `Names`, `Namespaces`; the buffer offsets; `Struct` = the options of the new call)
  plus the `Survivors`: fields that deliberately or incidentally outlive a reset
  (slice capacities below the drop thresholds of state.go:239/554/681, the kept buffer
  `Buf`/`availBuffer`/`bufStats` of pools.go, the decoder's `StringCache`, the encoder's
  `SeenPointers`).
* `reset` mirrors jsontext/encode.go:118 and decode.go:149.
* `step`/`behaviour`: what a caller can observe from a sequence of coder operations.  The
  op alphabet is the state machine's (literal, number, string, push/pop) plus `value v`:
  marshaling one Go value, which walks the value with the cycle tracker
  (`visitPointer`/`leavePointer`, arshal_default.go:62-76).
* `marshal`: that walk.  `leavePointer` is deferred in every arshaler that calls
  `visitPointer` (arshal_default.go:798-801, 1478-1481, 1728-1731; arshal_any.go:112-115,
  228-231), so it runs on normal return, on error return and while a user panic unwinds.

Core Lean only (the oracle links this file).
-/
import JsonV.Model.State
import JsonV.Model.Flags
import JsonV.Model.Intern

namespace JsonV.Model.Reset
open JsonV JsonV.Model

structure Params where
  maxDepth : Nat      -- jsontext.maxNestingDepth
  cycleAfter : Nat    -- json.startDetectingCyclesAfter

/-! ### The marshal walk with the cycle tracker -/

/-- How a leaf arshaler / user method ends. -/
inductive Exit where
  | ok | error | panic
deriving DecidableEq, Repr, Inhabited

/-- How marshaling a value ends. -/
inductive MExit where
  | ok | error | panic | cycle
deriving DecidableEq, Repr, Inhabited

def Exit.toM : Exit → MExit
  | .ok => .ok | .error => .error | .panic => .panic

/-- A Go value as the walk sees it: leaves (scalars, user methods) and pointer-like containers
(maps, slices, pointers) identified by `p` = the `typedPointer{type, ptr, len}` key. -/
inductive GoVal where
  | leaf (e : Exit)
  | node (p : Nat) (kids : List GoVal)
deriving Repr, Inhabited

mutual
/-- `marshal` of one value at token depth `depth` with cycle set `seen`:
the exit and the cycle set afterwards. -/
def marshal (cycleAfter depth : Nat) (seen : List Nat) : GoVal → MExit × List Nat
  | .leaf e => (e.toM, seen)
  | .node p kids =>
    if depth > cycleAfter then                 -- `xe.Tokens.Depth() > startDetectingCyclesAfter`
      if p ∈ seen then (.cycle, seen)          -- visitPointer: ErrCycle, nothing inserted, no leave deferred
      else
        let r := marshalKids cycleAfter (depth + 1) (p :: seen) kids
        (r.1, r.2.filter (· != p))             -- deferred leavePointer: `delete(*m, p)` on every exit
    else marshalKids cycleAfter (depth + 1) seen kids
/-- Elements in order; the first element that does not end `ok` ends the walk. -/
def marshalKids (cycleAfter depth : Nat) (seen : List Nat) : List GoVal → MExit × List Nat
  | [] => (.ok, seen)
  | k :: ks =>
    let r := marshal cycleAfter depth seen k
    if r.1 = .ok then marshalKids cycleAfter depth r.2 ks else r
end

/-- The same walk with the bug this property guards against: `leavePointer` only on the normal
return path (no `defer`).  Used by Props/C18 to show that `seen_balanced` is not vacuous. -/
def marshalNoDefer (cycleAfter depth : Nat) (seen : List Nat) (p : Nat) (kid : Exit) : MExit × List Nat :=
  if depth > cycleAfter then
    if p ∈ seen then (.cycle, seen)
    else if kid = .ok then (.ok, (p :: seen).filter (· != p)) else (kid.toM, p :: seen)
  else (kid.toM, seen)

/-! ### The coder -/

/-- Fields that outlive `reset`. -/
structure Survivors where
  stackCap : Nat := 0        -- cap(Tokens.Stack)
  namesCap : Nat := 0        -- cap(Names.offsets)
  nameBytesCap : Nat := 0    -- cap(Names.unquotedNames)
  nssCap : Nat := 0          -- cap(Namespaces)
  bufCap : Nat := 0          -- cap(Buf), availBuffer, bufStats: the recycled buffer (pools.go)
  cache : Intern.Cache := Intern.Cache.empty   -- decoderState.StringCache
  seen : List Nat := []      -- encoderState.SeenPointers

structure Coder where
  machine : Machine := Machine.init
  names : List Bytes := []              -- objectNameStack: last name of every open object
  namespaces : List (List Bytes) := []  -- objectNamespaceStack: all names of every open object
  offsets : Nat × Nat := (0, 0)         -- (baseOffset, len(buf))
  flags : Flags := Flags.empty          -- jsonopts.Struct.Flags of the current call
  floor : Nat := 0                      -- stateMachine.Floor: entries of Stack that may not be popped (state.go:237)
  surv : Survivors := {}

/-- `jsonflags.AllowDuplicateNames` (= 2, tied to Gen in Props/C18). -/
def allowDupBit : BitVec 64 := 2#64
def Coder.allowDup (c : Coder) : Bool := c.flags.get allowDupBit

/-- A brand-new coder for a call with options `f` (`new(Encoder)` + `reset`). -/
def fresh (f : Flags) : Coder := { flags := f }

/-- state.go:239 / 554 / 681: slices above the threshold are dropped, smaller ones kept. -/
def keepCap (limit cap : Nat) : Nat := if cap > limit then 0 else cap

/-- `encoderState.reset` / `decoderState.reset` with the options `f` of the next call. -/
def reset (c : Coder) (f : Flags) : Coder :=
  { machine := Machine.init, names := [], namespaces := [], offsets := (0, 0), flags := f,
    floor := 0,                         -- stateMachine.reset: `m.Floor = 0`
    surv := { c.surv with
      stackCap := keepCap 1024 c.surv.stackCap,
      namesCap := keepCap 64 c.surv.namesCap,
      nameBytesCap := keepCap 1024 c.surv.nameBytesCap,
      nssCap := keepCap 1024 c.surv.nssCap } }

inductive Op where
  | literal | number
  | string (s : Bytes)
  | pushObject | popObject | pushArray | popArray
  | value (v : GoVal)
  | enterUser                 -- a user method/function starts: `Floor = len(Stack)` (arshal_methods.go:225, arshal_funcs.go:224)
  | leaveUser (prev : Nat)    -- its deferred restore: `Floor = prevFloor`
deriving Repr, Inhabited

inductive Err where
  | sm (e : SMErr)
  | enclosingEnd              -- errEnclosingEnd: popping a container the current user call did not open
  | duplicateName
  | cycle | user | panic
deriving DecidableEq, Repr, Inhabited

/-- What the caller sees from one operation. -/
inductive Res where
  | ok (depth length offset : Nat) (str : Option Bytes)
  | err (e : Err)
deriving DecidableEq, Repr, Inhabited

def MExit.toErr : MExit → Err
  | .ok => .user   -- not used
  | .error => .user | .panic => .panic | .cycle => .cycle

def replaceLast {α} (l : List α) (x : α) : List α := l.dropLast ++ [x]

/-- Successful completion: advance the offset by `n` bytes and report the position. -/
def done (c : Coder) (m : Machine) (n : Nat) (str : Option Bytes) : Coder × Res :=
  let c' := { c with machine := m, offsets := (c.offsets.1, c.offsets.2 + n) }
  (c', .ok m.depth m.last.length (c'.offsets.1 + c'.offsets.2) str)

def growSurv (c : Coder) : Coder :=
  { c with surv := { c.surv with
      stackCap := max c.surv.stackCap c.machine.stack.length,
      namesCap := max c.surv.namesCap c.names.length,
      nssCap := max c.surv.nssCap c.namespaces.length,
      bufCap := max c.surv.bufCap c.offsets.2 } }

/-- state.go popObject: after `!isObject`, `len(m.Stack) <= m.Floor` rejects with errEnclosingEnd. -/
def blockedObj (m : Machine) (floor : Nat) : Bool := m.last.isObject && decide (m.stack.length ≤ floor)
/-- state.go popArray: after `!isArray || len(m.Stack) == 0`, the floor test. -/
def blockedArr (m : Machine) (floor : Nat) : Bool :=
  m.last.isArray && m.stack.length != 0 && decide (m.stack.length ≤ floor)

/-- One operation.  A rejected operation leaves the core state unchanged. -/
def step (P : Params) (c : Coder) : Op → Coder × Res
  | .literal =>
    match c.machine.appendLiteral with
    | .error e => (c, .err (.sm e))
    | .ok m => let r := done c m 4 none; (growSurv r.1, r.2)
  | .number =>
    match c.machine.appendNumber with
    | .error e => (c, .err (.sm e))
    | .ok m => let r := done c m 1 none; (growSurv r.1, r.2)
  | .string s =>
    -- the returned Go string goes through the intern cache (arshal_any.go:86, arshal_default.go:295)
    let ms := Intern.makeString c.surv.cache s
    let c1 := { c with surv := { c.surv with cache := ms.2 } }
    if c.machine.last.needObjectName && !c.allowDup then
      match c.namespaces.getLast? with
      | none => (c, .err (.sm .invalidNamespace))          -- no namespace for an open object: not reachable
      | some ns =>
        if s ∈ ns then (c, .err .duplicateName)
        else
          match c.machine.appendString with
          | .error e => (c, .err (.sm e))
          | .ok m =>
            let c2 := { c1 with names := replaceLast c.names s, namespaces := replaceLast c.namespaces (ns ++ [s]),
                                surv := { c1.surv with nameBytesCap := max c1.surv.nameBytesCap s.length } }
            let r := done c2 m (s.length + 2) (some ms.1); (growSurv r.1, r.2)
    else
      match c.machine.appendString with
      | .error e => (c, .err (.sm e))
      | .ok m => let r := done c1 m (s.length + 2) (some ms.1); (growSurv r.1, r.2)
  | .pushObject =>
    match c.machine.pushObject P.maxDepth with
    | .error e => (c, .err (.sm e))
    | .ok m =>
      let c1 := { c with names := c.names ++ [[]],
                         namespaces := if c.allowDup then c.namespaces else c.namespaces ++ [[]] }
      let r := done c1 m 1 none; (growSurv r.1, r.2)
  | .popObject =>
    -- state.go popObject: `!isObject` first, then the floor, then the remaining checks
    if blockedObj c.machine c.floor then (c, .err .enclosingEnd) else
    match c.machine.popObject with
    | .error e => (c, .err (.sm e))
    | .ok m =>
      let c1 := { c with names := c.names.dropLast,
                         namespaces := if c.allowDup then c.namespaces else c.namespaces.dropLast }
      let r := done c1 m 1 none; (growSurv r.1, r.2)
  | .pushArray =>
    match c.machine.pushArray P.maxDepth with
    | .error e => (c, .err (.sm e))
    | .ok m => let r := done c m 1 none; (growSurv r.1, r.2)
  | .popArray =>
    if blockedArr c.machine c.floor then (c, .err .enclosingEnd) else
    match c.machine.popArray with
    | .error e => (c, .err (.sm e))
    | .ok m => let r := done c m 1 none; (growSurv r.1, r.2)
  | .enterUser => ({ c with floor := c.machine.stack.length }, .ok c.machine.depth c.machine.last.length (c.offsets.1 + c.offsets.2) none)
  | .leaveUser prev => ({ c with floor := prev }, .ok c.machine.depth c.machine.last.length (c.offsets.1 + c.offsets.2) none)
  | .value v =>
    match c.machine.appendLiteral with      -- a value is accepted where a literal is
    | .error e => (c, .err (.sm e))
    | .ok m =>
      let w := marshal P.cycleAfter c.machine.depth c.surv.seen v
      let c1 := { c with surv := { c.surv with seen := w.2 } }
      if w.1 = .ok then let r := done c1 m 1 none; (growSurv r.1, r.2)
      else (c1, .err w.1.toErr)

/-- The observable behaviour of a coder under a sequence of operations. -/
def behaviour (P : Params) (c : Coder) : List Op → List Res
  | [] => []
  | op :: ops => let r := step P c op; r.2 :: behaviour P r.1 ops

/-- The coder after a sequence of operations. -/
def run (P : Params) (c : Coder) : List Op → Coder
  | [] => c
  | op :: ops => run P (step P c op).1 ops

/-- What `reset` re-initialises: everything a result can depend on besides the survivors. -/
structure Core where
  machine : Machine
  names : List Bytes
  namespaces : List (List Bytes)
  offsets : Nat × Nat
  flags : Flags
  floor : Nat

def Coder.core (c : Coder) : Core := ⟨c.machine, c.names, c.namespaces, c.offsets, c.flags, c.floor⟩

/-! ### Survivor-free specification: the same operations on the core alone -/

def allowDupK (k : Core) : Bool := k.flags.get allowDupBit

def doneC (k : Core) (m : Machine) (n : Nat) (str : Option Bytes) : Core × Res :=
  let k' := { k with machine := m, offsets := (k.offsets.1, k.offsets.2 + n) }
  (k', .ok m.depth m.last.length (k'.offsets.1 + k'.offsets.2) str)

/-- `step` as it would be without any cache, recycled buffer or leftover cycle set: strings are
returned as they are, values are walked with an empty cycle set. -/
def stepC (P : Params) (k : Core) : Op → Core × Res
  | .literal =>
    match k.machine.appendLiteral with
    | .error e => (k, .err (.sm e))
    | .ok m => doneC k m 4 none
  | .number =>
    match k.machine.appendNumber with
    | .error e => (k, .err (.sm e))
    | .ok m => doneC k m 1 none
  | .string s =>
    if k.machine.last.needObjectName && !allowDupK k then
      match k.namespaces.getLast? with
      | none => (k, .err (.sm .invalidNamespace))
      | some ns =>
        if s ∈ ns then (k, .err .duplicateName)
        else
          match k.machine.appendString with
          | .error e => (k, .err (.sm e))
          | .ok m =>
            doneC { k with names := replaceLast k.names s, namespaces := replaceLast k.namespaces (ns ++ [s]) } m (s.length + 2) (some s)
    else
      match k.machine.appendString with
      | .error e => (k, .err (.sm e))
      | .ok m => doneC k m (s.length + 2) (some s)
  | .pushObject =>
    match k.machine.pushObject P.maxDepth with
    | .error e => (k, .err (.sm e))
    | .ok m =>
      doneC { k with names := k.names ++ [[]],
                     namespaces := if allowDupK k then k.namespaces else k.namespaces ++ [[]] } m 1 none
  | .popObject =>
    if blockedObj k.machine k.floor then (k, .err .enclosingEnd) else
    match k.machine.popObject with
    | .error e => (k, .err (.sm e))
    | .ok m =>
      doneC { k with names := k.names.dropLast,
                     namespaces := if allowDupK k then k.namespaces else k.namespaces.dropLast } m 1 none
  | .pushArray =>
    match k.machine.pushArray P.maxDepth with
    | .error e => (k, .err (.sm e))
    | .ok m => doneC k m 1 none
  | .popArray =>
    if blockedArr k.machine k.floor then (k, .err .enclosingEnd) else
    match k.machine.popArray with
    | .error e => (k, .err (.sm e))
    | .ok m => doneC k m 1 none
  | .enterUser => ({ k with floor := k.machine.stack.length }, .ok k.machine.depth k.machine.last.length (k.offsets.1 + k.offsets.2) none)
  | .leaveUser prev => ({ k with floor := prev }, .ok k.machine.depth k.machine.last.length (k.offsets.1 + k.offsets.2) none)
  | .value v =>
    match k.machine.appendLiteral with
    | .error e => (k, .err (.sm e))
    | .ok m =>
      let w := marshal P.cycleAfter k.machine.depth [] v
      if w.1 = .ok then doneC k m 1 none else (k, .err w.1.toErr)

def behaviourC (P : Params) (k : Core) : List Op → List Res
  | [] => []
  | op :: ops => let r := stepC P k op; r.2 :: behaviourC P r.1 ops

/-- States a pooled coder can be in between calls: fresh, after any operation, after any reset. -/
inductive Reachable (P : Params) : Coder → Prop where
  | fresh (f : Flags) : Reachable P (fresh f)
  | step {c : Coder} (op : Op) : Reachable P c → Reachable P (step P c op).1
  | reset {c : Coder} (f : Flags) : Reachable P c → Reachable P (reset c f)

/-! ### Pool discipline

`sync.Pool` users in the library (`getStrings/putStrings` arshal.go:554-568,
`getObjectMembers/putObjectMembers` value.go:290-300, the five coder pools of pools.go) follow one
pattern: take an object, overwrite it, use it, put it back.  `Pool.prun` is what the code does with
ANY pool contents; `Pool.rrun` is the discipline (every get'd object is put at most once, never
used after its put, read only after it was written). -/
namespace Pool

/-- Contents of a scratch object (a `stringSlice`, a `[]objectMember`, an encoder buffer …). -/
abbrev Val := Nat

/-- A client program over pooled scratch objects.  Handles are numbered by `get` order. -/
inductive Cmd where
  | get                       -- getStrings / getObjectMembers / getBufferedEncoder …
  | write (h : Nat) (v : Val) -- fill the object
  | read (h : Nat)            -- use what is in it (observable)
  | put (h : Nat)             -- putStrings / …
deriving Repr, DecidableEq

/-- Pooled semantics: what the Go code does, discipline or not. -/
structure PSt where
  nh : Nat := 0               -- handles handed out so far
  id : Nat → Nat := fun _ => 0  -- handle ↦ object
  heap : Nat → Val            -- object ↦ contents (stale contents included)
  pool : List Nat             -- objects in the sync.Pool (a multiset: an object put twice is in it twice)
  next : Nat                  -- next never-used object (`New`)

def pstep (s : PSt) : Cmd → PSt × Option Val
  | .get =>
    match s.pool with
    | o :: rest => ({ s with nh := s.nh + 1, id := fun h => if h = s.nh then o else s.id h, pool := rest }, none)
    | [] => ({ s with nh := s.nh + 1, id := fun h => if h = s.nh then s.next else s.id h, next := s.next + 1 }, none)
  | .write h v => ({ s with heap := fun o => if o = s.id h then v else s.heap o }, none)
  | .read h => (s, some (s.heap (s.id h)))
  | .put h => ({ s with pool := s.id h :: s.pool }, none)

def addOut (o : Option Val) (vs : List Val) : List Val :=
  match o with
  | some v => v :: vs
  | none => vs

/-- Run a program: the final pool state and everything it observed. -/
def prun (s : PSt) : List Cmd → PSt × List Val
  | [] => (s, [])
  | c :: cs =>
    let r := pstep s c
    let t := prun r.1 cs
    (t.1, addOut r.2 t.2)

/-- Reference semantics = the discipline: every `get` yields a private new object; a handle may be
written, read and put only while held, read only after it was written since the `get`, and
put at most once.  `none`: the program breaks the discipline. -/
structure RSt where
  nh : Nat := 0
  live : Nat → Bool := fun _ => false
  val : Nat → Option Val := fun _ => none

def rstep (s : RSt) : Cmd → Option (RSt × Option Val)
  | .get => some ({ nh := s.nh + 1, live := fun h => if h = s.nh then true else s.live h,
                     val := fun h => if h = s.nh then none else s.val h }, none)
  | .write h v => if s.live h then some ({ s with val := fun k => if k = h then some v else s.val k }, none) else none
  | .read h => if s.live h then (match s.val h with | some v => some (s, some v) | none => none) else none
  | .put h => if s.live h then some ({ s with live := fun k => if k = h then false else s.live k }, none) else none

def rrun (s : RSt) : List Cmd → Option (RSt × List Val)
  | [] => some (s, [])
  | c :: cs =>
    match rstep s c with
    | none => none
    | some (s', o) =>
      match rrun s' cs with
      | none => none
      | some (s'', vs) => some (s'', addOut o vs)

/-- A program obeys the pool discipline iff the reference semantics accepts it. -/
def Disciplined (cs : List Cmd) : Prop := ∃ r vs, rrun {} cs = some (r, vs)

/-- What the pool must satisfy when a call starts (no object is held): no object in it twice,
and `New` really makes new objects.  Its CONTENTS — which objects, in which order, holding what
stale data — are unconstrained. -/
structure GoodPool (p : PSt) : Prop where
  nodup : p.pool.Nodup
  old : ∀ o ∈ p.pool, o < p.next

/-- The pool invariant between calls and during a disciplined program. -/
structure Inv (p : PSt) (r : RSt) : Prop where
  nh : p.nh = r.nh
  bound : ∀ h, r.live h = true → h < r.nh
  inj : ∀ h h', r.live h = true → r.live h' = true → p.id h = p.id h' → h = h'
  nodup : p.pool.Nodup
  notPooled : ∀ h, r.live h = true → p.id h ∉ p.pool
  poolOld : ∀ o ∈ p.pool, o < p.next
  liveOld : ∀ h, r.live h = true → p.id h < p.next
  agree : ∀ h v, r.live h = true → r.val h = some v → p.heap (p.id h) = v

end Pool

end JsonV.Model.Reset
