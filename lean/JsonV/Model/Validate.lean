/-
Executable model of the VALUE path of jsontext's decoder over a complete in-memory buffer:
`decoderState.consumeValue / consumeObject / consumeArray / consumeLiteral / consumeString /
consumeNumber` (/repo/jsontext/decode.go:856-1129) as used by `Value.IsValid` and `ReadValue`,
for a FRESH decoder positioned at the top level (so `d.Tokens.Last` is the virtual top-level
array and `d.Tokens.Depth() = 1`), with `d.rd == nil` or an exhausted reader: `fetch` returns
io.ErrUnexpectedEOF, hence every `if d.needMore(pos) { consumeWhitespace … }` is "end of buffer ⇒ eof".

Results are `(offset, Err)`: the byte offset RELATIVE to the start of the scanned slice that the Go
code returns as `newPos`/`pos` (which `wrapSyntacticError` turns into `ByteOffset`), and the class.
The `*ValueFlags` out-parameter of the value is not modelled (it does not influence acceptance);
the per-name `flags2` IS modelled because it selects how the name enters the namespace.

Core Lean only.
-/
import JsonV.Model.WireDecode
import JsonV.Gen.Constants

namespace JsonV.Model.Validate
open JsonV JsonV.Model JsonV.Model.Wire

/-- The two options that influence the grammar. -/
structure VOpts where
  allowInvalidUTF8 : Bool := false
  allowDup : Bool := false
  deriving DecidableEq, Repr, Inhabited

def maxNestingDepth : Nat := JsonV.Gen.jsontext.c_maxNestingDepth

/-- `Kind(c).normalize()` (the table `normKind`): `-` and digits map to `'0'`, the eight
characters `n f t " { } [ ]` to themselves, everything else to 0 (invalidKind).
`Props/C01.lean` proves this equal to the regenerated table. -/
def normKind (c : UInt8) : UInt8 :=
  if c == 0x2D || isDigit c then 0x30
  else if c == 0x6E || c == 0x66 || c == 0x74 || c == 0x22 || c == 0x7B || c == 0x7D || c == 0x5B || c == 0x5D then c
  else 0

/-- `case 'n'/'f'/'t'` of consumeValue: the inlinable fast path, then ConsumeLiteral
(an io.ErrUnexpectedEOF is followed by a failing fetch: `return pos + n, err`). -/
def valueLiteral (lit : Bytes) (r : Bytes) : Nat × Err :=
  let n := consumeExact lit r
  if n != 0 then (n, .ok) else consumeLiteral r lit

/-- `case '"'` of consumeValue and the name scan of consumeObject:
ConsumeSimpleString, else decoderState.consumeString (decode.go:926). -/
def valueString (o : VOpts) (r : Bytes) : Nat × ValueFlags × Err :=
  let n := consumeSimpleString r
  if n != 0 then (n, {}, .ok) else consumeStringResumable r 0 (!o.allowInvalidUTF8)

/-- decoderState.consumeNumber (decode.go:945) on a complete buffer. -/
def consumeNumberD (r : Bytes) : Nat × Err :=
  let (n, _, e) := consumeNumberResumable r 0 stInit
  if e == .eof || lenLt r (n + 1) then
    -- fetch fails with io.ErrUnexpectedEOF
    if e == .ok then (n, .ok) else (0, .eof)
  else (n, e)

/-- `case '0'` of consumeValue. -/
def valueNumber (r : Bytes) : Nat × Err :=
  let n := consumeSimpleNumber r
  if n == 0 || lenLt r (n + 1) then consumeNumberD r else (n, .ok)

def addOff (k : Nat) (p : Nat × Err) : Nat × Err := (k + p.1, p.2)

/-- The unescaped name that `objectNamespace.insertQuoted(quoted, isVerbatim)` stores. -/
def unescapedName (quoted : Bytes) (fl : ValueFlags) : Bytes :=
  if fl.isVerbatim then (quoted.drop 1).dropLast else (unquote quoted).1

mutual
/-- decoderState.consumeValue (decode.go:856).  `r` is non-empty at every call site. -/
def consumeValue (o : VOpts) : Nat → Nat → Bytes → Nat × Err
  | 0, _, _ => (0, .fuel)
  | fuel + 1, depth, r =>
    match r with
    | [] => (0, .bug)
    | c :: _ =>
      let k := normKind c
      if k == 0x6E then valueLiteral litNull r
      else if k == 0x66 then valueLiteral litFalse r
      else if k == 0x74 then valueLiteral litTrue r
      else if k == 0x22 then let (n, _, e) := valueString o r; (n, e)
      else if k == 0x30 then valueNumber r
      else if k == 0x7B then consumeObject o fuel depth r
      else if k == 0x5B then consumeArray o fuel depth r
      else if k == 0x7D then (0, .mismatchDelim)      -- Tokens.Last is the top-level (array-typed) entry
      else (0, .invalidChar)

/-- decoderState.consumeObject (decode.go:971); `r` starts with `{`. -/
def consumeObject (o : VOpts) : Nat → Nat → Bytes → Nat × Err
  | 0, _, _ => (0, .fuel)
  | fuel + 1, depth, r =>
    if depth == maxNestingDepth + 1 then (0, .maxDepth) else
    let r1 := r.drop 1
    let w := consumeWhitespace r1
    match r1.drop w with
    | [] => (1 + w, .eof)
    | c :: rest =>
      if c == 0x7D then (1 + w + 1, .ok)
      else addOff (1 + w) (objectLoop o fuel (depth + 1) [] (c :: rest))

/-- the `for` loop of consumeObject; `names` = the unescaped names inserted so far. -/
def objectLoop (o : VOpts) : Nat → Nat → List Bytes → Bytes → Nat × Err
  | 0, _, _, _ => (0, .fuel)
  | fuel + 1, depth, names, r =>
    -- before name
    let w := consumeWhitespace r
    match r.drop w with
    | [] => (w, .eof)
    | c0 :: ra0 =>
      let ra := c0 :: ra0
      let (n, fl, e) := valueString o ra
      if e != .ok then (w + n, e) else
      let name := unescapedName (ra.take n) fl
      if !o.allowDup && names.contains name then (w, .dupName) else
      let names' := if o.allowDup then names else names ++ [name]
      -- after name
      let rb := ra.drop n
      let w2 := consumeWhitespace rb
      match rb.drop w2 with
      | [] => (w + n + w2, .eof)
      | c :: rc =>
        if c != 0x3A then (w + n + w2, .invalidChar) else
        -- before value
        let w3 := consumeWhitespace rc
        match rc.drop w3 with
        | [] => (w + n + w2 + 1 + w3, .eof)
        | c1 :: rd0 =>
          let rd := c1 :: rd0
          let (k, e) := consumeValue o fuel depth rd
          if e != .ok then (w + n + w2 + 1 + w3 + k, e) else
          -- after value
          let re := rd.drop k
          let w4 := consumeWhitespace re
          match re.drop w4 with
          | [] => (w + n + w2 + 1 + w3 + k + w4, .eof)
          | c2 :: rf =>
            if c2 == 0x2C then addOff (w + n + w2 + 1 + w3 + k + w4 + 1) (objectLoop o fuel depth names' rf)
            else if c2 == 0x7D then (w + n + w2 + 1 + w3 + k + w4 + 1, .ok)
            else (w + n + w2 + 1 + w3 + k + w4, .invalidChar)

/-- decoderState.consumeArray (decode.go:1074); `r` starts with `[`. -/
def consumeArray (o : VOpts) : Nat → Nat → Bytes → Nat × Err
  | 0, _, _ => (0, .fuel)
  | fuel + 1, depth, r =>
    if depth == maxNestingDepth + 1 then (0, .maxDepth) else
    let r1 := r.drop 1
    let w := consumeWhitespace r1
    match r1.drop w with
    | [] => (1 + w, .eof)
    | c :: rest =>
      if c == 0x5D then (1 + w + 1, .ok)
      else addOff (1 + w) (arrayLoop o fuel (depth + 1) (c :: rest))

/-- the `for` loop of consumeArray. -/
def arrayLoop (o : VOpts) : Nat → Nat → Bytes → Nat × Err
  | 0, _, _ => (0, .fuel)
  | fuel + 1, depth, r =>
    let w := consumeWhitespace r
    match r.drop w with
    | [] => (w, .eof)
    | c1 :: rd0 =>
      let rd := c1 :: rd0
      let (k, e) := consumeValue o fuel depth rd
      if e != .ok then (w + k, e) else
      let re := rd.drop k
      let w4 := consumeWhitespace re
      match re.drop w4 with
      | [] => (w + k + w4, .eof)
      | c2 :: rf =>
        if c2 == 0x2C then addOff (w + k + w4 + 1) (arrayLoop o fuel depth rf)
        else if c2 == 0x5D then (w + k + w4 + 1, .ok)
        else (w + k + w4, .invalidChar)
end

/-- Fuel that always suffices: at most three nested calls per consumed byte. -/
def fuelFor (b : Bytes) : Nat := 3 * b.length + 4

/-- What `wrapSyntacticError` makes observable: errMismatchDelim is re-reported as an
invalid-character error (errors.go:88-102). -/
def observe : Err → Err
  | .mismatchDelim => .invalidChar
  | e => e

/-- One `ReadValue` on a decoder at the top level whose unread input is `r`
(decode.go:680-777): leading whitespace; io.EOF at the end of input; a leading `,`/`:` is
rejected by checkDelim at its own offset; otherwise consumeValue at depth `Tokens.Depth() = 1`.
On `.ok` the offset is the end of the value. -/
def readValueTop (o : VOpts) (fuel : Nat) (r : Bytes) : Nat × Err :=
  let w := consumeWhitespace r
  match r.drop w with
  | [] => (w, .ioEOF)
  | c :: rest =>
    if c == 0x3A || c == 0x2C then (w, .invalidChar)
    else addOff w (consumeValue o fuel 1 (c :: rest))

/-- `Value.IsValid` / `Unmarshal`'s framing: one value, then only whitespace (`checkEOF`,
decode.go:809: anything else is "invalid character after top-level value" at its offset).
An empty or all-whitespace input is `ioEOF` here (IsValid ⇒ false; Unmarshal reports it as
io.ErrUnexpectedEOF). -/
def validText (o : VOpts) (b : Bytes) : Nat × Err :=
  let (n, e) := readValueTop o (fuelFor b) b
  if e != .ok then (n, e) else
  let r := b.drop n
  let w := consumeWhitespace r
  match r.drop w with
  | [] => (n + w, .ok)
  | _ :: _ => (n + w, .invalidChar)

def isValid (o : VOpts) (b : Bytes) : Bool := (validText o b).2 == .ok

/-- A `ReadValue` loop over a stream: the number of values read, and how the loop ended:
`ioEOF` (clean end at a value boundary) or the first error with its absolute offset. -/
def streamLoop (o : VOpts) (vfuel : Nat) : Nat → Bytes → Nat → Nat → Nat × Nat × Err
  | 0, _, cnt, base => (cnt, base, .fuel)
  | fuel + 1, r, cnt, base =>
    let (n, e) := readValueTop o vfuel r
    if e != .ok then (cnt, base + n, e)
    else if n == 0 then (cnt, base, .bug)            -- a value consumes at least one byte
    else streamLoop o vfuel fuel (r.drop n) (cnt + 1) (base + n)

def stream (o : VOpts) (b : Bytes) : Nat × Nat × Err :=
  streamLoop o (fuelFor b) (b.length + 1) b 0 0

end JsonV.Model.Validate
