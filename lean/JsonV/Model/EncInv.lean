/-
C02 model: what the marshal fast paths append to the encoder buffer WITHOUT going through
`WriteToken`/`WriteValue` (arshal_default.go, arshal_any.go), and the shape in which the default
arshalers nest those fragments.  Core Lean only.

  Frag      true/false/null (strconv.AppendBool, :143), decimal integers (strconv.AppendInt/AppendUint,
            :479, :578), quoted strings (jsonwire.AppendQuote, :231), `{}` (:829, arshal_any.go:125),
            `[]` (:1509, arshal_any.go:241)
  OutTree   atoms, arrays `[` e `,` e … `]`, objects `{` "name" `:` v `,` … `}` whose names are pre-quoted
            (`f.quotedName`, fields.go:464 / arshal_default.go:1204-1209) or quoted on the fly

`quote` (jsonwire.AppendQuote under the flags in force) is a PARAMETER: the structure `Quoter`
carries its law "the result is a valid JSON string literal" (proved by slice `quote`, C11).
Floats (jsonwire.AppendFloat, :682) are a parameter in the same way (`Frag.num`, law: C10).
-/
import JsonV.Spec.ValidJson

namespace JsonV.Model.EncInv
open JsonV JsonV.Spec.ValidJson

/-- `strconv.AppendUint(nil, n, 10)`: most significant digit first, no leading zero, "0" for 0. -/
def natDigits (n : Nat) : Bytes :=
  if h : n < 10 then [UInt8.ofNat (0x30 + n)]
  else natDigits (n / 10) ++ [UInt8.ofNat (0x30 + n % 10)]
termination_by n
decreasing_by omega

/-- `strconv.AppendInt(nil, i, 10)`: '-' exactly for negative values. -/
def intDigits (i : Int) : Bytes :=
  if i < 0 then 0x2d :: natDigits i.natAbs else natDigits i.toNat

/-- The external quoting function with its law. -/
structure Quoter (o : Opt) where
  quote : Bytes → Bytes
  valid : ∀ s, validString o (quote s) = true

/-- The byte fragments appended directly by the arshalers. -/
inductive Frag where
  | null
  | bool (b : Bool)
  | int (i : Int)
  | uint (n : Nat)
  | str (s : Bytes)                                      -- a Go string, quoted by `quote`
  | num (lit : Bytes) (h : pNumber lit = some [])        -- a float rendering (law supplied by C10)
  | emptyObj
  | emptyArr

def Frag.bytes (quote : Bytes → Bytes) : Frag → Bytes
  | .null => [0x6e, 0x75, 0x6c, 0x6c]
  | .bool true => [0x74, 0x72, 0x75, 0x65]
  | .bool false => [0x66, 0x61, 0x6c, 0x73, 0x65]
  | .int i => intDigits i
  | .uint n => natDigits n
  | .str s => quote s
  | .num lit _ => lit
  | .emptyObj => [0x7b, 0x7d]
  | .emptyArr => [0x5b, 0x5d]

/-- `{}` and `[]` open (and close) one container level. -/
def Frag.depth : Frag → Nat
  | .emptyObj => 1
  | .emptyArr => 1
  | _ => 0

/-- x₁ `,` x₂ `,` … xₙ -/
def joinElems : List Bytes → Bytes
  | [] => []
  | [x] => x
  | x :: y :: ys => x ++ 0x2c :: joinElems (y :: ys)

/-- `[` x₁ `,` … `]` -/
def arr (xs : List Bytes) : Bytes := 0x5b :: (joinElems xs ++ [0x5d])

/-- name `:` value -/
def member (m : Bytes × Bytes) : Bytes := m.1 ++ 0x3a :: m.2

/-- `{` n₁ `:` v₁ `,` … `}` for already-quoted names -/
def obj (ms : List (Bytes × Bytes)) : Bytes := 0x7b :: (joinElems (ms.map member) ++ [0x7d])

/-- What a Marshal call emits through the raw paths, as a tree. -/
inductive OutTree where
  | atom (f : Frag)
  | arr (ts : List OutTree)
  | obj (ms : List (Bytes × OutTree))     -- Go-side (unquoted) name × value

mutual
def OutTree.render (quote : Bytes → Bytes) : OutTree → Bytes
  | .atom f => f.bytes quote
  | .arr ts => EncInv.arr (renderList quote ts)
  | .obj ms => EncInv.obj (renderMembers quote ms)
def renderList (quote : Bytes → Bytes) : List OutTree → List Bytes
  | [] => []
  | t :: ts => t.render quote :: renderList quote ts
def renderMembers (quote : Bytes → Bytes) : List (Bytes × OutTree) → List (Bytes × Bytes)
  | [] => []
  | (n, t) :: ms => (quote n, t.render quote) :: renderMembers quote ms
end

mutual
/-- nesting depth: atoms 0, a container one more than its deepest child -/
def OutTree.depth : OutTree → Nat
  | .atom f => f.depth
  | .arr ts => depthList ts + 1
  | .obj ms => depthMembers ms + 1
def depthList : List OutTree → Nat
  | [] => 0
  | t :: ts => max t.depth (depthList ts)
def depthMembers : List (Bytes × OutTree) → Nat
  | [] => 0
  | (_, t) :: ms => max t.depth (depthMembers ms)
end

mutual
/-- Under `noDup`, the names of every object are pairwise distinct as JSON strings
(what `seenIdxs`/namespaces/Go map keys guarantee in the code). -/
def OutTree.WellFormed (o : Opt) (quote : Bytes → Bytes) : OutTree → Prop
  | .atom _ => True
  | .arr ts => wfList o quote ts
  | .obj ms => wfMembers o quote ms ∧ (o.noDup = true → ((renderMembers quote ms).map fun m => o.key m.1).Nodup)
def wfList (o : Opt) (quote : Bytes → Bytes) : List OutTree → Prop
  | [] => True
  | t :: ts => t.WellFormed o quote ∧ wfList o quote ts
def wfMembers (o : Opt) (quote : Bytes → Bytes) : List (Bytes × OutTree) → Prop
  | [] => True
  | (_, t) :: ms => t.WellFormed o quote ∧ wfMembers o quote ms
end

mutual
/-- The condition on object names stated on the GO-SIDE names: within every object the names are pairwise
different after `norm` (for the modelled AppendQuote and either notion of key, `norm` = "ill-formed bytes
replaced by U+FFFD"; the identity on valid UTF-8). -/
def OutTree.NamesOK (noDup : Bool) (norm : Bytes → Bytes) : OutTree → Prop
  | .atom _ => True
  | .arr ts => namesOKList noDup norm ts
  | .obj ms => namesOKMembers noDup norm ms ∧ (noDup = true → (ms.map fun m => norm m.1).Nodup)
def namesOKList (noDup : Bool) (norm : Bytes → Bytes) : List OutTree → Prop
  | [] => True
  | t :: ts => t.NamesOK noDup norm ∧ namesOKList noDup norm ts
def namesOKMembers (noDup : Bool) (norm : Bytes → Bytes) : List (Bytes × OutTree) → Prop
  | [] => True
  | (_, t) :: ms => t.NamesOK noDup norm ∧ namesOKMembers noDup norm ms
end

end JsonV.Model.EncInv
