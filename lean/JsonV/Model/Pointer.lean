/-
Model of `jsontext.Pointer` (jsontext/state.go:82-162), of `appendEscapePointerName`
(state.go:205-218) and of `state.appendStackPointer` (state.go:164-203).

A Go `string`/`[]byte` is a `Bytes`.  `for i, r := range p` is `rangeStr p`: the list of
`(r, p[i:])` in iteration order (Go decodes one rune per iteration; ill-formed UTF-8
yields U+FFFD and advances by one byte).  Every function is structurally recursive
except `tokens` (the `for len(p) > 0` loop), which recurses on the length of the rest.

`appendStackPointer` is modelled on an abstract coder state: the state machine stack
as a list of `(isObject, length)` entries (entry 0 is the virtual top-level array) and the
names stack as one (unquoted) name per open object; `AState.step` is the way Encoder and
Decoder drive `Tokens` and `Names` for each token (encode.go WriteToken / decode.go
ReadToken: `Names.push/pop`, `Names.ReplaceLastQuotedOffset` when `NeedObjectName`).
Core Lean only.
-/
import JsonV.Model.Basic
import JsonV.Model.Utf8
import JsonV.Model.State

namespace JsonV.Model.Pointer
open JsonV JsonV.Model

def cSlash : UInt8 := 0x2f   -- '/'
def cTilde : UInt8 := 0x7e   -- '~'
def c0 : UInt8 := 0x30       -- '0'
def c1 : UInt8 := 0x31       -- '1'

/-! ### `for i, r := range s` -/

/-- `rangeAux skip s`: the iterations of `range` over the rest `s` of a string when the
next `skip` bytes belong to the rune decoded in the previous iteration. -/
def rangeAux : Nat → Bytes → List (Nat × Bytes)
  | _, [] => []
  | 0, b :: rest => ((Utf8.decodeRune (b :: rest)).1, b :: rest) :: rangeAux ((Utf8.decodeRune (b :: rest)).2 - 1) rest
  | k+1, _ :: rest => rangeAux k rest

/-- The pairs `(r, p[i:])` of `for i, r := range p`. -/
def rangeStr (p : Bytes) : List (Nat × Bytes) := rangeAux 0 p

/-- The runes of `for _, r := range p`. -/
def runes (p : Bytes) : List Nat := (rangeStr p).map (·.1)

/-! ### strings helpers -/

/-- `strings.HasPrefix(s, pre)`. -/
def hasPrefix : Bytes → Bytes → Bool
  | _, [] => true
  | [], _ :: _ => false
  | a :: s, b :: pre => a == b && hasPrefix s pre

/-- `strings.CutPrefix(s, pre)`. -/
def cutPrefix : Bytes → Bytes → Option Bytes
  | s, [] => some s
  | [], _ :: _ => none
  | a :: s, b :: pre => if a = b then cutPrefix s pre else none

/-- `strings.TrimPrefix(s, "/")`. -/
def trimSlash : Bytes → Bytes
  | [] => []
  | b :: rest => if b = cSlash then rest else b :: rest

/-- `strings.LastIndexByte(s, c)`; `none` is Go's -1. -/
def lastIndexByte (c : UInt8) : Bytes → Option Nat
  | [] => none
  | b :: rest =>
    match lastIndexByte c rest with
    | some i => some (i + 1)
    | none => if b = c then some 0 else none

/-- `strings.ReplaceAll(s, string([x,y]), string([z]))` for a two-byte pattern:
leftmost non-overlapping matches. -/
def replace2 (x y z : UInt8) : Bytes → Bytes
  | [] => []
  | [a] => [a]
  | a :: b :: rest => if a = x ∧ b = y then z :: replace2 x y z rest else a :: replace2 x y z (b :: rest)

/-! ### escaping (RFC 6901 §3) -/

/-- The bytes appended for one rune by `appendEscapePointerName`. -/
def escRune (r : Nat) : Bytes :=
  if r = 0x7e then [cTilde, c0]
  else if r = 0x2f then [cTilde, c1]
  else Utf8.encodeRune r

/-- `appendEscapePointerName(b, name)`. -/
def appendEscapePointerName (b name : Bytes) : Bytes := b ++ (runes name).flatMap escRune

/-- The escaped form of one reference token. -/
def escape (name : Bytes) : Bytes := appendEscapePointerName [] name

/-- `unescapePointerToken`. -/
def unescape (token : Bytes) : Bytes :=
  if token.contains cTilde then
    replace2 cTilde c0 cTilde (replace2 cTilde c1 cSlash token)
  else token

/-- What `string(name)` looks like after a round trip through `range`/`AppendRune`:
every ill-formed byte replaced by U+FFFD (`strings.ToValidUTF8`-like, one replacement per byte). -/
def sanitize (t : Bytes) : Bytes := (runes t).flatMap Utf8.encodeRune

/-! ### Pointer methods -/

/-- `i+1 == len(p) || (p[i+1] != '0' && p[i+1] != '1')` where `suf = p[i:]`. -/
def badTilde : Bytes → Bool
  | _ :: n :: _ => n != c0 && n != c1
  | _ => true

/-- One iteration of the loop in `IsValid`: `false` means "return false". -/
def validStep (x : Nat × Bytes) : Bool :=
  -- case r == '~' && (i+1 == len(p) || (p[i+1] != '0' && p[i+1] != '1'))
  if x.1 = 0x7e ∧ badTilde x.2 then false
  -- case r == '\ufffd' && !strings.HasPrefix(p[i:], "\ufffd")
  else if x.1 = 0xFFFD ∧ !hasPrefix x.2 [0xEF, 0xBF, 0xBD] then false
  else true

/-- `Pointer.IsValid`. -/
def isValid (p : Bytes) : Bool :=
  (rangeStr p).all validStep &&
  (match p with
   | [] => true
   | b :: _ => b == cSlash)

/-- `Pointer.Contains`. -/
def contains (p pc : Bytes) : Bool :=
  match cutPrefix pc p with
  | none => false
  | some [] => true
  | some (b :: _) => b == cSlash

/-- `max(strings.LastIndexByte(p, '/'), 0)`. -/
def lastSlash (p : Bytes) : Nat :=
  match lastIndexByte cSlash p with
  | some i => i
  | none => 0      -- max(-1, 0)

/-- `Pointer.Parent`. -/
def parent (p : Bytes) : Bytes := p.take (lastSlash p)

/-- `Pointer.LastToken`. -/
def lastToken (p : Bytes) : Bytes := unescape (trimSlash (p.drop (lastSlash p)))

/-- `Pointer.AppendToken`. -/
def appendToken (p tok : Bytes) : Bytes := appendEscapePointerName (p ++ [cSlash]) tok

/-- Prefix of `p` before the first '/', and the rest:
`i := min(uint(IndexByte(p,'/')), uint(len(p)))`, `(p[:i], p[i:])`. -/
def cutAtSlash : Bytes → Bytes × Bytes
  | [] => ([], [])
  | b :: rest => if b = cSlash then ([], b :: rest) else ((cutAtSlash rest).1.cons b, (cutAtSlash rest).2)

theorem cutAtSlash_length (p : Bytes) : (cutAtSlash p).1.length + (cutAtSlash p).2.length = p.length := by
  induction p with
  | nil => rfl
  | cons b rest ih => simp only [cutAtSlash]; split <;> simp <;> omega

theorem trimSlash_length_le (p : Bytes) : (trimSlash p).length ≤ p.length := by
  cases p with
  | nil => simp [trimSlash]
  | cons b rest => simp only [trimSlash]; split <;> simp

/-- The loop body of `Tokens` makes progress: after trimming one '/', a non-empty token is cut,
or a byte was trimmed. -/
theorem tokens_decreasing (p : Bytes) (h : p ≠ []) : (cutAtSlash (trimSlash p)).2.length < p.length := by
  cases p with
  | nil => exact absurd rfl h
  | cons b rest =>
    simp only [trimSlash]
    split
    · have := cutAtSlash_length rest; simp; omega
    · rename_i hb
      simp only [cutAtSlash, hb, if_false]
      have := cutAtSlash_length rest; simp; omega

/-- `Pointer.Tokens`, collected into a list. -/
def tokens (p : Bytes) : List Bytes :=
  if _h : p = [] then [] else
    unescape (cutAtSlash (trimSlash p)).1 :: tokens (cutAtSlash (trimSlash p)).2
termination_by p.length
decreasing_by exact tokens_decreasing p _h

/-! ### `appendStackPointer` on an abstract coder state -/

/-- One `stateEntry`: its type bit and `Length()`. -/
structure SEntry where
  isObj : Bool
  len : Nat
deriving DecidableEq, Repr, Inhabited

namespace SEntry
def needObjectName (e : SEntry) : Bool := e.isObj && e.len % 2 == 0
def needObjectValue (e : SEntry) : Bool := e.isObj && e.len % 2 == 1
def isArray (e : SEntry) : Bool := !e.isObj
end SEntry

/-- `strconv.AppendUint(nil, n, 10)`. -/
def decimal (n : Nat) : Bytes := (Nat.toDigits 10 n).map (fun c => UInt8.ofNat c.toNat)

/-- `Tokens` and `Names`, innermost first: `stack.head` is `Tokens.Last`, the last element of
`stack` is the virtual top-level array (`Tokens.index(0)`); `names.head` is the name slot of the
innermost open object (`[]` while it has no name yet: `Names.push` stores `invalidOffset`,
for which `getUnquoted` yields the empty string). -/
structure AState where
  stack : List SEntry := [⟨false, 0⟩]
  names : List Bytes := []
deriving DecidableEq, Repr, Inhabited

/-- The loop `for i := 1; i < Depth(); i++` over the entries from index `i` on (outermost first).
`od` is `objectDepth`, `names` is indexed outermost first.
`none` models the index-out-of-range panic of `Names.getUnquoted`. -/
def stackLoop (wh : Int) (names : List Bytes) : List SEntry → Nat → Bytes → Option Bytes
  | [], _, b => some b
  | e :: rest, od, b =>
    -- isLast := i == Depth()-1
    if rest.isEmpty ∧ (wh < 0 ∧ e.len = 0 ∨ wh = 0 ∧ !e.needObjectValue ∨ wh > 0 ∧ e.needObjectName) then some b
    else if e.isObj then
      match names[od]? with
      | none => none
      | some nm => stackLoop wh names rest (od + 1) (appendEscapePointerName (b ++ [cSlash]) nm)
    else
      -- arrayDelta := -1, or 0 when `isLast && where > 0 && e.isArray()`;
      -- uint64(e.Length() + arrayDelta) wraps around for Length() = 0 and delta = -1: modelled as `none`
      if rest.isEmpty ∧ wh > 0 then stackLoop wh names rest od (b ++ [cSlash] ++ decimal e.len)
      else if e.len = 0 then none
      else stackLoop wh names rest od (b ++ [cSlash] ++ decimal (e.len - 1))

/-- `state.appendStackPointer(b, where)`. -/
def appendStackPointer (s : AState) (b : Bytes) (wh : Int) : Option Bytes :=
  stackLoop wh s.names.reverse (s.stack.reverse.drop 1) 0 b

/-- Tokens as seen by the state machine. -/
inductive Tok where
  | scalar               -- null, false, true, number
  | str (s : Bytes)      -- a string (an object name when one is expected)
  | beginObj | endObj | beginArr | endArr
deriving DecidableEq, Repr, Inhabited

/-- How `WriteToken`/`ReadToken` update `Tokens` and `Names`; `none` = the token is rejected
(the state is then unchanged in the Go code).  Duplicate-name detection is not part of this model. -/
def AState.step (s : AState) (t : Tok) : Option AState :=
  match s.stack with
  | [] => none
  | last :: below =>
    let bump : SEntry := { last with len := last.len + 1 }
    match t with
    | .scalar => if last.needObjectName then none else some { s with stack := bump :: below }
    | .str n =>
      if last.needObjectName then
        match s.names with
        | [] => none
        | _ :: ns => some { stack := bump :: below, names := n :: ns }   -- Names.ReplaceLastQuotedOffset
      else some { s with stack := bump :: below }
    | .beginObj => if last.needObjectName then none
                   else some { stack := ⟨true, 0⟩ :: bump :: below, names := [] :: s.names }  -- Names.push
    | .beginArr => if last.needObjectName then none
                   else some { s with stack := ⟨false, 0⟩ :: bump :: below }
    | .endObj => if !last.isObj || last.needObjectValue || below.isEmpty then none
                 else some { stack := below, names := s.names.drop 1 }                       -- Names.pop
    | .endArr => if last.isObj || below.isEmpty then none
                 else some { s with stack := below }

def AState.run (s : AState) : List Tok → Option AState
  | [] => some s
  | t :: ts => match s.step t with
    | none => none
    | some s' => s'.run ts

def AState.init : AState := {}

/-! ### errors.go: pointerSuffixError and the pointer part of wrapSyntacticError -/

theorem lastIndexByte_lt (c : UInt8) : ∀ (l : Bytes) (i : Nat), lastIndexByte c l = some i → i < l.length
  | [], i, h => by simp [lastIndexByte] at h
  | b :: rest, i, h => by
    simp only [lastIndexByte] at h
    split at h
    · rename_i j hj
      have := lastIndexByte_lt c rest j hj
      simp only [Option.some.injEq] at h; subst h; simp; omega
    · split at h
      · simp only [Option.some.injEq] at h; subst h; simp
      · cases h

/-- `wrapWithObjectName`: `reversePointer = appendEscapePointerName(append(reversePointer, '/'), name)`
where `name = jsonwire.UnquoteMayCopy(quotedName)` is passed in unquoted. -/
def wrapWithObjectName (rev name : Bytes) : Bytes := appendEscapePointerName (rev ++ [cSlash]) name

/-- `wrapWithArrayIndex`: `reversePointer = strconv.AppendUint(append(reversePointer, '/'), index, 10)`. -/
def wrapWithArrayIndex (rev : Bytes) (idx : Nat) : Bytes := rev ++ [cSlash] ++ decimal idx

/-- `pointerSuffixError.appendPointer(pointer)`: `for len(bi) > 0 { i := bytes.LastIndexByte(bi, '/');
bi, bo = bi[:i], append(bo, bi[i:]...) }` — `none` is the slice-bounds panic for `i = -1`. -/
def appendPointer (bi bo : Bytes) : Option Bytes :=
  if _h : bi = [] then some bo else
    match _hl : lastIndexByte cSlash bi with
    | none => none
    | some i => appendPointer (bi.take i) (bo ++ bi.drop i)
termination_by bi.length
decreasing_by
  have := lastIndexByte_lt cSlash bi i _hl
  simp only [List.length_take]; omega

/-- The JSONPointer computed by `wrapSyntacticError(state, err, pos, where)`:
`suffix` is `Some reversePointer` when `err` is a `*pointerSuffixError`;
`mismatch` says `state` is a `*decoderState` and (the unwrapped) `err == errMismatchDelim`. -/
def wrapSyntacticErrorPtr (s : AState) (wh : Int) (suffix : Option Bytes) (mismatch : Bool) : Option Bytes :=
  match appendStackPointer s [] wh with
  | none => none
  | some ptr0 =>
    match (match suffix with
           | some rev => appendPointer rev ptr0
           | none => some ptr0) with
    | none => none
    | some ptr =>
      if mismatch then
        match s.stack with
        | last :: _ :: _ =>                       -- len(d.Tokens.Stack) > 0
          if last.len > 0 then
            if last.isArray then some (parent ptr)                 -- problem is with parent array
            else if !last.needObjectName then some (parent ptr)    -- problem is with parent object
            else some ptr                                          -- the stack pointer already is the parent object
          else some ptr
        | _ => some ptr
      else some ptr

/-! ### StackDepth / StackIndex (decode.go:1181-1209, encode.go:956-984) -/

/-- `StackDepth()`: `Tokens.Depth() - 1`. -/
def stackDepth (m : Machine) : Nat := m.depth - 1

/-- `StackIndex(i)`: `Tokens.index(i)` is `Last` for `i == len(Stack)` and `Stack[i]` otherwise (`none`: the Go code
panics with an index out of range); kind 0 for level 0, '{' or '[' above. -/
def stackIndex (m : Machine) (i : Nat) : Option (UInt8 × Nat) :=
  (if i = m.stack.length then some m.last else m.stack[i]?).map fun e =>
    (if i > 0 ∧ e.isObject then 0x7b else if i > 0 ∧ e.isArray then 0x5b else 0, e.length)

/-! ### the same on the packed state machine (`state{Tokens stateMachine; Names objectNameStack}`) -/

/-- `Tokens` as the packed `Machine` of Model/State.lean and `Names` (innermost first, one slot per open object). -/
structure MState where
  m : Machine := {}
  names : List Bytes := []
deriving Repr, Inhabited

/-- `Names.ReplaceLastQuotedOffset`: overwrite the slot of the innermost object. -/
def replaceHead (names : List Bytes) (n : Bytes) : List Bytes :=
  match names with
  | [] => []          -- `ns.offsets[len-1]` would panic; never reached (one slot per open object)
  | _ :: ns => n :: ns

/-- ReadToken / WriteToken: the machine operation of the token plus `Names.push` on '{',
`Names.ReplaceLastQuotedOffset` on a member name (tested BEFORE `appendString`), `Names.pop` on '}'. -/
def MState.step (maxDepth : Nat) (s : MState) : Tok → Except SMErr MState
  | .scalar => (s.m.appendLiteral).map (fun m => { s with m := m })
  | .str n =>
    let names' := if s.m.last.needObjectName then replaceHead s.names n else s.names
    (s.m.appendString).map (fun m => { m := m, names := names' })
  | .beginObj => (s.m.pushObject maxDepth).map (fun m => { m := m, names := [] :: s.names })
  | .endObj => (s.m.popObject).map (fun m => { m := m, names := s.names.drop 1 })
  | .beginArr => (s.m.pushArray maxDepth).map (fun m => { s with m := m })
  | .endArr => (s.m.popArray).map (fun m => { s with m := m })

def MState.run (maxDepth : Nat) (s : MState) : List Tok → Except SMErr MState
  | [] => .ok s
  | t :: ts => match s.step maxDepth t with
    | .error e => .error e
    | .ok s' => s'.run maxDepth ts

/-- What `appendStackPointer` reads off the packed entries: `e.isObject()` and `e.Length()`, index 0 … Depth()-1
(here innermost first), and the names. -/
def MState.view (s : MState) : AState :=
  { stack := (s.m.last :: s.m.stack.reverse).map (fun e => ⟨e.isObject, e.length⟩), names := s.names }

/-- `state.appendStackPointer(b, where)` on the packed machine. -/
def MState.appendStackPointer (s : MState) (b : Bytes) (wh : Int) : Option Bytes :=
  Pointer.appendStackPointer s.view b wh

end JsonV.Model.Pointer
