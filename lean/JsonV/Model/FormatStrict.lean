/-
Model of `jsontext.Value.Format` with the two validation options and the string options
(value.go:130-149; encode.go reformatValue/Object/Array; jsonwire.ReformatString), on top of the
raw-preserving token model of Model/Format.lean:

* AllowInvalidUTF8 off : every string literal must be accepted by `ConsumeString(validateUTF8 = true)`
  (Model/WireDecode.lean, slice C01: well-formed UTF-8, surrogate escapes paired);
* AllowDuplicateNames off : within each object the names are pairwise different after unescaping
  (`Validate.unescapedName`, what `objectNamespace.insertQuoted` stores);
* PreserveRawStrings / EscapeForHTML / EscapeForJS : every string token is respelled by
  `Quote.reformatString` (slice C11) unless it is preserved verbatim.

The duplicate-name test runs on the tree of the tokens (slice C13's `Canon.parse`; every accepted token list is the
token list of a tree: `accepts_is_tree`).  Both validation options are predicates on the token list (`tokensOK`), so they are invariant under
re-rendering.  CanonicalizeRaw* and ReorderRawObjects are not modelled (validated by the harness).
Core Lean only.
-/
import JsonV.Model.Format
import JsonV.Model.Validate
import JsonV.Model.Quote
import JsonV.Model.Canon

namespace JsonV.Fmt
open JsonV.Model

structure FOpts where
  allowInvalidUTF8 : Bool := false
  allowDup : Bool := false
  preserve : Bool := false
  html : Bool := false
  js : Bool := false
  ws : WsOpts := compactOpts

/-- the string literal passes `ConsumeString(raw, validateUTF8 = true)` as a whole -/
def strictStr (raw : Bytes) : Bool :=
  let r := Wire.consumeString raw true
  r.2.2 == .ok && r.1 == raw.length

def strOKV (o : FOpts) : Tok → Bool
  | .str raw => o.allowInvalidUTF8 || strictStr raw
  | _ => true

/-- the text names are compared by (C01 `nameKey`) -/
def nameKey (o : FOpts) (raw : Bytes) : Bytes :=
  Validate.unescapedName raw (Validate.valueString ⟨o.allowInvalidUTF8, o.allowDup⟩ raw).2.1

mutual
/-- No object of the tree has two members whose names have the same key. -/
def dupT (key : Bytes → Bytes) : Canon.JV → Bool
  | .atom _ => true
  | .arr es => dupL key es
  | .obj ms => decide ((ms.map fun p => key p.1).Nodup) && dupM key ms
def dupL (key : Bytes → Bytes) : List Canon.JV → Bool
  | [] => true
  | e :: es => dupT key e && dupL key es
def dupM (key : Bytes → Bytes) : List (Bytes × Canon.JV) → Bool
  | [] => true
  | (_, v) :: ms => dupT key v && dupM key ms
end

/-- the duplicate-name test on a token list: on the tree the tokens form (slice C13's `parse`) -/
def namesOK (key : Bytes → Bytes) (ts : List Tok) : Bool :=
  match Canon.parse ts with
  | some t => dupT key t
  | none => false

def tokensOK (o : FOpts) (ts : List Tok) : Bool :=
  ts.all (strOKV o) && (o.allowDup || namesOK (nameKey o) ts)

/-- the tokenizer under the validation options -/
def tokenizeV (o : FOpts) (b : Bytes) : Option (List Tok) :=
  match tokenize b with
  | some ts => if tokensOK o ts then some ts else none
  | none => none

/-- `Value.IsValid(AllowInvalidUTF8, AllowDuplicateNames)` at the token level -/
def isValidV (o : FOpts) (b : Bytes) : Bool := (tokenizeV o b).isSome

/-- ReformatString on one literal: verbatim under PreserveRawStrings without an escape option, otherwise
slice C11's model (which itself copies canonical literals verbatim). -/
def respellStr (o : FOpts) (raw : Bytes) : Bytes :=
  if o.preserve && !o.html && !o.js then raw
  else (Quote.reformatString ⟨o.html, o.js, o.allowInvalidUTF8, o.preserve⟩ raw).1

def respellTok (o : FOpts) : Tok → Tok
  | .str raw => .str (respellStr o raw)
  | t => t

/-- `Value.Format(opts…)` for the modelled options. -/
def formatV (o : FOpts) (b : Bytes) : Option Bytes :=
  match tokenizeV o b with
  | some ts => some (render o.ws (ts.map (respellTok o)))
  | none => none

def FOpts.verbatim (o : FOpts) : Prop := o.preserve = true ∧ o.html = false ∧ o.js = false

end JsonV.Fmt
