/-
Model of the member sort inside `mustReorderObjectsFromDecoder` (/repo/jsontext/value.go:268-414),
the part of `Value.Canonicalize` that implements RFC 8785 §3.2.3.  Core Lean only.

An object's members are collected as `objectMember{name, buffer}` (the unquoted name and the raw bytes of the
member from right after the previous member up to the end of its value), compared with
`objectMember.Compare` (name by `CompareUTF16`, then the raw member text without its leading
comma/whitespace), and — unless the scan found them already strictly increasing — sorted with
`slices.SortFunc`.  `slices.SortFunc` is modelled as `List.mergeSort` (a stable sort); for members that
do not compare equal the result of any correct comparison sort is the same list (`reorder_unique`).
-/
import JsonV.Model.Compare

namespace JsonV.Model.Reorder
open JsonV.Model.Compare

/-- `objectMember` (value.go:268-275). -/
structure Member where
  /-- the unquoted name -/
  name : Bytes
  /-- the raw member: `, \n\r\t"name": "value"` -/
  buffer : Bytes
deriving DecidableEq, Repr

/-- membership in `commaAndWhitespace = ", \n\r\t"` (value.go:266). -/
def isCommaWs (b : UInt8) : Bool := b == 0x2C || b == 0x20 || b == 0x0A || b == 0x0D || b == 0x09

/-- `bytes.TrimLeft(b, commaAndWhitespace)`. -/
def trimLeft (b : Bytes) : Bytes := b.dropWhile isCommaWs

/-- `commaAndWhitespacePrefix(b)` (value.go:375-377). -/
def prefixOf (b : Bytes) : Bytes := b.takeWhile isCommaWs

/-- `objectMember.Compare` (value.go:277-286). -/
def memberCompare (x y : Member) : Int :=
  let c := compareUTF16 x.name y.name
  if c ≠ 0 then c
  else compareUTF16 (trimLeft x.buffer) (trimLeft y.buffer)

/-- the `less-or-equal` handed to the sort. -/
def memberLe (x y : Member) : Bool := decide (memberCompare x y ≤ 0)

/-- `slices.SortFunc(*members, objectMember.Compare)` (value.go:364). -/
def sortMembers (ms : List Member) : List Member := ms.mergeSort memberLe

/-- The `isSorted` scan of the collecting loop (value.go:338-355): every member strictly after its predecessor. -/
def isSorted : List Member → Bool
  | [] => true
  | [_] => true
  | a :: b :: rest => decide (memberCompare a b < 0) && isSorted (b :: rest)

/-- The order in which the members are written back: untouched if already sorted (value.go:360-362). -/
def reorder (ms : List Member) : List Member := if isSorted ms then ms else sortMembers ms

/-- The sort as a permutation of positions (used by the oracle): result[i] = index in `ms` of the i-th output member. -/
def sortPerm (names : List Bytes) : List Nat :=
  (names.zipIdx.mergeSort (fun a b => decide (compareUTF16 a.1 b.1 ≤ 0))).map (·.2)

end JsonV.Model.Reorder
