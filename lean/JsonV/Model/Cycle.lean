/-
C20 — heap-graph model of Go values and of the marshal traversal with the cycle detection
**as implemented** (arshal_default.go:50-77, 797, 1477, 1724-1735; arshal_any.go:110, 226).

A Go value is a node of a finite graph; edges go from a pointer to its target, from an interface
to its dynamic value, from a slice/array/map/struct to its elements.  The traversal mirrors:

* `Tokens.Depth()` grows by one exactly when a slice, array, map or struct is entered
  (WriteToken BeginArray/BeginObject, refused with errMaxDepth when `len(Stack) == maxNestingDepth`,
  i.e. when `Depth() == max+1`); a pointer or interface hop does **not** change it;
* `visitPointer` is consulted by the pointer, slice and map arshalers only.  Slices and maps consult
  it when `Tokens.Depth() > startDetectingCyclesAfter`; the pointer arshaler when
  `Tokens.Depth() > startDetectingCyclesAfter || pointsToPointerLike`, where `pointsToPointerLike`
  says that the pointer's element type is a pointer or an interface (repo commit 407e50b; before it
  the clause was absent — `trackPtrLike := false` reproduces the old traversal);
  struct, array and interface arshalers never consult it;
* an empty (or nil) slice/map is written by the `[]`/`{}` shortcut without WriteToken — since repo
  commit c2b1a73 only when `!Tokens.AtMaxDepth()`.  Which kinds have such a shortcut and whether it
  carries the guard are parameters (`shortcut`, `guarded`): `guarded := fun _ => false` reproduces the
  old code, `shortcut := fun k => k = .struct || …` a fast path for member-less structs.

`pointsToPointerLike` is a property of the static type `*T`; in the graph it is read off the target
node (a value of type `T` is a pointer node iff `T` is a pointer type, an interface node iff `T` is an
interface type).  An interface whose dynamic value is again an interface is not a Go value and is
answered `dangling`, like an edge to a missing node.

The result is a value-or-error; `outOfFuel` stands for "the real code is still recursing".
Core Lean only.
-/
import JsonV.Model.Basic

namespace JsonV.Model.Cycle

inductive Kind where
  | scalar | ptr | iface | slice | map | array | struct
deriving DecidableEq, Repr, Inhabited

/-- does entering a value of this kind write a BeginArray/BeginObject token -/
def Kind.deepens : Kind → Bool
  | .slice | .map | .array | .struct => true
  | _ => false

/-- does the arshaler of this kind call visitPointer at all -/
def Kind.tracked : Kind → Bool
  | .ptr | .slice | .map => true
  | _ => false

structure Node where
  kind : Kind
  succ : List Nat   -- ptr/iface: [] = nil, [t] = target;  containers: the elements in order
deriving Repr, Inhabited

/-- A heap is a finite list of nodes; node ids are indices. -/
abbrev Heap := List Node

inductive Res where
  | ok          -- JSON written
  | cycle       -- internal.ErrCycle
  | maxDepth    -- errMaxDepth
  | dangling    -- not a Go value: edge to a missing node, or an interface holding an interface
  | outOfFuel   -- still recursing
deriving DecidableEq, Repr, Inhabited

structure Cfg where
  max : Nat                    -- maxNestingDepth
  after : Nat                  -- startDetectingCyclesAfter
  trackPtrLike : Bool := true  -- the `|| pointsToPointerLike` clause of makePointerArshaler
  /-- which kinds write an EMPTY value by appending `[]`/`{}` to the buffer without WriteToken
  (the source: slices and maps; structs, arrays always go through WriteToken) -/
  shortcut : Kind → Bool := fun k => k = .slice || k = .map
  /-- does that shortcut carry the `&& !xe.Tokens.AtMaxDepth()` clause (the source since c2b1a73: all of them) -/
  guarded : Kind → Bool := fun _ => true

def kindOf (g : Heap) (n : Nat) : Option Kind := (g[n]?).map (·.kind)

/-- node `c` is a pointer or an interface -/
def isPtrLike (g : Heap) (c : Nat) : Bool := kindOf g c = some .ptr || kindOf g c = some .iface

def isIface (g : Heap) (c : Nat) : Bool := kindOf g c = some .iface

/-- `pointsToPointerLike` of the pointer node `nd` -/
def pointsToPtrLike (g : Heap) (nd : Node) : Bool := nd.kind = .ptr && nd.succ.any (isPtrLike g)

/-- first non-ok result, in element order (an error aborts the marshal call). -/
def seqRes (f : Nat → Res) : List Nat → Res
  | [] => .ok
  | c :: cs => match f c with
    | .ok => seqRes f cs
    | e => e

/-- is visitPointer consulted for node `nd` at token depth `depth` -/
def consults (cfg : Cfg) (g : Heap) (nd : Node) (depth : Nat) : Bool :=
  nd.kind.tracked && (decide (cfg.after < depth) || (cfg.trackPtrLike && pointsToPtrLike g nd))

/-- `marshal cfg g fuel depth seen n`: marshal node `n` with `Tokens.Depth() = depth` and the visited set
`seen` (`xe.SeenPointers`; entries are removed on the way back, so passing it down is exact). -/
def marshal (cfg : Cfg) (g : Heap) : Nat → Nat → List Nat → Nat → Res
  | 0, _, _, _ => .outOfFuel
  | fuel + 1, depth, seen, n =>
    match g[n]? with
    | none => .dangling
    | some nd =>
      if consults cfg g nd depth ∧ n ∈ seen then .cycle
      else
        let seen' := if consults cfg g nd depth then n :: seen else seen
        if nd.kind = .scalar then .ok
        else if nd.kind.deepens then
          -- `[]` / `{}` shortcut for empty slices and maps: no token, hence no depth test of its own
          if cfg.shortcut nd.kind ∧ nd.succ = [] ∧ ¬ (cfg.guarded nd.kind ∧ depth = cfg.max + 1) then .ok
          -- WriteToken(BeginArray/BeginObject): errMaxDepth iff len(Stack) == max
          else if depth = cfg.max + 1 then .maxDepth
          else seqRes (fun c => marshal cfg g fuel (depth + 1) seen' c) nd.succ
        else if nd.kind = .iface ∧ nd.succ.any (isIface g) then .dangling
        else
          -- pointer / interface: same token depth
          seqRes (fun c => marshal cfg g fuel depth seen' c) nd.succ

/-- `type P *P; p = &p`: one pointer node whose target is itself. -/
def selfPtr : Heap := [{ kind := .ptr, succ := [0] }]

/-- `var x any; x = &x`: an interface holding a pointer to itself. -/
def selfIface : Heap := [{ kind := .iface, succ := [1] }, { kind := .ptr, succ := [0] }]

/-- `s := []any{nil}; s[0] = s`: slice → interface → the same slice. -/
def selfSlice : Heap := [{ kind := .slice, succ := [1] }, { kind := .iface, succ := [0] }]

end JsonV.Model.Cycle
