/-
C20 — heap-graph model of Go values and of the marshal traversal with the cycle detection
**as implemented** (arshal_default.go:50-77, 797, 1477, 1727; arshal_any.go:110, 226).

A Go value is a node of a finite graph; edges go from a pointer to its target, from an interface
to its dynamic value, from a slice/array/map/struct to its elements.  The traversal mirrors:

* `Tokens.Depth()` grows by one exactly when a slice, array, map or struct is entered
  (WriteToken BeginArray/BeginObject, refused with errMaxDepth when `len(Stack) == maxNestingDepth`,
  i.e. when `Depth() == max+1`); a pointer or interface hop does **not** change it;
* `visitPointer` is consulted by the pointer, slice and map arshalers only — and only when
  `Tokens.Depth() > startDetectingCyclesAfter`;  struct, array and interface arshalers never
  consult it;
* an empty (or nil) slice/map is written by the `[]`/`{}` shortcut without WriteToken, hence
  without the depth test (arshal_default.go:827, 1507; arshal_any.go:123, 239).

The result is a value-or-error; `outOfFuel` stands for "the real code is still recursing".
Core Lean only.
-/
import JsonV.Model.Basic

namespace JsonV.Model.Cycle

inductive Kind where
  | scalar | ptr | iface | slice | map | array | struct
deriving DecidableEq, Repr, Inhabited

/-- does entering a value of this kind write a BeginArray/BeginObject token -/
def Kind.deepens : Kind → Bool
  | .slice | .map | .array | .struct => true
  | _ => false

/-- does the arshaler of this kind call visitPointer (when past the threshold) -/
def Kind.tracked : Kind → Bool
  | .ptr | .slice | .map => true
  | _ => false

structure Node where
  kind : Kind
  succ : List Nat   -- ptr/iface: [] = nil, [t] = target;  containers: the elements in order
deriving Repr, Inhabited

/-- A heap is a finite list of nodes; node ids are indices. -/
abbrev Heap := List Node

inductive Res where
  | ok          -- JSON written
  | cycle       -- internal.ErrCycle
  | maxDepth    -- errMaxDepth
  | dangling    -- edge to a node that does not exist (not a Go value)
  | outOfFuel   -- still recursing
deriving DecidableEq, Repr, Inhabited

/-- first non-ok result, in element order (an error aborts the marshal call). -/
def seqRes (f : Nat → Res) : List Nat → Res
  | [] => .ok
  | c :: cs => match f c with
    | .ok => seqRes f cs
    | e => e

/-- `marshal g max after fuel depth seen n`: marshal node `n` with `Tokens.Depth() = depth` and the
visited set `seen` (`xe.SeenPointers`; entries are removed on the way back, so passing it down is exact). -/
def marshal (g : Heap) (max after : Nat) : Nat → Nat → List Nat → Nat → Res
  | 0, _, _, _ => .outOfFuel
  | fuel + 1, depth, seen, n =>
    match g[n]? with
    | none => .dangling
    | some nd =>
      -- `if xe.Tokens.Depth() > startDetectingCyclesAfter { visitPointer … }`
      if nd.kind.tracked ∧ after < depth ∧ n ∈ seen then .cycle
      else
        let seen' := if nd.kind.tracked ∧ after < depth then n :: seen else seen
        if nd.kind = .scalar then .ok
        else if nd.kind.deepens then
          -- `[]` / `{}` shortcut for empty slices and maps: no token, no depth test
          if (nd.kind = .slice ∨ nd.kind = .map) ∧ nd.succ = [] then .ok
          -- WriteToken(BeginArray/BeginObject): errMaxDepth iff len(Stack) == max
          else if depth = max + 1 then .maxDepth
          else seqRes (fun c => marshal g max after fuel (depth + 1) seen' c) nd.succ
        else
          -- pointer / interface: same token depth
          seqRes (fun c => marshal g max after fuel depth seen' c) nd.succ

/-- `type P *P; p = &p`: one pointer node whose target is itself. -/
def selfPtr : Heap := [{ kind := .ptr, succ := [0] }]

/-- `var x any; x = &x`: an interface holding a pointer to itself. -/
def selfIface : Heap := [{ kind := .iface, succ := [1] }, { kind := .ptr, succ := [0] }]

/-- `s := []any{nil}; s[0] = s`: slice → interface → the same slice. -/
def selfSlice : Heap := [{ kind := .slice, succ := [1] }, { kind := .iface, succ := [0] }]

end JsonV.Model.Cycle
