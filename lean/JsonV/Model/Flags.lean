/-
Hand-written model of `internal/jsonflags.Flags` (flags.go:164-223) and of
`internal/jsonopts.Struct.Join` / `GetOption` (options.go:72-186), plus the option
injections of package json (options.go:258-287).

Core Lean only (imported by the oracle).
-/
namespace JsonV.Model

/-- `jsonflags.Flags`: presence and value bit sets; bit 0 is reserved. -/
structure Flags where
  presence : BitVec 64
  values   : BitVec 64
deriving DecidableEq, Repr, Inhabited

namespace Flags

def empty : Flags := ⟨0#64, 0#64⟩

/-- flags.go:176 `Join`: the latter takes precedence. -/
def join (dst src : Flags) : Flags :=
  ⟨dst.presence ||| src.presence, (dst.values &&& ~~~src.presence) ||| src.values⟩

/-- flags.go:188 `Set` of a `Bools` word: identifier bits are all bits but the LSB,
the LSB is the common value. -/
def idBits (f : BitVec 64) : BitVec 64 := f &&& ~~~(1#64)

def set (fs : Flags) (f : BitVec 64) : Flags :=
  let id := idBits f
  ⟨fs.presence ||| id, (fs.values &&& ~~~id) ||| (if f.getLsbD 0 then id else 0#64)⟩

/-- flags.go:204 `Get`. -/
def get (fs : Flags) (f : BitVec 64) : Bool := (fs.values &&& f) != 0#64

/-- flags.go:210 `Has`. -/
def has (fs : Flags) (f : BitVec 64) : Bool := (fs.presence &&& f) != 0#64

/-- flags.go:216 `Clear`. -/
def clear (fs : Flags) (f : BitVec 64) : Flags :=
  ⟨fs.presence &&& ~~~f, fs.values &&& ~~~f⟩

/-- Well-formedness documented at flags.go:160-162. -/
def WF (fs : Flags) : Prop :=
  fs.values &&& ~~~fs.presence = 0#64 ∧ fs.presence.getLsbD 0 = false

instance (fs : Flags) : Decidable fs.WF := by unfold WF; infer_instance

/-- Abstract reading: a partial map from flag index to value. -/
def lookup (fs : Flags) (i : Nat) : Option Bool :=
  if fs.presence.getLsbD i then some (fs.values.getLsbD i) else none

end Flags

/-- A single flag identifier: exactly bit `i` (1 ≤ i < 64) set. -/
def flagBit (i : Nat) : BitVec 64 := 1#64 <<< i

end JsonV.Model
