/-
C19 "noninterf": the option records of the behavioural models as PROJECTIONS of the one option struct
(`jsonopts.Struct`), and the flag mask each projection reads.  The models themselves take these records as parameters
(see the comments on the record fields in Model/Encoder, Validate, Quote, Format, FormatStrict, Marshal, Unmarshal, Fold);
which flag feeds which field is taken from those comments.
-/
import JsonV.Model.Opts
import JsonV.Model.Encoder
import JsonV.Model.Validate
import JsonV.Model.Quote
import JsonV.Model.Format
import JsonV.Model.FormatStrict
import JsonV.Model.Marshal
import JsonV.Model.Unmarshal
import JsonV.Model.Fold

namespace JsonV.Model.OptProj
open JsonV.Model JsonV.Gen

namespace B
def allowDup := bv jsonflags.c_AllowDuplicateNames
def allowInvalidUTF8 := bv jsonflags.c_AllowInvalidUTF8
def preserve := bv jsonflags.c_PreserveRawStrings
def html := bv jsonflags.c_EscapeForHTML
def js := bv jsonflags.c_EscapeForJS
def multiline := bv jsonflags.c_Multiline
def spColon := bv jsonflags.c_SpaceAfterColon
def spComma := bv jsonflags.c_SpaceAfterComma
def indent := bv jsonflags.c_Indent
def indentPrefix := bv jsonflags.c_IndentPrefix
def nilSlice := bv jsonflags.c_FormatNilSliceAsNull
def nilMap := bv jsonflags.c_FormatNilMapAsNull
def arrayAnyLen := bv jsonflags.c_UnmarshalArrayFromAnyLength
def caseInsensitive := bv jsonflags.c_MatchCaseInsensitiveNames
def caseSensitiveDelim := bv jsonflags.c_MatchCaseSensitiveDelimiter
def legacyErrors := bv jsonflags.c_ReportErrorsWithLegacySemantics
end B

/-- jsontext.Encoder (Model/Encoder.lean, C02/C06/C07). -/
def encoder (s : Struct) : Encoder.Opts :=
  { allowDup := s.flags.get B.allowDup, allowInvalidUTF8 := s.flags.get B.allowInvalidUTF8,
    multiline := s.flags.get B.multiline, spaceAfterColon := s.flags.get B.spColon, spaceAfterComma := s.flags.get B.spComma,
    escHTML := s.flags.get B.html, escJS := s.flags.get B.js, indent := s.indent, indentPrefix := s.indentPrefix }
def encoderMask : BitVec 64 :=
  B.allowDup ||| B.allowInvalidUTF8 ||| B.multiline ||| B.spColon ||| B.spComma ||| B.html ||| B.js ||| B.indent ||| B.indentPrefix

/-- jsontext.Decoder / Value.IsValid (Model/Validate.lean, WireDecode; C01/C05/C08). -/
def decoder (s : Struct) : Validate.VOpts := ⟨s.flags.get B.allowInvalidUTF8, s.flags.get B.allowDup⟩
def decoderMask : BitVec 64 := B.allowInvalidUTF8 ||| B.allowDup

/-- jsonwire.AppendQuote / ReformatString (Model/Quote.lean, C11). -/
def quote (s : Struct) : Quote.QFlags :=
  ⟨s.flags.get B.html, s.flags.get B.js, s.flags.get B.allowInvalidUTF8, s.flags.get B.preserve⟩
def quoteMask : BitVec 64 := B.html ||| B.js ||| B.allowInvalidUTF8 ||| B.preserve

/-- Value.Format (Model/Format.lean, FormatStrict.lean; C12). -/
def ws (s : Struct) : Fmt.WsOpts :=
  ⟨s.indentPrefix, s.indent, s.flags.get B.multiline, s.flags.get B.spColon, s.flags.get B.spComma⟩
def format (s : Struct) : Fmt.FOpts :=
  { allowInvalidUTF8 := s.flags.get B.allowInvalidUTF8, allowDup := s.flags.get B.allowDup, preserve := s.flags.get B.preserve,
    html := s.flags.get B.html, js := s.flags.get B.js, ws := ws s }
def formatMask : BitVec 64 :=
  B.allowInvalidUTF8 ||| B.allowDup ||| B.preserve ||| B.html ||| B.js ||| B.multiline ||| B.spColon ||| B.spComma ||| B.indent ||| B.indentPrefix

/-- json.Marshal on the modelled universe (Model/Marshal.lean, C04). -/
def marshal (s : Struct) : MOpts := ⟨s.flags.get B.nilSlice, s.flags.get B.nilMap⟩
def marshalMask : BitVec 64 := B.nilSlice ||| B.nilMap

/-- json.Unmarshal on the modelled universe (Model/Unmarshal.lean, C14). -/
def unmarshal (s : Struct) : UOpts := ⟨s.flags.get B.arrayAnyLen, s.flags.get B.allowDup⟩
def unmarshalMask : BitVec 64 := B.arrayAnyLen ||| B.allowDup

/-- field-name matching (Model/Fold.lean, C15). -/
def matching (s : Struct) : Fold.MatchFlags :=
  ⟨s.flags.get B.caseInsensitive, s.flags.get B.caseSensitiveDelim, s.flags.get B.legacyErrors⟩
def matchingMask : BitVec 64 := B.caseInsensitive ||| B.caseSensitiveDelim ||| B.legacyErrors

/-- Two option structs agree on the flag VALUES in `m` and on the value slots guarded by flags in `m`. -/
def AgreeOn (m : BitVec 64) (s s' : Struct) : Prop :=
  s.flags.values &&& m = s'.flags.values &&& m ∧
  (m &&& B.indent ≠ 0#64 → s.indent = s'.indent) ∧ (m &&& B.indentPrefix ≠ 0#64 → s.indentPrefix = s'.indentPrefix)

end JsonV.Model.OptProj
