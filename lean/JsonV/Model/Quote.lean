/-
Model of the string quoting / unquoting code of `/repo/internal/jsonwire`:

  encode.go:  escapeASCII (table, regenerated: `JsonV.Gen.jsonwire_escapeASCII`), NeedEscape, AppendQuote,
              appendEscapedASCII, appendEscapedUnicode, appendEscapedUTF16, ReformatString
  decode.go:  AppendUnquote, parseHexUint16, hasEscapedUTF16Prefix, and (self-contained, for ReformatString)
              ConsumeString with its `stringNonCanonical` value flag.

Conventions.  Every Go loop is modelled *per iteration*: a non-recursive `…Step` function says what one
iteration of the loop emits and how many input bytes it consumes, and a `…Loop` function iterates it.  The Go
code keeps a pending copy span (`i`/`n`, `lastAppendIndex`) and flushes it lazily; the model emits each
character when it is consumed, which yields the same output bytes (tied by the correspondence check, family
`quote`).  Errors are a small enum, never message text.  The two `panic("BUG: unhandled character")` default
branches are kept as the explicit result `Err.bug` (proved unreachable in Props/C11).  Core Lean only.
-/
import JsonV.Model.Utf8
import JsonV.Gen.Tables

namespace JsonV.Model.Quote
open JsonV JsonV.Model.Utf8

/-- Error classes of the jsonwire string functions. -/
inductive Err where
  | ok
  | invalidUTF8      -- jsonwire.ErrInvalidUTF8
  | invalidChar      -- NewInvalidCharacterError
  | invalidEscape    -- NewInvalidEscapeSequenceError ("escape sequence" and "surrogate pair")
  | unexpectedEOF    -- io.ErrUnexpectedEOF
  | bug              -- the `panic("BUG: unhandled character")` default branches
  deriving DecidableEq, Repr, Inhabited

/-- The flags the string functions read. -/
structure QFlags where
  html : Bool := false          -- jsonflags.EscapeForHTML
  js : Bool := false            -- jsonflags.EscapeForJS
  allowInvalid : Bool := false  -- jsonflags.AllowInvalidUTF8
  preserve : Bool := false      -- jsonflags.PreserveRawStrings
  deriving DecidableEq, Repr, Inhabited

/-! ### Facts about `Utf8.decodeRune` needed for termination -/

theorem decodeRune_pos (c : UInt8) (t : Bytes) : 1 ≤ (decodeRune (c :: t)).2 := by
  simp only [decodeRune]
  repeat' split
  all_goals simp

theorem decodeRune_le (p : Bytes) : (decodeRune p).2 ≤ p.length := by
  cases p with
  | nil => simp [decodeRune]
  | cons b0 r0 =>
    simp only [decodeRune]
    repeat' split
    all_goals simp

/-! ### encode.go -/

/-- `escapeASCII[c]` (only ever indexed with `c < utf8.RuneSelf`). -/
def escapeASCII (c : Nat) : Nat := JsonV.Gen.jsonwire_escapeASCII.getD c 0

/-- `NeedEscape` (encode.go:35). -/
def needEscape : Bytes → Bool
  | [] => false
  | c :: t =>
    if c.toNat < runeSelf then
      if escapeASCII c.toNat > 0 then true else needEscape t
    else
      let d := decodeRune (c :: t)
      if d.1 = runeError ∨ d.1 = 0x2028 ∨ d.1 = 0x2029 then true
      else needEscape ((c :: t).drop d.2)
termination_by s => s.length
decreasing_by
  · simp
  · have := decodeRune_pos c t
    simp only [List.length_drop, List.length_cons]; omega

def hexLower (n : Nat) : UInt8 := if n < 10 then UInt8.ofNat (48 + n) else UInt8.ofNat (87 + n)

/-- `appendEscapedUTF16(dst, x)` for a `uint16` x: the six bytes `\uXXXX`, lower-case hex. -/
def appendEscapedUTF16 (x : Nat) : Bytes :=
  [0x5c, 0x75, hexLower ((x >>> 12) % 16), hexLower ((x >>> 8) % 16), hexLower ((x >>> 4) % 16), hexLower (x % 16)]

/-- `appendEscapedASCII(dst, c)`. -/
def appendEscapedASCII (c : Nat) : Bytes :=
  if c = 0x22 ∨ c = 0x5c then [0x5c, UInt8.ofNat c]
  else if c = 0x08 then [0x5c, 0x62]
  else if c = 0x0c then [0x5c, 0x66]
  else if c = 0x0a then [0x5c, 0x6e]
  else if c = 0x0d then [0x5c, 0x72]
  else if c = 0x09 then [0x5c, 0x74]
  else appendEscapedUTF16 c

/-- `appendEscapedUnicode(dst, r)`; `uint16(r)` truncates. -/
def appendEscapedUnicode (r : Nat) : Bytes :=
  let p := utf16EncodeRune r
  if p.1 ≠ runeError ∧ p.2 ≠ runeError then appendEscapedUTF16 p.1 ++ appendEscapedUTF16 p.2
  else appendEscapedUTF16 (r % 65536)

/-- `isInvalidUTF8(r, rn)` (wire.go:207). -/
def isInvalidUTF8 (r rn : Nat) : Bool := r = runeError && rn = 1

def utf8FFFD : Bytes := [0xEF, 0xBF, 0xBD]

def isHTMLChar (c : Nat) : Bool := c = 0x3c || c = 0x3e || c = 0x26

/-- One iteration of the `AppendQuote` loop on the non-empty input `c :: t`:
(bytes this character contributes to the output, input bytes consumed, hasInvalidUTF8 set). -/
def quoteStep (html js : Bool) (c : UInt8) (t : Bytes) : Bytes × Nat × Bool :=
  if c.toNat < runeSelf then
    if escapeASCII c.toNat = 0 then ([c], 1, false)
    else if !(isHTMLChar c.toNat) || html then (appendEscapedASCII c.toNat, 1, false)
    else ([c], 1, false)
  else
    let d := decodeRune (c :: t)
    if d.1 ≠ runeError ∧ d.1 ≠ 0x2028 ∧ d.1 ≠ 0x2029 then ((c :: t).take d.2, d.2, false)
    else if isInvalidUTF8 d.1 d.2 then (utf8FFFD, d.2, true)
    else if (d.1 = 0x2028 ∨ d.1 = 0x2029) ∧ js then (appendEscapedUnicode d.1, d.2, false)
    else ((c :: t).take d.2, d.2, false)

theorem quoteStep_pos (html js : Bool) (c : UInt8) (t : Bytes) : 1 ≤ (quoteStep html js c t).2.1 := by
  have := decodeRune_pos c t
  simp only [quoteStep]
  repeat' split
  all_goals first | exact this | simp

/-- The `AppendQuote` loop: (output between the quotes, hasInvalidUTF8). -/
def quoteLoop (html js : Bool) : Bytes → Bytes × Bool
  | [] => ([], false)
  | c :: t =>
    let s := quoteStep html js c t
    let r := quoteLoop html js ((c :: t).drop s.2.1)
    (s.1 ++ r.1, s.2.2 || r.2)
termination_by s => s.length
decreasing_by
  have := quoteStep_pos html js c t
  simp only [List.length_drop, List.length_cons]; omega

/-- `AppendQuote(nil, src, flags)` (encode.go:65). -/
def appendQuote (f : QFlags) (src : Bytes) : Bytes × Err :=
  let r := quoteLoop f.html f.js src
  (0x22 :: (r.1 ++ [0x22]), if r.2 && !f.allowInvalid then Err.invalidUTF8 else Err.ok)

/-! ### decode.go helpers -/

def hexVal (c : Nat) : Option Nat :=
  if 0x30 ≤ c ∧ c ≤ 0x39 then some (c - 0x30)
  else if 0x61 ≤ c ∧ c ≤ 0x66 then some (10 + c - 0x61)
  else if 0x41 ≤ c ∧ c ≤ 0x46 then some (10 + c - 0x41)
  else none

/-- `parseHexUint16` (decode.go:568): exactly four hex digits. -/
def parseHexUint16 (b : Bytes) : Option Nat :=
  match b with
  | [a, b, c, d] =>
    match hexVal a.toNat, hexVal b.toNat, hexVal c.toNat, hexVal d.toNat with
    | some a, some b, some c, some d => some (((a * 16 + b) * 16 + c) * 16 + d)
    | _, _, _, _ => none
  | _ => none

def isHexDigit (c : Nat) : Bool := (hexVal c).isSome

/-- Loop body of `hasEscapedUTF16Prefix` (decode.go:390) from index `i`. -/
def hasEscapedUTF16PrefixAux (lower : Bool) : Nat → Bytes → Bool
  | _, [] => true
  | i, c :: t =>
    let c := c.toNat
    if i = 0 ∧ c ≠ 0x5c then false
    else if i = 1 ∧ c ≠ 0x75 then false
    else if i = 2 ∧ lower ∧ c ≠ 0x64 ∧ c ≠ 0x44 then false
    else if i = 3 ∧ lower ∧ ¬(0x63 ≤ c ∧ c ≤ 0x66) ∧ ¬(0x43 ≤ c ∧ c ≤ 0x46) then false
    else if i ≥ 2 ∧ i < 6 ∧ !isHexDigit c then false
    else hasEscapedUTF16PrefixAux lower (i + 1) t

def hasEscapedUTF16Prefix (b : Bytes) (lower : Bool) : Bool := hasEscapedUTF16PrefixAux lower 0 b

/-- `noEscape` closure of AppendUnquote / ConsumeString. -/
def noEscape (c : Nat) : Bool := c < runeSelf && 0x20 ≤ c && c ≠ 0x5c && c ≠ 0x22

/-! ### AppendUnquote (decode.go:257) -/

/-- Effect of one loop iteration. -/
inductive Step where
  /-- append `out`, advance `k` input bytes, optionally assign the named result `err`, continue -/
  | cont (out : Bytes) (k : Nat) (err : Option Err)
  /-- append `out` and return; `none` returns the pending `err` -/
  | stop (out : Bytes) (err : Option Err)
  deriving Repr

/-- Second half of a surrogate pair: `v1` is the (surrogate) value of the first `\uXXXX`, `rest` is the input
after it (`src[n:]` once `n += 6`).  The replacement character is appended unless the pair decodes. -/
def unqSurrogate (v1 : Nat) (rest : Bytes) : Step :=
  match rest with
  | b0 :: b1 :: h1 :: h2 :: h3 :: h4 :: _ =>
    match parseHexUint16 [h1, h2, h3, h4] with
    | some v2 =>
      if b0 ≠ 0x5c ∨ b1 ≠ 0x75 then .cont (encodeRune runeError) 6 (some .invalidEscape)
      else if utf16DecodeRune v1 v2 = runeError then .cont (encodeRune runeError) 6 (some .invalidEscape)
      else .cont (encodeRune (utf16DecodeRune v1 v2)) 12 none
    | none => .cont (encodeRune runeError) 6 (some .invalidEscape)
  | _ =>  -- len(src) < n+6
    if hasEscapedUTF16Prefix rest true then .stop (encodeRune runeError) (some .unexpectedEOF)
    else .cont (encodeRune runeError) 6 (some .invalidEscape)

/-- The `case 'u'` arm; `src` starts with `\u`. -/
def unqEscapeU (src : Bytes) : Step :=
  match src with
  | _ :: _ :: h1 :: h2 :: h3 :: h4 :: rest =>
    match parseHexUint16 [h1, h2, h3, h4] with
    | none => .stop [] (some .invalidEscape)
    | some v1 => if isSurrogate v1 then unqSurrogate v1 rest else .cont (encodeRune v1) 6 none
  | _ =>  -- len(src) < n+6
    if hasEscapedUTF16Prefix src false then .stop [] (some .unexpectedEOF) else .stop [] (some .invalidEscape)

/-- The `case r == '\\'` arm; `src` starts with the backslash. -/
def unqEscape (src : Bytes) : Step :=
  match src with
  | [] | [_] => .stop [] (some .unexpectedEOF)
  | _ :: c1 :: _ =>
    let e := c1.toNat
    if e = 0x22 ∨ e = 0x5c ∨ e = 0x2f then .cont [c1] 2 none
    else if e = 0x62 then .cont [0x08] 2 none
    else if e = 0x66 then .cont [0x0c] 2 none
    else if e = 0x6e then .cont [0x0a] 2 none
    else if e = 0x72 then .cont [0x0d] 2 none
    else if e = 0x74 then .cont [0x09] 2 none
    else if e = 0x75 then unqEscapeU src
    else .stop [] (some .invalidEscape)

/-- One iteration of the main loop of `AppendUnquote` at the remaining input `src`
(the inner `noEscape` loop is unrolled one byte per iteration). -/
def unqStep (src : Bytes) : Step :=
  match src with
  | [] => .stop [] (some .unexpectedEOF)
  | c :: t =>
    if noEscape c.toNat then .cont [c] 1 none
    else if c = 0x22 then .stop [] (if t.isEmpty then none else some .invalidChar)
    else
      let d := decodeRune src
      if d.2 > 1 then .cont (src.take d.2) d.2 none
      else if d.1 = 0x5c then unqEscape src
      else if d.1 = runeError then
        if !fullRune src then .stop [] (some .unexpectedEOF)
        else .cont utf8FFFD d.2 (some .invalidUTF8)
      else if d.1 < 0x20 then .stop [] (some .invalidChar)
      else .stop [] (some .bug)

theorem unqSurrogate_cont_pos {v1 rest o k e} (h : unqSurrogate v1 rest = .cont o k e) : 1 ≤ k := by
  simp only [unqSurrogate] at h
  repeat' split at h
  all_goals first | (cases h; omega) | cases h

theorem unqEscapeU_cont_pos {src o k e} (h : unqEscapeU src = .cont o k e) : 1 ≤ k := by
  simp only [unqEscapeU] at h
  repeat' split at h
  all_goals first | (cases h; omega) | cases h | exact unqSurrogate_cont_pos h

theorem unqEscape_cont_pos {src o k e} (h : unqEscape src = .cont o k e) : 1 ≤ k := by
  simp only [unqEscape] at h
  repeat' split at h
  all_goals first | (cases h; omega) | cases h | exact unqEscapeU_cont_pos h

theorem unqStep_cont_pos {src o k e} (h : unqStep src = .cont o k e) : 1 ≤ k ∧ src ≠ [] := by
  cases src with
  | nil => simp [unqStep] at h
  | cons c t =>
    refine ⟨?_, by simp⟩
    have hp := decodeRune_pos c t
    simp only [unqStep] at h
    repeat' split at h
    all_goals first | (cases h; omega) | cases h | exact unqEscape_cont_pos h

/-- The main loop of `AppendUnquote`; `err` is the pending value of the named result. -/
def unqLoop (src : Bytes) (err : Err) : Bytes × Err :=
  match h : unqStep src with
  | .stop o e => (o, e.getD err)
  | .cont o k e =>
    let r := unqLoop (src.drop k) (e.getD err)
    (o ++ r.1, r.2)
termination_by src.length
decreasing_by
  have := unqStep_cont_pos h
  have : src.length ≠ 0 := by simpa using this.2
  simp only [List.length_drop]; omega

/-- `AppendUnquote(nil, src)`. -/
def appendUnquote (src : Bytes) : Bytes × Err :=
  match src with
  | [] => ([], .unexpectedEOF)
  | c :: t => if c = 0x22 then unqLoop t .ok else ([], .invalidChar)

/-! ### ConsumeString (decode.go:117), for ReformatString -/

inductive CStep where
  /-- advance `k` bytes; `nc` = this iteration joins stringNonCanonical -/
  | cont (k : Nat) (nc : Bool)
  /-- return (n + off, err) -/
  | stop (off : Nat) (err : Err) (nc : Bool)
  deriving Repr

def hasUpperHex (b : Bytes) : Bool := b.any (fun c => 0x41 ≤ c.toNat && c.toNat ≤ 0x46)

/-- `\uXXXX` canonical-form test on the first escape (RFC 8785 §3.2.2.2). -/
def escNonCanon (v1 : Nat) (digits : Bytes) : Bool :=
  if v1 = 0x08 ∨ v1 = 0x0c ∨ v1 = 0x0a ∨ v1 = 0x0d ∨ v1 = 0x09 then true
  else if v1 ≥ 0x20 then true
  else hasUpperHex digits

/-- Second half of a surrogate pair under validateUTF8 (`n` already advanced by 6; errors report `n-6`,
i.e. offset 0 of this iteration). -/
def csSurrogate (v1 : Nat) (nc : Bool) (rest : Bytes) : CStep :=
  match rest with
  | b0 :: b1 :: h1 :: h2 :: h3 :: h4 :: _ =>
    match parseHexUint16 [h1, h2, h3, h4] with
    | some v2 =>
      if b0 ≠ 0x5c ∨ b1 ≠ 0x75 then .stop 0 .invalidEscape true
      else if utf16DecodeRune v1 v2 = runeError then .stop 0 .invalidEscape true
      else .cont 12 nc
    | none => .stop 0 .invalidEscape true
  | _ =>
    if hasEscapedUTF16Prefix rest true then .stop 0 .unexpectedEOF nc else .stop 0 .invalidEscape true

def csEscapeU (validate : Bool) (src : Bytes) : CStep :=
  match src with
  | _ :: _ :: h1 :: h2 :: h3 :: h4 :: rest =>
    match parseHexUint16 [h1, h2, h3, h4] with
    | none => .stop 0 .invalidEscape true
    | some v1 =>
      let nc := escNonCanon v1 [h1, h2, h3, h4]
      if validate && isSurrogate v1 then csSurrogate v1 nc rest else .cont 6 nc
  | _ =>
    if hasEscapedUTF16Prefix src false then .stop 0 .unexpectedEOF false else .stop 0 .invalidEscape true

def csEscape (validate : Bool) (src : Bytes) : CStep :=
  match src with
  | [] | [_] => .stop 0 .unexpectedEOF false
  | _ :: c1 :: _ =>
    let e := c1.toNat
    if e = 0x2f then .cont 2 true
    else if e = 0x22 ∨ e = 0x5c ∨ e = 0x62 ∨ e = 0x66 ∨ e = 0x6e ∨ e = 0x72 ∨ e = 0x74 then .cont 2 false
    else if e = 0x75 then csEscapeU validate src
    else .stop 0 .invalidEscape true

def csStep (validate : Bool) (src : Bytes) : CStep :=
  match src with
  | [] => .stop 0 .unexpectedEOF false
  | c :: _ =>
    if noEscape c.toNat then .cont 1 false
    else if c = 0x22 then .stop 1 .ok false
    else
      let d := decodeRune src
      if d.2 > 1 then .cont d.2 false
      else if d.1 = 0x5c then csEscape validate src
      else if d.1 = runeError then
        if !fullRune src then .stop 0 .unexpectedEOF false
        else if validate then .stop 0 .invalidUTF8 true
        else .cont 1 true
      else if d.1 < 0x20 then .stop 0 .invalidChar true
      else .stop 0 .bug false

theorem csSurrogate_cont_pos {v1 nc0 rest k nc} (h : csSurrogate v1 nc0 rest = .cont k nc) : 1 ≤ k := by
  simp only [csSurrogate] at h
  repeat' split at h
  all_goals first | (cases h; omega) | cases h

theorem csEscapeU_cont_pos {v src k nc} (h : csEscapeU v src = .cont k nc) : 1 ≤ k := by
  simp only [csEscapeU] at h
  repeat' split at h
  all_goals first | (cases h; omega) | cases h | exact csSurrogate_cont_pos h

theorem csEscape_cont_pos {v src k nc} (h : csEscape v src = .cont k nc) : 1 ≤ k := by
  simp only [csEscape] at h
  repeat' split at h
  all_goals first | (cases h; omega) | cases h | exact csEscapeU_cont_pos h

theorem csStep_cont_pos {v src k nc} (h : csStep v src = .cont k nc) : 1 ≤ k ∧ src ≠ [] := by
  cases src with
  | nil => simp [csStep] at h
  | cons c t =>
    refine ⟨?_, by simp⟩
    have hp := decodeRune_pos c t
    simp only [csStep] at h
    repeat' split at h
    all_goals first | (cases h; omega) | cases h | exact csEscape_cont_pos h

/-- Main loop of ConsumeString at offset `n`: (n, err, nonCanonical). -/
def csLoop (validate : Bool) (src : Bytes) (n : Nat) (nc : Bool) : Nat × Err × Bool :=
  match h : csStep validate src with
  | .stop off e nc' => (n + off, e, nc || nc')
  | .cont k nc' => csLoop validate (src.drop k) (n + k) (nc || nc')
termination_by src.length
decreasing_by
  have := csStep_cont_pos h
  have : src.length ≠ 0 := by simpa using this.2
  simp only [List.length_drop]; omega

/-- `ConsumeString(&flags, b, validateUTF8)`: (n, err, flags has stringNonCanonical). -/
def consumeString (validate : Bool) (b : Bytes) : Nat × Err × Bool :=
  match b with
  | [] => (0, .unexpectedEOF, false)
  | c :: t => if c = 0x22 then csLoop validate t 1 false else (0, .invalidChar, false)

/-! ### ReformatString (encode.go:150) -/

/-- One iteration of the PreserveRawStrings loop at `c :: t`: (`some` escape emitted instead of the
character | `none` = the character stays in the pending verbatim span, input bytes consumed). -/
def preserveStep (html js : Bool) (c : UInt8) (t : Bytes) : Option Bytes × Nat :=
  if c.toNat < runeSelf then
    if isHTMLChar c.toNat && html then (some (appendEscapedASCII c.toNat), 1) else (none, 1)
  else
    let d := decodeRune (c :: t)
    if (d.1 = 0x2028 ∨ d.1 = 0x2029) ∧ js then (some (appendEscapedUnicode d.1), d.2)
    else (none, d.2)

theorem preserveStep_pos (html js : Bool) (c : UInt8) (t : Bytes) : 1 ≤ (preserveStep html js c t).2 := by
  have := decodeRune_pos c t
  simp only [preserveStep]
  repeat' split
  all_goals first | exact this | simp

/-- The PreserveRawStrings loop over `src[i:n]` with `k = n - i` bytes left; the second argument is `src[i:]`
(the code decodes `src[i:]`, not `src[i:n]`).  A rune never straddles `n` because `src[n-1]` is the closing
quote; the verbatim copy `src[lastAppendIndex:n]` stops at `n` in any case (hence `min`). -/
def preserveLoop (html js : Bool) : Nat → Bytes → Bytes
  | 0, _ => []
  | _, [] => []
  | k + 1, c :: t =>
    let s := preserveStep html js c t
    (match s.1 with
     | some esc => esc
     | none => (c :: t).take (min s.2 (k + 1))) ++
      preserveLoop html js (k + 1 - s.2) ((c :: t).drop s.2)
termination_by k _ => k
decreasing_by
  have := preserveStep_pos html js c t
  omega

/-- `ReformatString(nil, src, flags)`: (output, n, err). -/
def reformatString (f : QFlags) (src : Bytes) : Bytes × Nat × Err :=
  let cs := consumeString (!f.allowInvalid) src
  if cs.2.1 ≠ .ok then ([], cs.1, cs.2.1)
  else
    let n := cs.1
    if !(f.html || f.js) && (!cs.2.2 || f.preserve) then (src.take n, n, .ok)
    else if f.preserve then (preserveLoop f.html f.js n src, n, .ok)
    else
      let b := (appendUnquote (src.take n)).1
      ((appendQuote f b).1, n, .ok)

end JsonV.Model.Quote

/-! ### AppendQuote with the copy-span bookkeeping of the Go code (`i`, `n`)

`appendQuote` above emits every character when it is consumed.  The Go loop instead keeps a pending span
`src[i:n]` and flushes it (`dst = append(dst, src[i:n-…]...)`) only in front of an escape and at the end.
`quoteIdxLoop` is that loop written literally with the indices; `Props/C11.quote_copy_span` proves both equal. -/

namespace JsonV.Model.Quote
open JsonV JsonV.Model.Utf8

/-- `src[i:n]` -/
def slice (src : Bytes) (i n : Nat) : Bytes := (src.drop i).take (n - i)

/-- The `for uint(len(src)) > uint(n)` loop of AppendQuote with its variables `i`, `n`, `dst`, `hasInvalidUTF8`.
Fuel: every iteration advances `n`, so `len(src) - n` iterations suffice (the equality theorem shows it does). -/
def quoteIdxLoop (html js : Bool) (src : Bytes) : Nat → Nat → Nat → Bytes → Bool → Bytes × Bool
  | 0, i, n, dst, inv => (dst ++ slice src i n, inv)
  | fuel + 1, i, n, dst, inv =>
    match src.drop n with
    | [] => (dst ++ slice src i n, inv)                      -- loop exit, `dst = append(dst, src[i:n]...)`
    | c :: t =>
      if c.toNat < runeSelf then
        let n := n + 1
        if escapeASCII c.toNat = 0 then quoteIdxLoop html js src fuel i n dst inv
        else if !(isHTMLChar c.toNat) || html then
          quoteIdxLoop html js src fuel n n (dst ++ slice src i (n - 1) ++ appendEscapedASCII c.toNat) inv
        else quoteIdxLoop html js src fuel i n dst inv
      else
        let d := decodeRune (c :: t)
        let n := n + d.2
        if d.1 ≠ runeError ∧ d.1 ≠ 0x2028 ∧ d.1 ≠ 0x2029 then quoteIdxLoop html js src fuel i n dst inv
        else if isInvalidUTF8 d.1 d.2 then
          quoteIdxLoop html js src fuel n n (dst ++ slice src i (n - d.2) ++ utf8FFFD) true
        else if (d.1 = 0x2028 ∨ d.1 = 0x2029) ∧ js then
          quoteIdxLoop html js src fuel n n (dst ++ slice src i (n - d.2) ++ appendEscapedUnicode d.1) inv
        else quoteIdxLoop html js src fuel i n dst inv

/-- `AppendQuote(nil, src, flags)` written with the index bookkeeping. -/
def appendQuoteIdx (f : QFlags) (src : Bytes) : Bytes × Err :=
  let r := quoteIdxLoop f.html f.js src src.length 0 0 [0x22] false
  (r.1 ++ [0x22], if r.2 && !f.allowInvalid then Err.invalidUTF8 else Err.ok)

end JsonV.Model.Quote
