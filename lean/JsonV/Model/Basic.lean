/-
Shared basic definitions for all models.  Core Lean only.
-/
namespace JsonV

/-- JSON texts and Go byte slices/strings are lists of bytes in the models. -/
abbrev Bytes := List UInt8

namespace Bytes
def ofString (s : String) : Bytes := s.toUTF8.toList
end Bytes

end JsonV
