/-
Model of the parts of Go's `unicode/utf8` and `unicode/utf16` the library relies on
(trusted base §3.4 of DESIGN.md: these are *parameters* of the proofs, validated
exhaustively against the Go standard library by the harness, op family `utf8`).

Written from the Unicode Standard, table 3-7 (well-formed UTF-8 byte sequences), in the
shape of `utf8.DecodeRune`: a lead byte selects a size and the accepted range of the second
byte; any violation yields (RuneError, 1).  Core Lean only.
-/
import JsonV.Model.Basic

namespace JsonV.Model.Utf8

def runeError : Nat := 0xFFFD
def runeSelf : Nat := 0x80
def maxRune : Nat := 0x10FFFF

/-- For a lead byte ≥ 0x80: (size, lo, hi) of the accepted second byte, or `none` if the
byte can never start a sequence (0x80..0xC1, 0xF5..0xFF). -/
def leadInfo (b : Nat) : Option (Nat × Nat × Nat) :=
  if 0xC2 ≤ b ∧ b ≤ 0xDF then some (2, 0x80, 0xBF)
  else if b = 0xE0 then some (3, 0xA0, 0xBF)
  else if 0xE1 ≤ b ∧ b ≤ 0xEC then some (3, 0x80, 0xBF)
  else if b = 0xED then some (3, 0x80, 0x9F)
  else if 0xEE ≤ b ∧ b ≤ 0xEF then some (3, 0x80, 0xBF)
  else if b = 0xF0 then some (4, 0x90, 0xBF)
  else if 0xF1 ≤ b ∧ b ≤ 0xF3 then some (4, 0x80, 0xBF)
  else if b = 0xF4 then some (4, 0x80, 0x8F)
  else none

def isCont (b : Nat) : Bool := 0x80 ≤ b && b ≤ 0xBF

/-- `utf8.DecodeRune(p)`: (rune, size).  `(RuneError, 0)` for empty input,
`(RuneError, 1)` for every ill-formed or truncated sequence. -/
def decodeRune (p : Bytes) : Nat × Nat :=
  match p with
  | [] => (runeError, 0)
  | b0 :: rest =>
    let p0 := b0.toNat
    if p0 < runeSelf then (p0, 1) else
    match leadInfo p0 with
    | none => (runeError, 1)
    | some (sz, lo, hi) =>
      match rest with
      | [] => (runeError, 1)
      | b1 :: rest1 =>
        let p1 := b1.toNat
        if p1 < lo ∨ hi < p1 then (runeError, 1) else
        if sz = 2 then ((p0 % 32) * 64 + p1 % 64, 2) else
        match rest1 with
        | [] => (runeError, 1)
        | b2 :: rest2 =>
          let p2 := b2.toNat
          if !isCont p2 then (runeError, 1) else
          if sz = 3 then ((p0 % 16) * 4096 + (p1 % 64) * 64 + p2 % 64, 3) else
          match rest2 with
          | [] => (runeError, 1)
          | b3 :: _ =>
            let p3 := b3.toNat
            if !isCont p3 then (runeError, 1) else
            ((p0 % 8) * 262144 + (p1 % 64) * 4096 + (p2 % 64) * 64 + p3 % 64, 4)

/-- `utf8.FullRune(p)`: does `p` begin with a full encoding of a rune
(an invalid encoding counts as a full rune of width 1). -/
def fullRune (p : Bytes) : Bool :=
  match p with
  | [] => false
  | b0 :: rest =>
    let p0 := b0.toNat
    if p0 < runeSelf then true else
    match leadInfo p0 with
    | none => true
    | some (sz, lo, hi) =>
      if p.length ≥ sz then true else
      match rest with
      | [] => false
      | b1 :: rest1 =>
        let p1 := b1.toNat
        if p1 < lo ∨ hi < p1 then true else
        match rest1 with
        | [] => false
        | b2 :: _ => if !isCont b2.toNat then true else false

/-- `utf8.AppendRune` for a valid scalar value (surrogates and out-of-range encode U+FFFD). -/
def encodeRune (r : Nat) : Bytes :=
  let r := if r > maxRune ∨ (0xD800 ≤ r ∧ r ≤ 0xDFFF) then runeError else r
  if r < 0x80 then [UInt8.ofNat r]
  else if r < 0x800 then [UInt8.ofNat (0xC0 + r / 64), UInt8.ofNat (0x80 + r % 64)]
  else if r < 0x10000 then
    [UInt8.ofNat (0xE0 + r / 4096), UInt8.ofNat (0x80 + (r / 64) % 64), UInt8.ofNat (0x80 + r % 64)]
  else
    [UInt8.ofNat (0xF0 + r / 262144), UInt8.ofNat (0x80 + (r / 4096) % 64),
     UInt8.ofNat (0x80 + (r / 64) % 64), UInt8.ofNat (0x80 + r % 64)]

/-- Well-formed UTF-8 (`utf8.Valid`): structural recursion with fuel = length. -/
def validAux : Nat → Bytes → Bool
  | 0, p => p.isEmpty
  | fuel+1, p =>
    match p with
    | [] => true
    | _ =>
      let (r, n) := decodeRune p
      if r = runeError ∧ n = 1 then false else validAux fuel (p.drop n)

def valid (p : Bytes) : Bool := validAux p.length p

/-- utf16 helpers (`unicode/utf16`). -/
def isSurrogate (r : Nat) : Bool := 0xD800 ≤ r && r < 0xE000
def isHighSurrogate (r : Nat) : Bool := 0xD800 ≤ r && r < 0xDC00
def isLowSurrogate (r : Nat) : Bool := 0xDC00 ≤ r && r < 0xE000
/-- `utf16.DecodeRune(r1, r2)`; U+FFFD if not a valid pair. -/
def utf16DecodeRune (r1 r2 : Nat) : Nat :=
  if isHighSurrogate r1 && isLowSurrogate r2 then (r1 - 0xD800) * 1024 + (r2 - 0xDC00) + 0x10000
  else runeError
/-- `utf16.EncodeRune(r)`: the surrogate pair of a supplementary code point. -/
def utf16EncodeRune (r : Nat) : Nat × Nat :=
  if r < 0x10000 ∨ r > maxRune then (runeError, runeError)
  else (0xD800 + (r - 0x10000) / 1024, 0xDC00 + (r - 0x10000) % 1024)

end JsonV.Model.Utf8
