/-
L3 — model of `json.Marshal` for the type universe of Model/GoVal.lean, at the TREE level, one case
per `make<Kind>Arshaler(...).marshal` of /repo/arshal_default.go (and arshal_any.go for `any`).
Core Lean only.

    mar o T v : Except MErr JTree

is the JSON value (as an L2 tree) that marshaling the Go value `v` of static type `T` writes, under
`Deterministic(true)` and the two option bits of `MOpts`.

Per kind (line numbers of /repo/arshal_default.go):
  * bool (:128-158) `true`/`false`; int/uint (:470-492, :569-591) `strconv.AppendInt/AppendUint`
    decimal text (`Time.intDigits`/`natDigits`, the models proved in slices C04/C10);
  * float64 (:659-695): the model value IS a number literal (GoVal.lean), and marshaling writes it
    back unchanged.  ABSTRACTED: `AppendFloat` shortest formatting and `ParseFloat` (their round trip
    is the byte-level subject of C10); NaN/Inf (a marshal error) are not representable in the model.
  * string (:213-256): the tree holds the unescaped Go string; invalid UTF-8 is a marshal error
    (default options).  ABSTRACTED: quoting/escaping and unquoting (byte level, C11).
  * slice (:1474-1536): nil ⇒ `[]` (or `null` with `FormatNilSliceAsNull`), else the elements in order;
    array (:1622-1650): the `n` elements in order (never null).
  * map[string]T (:794-953): nil ⇒ `{}` (or `null` with `FormatNilMapAsNull`), empty ⇒ `{}`, else one
    member per entry.  ORDER: the model is the `Deterministic(true)` branch (:883-901, names sorted with
    `slices.Sort`, i.e. bytewise), because a `GoVal` map has no iteration order of its own; without
    Deterministic the real order is Go's random map order, which no value model can predict.
    A key that is not valid UTF-8 is a marshal error.
  * pointer (:1746-1758): nil ⇒ `null`, else the pointee; struct (:1136-1283): one member per field in
    declaration order (plain names, no omit/string/format options in this universe);
  * interface (:1827-1868 and arshal_any.go:30-60): nil ⇒ `null`, else the dynamic value by its dynamic
    type (restricted to bool, float64, string, []any, map[string]any as in GoVal.lean).
Errors are only classified (`MErr`); when several members of one map are in error the model does not
say which one is reported (the real code reports the first in sorted order; all have the same class).

The file also defines what the C04 round-trip theorems speak about: `hasType` (well-typed values:
integer ranges per width, valid UTF-8 strings and map keys, array lengths, distinct map keys, struct
fields aligned with the type), `printsNull`/`safe` (no pointer or interface *contains* a value that
marshals as `null` — such a pointer cannot be restored, see Props/C04L3.lean) and the value relation
`veq` (equality except that nil and empty slices/maps are identified and maps are compared as finite
maps, their association-list order being a modelling artefact).
-/
import JsonV.Model.Unmarshal
import JsonV.Model.Utf8
import JsonV.Model.Time

namespace JsonV.Model
open JsonV JsonV.Spec

/-- Marshal error classes. -/
inductive MErr where
  | invalidUTF8   -- string or map key that is not valid UTF-8
  | illTyped      -- the value does not have the shape of the type (not a Go state)
  | unmodelled    -- interface holding a dynamic type outside the modelled universe
deriving Repr, DecidableEq, Inhabited

/-- The marshal options that are modelled (besides `Deterministic(true)`, always on). -/
structure MOpts where
  /-- `json.FormatNilSliceAsNull` -/
  nilSliceAsNull : Bool := false
  /-- `json.FormatNilMapAsNull` -/
  nilMapAsNull : Bool := false
deriving Repr, Inhabited

abbrev Enc := GoVal → Except MErr JTree

/-! ### Member order of `Deterministic` maps -/

/-- `slices.Sort` on the names: bytewise lexicographic order of Go strings. -/
def keyLe {α : Type} (p q : Bytes × α) : Bool := decide (p.1 ≤ q.1)

def sortMembers {α : Type} (ms : List (Bytes × α)) : List (Bytes × α) := ms.mergeSort keyLe

/-! ### Generic loops -/

def marList (f : Enc) : List GoVal → Except MErr (List JTree)
  | [] => .ok []
  | v :: r =>
    match f v with
    | .error e => .error e
    | .ok j =>
      match marList f r with
      | .error e => .error e
      | .ok js => .ok (j :: js)

/-- Members of a map in the order of the association list (sorted afterwards). -/
def marMembers (f : Enc) : List (Bytes × GoVal) → Except MErr (List (Bytes × JTree))
  | [] => .ok []
  | (k, v) :: r =>
    if Utf8.valid k then
      match f v with
      | .error e => .error e
      | .ok j =>
        match marMembers f r with
        | .error e => .error e
        | .ok ms => .ok ((k, j) :: ms)
    else .error .invalidUTF8

def nilSliceTree (o : MOpts) : JTree := if o.nilSliceAsNull then .null else .arr []
def nilMapTree (o : MOpts) : JTree := if o.nilMapAsNull then .null else .obj []

/-! ### `any` (structural on the value) -/

mutual
/-- Marshal a value of static type `any`. -/
def marAny (o : MOpts) : GoVal → Except MErr JTree
  | .nilIface => .ok .null
  | .ifaceOf dv => marDyn o dv
  | _ => .error .illTyped
/-- Marshal the dynamic value held by an interface, by its dynamic type. -/
def marDyn (o : MOpts) : GoVal → Except MErr JTree
  | .bool b => .ok (.bool b)
  | .float l => .ok (.num l)
  | .str s => if Utf8.valid s then .ok (.str s) else .error .invalidUTF8
  | .nilSlice => .ok (nilSliceTree o)
  | .sliceOf vs =>
    match marAnyL o vs with
    | .error e => .error e
    | .ok js => .ok (.arr js)
  | .nilMap => .ok (nilMapTree o)
  | .mapOf ms =>
    match marAnyM o ms with
    | .error e => .error e
    | .ok mem => .ok (.obj (sortMembers mem))
  | _ => .error .unmodelled
/-- `marList (marAny o)` -/
def marAnyL (o : MOpts) : List GoVal → Except MErr (List JTree)
  | [] => .ok []
  | v :: r =>
    match marAny o v with
    | .error e => .error e
    | .ok j =>
      match marAnyL o r with
      | .error e => .error e
      | .ok js => .ok (j :: js)
/-- `marMembers (marAny o)` -/
def marAnyM (o : MOpts) : List (Bytes × GoVal) → Except MErr (List (Bytes × JTree))
  | [] => .ok []
  | (k, v) :: r =>
    if Utf8.valid k then
      match marAny o v with
      | .error e => .error e
      | .ok j =>
        match marAnyM o r with
        | .error e => .error e
        | .ok ms => .ok ((k, j) :: ms)
    else .error .invalidUTF8
end

/-! ### All types (structural on the type) -/

mutual
def mar (o : MOpts) : GoType → GoVal → Except MErr JTree
  | .bool, v => match v with | .bool b => .ok (.bool b) | _ => .error .illTyped
  | .int _, v => match v with | .int i => .ok (.num (Time.intDigits i)) | _ => .error .illTyped
  | .uint _, v => match v with | .uint n => .ok (.num (Time.natDigits n)) | _ => .error .illTyped
  | .float64, v => match v with | .float l => .ok (.num l) | _ => .error .illTyped
  | .string, v =>
    match v with
    | .str s => if Utf8.valid s then .ok (.str s) else .error .invalidUTF8
    | _ => .error .illTyped
  | .slice t, v =>
    match v with
    | .nilSlice => .ok (nilSliceTree o)
    | .sliceOf vs =>
      match marList (mar o t) vs with
      | .error e => .error e
      | .ok js => .ok (.arr js)
    | _ => .error .illTyped
  | .array _ t, v =>
    match v with
    | .arrayOf vs =>
      match marList (mar o t) vs with
      | .error e => .error e
      | .ok js => .ok (.arr js)
    | _ => .error .illTyped
  | .map t, v =>
    match v with
    | .nilMap => .ok (nilMapTree o)
    | .mapOf ms =>
      match marMembers (mar o t) ms with
      | .error e => .error e
      | .ok mem => .ok (.obj (sortMembers mem))
    | _ => .error .illTyped
  | .ptr t, v =>
    match v with
    | .nilPtr => .ok .null
    | .ptrTo w => mar o t w
    | _ => .error .illTyped
  | .struct fs, v =>
    match v with
    | .structOf fvs =>
      match marFields o fs fvs with
      | .error e => .error e
      | .ok mem => .ok (.obj mem)
    | _ => .error .illTyped
  | .any, v => marAny o v
/-- One member per field, in declaration order. -/
def marFields (o : MOpts) : List (Bytes × GoType) → List (Bytes × GoVal) → Except MErr (List (Bytes × JTree))
  | [], fvs => match fvs with | [] => .ok [] | _ => .error .illTyped
  | (n, t) :: fs, fvs =>
    match fvs with
    | (n', v) :: r =>
      if n = n' then
        match mar o t v with
        | .error e => .error e
        | .ok j =>
          match marFields o fs r with
          | .error e => .error e
          | .ok ms => .ok ((n, j) :: ms)
      else .error .illTyped
    | [] => .error .illTyped
end

/-! ### Well-typed values -/

mutual
/-- A value of static type `any` of the modelled universe. -/
def anyTyped : GoVal → Bool
  | .nilIface => true
  | .ifaceOf dv => dynTyped dv
  | _ => false
def dynTyped : GoVal → Bool
  | .bool _ => true
  | .float _ => true
  | .str s => Utf8.valid s
  | .nilSlice => true
  | .sliceOf vs => anyTypedL vs
  | .nilMap => true
  | .mapOf ms => nodupB (akeys ms) && anyTypedM ms
  | _ => false
def anyTypedL : List GoVal → Bool
  | [] => true
  | v :: r => anyTyped v && anyTypedL r
def anyTypedM : List (Bytes × GoVal) → Bool
  | [] => true
  | (k, v) :: r => Utf8.valid k && anyTyped v && anyTypedM r
end

def allB {α : Type} (p : α → Bool) : List α → Bool
  | [] => true
  | a :: r => p a && allB p r

mutual
/-- `v` is a Go value of type `T`: integers within the range of their width, strings and map keys
valid UTF-8 (the only strings a round trip can restore), arrays of the right length, map keys
distinct, struct fields aligned with the type. -/
def hasType : GoType → GoVal → Bool
  | .bool, v => match v with | .bool _ => true | _ => false
  | .int b, v =>
    match v with
    | .int i => decide (0 < b) && decide (-(2 ^ (b - 1) : Int) ≤ i) && decide (i < (2 ^ (b - 1) : Int))
    | _ => false
  | .uint b, v => match v with | .uint n => decide (n < 2 ^ b) | _ => false
  | .float64, v => match v with | .float _ => true | _ => false
  | .string, v => match v with | .str s => Utf8.valid s | _ => false
  | .slice t, v =>
    match v with
    | .nilSlice => true
    | .sliceOf vs => allB (hasType t) vs
    | _ => false
  | .array n t, v =>
    match v with
    | .arrayOf vs => decide (vs.length = n) && allB (hasType t) vs
    | _ => false
  | .map t, v =>
    match v with
    | .nilMap => true
    | .mapOf ms => nodupB (akeys ms) && allB (fun p => Utf8.valid p.1 && hasType t p.2) ms
    | _ => false
  | .ptr t, v =>
    match v with
    | .nilPtr => true
    | .ptrTo w => hasType t w
    | _ => false
  | .struct fs, v => match v with | .structOf fvs => fieldsTyped fs fvs | _ => false
  | .any, v => anyTyped v
def fieldsTyped : List (Bytes × GoType) → List (Bytes × GoVal) → Bool
  | [], fvs => match fvs with | [] => true | _ => false
  | (n, t) :: fs, fvs =>
    match fvs with
    | (n', v) :: r => decide (n = n') && hasType t v && fieldsTyped fs r
    | [] => false
end

/-! ### Values a pointer or interface cannot be restored to -/

mutual
/-- The value marshals as `null` (whatever its static type). -/
def printsNull (o : MOpts) : GoVal → Bool
  | .nilPtr => true
  | .nilIface => true
  | .nilSlice => o.nilSliceAsNull
  | .nilMap => o.nilMapAsNull
  | .ptrTo v => printsNull o v
  | .ifaceOf v => printsNull o v
  | _ => false
end

mutual
/-- No pointer and no interface in the value holds something that marshals as `null`
(`**T` pointing to a nil `*T`, `*any` pointing to a nil interface, and — only with the
`FormatNil…AsNull` options — pointers/interfaces holding nil slices or maps). -/
def safe (o : MOpts) : GoVal → Bool
  | .ptrTo v => !printsNull o v && safe o v
  | .ifaceOf v => !printsNull o v && safe o v
  | .sliceOf vs => safeL o vs
  | .arrayOf vs => safeL o vs
  | .mapOf ms => safeM o ms
  | .structOf fvs => safeM o fvs
  | _ => true
def safeL (o : MOpts) : List GoVal → Bool
  | [] => true
  | v :: r => safe o v && safeL o r
def safeM (o : MOpts) : List (Bytes × GoVal) → Bool
  | [] => true
  | (_, v) :: r => safe o v && safeM o r
end

/-! ### The value relation of the round trip -/

mutual
/-- `veq v w`: equal, except that a nil and an empty slice (map) are identified and maps are compared
as finite maps (same key set, related values), not as association lists. -/
def veq : GoVal → GoVal → Prop
  | .nilSlice, w => w = .nilSlice ∨ w = .sliceOf []
  | .sliceOf vs, w =>
    match w with
    | .sliceOf ws => veqL vs ws
    | .nilSlice => vs = []
    | _ => False
  | .arrayOf vs, w => match w with | .arrayOf ws => veqL vs ws | _ => False
  | .nilMap, w => w = .nilMap ∨ w = .mapOf []
  | .mapOf ms, w =>
    match w with
    | .mapOf ms' => (∀ k, ahas k ms' = true → ahas k ms = true) ∧ veqM ms ms'
    | .nilMap => ms = []
    | _ => False
  | .ptrTo v, w => match w with | .ptrTo v' => veq v v' | _ => False
  | .structOf fvs, w => match w with | .structOf fws => veqF fvs fws | _ => False
  | .ifaceOf v, w => match w with | .ifaceOf v' => veq v v' | _ => False
  | .bool b, w => w = .bool b
  | .int i, w => w = .int i
  | .uint n, w => w = .uint n
  | .float l, w => w = .float l
  | .str s, w => w = .str s
  | .nilPtr, w => w = .nilPtr
  | .nilIface, w => w = .nilIface
/-- element-wise, same length -/
def veqL : List GoVal → List GoVal → Prop
  | [], ws => ws = []
  | v :: r, ws => match ws with | w :: r' => veq v w ∧ veqL r r' | [] => False
/-- every entry of the left map has a related entry under the same key in the right map -/
def veqM : List (Bytes × GoVal) → List (Bytes × GoVal) → Prop
  | [], _ => True
  | (k, v) :: r, ms' => (match alookup k ms' with | some w => veq v w | none => False) ∧ veqM r ms'
/-- field-wise, same names in the same order -/
def veqF : List (Bytes × GoVal) → List (Bytes × GoVal) → Prop
  | [], fws => fws = []
  | (k, v) :: r, fws => match fws with | (k', w) :: r' => k = k' ∧ veq v w ∧ veqF r r' | [] => False
end

end JsonV.Model
