/-
Model of `/repo/fold.go` (`foldName`, `appendFoldedName`) and of the name comparison used by
`structField.matchFoldedName` (`/repo/fields.go`).  Core Lean only.

`foldRune` (the loop over `unicode.SimpleFold` returning the smallest rune of the fold orbit) is a
PARAMETER of the model: `unicode.SimpleFold` is trusted-base stdlib behaviour (DESIGN.md §3.4).
ASCII bytes never reach it (fast path of `appendFoldedName`), which is what `fold_ascii` is about.
-/
import JsonV.Model.Utf8

namespace JsonV.Model.Fold
open JsonV JsonV.Model

/-- The ASCII arm of `appendFoldedName`: `'a'..'z'` are moved to upper case. -/
def upperAscii (c : UInt8) : UInt8 :=
  if 0x61 ≤ c.toNat ∧ c.toNat ≤ 0x7A then UInt8.ofNat (c.toNat - 32) else c

/-- `c == '_' || c == '-'`. -/
def isDelim (c : UInt8) : Bool := c.toNat == 0x5F || c.toNat == 0x2D

/-- `appendFoldedName(nil, in)`.  The Go loop advances by `n = size of the decoded rune` (≥ 1 on a
non-empty input); `rest.drop (n - 1)` is `in[i+n:]`. -/
def foldName (foldRune : Nat → Nat) : Bytes → Bytes
  | [] => []
  | c :: rest =>
    if c.toNat < Utf8.runeSelf then
      if isDelim c then foldName foldRune rest
      else upperAscii c :: foldName foldRune rest
    else
      let rn := Utf8.decodeRune (c :: rest)
      Utf8.encodeRune (foldRune rn.1) ++ foldName foldRune (rest.drop (rn.2 - 1))
termination_by p => p.length
decreasing_by
  all_goals simp_wf
  all_goals omega

/-- The runes of a Go string as `for _, r := range s` yields them (ill-formed byte ⇒ U+FFFD, width 1). -/
def runes : Bytes → List Nat
  | [] => []
  | c :: rest =>
    let rn := Utf8.decodeRune (c :: rest)
    rn.1 :: runes (rest.drop (rn.2 - 1))
termination_by p => p.length
decreasing_by
  simp_wf
  omega

/-- `strings.EqualFold(s, t)`: rune-wise equality under simple case folding
(`foldRune x = foldRune y ⇔ x, y in the same SimpleFold orbit` is the documented invariant of foldRune). -/
def equalFold (foldRune : Nat → Nat) (s t : Bytes) : Bool :=
  (runes s).map foldRune == (runes t).map foldRune

/-- `caseIgnore`, `caseStrict` of fields.go. -/
def caseIgnore : Nat := 1
def caseStrict : Nat := 2

/-- The three flags `matchFoldedName` and the unmarshal lookup read. -/
structure MatchFlags where
  /-- `jsonflags.MatchCaseInsensitiveNames` -/
  caseInsensitive : Bool := false
  /-- `jsonflags.MatchCaseSensitiveDelimiter` (v1) -/
  caseSensitiveDelim : Bool := false
  /-- `jsonflags.ReportErrorsWithLegacySemantics` (v1): an ambiguous match is not an error -/
  legacyErrors : Bool := false
deriving Repr, DecidableEq, Inhabited

/-- `(*structField).matchFoldedName(name, flags)`; assumes the folded names are already equal. -/
def matchFoldedName (foldRune : Nat → Nat) (fieldName : Bytes) (casing : Nat) (name : Bytes) (fl : MatchFlags) : Bool :=
  if casing == caseIgnore || (fl.caseInsensitive && casing != caseStrict) then
    if !fl.caseSensitiveDelim || equalFold foldRune name fieldName then true else false
  else false

end JsonV.Model.Fold
