/-
Model of how user-defined (un)marshalers are dispatched and policed (C17).

Mirrors, in the order the Go code builds things:
  * `makeMethodArshaler`           arshal_methods.go:124-352   (the ORDER of wrapping: text, appender, JSON, JSONTo —
                                    later wrapping = higher precedence; `needAddr`/`forcedAddr` under legacy semantics;
                                    the DepthLength policing before/after a MarshalJSONTo/UnmarshalJSONFrom call)
  * `typedArshalers.lookup`        arshal_funcs.go:114-157     (collect the castable functions, stop at the first
                                    one that may not skip; call them in order while they return ErrUnsupported)
  * `MarshalFunc`/`MarshalToFunc`/`UnmarshalFunc`/`UnmarshalFromFunc` wrappers  arshal_funcs.go:170-339
  * `castableTo`                   arshal_funcs.go:384-401
  * the places that look a type's arshaler up and descend: marshalEncode/unmarshalDecode (arshal.go:231-259, 453-492),
    the pointer and interface arshalers (arshal_default.go:1715-1959) and the composite containers.

A value is reached through a list of *levels* (container, interface, pointer, … , the type `T` with the methods).
At every level the caller-supplied functions are looked up first, then (for `T` only) the method wrappers,
then the default representation of the level, which descends.

`choose`-style functions (`marshalLevels`, `unmarshalLevels`) compose the wrappers exactly as the Go code does and
then evaluate.  `documented…` is the specification: first applicable candidate in the documented order.
Core Lean only.
-/
import JsonV.Model.State

namespace JsonV.Model.Dispatch
open JsonV.Model

/-! ### Coder operations performed by user code, and the policing of a call -/

/-- One mutating call on the Encoder/Decoder made by user code.  `val` is a complete non-string value
written/read in one go (`WriteValue`/`ReadValue`/`SkipValue`); `lit` also stands for numbers. -/
inductive Op where
  | lit | str | val | pushO | popO | pushA | popA
deriving DecidableEq, Repr, Inhabited

def Op.apply (maxDepth : Nat) (m : Machine) : Op → Except SMErr Machine
  | .lit => m.appendLiteral
  | .val => m.appendLiteral
  | .str => m.appendString
  | .pushO => m.pushObject maxDepth
  | .popO => m.popObject
  | .pushA => m.pushArray maxDepth
  | .popA => m.popArray

/-- Run the user's calls; the user code stops at (and returns) the first error.  A rejected call
does not change the state. -/
def runScript (maxDepth : Nat) : List Op → Machine → Machine × Option SMErr
  | [], m => (m, none)
  | op :: rest, m =>
    match op.apply maxDepth m with
    | .ok m' => runScript maxDepth rest m'
    | .error e => (m, some e)

/-! #### The floor (jsontext/state.go `stateMachine.Floor`, arshal_methods.go:224-227, 326-329,
arshal_funcs.go:223-226, 313-316)

`Model.State.Machine` models the token API with `Floor = 0`.  While user code runs, the four call sites set
`Tokens.Floor = len(Tokens.Stack)`; `popObject`/`popArray` then refuse (`errEnclosingEnd`) to pop when
`len(m.Stack) <= m.Floor` — checked right after the isObject/isArray test and before the other checks. -/

inductive PErr where
  | sm (e : SMErr)
  | enclosingEnd      -- errEnclosingEnd
deriving DecidableEq, Repr, Inhabited

def Op.isPop : Op → Bool
  | .popO | .popA => true
  | _ => false

def liftSM : Except SMErr Machine → Except PErr Machine
  | .ok m => .ok m
  | .error e => .error (.sm e)

/-- One call on a coder whose state machine has the given floor. -/
def policedStep (maxDepth floor : Nat) (m : Machine) : Op → Except PErr Machine
  | .popO =>
    if !m.last.isObject then .error (.sm .mismatchDelim)
    else if m.stack.length ≤ floor then .error .enclosingEnd
    else liftSM m.popObject
  | .popA =>
    if !m.last.isArray || m.stack.length = 0 then .error (.sm .mismatchDelim)
    else if m.stack.length ≤ floor then .error .enclosingEnd
    else liftSM m.popArray
  | op => liftSM (op.apply maxDepth m)

/-- Run the user's calls under a floor; the user code stops at (and returns) the first error. -/
def runPoliced (maxDepth floor : Nat) : List Op → Machine → Machine × Option PErr
  | [], m => (m, none)
  | op :: rest, m =>
    match policedStep maxDepth floor m op with
    | .ok m' => runPoliced maxDepth floor rest m'
    | .error e => (m, some e)

/-- What the user function returns. -/
inductive Ret where
  | nil | unsupported | other
deriving DecidableEq, Repr, Inhabited

/-- Result of invoking one candidate, as seen by the dispatcher:
`done` (the value is handled), `skip` (errors.ErrUnsupported is forwarded: try the next candidate), `fail`. -/
inductive CallResult where
  | done | skip | fail
deriving DecidableEq, Repr, Inhabited

/-- arshal_methods.go:221-245, 317-347; arshal_funcs.go:220-244, 304-334.
```
if (prevDepth != currDepth || prevLength+1 != currLength) && err == nil { err = errNonSingularValue }
if err != nil {
    if errors.Is(err, errors.ErrUnsupported) {
        if prevDepth == currDepth && prevLength == currLength { fall through / forward }
        err = errUnsupportedMutation
    }
    return err
}
return nil
``` -/
def police (prev cur : Nat × Nat) (ret : Ret) : CallResult :=
  let nonSingular := prev.1 != cur.1 || prev.2 + 1 != cur.2
  match ret with
  | .nil => if nonSingular then .fail else .done
  | .unsupported => if prev.1 == cur.1 && prev.2 == cur.2 then .skip else .fail
  | .other => .fail

/-- A coder-style call: the library raises the floor to the current stack length, the user runs `script`
(returning the first error it meets, otherwise `ret`), the floor is restored, and the library compares
`Tokens.DepthLength()` before and after. -/
def userCallWithFloor (maxDepth floor : Nat) (m : Machine) (script : List Op) (ret : Ret) : CallResult :=
  let r := runPoliced maxDepth floor script m
  let ret' := if r.2.isSome then Ret.other else ret
  police m.depthLength r.1.depthLength ret'

def userCall (maxDepth : Nat) (m : Machine) (script : List Op) (ret : Ret) : CallResult :=
  userCallWithFloor maxDepth m.stack.length m script ret

/-! ### Method sets, candidates, outcomes -/

inductive Recv where
  | absent | value | pointer
deriving DecidableEq, Repr, Inhabited

def Recv.present : Recv → Bool
  | .absent => false
  | _ => true

/-- `implements(t, ifaceType)` = (needAddr, ok)   arshal_methods.go:369-378 -/
def Recv.implements : Recv → Bool × Bool
  | .absent => (false, false)
  | .value => (false, true)
  | .pointer => (true, true)

/-- The method set seen through `*T`: every method of `T` (either receiver) is in the method set of `*T`. -/
def Recv.promoted : Recv → Recv
  | .absent => .absent
  | _ => .value

structure MethodSet where
  to : Recv := .absent   -- MarshalJSONTo
  js : Recv := .absent   -- MarshalJSON
  ap : Recv := .absent   -- AppendText
  tx : Recv := .absent   -- MarshalText
deriving DecidableEq, Repr, Inhabited

structure UMethodSet where
  frm : Recv := .absent  -- UnmarshalJSONFrom
  uj : Recv := .absent   -- UnmarshalJSON
  utx : Recv := .absent  -- UnmarshalText
deriving DecidableEq, Repr, Inhabited

def MethodSet.promoted (ms : MethodSet) : MethodSet := ⟨ms.to.promoted, ms.js.promoted, ms.ap.promoted, ms.tx.promoted⟩
def UMethodSet.promoted (ms : UMethodSet) : UMethodSet := ⟨ms.frm.promoted, ms.uj.promoted, ms.utx.promoted⟩

inductive Meth where
  | to | js | ap | tx | frm | uj | utx
deriving DecidableEq, Repr, Inhabited

/-- An invocation: a caller-supplied function (by its position in the list) or a method, at a level. -/
inductive Cand where
  | fn (id : Nat) (lvl : Nat)
  | meth (k : Meth) (lvl : Nat)
deriving DecidableEq, Repr, Inhabited

def Cand.lvl : Cand → Nat
  | .fn _ l => l
  | .meth _ l => l

inductive Winner where
  | cand (c : Cand)
  | dflt (lvl : Nat)   -- the default representation of `T`
  | null (lvl : Nat)   -- nil pointer / nil interface / JSON null: no user code involved
  | omitted (lvl : Nat) -- struct member left out by `omitzero` before anything is looked up for it
deriving DecidableEq, Repr, Inhabited

inductive Res where
  | ok (w : Winner)
  | err
deriving DecidableEq, Repr, Inhabited

structure Outcome where
  trace : List Cand   -- every invocation of user code, in order
  res : Res
deriving DecidableEq, Repr, Inhabited

def Outcome.after (c : Cand) (o : Outcome) : Outcome := ⟨c :: o.trace, o.res⟩
def Outcome.won (c : Cand) : Outcome := ⟨[c], .ok (.cand c)⟩
def Outcome.failed (c : Cand) : Outcome := ⟨[c], .err⟩
def Outcome.error : Outcome := ⟨[], .err⟩

/-- What an arshaler function sees: `mo.Flags`, `va.forcedAddr`, the coder's token state. -/
structure Ctx where
  legacy : Bool       -- jsonflags.CallMethodsWithLegacySemantics
  forcedAddr : Bool   -- va.forcedAddr
  m : Machine         -- export.Encoder(enc).Tokens / export.Decoder(dec).Tokens
  lvl : Nat
  inNull : Bool := false  -- unmarshal: the next JSON value is null
  inStr : Bool := false   -- unmarshal: the next JSON value is a string
deriving Inhabited

abbrev Arshaler := Ctx → Outcome

/-- The behaviour of user code: the result of invoking a candidate in a given coder state. -/
abbrev Behav := Cand → Machine → CallResult

/-- A method whose ErrUnsupported is turned into an error (`wrapErrUnsupported`). -/
def callFinal (r : CallResult) (c : Cand) : Outcome :=
  match r with
  | .done => .won c
  | _ => .failed c

/-- A method that may fall through to the previously built arshaler. -/
def callOrPrev (r : CallResult) (c : Cand) (prev : Outcome) : Outcome :=
  match r with
  | .done => .won c
  | .skip => prev.after c
  | .fail => .failed c

/-! ### makeMethodArshaler, marshal half (arshal_methods.go:132-247) -/

def wrapMarshalText (r : Recv) (beh : Behav) (prev : Arshaler) : Arshaler :=
  if !r.implements.2 then prev else fun ctx =>
    if ctx.legacy && (r.implements.1 && ctx.forcedAddr) then prev ctx
    else callFinal (beh (.meth .tx ctx.lvl) ctx.m) (.meth .tx ctx.lvl)

def wrapAppendText (r : Recv) (beh : Behav) (prev : Arshaler) : Arshaler :=
  if !r.implements.2 then prev else fun ctx =>
    if ctx.legacy && (r.implements.1 && ctx.forcedAddr) then prev ctx
    else callFinal (beh (.meth .ap ctx.lvl) ctx.m) (.meth .ap ctx.lvl)

def wrapMarshalJSON (r : Recv) (beh : Behav) (prev : Arshaler) : Arshaler :=
  if !r.implements.2 then prev else fun ctx =>
    if ctx.legacy && ((r.implements.1 && ctx.forcedAddr) || ctx.m.last.needObjectName) then prev ctx
    else callFinal (beh (.meth .js ctx.lvl) ctx.m) (.meth .js ctx.lvl)

def wrapMarshalJSONTo (r : Recv) (beh : Behav) (prev : Arshaler) : Arshaler :=
  if !r.implements.2 then prev else fun ctx =>
    if ctx.legacy && ((r.implements.1 && ctx.forcedAddr) || ctx.m.last.needObjectName) then prev ctx
    else callOrPrev (beh (.meth .to ctx.lvl) ctx.m) (.meth .to ctx.lvl) (prev ctx)

inductive TKind where
  | named | pointer | iface
deriving DecidableEq, Repr, Inhabited

/-- `makeMethodArshaler(fncs, t)`, marshal half.  The early return for pointer and interface kinds is what
keeps methods from ever being called on a nil receiver. -/
def makeMethodMarshaler (k : TKind) (ms : MethodSet) (beh : Behav) (fncs : Arshaler) : Arshaler :=
  if k = .pointer ∨ k = .iface then fncs
  else
    let f1 := wrapMarshalText ms.tx beh fncs
    let f2 := wrapAppendText ms.ap beh f1
    let f3 := wrapMarshalJSON ms.js beh f2
    let f4 := wrapMarshalJSONTo ms.to beh f3
    f4

/-! ### makeMethodArshaler, unmarshal half (arshal_methods.go:249-349) -/

/-- The text unmarshaler REPLACES `fncs.unmarshal` (there is no `prevUnmarshal`). -/
def wrapUnmarshalText (r : Recv) (beh : Behav) (prev : Arshaler) : Arshaler :=
  if !r.implements.2 then prev else fun ctx =>
    if ctx.inNull then ⟨[], .ok (.null ctx.lvl)⟩          -- `va.SetZero()`, method not called
    else if !ctx.inStr then .error                        -- errNonStringValue
    else callFinal (beh (.meth .utx ctx.lvl) ctx.m) (.meth .utx ctx.lvl)

def wrapUnmarshalJSON (r : Recv) (beh : Behav) (prev : Arshaler) : Arshaler :=
  if !r.implements.2 then prev else fun ctx =>
    if ctx.legacy && ctx.m.last.needObjectName then prev ctx
    else callFinal (beh (.meth .uj ctx.lvl) ctx.m) (.meth .uj ctx.lvl)

def wrapUnmarshalJSONFrom (r : Recv) (beh : Behav) (prev : Arshaler) : Arshaler :=
  if !r.implements.2 then prev else fun ctx =>
    if ctx.legacy && ctx.m.last.needObjectName then prev ctx
    else callOrPrev (beh (.meth .frm ctx.lvl) ctx.m) (.meth .frm ctx.lvl) (prev ctx)

def makeMethodUnmarshaler (k : TKind) (ms : UMethodSet) (beh : Behav) (fncs : Arshaler) : Arshaler :=
  if k = .pointer ∨ k = .iface then fncs
  else
    let f1 := wrapUnmarshalText ms.utx beh fncs
    let f2 := wrapUnmarshalJSON ms.uj beh f1
    let f3 := wrapUnmarshalJSONFrom ms.frm beh f2
    f3

/-! ### Caller-supplied functions (arshal_funcs.go) -/

/-- The type parameter of MarshalFunc[X]/…: `T`, `*T`, an interface with methods (implemented by `*T` or not),
`any`, or an unrelated type. -/
inductive Target where
  | val | ptr | iface | any | other
deriving DecidableEq, Repr, Inhabited

structure FnSpec where
  id : Nat          -- position in the flattened list
  target : Target
  maySkip : Bool    -- MarshalToFunc/UnmarshalFromFunc: true; MarshalFunc/UnmarshalFunc: false
deriving DecidableEq, Repr, Inhabited

/-- `castableTo(from, to)` for `from` = the type at the current level (`isBase`: it is `T` itself;
`implI`: `*T` implements the interface in question). -/
def castableTo (isBase implI : Bool) : Target → Bool
  | .val => isBase            -- default: from == to
  | .ptr => isBase            -- Pointer: reflect.PointerTo(from) == to
  | .iface => isBase && implI -- Interface: reflect.PointerTo(from).Implements(to)
  | .any => true              -- *X implements `any` for every X
  | .other => false

/-- The loop of `lookup` that collects the functions that can be called for this type. -/
def collect (isBase implI : Bool) : List FnSpec → List FnSpec
  | [] => []
  | f :: fs =>
    if !castableTo isBase implI f.target then collect isBase implI fs
    else if !f.maySkip then [f]      -- break: subsequent arshalers will never be called
    else f :: collect isBase implI fs

/-- MarshalFunc/UnmarshalFunc turn a returned ErrUnsupported into an error (`wrapErrUnsupported`);
MarshalToFunc/UnmarshalFromFunc forward it. -/
def fnResult (f : FnSpec) (r : CallResult) : CallResult :=
  if !f.maySkip && r == .skip then .fail else r

/-- The composite arshaler built by `lookup`. -/
def callFns (beh : Behav) (ctx : Ctx) (fncDefault : Arshaler) : List FnSpec → Outcome
  | [] => fncDefault ctx
  | f :: fs =>
    match fnResult f (beh (.fn f.id ctx.lvl) ctx.m) with
    | .done => .won (.fn f.id ctx.lvl)
    | .fail => .failed (.fn f.id ctx.lvl)
    | .skip => (callFns beh ctx fncDefault fs).after (.fn f.id ctx.lvl)

def lookup (fns : List FnSpec) (isBase implI : Bool) (beh : Behav) (fnc : Arshaler) : Arshaler :=
  let fncs := collect isBase implI fns
  if fncs.isEmpty then fnc else fun ctx => callFns beh ctx fnc fncs

/-! ### The caches (arshal.go:533-547 `lookupArshalerCache`, arshal_funcs.go:118-123,139,155 `fncCache`)

Both are memo tables keyed by `reflect.Type`: on a hit the stored value is returned, on a miss the value is computed
from the type alone (for `fncCache`: from the type and the immutable `fncVals` list), stored, and returned
(`LoadOrStore`: a concurrent duplicate is dropped in favour of the first one stored). -/

/-- A memo table: `none` = no entry. -/
abbrev Memo (κ α : Type) := κ → Option α

def Memo.empty {κ α : Type} : Memo κ α := fun _ => none

/-- `cache.Load(t)`; on a miss compute, `LoadOrStore`, return what is stored. -/
def memoLookup {κ α : Type} [DecidableEq κ] (compute : κ → α) (cache : Memo κ α) (t : κ) : α × Memo κ α :=
  match cache t with
  | some v => (v, cache)
  | none => (compute t, fun t' => if t' = t then some (compute t) else cache t')

/-- A sequence of lookups (whatever order the types are met in: top level first, nested first, …). -/
def memoRun {κ α : Type} [DecidableEq κ] (compute : κ → α) : Memo κ α → List κ → List α × Memo κ α
  | cache, [] => ([], cache)
  | cache, t :: ts =>
    let r := memoLookup compute cache t
    let rs := memoRun compute r.2 ts
    (r.1 :: rs.1, rs.2)

/-- Legacy method semantics (`CallMethodsWithLegacySemantics`): the methods that are still considered.
A pointer-receiver method is ignored for a value that is addressable only through a forced copy
(`needAddr && va.forcedAddr`); MarshalJSONTo/MarshalJSON (UnmarshalJSONFrom/UnmarshalJSON) are ignored at an
object-name position (`Tokens.Last.NeedObjectName()`); the text methods are not. -/
def Recv.legacyVisible (r : Recv) (forcedAddr hideAtName : Bool) : Recv :=
  if (r == .pointer && forcedAddr) || hideAtName then .absent else r

def MethodSet.legacy (ms : MethodSet) (forcedAddr needName : Bool) : MethodSet :=
  ⟨ms.to.legacyVisible forcedAddr needName, ms.js.legacyVisible forcedAddr needName,
   ms.ap.legacyVisible forcedAddr false, ms.tx.legacyVisible forcedAddr false⟩

/-- The unmarshal wrappers ignore `needAddr`; only the object-name rule applies, and not to UnmarshalText. -/
def UMethodSet.legacy (ms : UMethodSet) (needName : Bool) : UMethodSet :=
  ⟨ms.frm.legacyVisible false needName, ms.uj.legacyVisible false needName, ms.utx⟩

/-! ### Levels: how the value of type `T` is reached -/

inductive LKind where
  | base   -- the type T
  | ptr    -- a pointer
  | iface  -- an interface value
  | cont   -- a composite container (struct, slice, array, map)
deriving DecidableEq, Repr, Inhabited

structure Level where
  kind : LKind
  isNil : Bool := false       -- marshal: nil pointer / nil interface
  pre : List Op := []         -- cont: tokens handled before descending
  omitZero : Bool := false    -- cont (struct, marshal): the member is tagged omitzero and its Go value is zero:
                              -- the struct arshaler `continue`s before looking anything up for the member
  dfltOk : Bool := true       -- base: whether the default representation succeeds here
  forcedAddr : Bool := false  -- whether the value at this level is addressable only through a forced copy
  inNull : Bool := false      -- unmarshal: the JSON text for this level is null
  inStr : Bool := false       -- unmarshal: the JSON text for this level is a string
deriving DecidableEq, Repr, Inhabited

def Level.tkind (l : Level) : TKind :=
  match l.kind with
  | .ptr => .pointer
  | .iface => .iface
  | _ => .named

def Level.isBase (l : Level) : Bool := l.kind == .base

/-- The method set of the Go type at a level. -/
def Level.methodsM (l : Level) (ms : MethodSet) : MethodSet :=
  match l.kind with
  | .base => ms
  | .ptr => ms.promoted
  | _ => {}

def Level.methodsU (l : Level) (ms : UMethodSet) : UMethodSet :=
  match l.kind with
  | .base => ms
  | .ptr => ms.promoted
  | _ => {}

/-- Marshal the value reached through `levels`, as the Go code does. -/
def marshalLevels (maxDepth : Nat) (ms : MethodSet) (fns : List FnSpec) (beh : Behav) (legacy : Bool) :
    List Level → Nat → Machine → Outcome
  | [], _, _ => ⟨[], .ok (.null 0)⟩        -- marshalEncode: nil pointer at top level → null, nothing looked up
  | l :: rest, i, m =>
    let next : Machine → Outcome := fun m' => marshalLevels maxDepth ms fns beh legacy rest (i + 1) m'
    let dflt : Arshaler := fun ctx =>
      match l.kind with
      | .base => if l.dfltOk then ⟨[], .ok (.dflt i)⟩ else .error
      | .ptr | .iface =>
        if l.isNil then (if ctx.m.last.needObjectName then .error else ⟨[], .ok (.null i)⟩)  -- enc.WriteToken(Null)
        else next ctx.m
      | .cont =>
        match runScript maxDepth l.pre ctx.m with
        | (m', none) => if l.omitZero then ⟨[], .ok (.omitted i)⟩ else next m'
        | (_, some _) => .error
    lookup fns l.isBase ms.js.present beh (makeMethodMarshaler l.tkind (l.methodsM ms) beh dflt)
      { legacy := legacy, forcedAddr := l.forcedAddr, m := m, lvl := i }

/-- Unmarshal into the value reached through `levels`, as the Go code does. -/
def unmarshalLevels (maxDepth : Nat) (ms : UMethodSet) (fns : List FnSpec) (beh : Behav) (legacy : Bool) :
    List Level → Nat → Machine → Outcome
  | [], _, _ => .error
  | l :: rest, i, m =>
    let next : Machine → Outcome := fun m' => unmarshalLevels maxDepth ms fns beh legacy rest (i + 1) m'
    let dflt : Arshaler := fun ctx =>
      match l.kind with
      | .base => if l.dfltOk then ⟨[], .ok (.dflt i)⟩ else .error
      | .ptr | .iface =>
        if l.inNull then ⟨[], .ok (.null i)⟩      -- PeekKind() == 'n': ReadToken, va.SetZero()
        else next ctx.m
      | .cont =>
        match runScript maxDepth l.pre ctx.m with
        | (m', none) => next m'
        | (_, some _) => .error
    lookup fns l.isBase ms.utx.present beh (makeMethodUnmarshaler l.tkind (l.methodsU ms) beh dflt)
      { legacy := legacy, forcedAddr := l.forcedAddr, m := m, lvl := i, inNull := l.inNull, inStr := l.inStr }

/-! ### The documented order (specification)

Marshal/Unmarshal doc comments (arshal.go:80-104, 278-299), JoinMarshalers (arshal_funcs.go:32-43),
MarshalFunc/MarshalToFunc (arshal_funcs.go:159-212): functions in list order (an applicable function that is not
allowed to skip ends the search), then MarshalerTo (may decline with ErrUnsupported), Marshaler, TextAppender,
TextMarshaler, then the default.  Nothing here mentions addressability: pointer-receiver methods count for every
value.  Methods belong to `T` only; a pointer or interface level has none (and a nil one is `null`). -/

def documentedFns (isBase implI : Bool) (beh : Behav) (lvl : Nat) (m : Machine) (rest : Outcome) : List FnSpec → Outcome
  | [] => rest
  | f :: fs =>
    if !castableTo isBase implI f.target then documentedFns isBase implI beh lvl m rest fs
    else
      match beh (.fn f.id lvl) m with
      | .done => .won (.fn f.id lvl)
      | .fail => .failed (.fn f.id lvl)
      | .skip =>
        if f.maySkip then (documentedFns isBase implI beh lvl m rest fs).after (.fn f.id lvl)
        else .failed (.fn f.id lvl)     -- "It may not return errors.ErrUnsupported."

/-- One method in the documented list. `skippable`: only MarshalerTo/UnmarshalerFrom may decline. -/
def tryMeth (r : Recv) (k : Meth) (skippable : Bool) (beh : Behav) (lvl : Nat) (m : Machine) (next : Outcome) : Outcome :=
  if !r.present then next
  else
    match beh (.meth k lvl) m with
    | .done => .won (.meth k lvl)
    | .fail => .failed (.meth k lvl)
    | .skip => if skippable then next.after (.meth k lvl) else .failed (.meth k lvl)

def documentedMethodsM (ms : MethodSet) (beh : Behav) (lvl : Nat) (m : Machine) (dflt : Outcome) : Outcome :=
  tryMeth ms.to .to true beh lvl m <|
  tryMeth ms.js .js false beh lvl m <|
  tryMeth ms.ap .ap false beh lvl m <|
  tryMeth ms.tx .tx false beh lvl m <|
  dflt

def documentedMarshal (maxDepth : Nat) (ms : MethodSet) (fns : List FnSpec) (beh : Behav) :
    List Level → Nat → Machine → Outcome
  | [], _, _ => ⟨[], .ok (.null 0)⟩
  | l :: rest, i, m =>
    let below : Outcome :=
      match l.kind with
      | .base => documentedMethodsM ms beh i m (if l.dfltOk then ⟨[], .ok (.dflt i)⟩ else .error)
      | .ptr | .iface =>
        if l.isNil then (if m.last.needObjectName then .error else ⟨[], .ok (.null i)⟩)
        else documentedMarshal maxDepth ms fns beh rest (i + 1) m
      | .cont =>
        match runScript maxDepth l.pre m with
        | (m', none) => if l.omitZero then ⟨[], .ok (.omitted i)⟩ else documentedMarshal maxDepth ms fns beh rest (i + 1) m'
        | (_, some _) => .error
    documentedFns l.isBase ms.js.present beh i m below fns

/-- UnmarshalText is only offered a JSON string; null stores the zero value without calling it. -/
def tryUText (r : Recv) (beh : Behav) (lvl : Nat) (m : Machine) (inNull inStr : Bool) (next : Outcome) : Outcome :=
  if !r.present then next
  else if inNull then ⟨[], .ok (.null lvl)⟩
  else if !inStr then .error
  else callFinal (beh (.meth .utx lvl) m) (.meth .utx lvl)

def documentedMethodsU (ms : UMethodSet) (beh : Behav) (lvl : Nat) (m : Machine) (inNull inStr : Bool) (dflt : Outcome) : Outcome :=
  tryMeth ms.frm .frm true beh lvl m <|
  tryMeth ms.uj .uj false beh lvl m <|
  tryUText ms.utx beh lvl m inNull inStr <|
  dflt

def documentedUnmarshal (maxDepth : Nat) (ms : UMethodSet) (fns : List FnSpec) (beh : Behav) :
    List Level → Nat → Machine → Outcome
  | [], _, _ => .error
  | l :: rest, i, m =>
    let below : Outcome :=
      match l.kind with
      | .base => documentedMethodsU ms beh i m l.inNull l.inStr (if l.dfltOk then ⟨[], .ok (.dflt i)⟩ else .error)
      | .ptr | .iface =>
        if l.inNull then ⟨[], .ok (.null i)⟩
        else documentedUnmarshal maxDepth ms fns beh rest (i + 1) m
      | .cont =>
        match runScript maxDepth l.pre m with
        | (m', none) => documentedUnmarshal maxDepth ms fns beh rest (i + 1) m'
        | (_, some _) => .error
    documentedFns l.isBase ms.utx.present beh i m below fns

end JsonV.Model.Dispatch
