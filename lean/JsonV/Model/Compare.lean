/-
Model of `jsonwire.CompareUTF16` (/repo/internal/jsonwire/wire.go:70-124).  Core Lean only.

The Go function is one `for` loop over the two remaining slices; every iteration either
returns or advances both slices by at least one byte.  The model is the same loop as a
structural recursion on a fuel argument (`compareUTF16` starts it with `len(x)`; the lemma
`Lemmas.CmpL.go_fuel` shows that any fuel ≥ min(len x, len y) gives the same answer, i.e. the
fuel never runs out).  Case splits and their order are those of the source:

  1. `len(x) == 0 || len(y) == 0`  → `cmp.Compare(len(x), len(y))`
  2. ASCII fast path: `x[0] < RuneSelf || y[0] < RuneSelf` → bytes differ: compare bytes; else drop one byte of each
  3. `utf8.DecodeRune` of both; the switch that replaces a supplementary-plane rune by its high
     surrogate when (and only when) the other rune is a single UTF-16 unit
  4. `rx != ry` → `cmp.Compare(rx, ry)`
  5. either rune is an invalid byte (`RuneError`, width 1) and the first bytes differ → compare bytes
  6. drop `nx` / `ny` bytes.
-/
import JsonV.Model.Utf8

namespace JsonV.Model.Compare
open JsonV.Model.Utf8

/-- `cmp.Compare` on integers, as -1 / 0 / +1. -/
def cmpNat (a b : Nat) : Int := if a < b then -1 else if a > b then 1 else 0

/-- The closure `isUTF16Self` inside `CompareUTF16`: the rune is one UTF-16 code unit. -/
def isUTF16Self (r : Nat) : Bool := (0 ≤ r && r ≤ 0xD7FF) || (0xE000 ≤ r && r ≤ 0xFFFF)

/-- `isInvalidUTF8(r, rn)` (wire.go:207). -/
def isInvalidUTF8 (r rn : Nat) : Bool := r == runeError && rn == 1

/-- The `switch` at wire.go:101-110: the pair of integers that is compared for the runes `rx`, `ry`. -/
def surrogateKey (rx ry : Nat) : Nat × Nat :=
  let selfx := isUTF16Self rx
  let selfy := isUTF16Self ry
  if selfx && !selfy then (rx, (utf16EncodeRune ry).1)
  else if selfy && !selfx then ((utf16EncodeRune rx).1, ry)
  else (rx, ry)

/-- The loop of `CompareUTF16`. -/
def go : Nat → Bytes → Bytes → Int
  | 0, x, y => cmpNat x.length y.length
  | fuel+1, x, y =>
    match x, y with
    | [], _ => cmpNat x.length y.length
    | _, [] => cmpNat x.length y.length
    | x0 :: xs, y0 :: ys =>
      -- ASCII fast-path.
      if x0.toNat < runeSelf ∨ y0.toNat < runeSelf then
        if x0 ≠ y0 then cmpNat x0.toNat y0.toNat
        else go fuel xs ys
      else
        -- Decode next pair of runes as UTF-8.
        let (rx, nx) := decodeRune (x0 :: xs)
        let (ry, ny) := decodeRune (y0 :: ys)
        let (kx, ky) := surrogateKey rx ry
        if kx ≠ ky then cmpNat kx ky
        else if (isInvalidUTF8 rx nx || isInvalidUTF8 ry ny) && x0 ≠ y0 then cmpNat x0.toNat y0.toNat
        else go fuel ((x0 :: xs).drop nx) ((y0 :: ys).drop ny)

/-- `jsonwire.CompareUTF16(x, y)` ∈ {-1, 0, +1}. -/
def compareUTF16 (x y : Bytes) : Int := go x.length x y

end JsonV.Model.Compare
