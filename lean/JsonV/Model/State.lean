/-
Model of jsontext's `stateEntry` and `stateMachine` (jsontext/state.go:225-530).

`Entry` is the packed 64-bit word exactly as in the Go code; the hand-written
definitions below are tied to the regenerated `Gen.jsontext_stateEntry_*` bodies by
theorems in Props/C06.  `Machine` mirrors `stateMachine{Stack, Last}`: `stack` holds the
enclosing entries, outermost first, `last` is the innermost (current) one.
Every operation returns the new machine, or the error and *no* new machine
(the Go doc comment: "If an error is returned, the state is not mutated").
Core Lean only.
-/
import JsonV.Model.Basic

namespace JsonV.Model

abbrev Entry := BitVec 64

namespace Entry
def typeMask : Entry := 0x8000000000000000#64
def typeObject : Entry := 0x8000000000000000#64
def typeArray : Entry := 0x0#64
def disableNamespaceBit : Entry := 0x4000000000000000#64
def invalidNamespaceBit : Entry := 0x2000000000000000#64
def countMask : Entry := 0x1fffffffffffffff#64
def countLSBMask : Entry := 0x1#64

def length (e : Entry) : Nat := (e &&& countMask).toNat
def isObject (e : Entry) : Bool := e &&& typeMask == typeObject
def isArray (e : Entry) : Bool := e &&& typeMask == typeArray
def needObjectName (e : Entry) : Bool := e &&& (typeMask ||| countLSBMask) == typeObject
def needObjectValue (e : Entry) : Bool := e &&& (typeMask ||| countLSBMask) == (typeObject ||| countLSBMask)
def needImplicitColon (e : Entry) : Bool := needObjectValue e
/-- `next` is the kind byte of the next token (`'}'` = 0x7d, `']'` = 0x5d). -/
def needImplicitComma (e : Entry) (next : UInt8) : Bool :=
  !needObjectValue e && decide (length e > 0) && next != 0x7d && next != 0x5d
def increment (e : Entry) : Entry := e + 1#64
def decrement (e : Entry) : Entry := e - 1#64
def disableNamespace (e : Entry) : Entry := e ||| disableNamespaceBit
def isActiveNamespace (e : Entry) : Bool := e &&& disableNamespaceBit == 0#64
def invalidateNamespace (e : Entry) : Entry := e ||| invalidNamespaceBit
def isValidNamespace (e : Entry) : Bool := e &&& invalidNamespaceBit == 0#64
end Entry

inductive SMErr where
  | nonStringName      -- ErrNonStringName
  | invalidNamespace   -- errInvalidNamespace
  | maxDepth           -- errMaxDepth
  | mismatchDelim      -- errMismatchDelim
  | missingValue       -- errMissingValue
deriving DecidableEq, Repr, Inhabited

structure Machine where
  stack : List Entry := []
  last : Entry := Entry.typeArray
deriving DecidableEq, Repr, Inhabited

namespace Machine

/-- `reset`: depth 1, a virtual top-level array. -/
def init : Machine := {}

/-- `Depth()` is one-indexed. -/
def depth (m : Machine) : Nat := m.stack.length + 1

def depthLength (m : Machine) : Nat × Nat := (m.depth, m.last.length)

/-- `maxNestingDepth` is a parameter here; Props instantiate it with `Gen.jsontext.c_maxNestingDepth`. -/
def appendLiteral (m : Machine) : Except SMErr Machine :=
  if m.last.needObjectName then .error .nonStringName
  else if !m.last.isValidNamespace then .error .invalidNamespace
  else .ok { m with last := m.last.increment }

def appendString (m : Machine) : Except SMErr Machine :=
  if !m.last.isValidNamespace then .error .invalidNamespace
  else .ok { m with last := m.last.increment }

def appendNumber (m : Machine) : Except SMErr Machine := m.appendLiteral

def pushObject (maxDepth : Nat) (m : Machine) : Except SMErr Machine :=
  if m.last.needObjectName then .error .nonStringName
  else if !m.last.isValidNamespace then .error .invalidNamespace
  else if m.stack.length = maxDepth then .error .maxDepth
  else .ok { stack := m.stack ++ [m.last.increment], last := Entry.typeObject }

def popObject (m : Machine) : Except SMErr Machine :=
  if !m.last.isObject then .error .mismatchDelim
  else if m.last.needObjectValue then .error .missingValue
  else if !m.last.isValidNamespace then .error .invalidNamespace
  else match m.stack.getLast? with
    | some e => .ok { stack := m.stack.dropLast, last := e }
    | none => .error .mismatchDelim   -- unreachable: an object entry is never at the bottom

def pushArray (maxDepth : Nat) (m : Machine) : Except SMErr Machine :=
  if m.last.needObjectName then .error .nonStringName
  else if !m.last.isValidNamespace then .error .invalidNamespace
  else if m.stack.length = maxDepth then .error .maxDepth
  else .ok { stack := m.stack ++ [m.last.increment], last := Entry.typeArray }

def popArray (m : Machine) : Except SMErr Machine :=
  if !m.last.isArray || m.stack.length = 0 then .error .mismatchDelim
  else if !m.last.isValidNamespace then .error .invalidNamespace
  else match m.stack.getLast? with
    | some e => .ok { stack := m.stack.dropLast, last := e }
    | none => .error .mismatchDelim

/-- `NeedIndent(next)`. -/
def needIndent (m : Machine) (next : UInt8) : Nat :=
  let willEnd := next == 0x7d || next == 0x5d
  if m.depth = 1 then 0
  else if m.last.length = 0 && willEnd then 0
  else if m.last.length = 0 || m.last.needImplicitComma next then m.depth
  else if willEnd then m.depth - 1
  else 0

/-- `needDelim(next)`: 0, ':' or ','. -/
def needDelim (m : Machine) (next : UInt8) : UInt8 :=
  if m.last.needImplicitColon then 0x3a
  else if m.last.needImplicitComma next && m.stack.length != 0 then 0x2c
  else 0

/-- `MayAppendDelim(b, next)`. -/
def mayAppendDelim (m : Machine) (b : Bytes) (next : UInt8) : Bytes :=
  let d := m.needDelim next
  if d = 0 then b else b ++ [d]

/-- `InvalidateDisabledNamespaces`. -/
def invalidateDisabledNamespaces (m : Machine) : Machine :=
  let f (e : Entry) : Entry := if !e.isActiveNamespace then e.invalidateNamespace else e
  { stack := m.stack.map f, last := f m.last }

end Machine
end JsonV.Model
