/-
C19 "scoped": how one (un)marshal call saves, changes and restores the option struct.

In this code base the option struct that the arshalers receive (`mo`/`uo *jsonopts.Struct`) IS the coder's own
struct (`&xe.Struct`, arshal.go:233/456): there is no copy.  Everything below therefore works on ONE `Struct`.

The statements of the Go code that touch it are regenerated as data (`Gen/Scope.lean`, tools/translate/scope.go):
  * the window `flagsOriginal := mo.Flags … if err != nil` of the two closures of `makeStructArshaler`,
  * the bodies of `MarshalEncode` / `UnmarshalDecode`,
  * the statements around each call of user code (`WithinArshalCall`),
and `run` below interprets such a script.  `Props/C19Scope.lean` proves the hand copies `memberMarshal` … equal to the
regenerated scripts, and the list of ALL option-writing statements of packages json/jsontext/jsonwire equal to
`knownWriteSites` (each of which is one constructor of `Act` or belongs to one of the scripts).

Core Lean only (the oracle links this file).
-/
import JsonV.Model.Opts
import JsonV.Gen.Scope

namespace JsonV.Model.Scope
open JsonV.Model JsonV.Gen JsonV.Gen.Scope

/-! ### flag words used by the scripts (regenerated constants) -/
namespace W
def allowDup := bv jsonflags.c_AllowDuplicateNames
def allowInvalidUTF8 := bv jsonflags.c_AllowInvalidUTF8
def withinArshalCall := bv jsonflags.c_WithinArshalCall
def tagFlags := bv jsonflags.c_TagFlags
def stringTag := bv jsonflags.c_StringTag
def formatTag := bv jsonflags.c_FormatTag
def anyWhitespace := bv jsonflags.c_AnyWhitespace
def multiline := bv jsonflags.c_Multiline
def spaceAfterColon := bv jsonflags.c_SpaceAfterColon
def spaceAfterComma := bv jsonflags.c_SpaceAfterComma
def indent := bv jsonflags.c_Indent
def omitTopLevelNewline := bv jsonflags.c_OmitTopLevelNewline
end W

/-- Result of a callee: `nil`, or an error that the struct unmarshaler treats as fatal / non-fatal
(`isFatalError`; every marshal error is fatal). -/
inductive Outcome where
  | ok
  | err (fatal : Bool)
deriving DecidableEq, Repr, Inhabited

/-- `cmp.Or(errUnmarshal, err)`: the first error is kept. -/
def Outcome.or : Outcome → Outcome → Outcome
  | .ok, o => o
  | e, _ => e

def Outcome.isFatal : Outcome → Bool
  | .err true => true
  | _ => false

def Outcome.isErr : Outcome → Bool
  | .ok => false
  | _ => true

/-- `(*Struct).InitializeMultiline` (internal/jsonopts/options.go:183-195), one `if` each. -/
def imColon (s : Struct) : Struct :=
  if !s.flags.has W.spaceAfterColon then { s with flags := s.flags.set (W.spaceAfterColon ||| one) } else s
def imComma (s : Struct) : Struct :=
  if !s.flags.has W.spaceAfterComma then { s with flags := s.flags.set W.spaceAfterComma } else s
def imIndent (s : Struct) : Struct :=
  if !s.flags.has W.indent then { s with flags := s.flags.set (W.indent ||| one), indent := [0x09] } else s
def initializeMultiline (s : Struct) : Struct := imIndent (imComma (imColon s))

/-- `jsonopts.ChangedWhitespace(s1, s2)` (options.go:198-203). -/
def changedWhitespace (s1 s2 : Struct) : Bool :=
  s1.flags.get W.multiline != s2.flags.get W.multiline ||
  s1.flags.get W.spaceAfterColon != s2.flags.get W.spaceAfterColon ||
  s1.flags.get W.spaceAfterComma != s2.flags.get W.spaceAfterComma ||
  (s2.flags.get W.multiline && (s1.indent != s2.indent || s1.indentPrefix != s2.indentPrefix))

/-! ### interpreter of the regenerated scripts -/

/-- What one execution of a script depends on besides the option struct. -/
structure Env where
  /-- `f.string` of the struct field -/
  str : Bool := false
  /-- `f.format` of the struct field -/
  fmt : Bytes := []
  /-- `globalEnableFormatTag` -/
  globalFormatTag : Bool := false
  /-- `x.Tokens.Last.NeedObjectName()` when the call starts -/
  needName : Bool := false
  /-- the callee (`marshal(enc, v, mo)`, the user code, `marshalEncode(out, in, &xe.Struct)`): it receives the SAME
  struct and returns it as it left it -/
  child : Struct → Struct × Outcome

structure M where
  s : Struct
  opts : List Opt := []
  regs : List Bool := []
  savedFlags : Flags := Flags.empty
  savedStruct : Struct := {}
  savedGet : Bool := false
  deferRestore : Bool := false
  err : Outcome := .ok
  returned : Bool := false

def guardOK (e : Env) (m : M) : Guard → Bool
  | .str => e.str
  | .fmt => e.fmt != []
  | .opts => !m.opts.isEmpty
  | .needName => e.needName
  | .notSaved => !m.savedGet
  | .reg i => m.regs.getD i false

def evalCond (s : Struct) : Cond → Bool
  | .has w => s.flags.has (bv w)
  | .get w => s.flags.get (bv w)

def stepPrim (e : Env) (m : M) : Prim → M
  | .saveFlags => { m with savedFlags := m.s.flags }
  | .restoreFlags => { m with s := { m.s with flags := m.savedFlags } }
  | .set w => { m with s := { m.s with flags := m.s.flags.set (bv w) } }
  | .clear w => { m with s := { m.s with flags := m.s.flags.clear (bv w) } }
  | .assignFormat => { m with s := { m.s with format := e.fmt } }
  | .clearFormat => { m with s := { m.s with format := [] } }
  | .child => let r := e.child m.s; { m with s := r.1, err := r.2 }
  | .body => let r := e.child m.s; { m with s := r.1, err := r.2 }
  | .retIfErr => if m.err.isErr then { m with returned := true } else m
  | .retIfFatal => if m.err.isFatal then { m with returned := true } else m
  | .appendFormatTag => if e.globalFormatTag then { m with opts := m.opts ++ [.formatTagSupport true] } else m
  | .saveStruct => { m with savedStruct := m.s }
  | .deferRestoreStruct => { m with deferRestore := true }
  | .joinOpts => { m with s := m.s.join m.opts }
  | .guardGet w =>
      if m.savedStruct.flags.get (bv w) != m.s.flags.get (bv w) then { m with err := .err true, returned := true } else m
  | .test c => { m with regs := m.regs ++ [evalCond m.s c] }
  | .initMultiline => { m with s := initializeMultiline m.s }
  | .guardWhitespace =>
      if changedWhitespace m.savedStruct m.s then { m with err := .err true, returned := true } else m
  | .transformErr => m
  | .ret => { m with returned := true }
  | .saveGet w => { m with savedGet := m.s.flags.get (bv w) }

/-- One statement: nothing after a `return`; a skipped `if` still allocates its register (as false). -/
def step (e : Env) (m : M) (st : Stmt) : M :=
  if m.returned then m
  else if st.guards.all (guardOK e m) then stepPrim e m st.prim
  else match st.prim with
    | .test _ => { m with regs := m.regs ++ [false] }
    | _ => m

/-- The function body, then the deferred restore. -/
def run (e : Env) (script : List Stmt) (m : M) : M :=
  let m' := script.foldl (step e) m
  if m'.deferRestore then { m' with s := m'.savedStruct } else m'

def runOn (e : Env) (script : List Stmt) (opts : List Opt) (s : Struct) : Struct × Outcome :=
  let m := run e script { s := s, opts := opts }
  (m.s, m.err)

/-! ### hand copies of the scripts (tied to `Gen.Scope.*` in Props/C19Scope) -/

/-- arshal_default.go:1220-1233. -/
def memberMarshal : List Stmt := [
  ⟨[], .saveFlags⟩,
  ⟨[.str], .set (jsonflags.c_StringTag + 1)⟩,
  ⟨[.fmt], .set (jsonflags.c_FormatTag + 1)⟩,
  ⟨[.fmt], .assignFormat⟩,
  ⟨[], .child⟩,
  ⟨[], .restoreFlags⟩,
  ⟨[], .clearFormat⟩,
  ⟨[], .retIfErr⟩]

/-- arshal_default.go:1393-1410. -/
def memberUnmarshal : List Stmt := [
  ⟨[], .saveFlags⟩,
  ⟨[.str], .set (jsonflags.c_StringTag + 1)⟩,
  ⟨[.fmt], .set (jsonflags.c_FormatTag + 1)⟩,
  ⟨[.fmt], .assignFormat⟩,
  ⟨[], .child⟩,
  ⟨[], .restoreFlags⟩,
  ⟨[], .clearFormat⟩,
  ⟨[], .retIfFatal⟩]

/-- arshal.go:200-231. -/
def marshalEncodeS : List Stmt := [
  ⟨[], .appendFormatTag⟩,
  ⟨[.opts], .saveStruct⟩,
  ⟨[.opts], .deferRestoreStruct⟩,
  ⟨[.opts], .joinOpts⟩,
  ⟨[.opts, .needName], .guardGet jsonflags.c_AllowDuplicateNames⟩,
  ⟨[.opts, .needName], .guardGet jsonflags.c_AllowInvalidUTF8⟩,
  ⟨[.opts], .test (.has jsonflags.c_AnyWhitespace)⟩,
  ⟨[.opts, .reg 0], .test (.get jsonflags.c_Multiline)⟩,
  ⟨[.opts, .reg 0, .reg 1], .initMultiline⟩,
  ⟨[.opts, .reg 0], .guardWhitespace⟩,
  ⟨[], .body⟩,
  ⟨[], .transformErr⟩,
  ⟨[], .ret⟩]

/-- arshal.go:430-452. -/
def unmarshalDecodeS : List Stmt := [
  ⟨[], .appendFormatTag⟩,
  ⟨[.opts], .saveStruct⟩,
  ⟨[.opts], .deferRestoreStruct⟩,
  ⟨[.opts], .joinOpts⟩,
  ⟨[.opts, .needName], .guardGet jsonflags.c_AllowDuplicateNames⟩,
  ⟨[.opts, .needName], .guardGet jsonflags.c_AllowInvalidUTF8⟩,
  ⟨[], .body⟩,
  ⟨[], .transformErr⟩,
  ⟨[], .ret⟩]

/-- arshal_funcs.go:221-230, :314-323; arshal_methods.go:222-231, :327-336 (after the fix 0821077: the flag is reset
only by the outermost user call). -/
def userCallS : List Stmt := [
  ⟨[], .saveGet jsonflags.c_WithinArshalCall⟩,
  ⟨[], .set (jsonflags.c_WithinArshalCall + 1)⟩,
  ⟨[], .child⟩,
  ⟨[.notSaved], .set jsonflags.c_WithinArshalCall⟩]

/-! ### what a callee may do with the option struct -/

/-- The three places that clear tag flags in the struct they were given. -/
inductive ClearKind where
  | tags     -- jsontext WriteToken / ReadToken of `{` or `[`: `Flags.Clear(TagFlags)` on the coder's struct
  | string   -- pointer / interface arshalers: `Flags.Clear(StringTag)`
  | format   -- bytes arshaler, format "array": `Flags.Clear(FormatTag)`
deriving DecidableEq, Repr, Inhabited

def ClearKind.word : ClearKind → BitVec 64
  | .tags => W.tagFlags
  | .string => W.stringTag
  | .format => W.formatTag

/-- Everything the (un)marshal machinery below one call can do to the option struct, as a tree: the constructors are
exactly the option-writing statements of `knownWriteSites` that are reachable from a (un)marshal call on the caller's
coder, composed sequentially; `fail` stands for any point where an error is produced. -/
inductive Act where
  | skip
  | fail (fatal : Bool)
  | clear (k : ClearKind)
  | seq (a b : Act)
  /-- user code run through MarshalToFunc / UnmarshalFromFunc / MarshalJSONTo / UnmarshalJSONFrom; what it does with the
  coder it was handed (tokens, nested MarshalEncode / UnmarshalDecode calls) is `body` -/
  | user (body : Act)
  /-- one member of a struct (marshal or unmarshal side), with its `string` / `format` tag options -/
  | member (marshal : Bool) (str : Bool) (fmt : Bytes) (body : Act)
  /-- MarshalEncode / UnmarshalDecode on this coder with per-call options -/
  | call (marshal : Bool) (opts : List Opt) (needName : Bool) (body : Act)
deriving Repr, Inhabited

/-- Sequential composition as the Go code does it: a fatal error returns at once, a non-fatal one is recorded
(`cmp.Or`) and the loop goes on. -/
def seqResult (r : Struct × Outcome) (next : Struct → Struct × Outcome) : Struct × Outcome :=
  if r.2.isFatal then r else let r2 := next r.1; (r2.1, r.2.or r2.2)

/-- Effect of a callee on the option struct, and its outcome.  `g` = `globalEnableFormatTag`. -/
def exec (g : Bool) : Act → Struct → Struct × Outcome
  | .skip, s => (s, .ok)
  | .fail f, s => (s, .err f)
  | .clear k, s => ({ s with flags := s.flags.clear k.word }, .ok)
  | .seq a b, s => seqResult (exec g a s) (exec g b)
  | .user body, s => runOn { child := exec g body } userCallS [] s
  | .member mar str fmt body, s =>
      runOn { str := str, fmt := fmt, child := exec g body } (if mar then memberMarshal else memberUnmarshal) [] s
  | .call mar opts nn body, s =>
      runOn { globalFormatTag := g, needName := nn, child := exec g body } (if mar then marshalEncodeS else unmarshalDecodeS) opts s

/-! ### the option struct a callee sees (the closed forms proved in Lemmas/ScopeL: `member_closed`, `user_closed`,
`call_unmarshal_closed`, `call_marshal_closed`) -/

/-- The flags a struct member's value is (un)marshaled with. -/
def tagged (str : Bool) (fmt : Bytes) (s : Struct) : Struct :=
  let s1 : Struct := if str then { s with flags := s.flags.set (bv (jsonflags.c_StringTag + 1)) } else s
  if fmt != [] then { s1 with flags := s1.flags.set (bv (jsonflags.c_FormatTag + 1)), format := fmt } else s1

/-- `mayAppendSupportFormatTag`. -/
def callOpts (g : Bool) (opts : List Opt) : List Opt := if g then opts ++ [.formatTagSupport true] else opts

/-- The option struct the body of `UnmarshalDecode` runs with. -/
def enterUnmarshal (o : List Opt) (s : Struct) : Struct := s.join o

/-- The option struct the body of `MarshalEncode` runs with. -/
def enterMarshal (o : List Opt) (s : Struct) : Struct :=
  let j := s.join o
  if j.flags.has (bv jsonflags.c_AnyWhitespace) && j.flags.get (bv jsonflags.c_Multiline) then initializeMultiline j else j

/-- The two guards at an object-name position. -/
def nameGuardFails (nn : Bool) (s j : Struct) : Bool :=
  nn && (s.flags.get (bv jsonflags.c_AllowDuplicateNames) != j.flags.get (bv jsonflags.c_AllowDuplicateNames) ||
         s.flags.get (bv jsonflags.c_AllowInvalidUTF8) != j.flags.get (bv jsonflags.c_AllowInvalidUTF8))

/-- The whitespace guard of `MarshalEncode`. -/
def wsGuardFails (o : List Opt) (s : Struct) : Bool :=
  (s.join o).flags.has (bv jsonflags.c_AnyWhitespace) && changedWhitespace s (enterMarshal o s)

/-- `Marshal`/`MarshalWrite`/`Unmarshal`/`UnmarshalRead`: a pooled coder is `reset` with the call options
(jsontext/encode.go:118-129: `Struct{}.Join(opts...)`, `InitializeMultiline` under Multiline — encoder only), marshal
additionally sets OmitTopLevelNewline; the struct is dropped with the pooled coder afterwards. -/
def enterPooled (g marshal : Bool) (opts : List Opt) : Struct :=
  let o := if g then opts ++ [.formatTagSupport true] else opts
  let s := Struct.join {} o
  if marshal then
    let s := if s.flags.get W.multiline then initializeMultiline s else s
    { s with flags := s.flags.set (W.omitTopLevelNewline ||| one) }
  else s

/-- `NewEncoder(w, opts...)` / `NewDecoder(r, opts...)`: the caller-owned coder's own options. -/
def newCoder (encoder : Bool) (opts : List Opt) : Struct :=
  let s := Struct.join {} opts
  if encoder && s.flags.get W.multiline then initializeMultiline s else s

/-! ### the list of all option-writing statements (tied to `Gen.Scope.writeSites`) -/

def knownWriteSites : List (String × String × String × Nat) := [
  -- pooled entry points: `enterPooled`; `&xe.Struct` is handed to marshalEncode/unmarshalDecode (no copy)
  ("json", "Marshal", "Flags.Set", jsonflags.c_OmitTopLevelNewline + 1),
  ("json", "Marshal", "&Struct", 0),
  ("json", "MarshalWrite", "Flags.Set", jsonflags.c_OmitTopLevelNewline + 1),
  ("json", "MarshalWrite", "&Struct", 0),
  -- `marshalEncodeS`
  ("json", "MarshalEncode", "=Struct", 0),
  ("json", "MarshalEncode", "Struct.Join", 0),
  ("json", "MarshalEncode", "Struct.InitializeMultiline", 0),
  ("json", "MarshalEncode", "&Struct", 0),
  ("json", "Unmarshal", "&Struct", 0),
  ("json", "UnmarshalRead", "&Struct", 0),
  -- `unmarshalDecodeS`
  ("json", "UnmarshalDecode", "=Struct", 0),
  ("json", "UnmarshalDecode", "Struct.Join", 0),
  ("json", "UnmarshalDecode", "&Struct", 0),
  -- `&mo.Flags` passed to jsonwire.AppendQuote (reads only: jsonwire has no write site)
  ("json", "makeStringArshaler", "&Flags", 0),
  ("json", "makeStringArshaler", "&Flags", 0),
  -- `Act.clear .format`
  ("json", "makeBytesArshaler", "Flags.Clear", jsonflags.c_FormatTag),
  ("json", "makeBytesArshaler", "Flags.Clear", jsonflags.c_FormatTag),
  -- `memberMarshal` (and `&mo.Flags` to AppendQuote for the member name)
  ("json", "makeStructArshaler", "&Flags", 0),
  ("json", "makeStructArshaler", "Flags.Set", jsonflags.c_StringTag + 1),
  ("json", "makeStructArshaler", "Flags.Set", jsonflags.c_FormatTag + 1),
  ("json", "makeStructArshaler", "=Format", 0),
  ("json", "makeStructArshaler", "=Flags", 0),
  ("json", "makeStructArshaler", "=Format", 0),
  -- `memberUnmarshal` (and `&uo.Flags` to matchFoldedName, reads only)
  ("json", "makeStructArshaler", "&Flags", 0),
  ("json", "makeStructArshaler", "&Flags", 0),
  ("json", "makeStructArshaler", "Flags.Set", jsonflags.c_StringTag + 1),
  ("json", "makeStructArshaler", "Flags.Set", jsonflags.c_FormatTag + 1),
  ("json", "makeStructArshaler", "=Format", 0),
  ("json", "makeStructArshaler", "=Flags", 0),
  ("json", "makeStructArshaler", "=Format", 0),
  -- `Act.clear .string`
  ("json", "makePointerArshaler", "Flags.Clear", jsonflags.c_StringTag),
  ("json", "makePointerArshaler", "Flags.Clear", jsonflags.c_StringTag),
  ("json", "makeInterfaceArshaler", "Flags.Clear", jsonflags.c_StringTag),
  ("json", "makeInterfaceArshaler", "Flags.Clear", jsonflags.c_StringTag),
  -- a pooled decoder of its own (arshal_embedded.go:59-62), not the call's coder
  ("json", "marshalEmbeddedFallbackAll", "Flags.Set", jsonflags.c_AllowDuplicateNames + jsonflags.c_AllowInvalidUTF8 + 1),
  ("json", "marshalEmbeddedFallbackAll", "&Flags", 0),
  -- `userCallS` (four copies)
  ("json", "MarshalToFunc", "Flags.Set", jsonflags.c_WithinArshalCall + 1),
  ("json", "MarshalToFunc", "Flags.Set", jsonflags.c_WithinArshalCall),
  ("json", "UnmarshalFromFunc", "Flags.Set", jsonflags.c_WithinArshalCall + 1),
  ("json", "UnmarshalFromFunc", "Flags.Set", jsonflags.c_WithinArshalCall),
  ("json", "makeMethodArshaler", "Flags.Set", jsonflags.c_WithinArshalCall + 1),
  ("json", "makeMethodArshaler", "Flags.Set", jsonflags.c_WithinArshalCall),
  ("json", "makeMethodArshaler", "Flags.Set", jsonflags.c_WithinArshalCall + 1),
  ("json", "makeMethodArshaler", "Flags.Set", jsonflags.c_WithinArshalCall),
  -- `&uo.Flags`-style read alias while parsing tags; JoinOptions / DefaultOptionsV2 build fresh structs
  ("json", "parseFieldOptions", "&Flags", 0),
  ("json", "JoinOptions", "Struct.Join", 0),
  ("json", "JoinOptions", "&Struct", 0),
  ("json", "DefaultOptionsV2", "&Struct", 0),
  -- JoinUnknownOption (part of `Struct.joinOne`: `.marshalers`, `.unmarshalers`)
  ("json", "init", "Flags.Set", jsonflags.c_Marshalers + 1),
  ("json", "init", "=Marshalers", 0),
  ("json", "init", "Flags.Set", jsonflags.c_Unmarshalers + 1),
  ("json", "init", "=Unmarshalers", 0),
  -- coder construction / Reset: `newCoder`, `enterPooled`; Options() hands out the live struct
  ("jsontext", "decoderState_reset", "Struct.Join", 0),
  ("jsontext", "decoderState_reset", "=Struct", 0),
  ("jsontext", "Decoder_Options", "&Struct", 0),
  ("jsontext", "decoderState_options", "&Struct", 0),
  -- `Act.clear .tags`
  ("jsontext", "decoderState_ReadToken", "Flags.Clear", jsonflags.c_TagFlags),
  ("jsontext", "decoderState_ReadToken", "Flags.Clear", jsonflags.c_TagFlags),
  ("jsontext", "encoderState_reset", "Struct.Join", 0),
  ("jsontext", "encoderState_reset", "=Struct", 0),
  ("jsontext", "encoderState_reset", "Struct.InitializeMultiline", 0),
  ("jsontext", "Encoder_Options", "&Struct", 0),
  ("jsontext", "encoderState_options", "&Struct", 0),
  ("jsontext", "encoderState_WriteToken", "&Flags", 0),
  ("jsontext", "encoderState_WriteToken", "&Flags", 0),
  ("jsontext", "encoderState_WriteToken", "Flags.Clear", jsonflags.c_TagFlags),
  ("jsontext", "encoderState_WriteToken", "Flags.Clear", jsonflags.c_TagFlags),
  -- `&e.Flags` to jsonwire (reads only)
  ("jsontext", "encoderState_AppendRaw", "&Flags", 0),
  ("jsontext", "encoderState_reformatValue", "&Flags", 0),
  ("jsontext", "encoderState_reformatValue", "&Flags", 0),
  ("jsontext", "encoderState_reformatObject", "&Flags", 0),
  ("jsontext", "AppendQuote", "&Flags", 0),
  -- pooled coders of their own (Value.Format / AppendFormat / reorder)
  ("jsontext", "AppendFormat", "Flags.Set", jsonflags.c_OmitTopLevelNewline + 1),
  ("jsontext", "Value_format", "Flags.Set", jsonflags.c_OmitTopLevelNewline + 1),
  ("jsontext", "mustReorderObjects", "Flags.Set", jsonflags.c_AllowDuplicateNames + jsonflags.c_AllowInvalidUTF8 + 1)]

end JsonV.Model.Scope
