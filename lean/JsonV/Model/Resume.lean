/-
Executable models of the RESUMABLE scanners of internal/jsonwire/decode.go that the streaming
decoder (jsontext/decode.go: consumeWhitespace/consumeLiteral/consumeString/consumeNumber) drives
across buffer refills:

  ConsumeWhitespace(b)                                   decode.go:33
  ConsumeLiteral(b, lit)                                 decode.go:76
  ConsumeStringResumable(flags, b, resumeOffset, v)      decode.go:123-251
  ConsumeNumberResumable(b, resumeOffset, state)         decode.go:472-563

They return exactly what the Go functions return — (n, new flags / new state, error CLASS) —
including WHERE resumeOffset/state are saved when io.ErrUnexpectedEOF is reported.
One Lean function per Go label; a label working at offset `n` receives the suffix `b[n:]`
together with `n`.  Core Lean only (the oracle links this file).
-/
import JsonV.Model.Utf8

namespace JsonV.Model.Resume
open JsonV JsonV.Model

/-- Error classes of the scanners (message text is never modelled). -/
inductive Err where
  | ok            -- nil
  | eof           -- io.ErrUnexpectedEOF
  | invalidChar   -- NewInvalidCharacterError
  | invalidEscape -- NewInvalidEscapeSequenceError
  | invalidUTF8   -- ErrInvalidUTF8
  deriving DecidableEq, Repr, Inhabited

/-! ## Whitespace and literals -/

def isWs (c : UInt8) : Bool := c == 0x20 || c == 0x09 || c == 0x0D || c == 0x0A

/-- `ConsumeWhitespace(b)`. -/
def consumeWhitespace : Bytes → Nat
  | c :: r => if isWs c then consumeWhitespace r + 1 else 0
  | [] => 0

/-- `ConsumeLiteral(b, lit)`: (n, err). -/
def consumeLiteral : Bytes → Bytes → Nat × Err
  | _, [] => (0, .ok)
  | [], _ :: _ => (0, .eof)
  | c :: b, l :: lit =>
    if c != l then (0, .invalidChar)
    else ((consumeLiteral b lit).1 + 1, (consumeLiteral b lit).2)

/-! ## Numbers -/

def isDigit (c : UInt8) : Bool := 0x30 ≤ c && c ≤ 0x39

/-- length of the leading run of digits: `for len(b) > n && '0' <= b[n] && b[n] <= '9' { n++ }` -/
def countDigits : Bytes → Nat
  | c :: r => if isDigit c then countDigits r + 1 else 0
  | [] => 0

/-- ConsumeNumberState (decode.go:448): consumeNumberInit = 0, beforeIntegerDigits = 1, withinIntegerDigits = 2,
beforeFractionalDigits = 3, withinFractionalDigits = 4, beforeExponentDigits = 5, withinExponentDigits = 6.
A `uint` in Go: `state++` on withinExponentDigits yields 7, which the code returns as is. -/
abbrev NumRes := Nat × Nat × Err

/-- label `beforeExponent` (decode.go:541) at offset `n`, `r = b[n:]`, current `state = st`. -/
def beforeExponent (r : Bytes) (n st : Nat) : NumRes :=
  match r with
  | c :: r1 =>
    if c == 0x65 || c == 0x45 then
      match r1 with
      | [] => (n, 5, .eof)
      | s :: r2 =>
        if s == 0x2D || s == 0x2B then
          match r2 with
          | [] => (n, 5, .eof)
          | d :: r3 => if isDigit d then (n + 3 + countDigits r3, 6, .ok) else (n + 2, st, .invalidChar)
        else if isDigit s then (n + 2 + countDigits r2, 6, .ok) else (n + 1, st, .invalidChar)
    else (n, st, .ok)
  | [] => (n, st, .ok)

/-- label `beforeFractional` (decode.go:522). -/
def beforeFractional (r : Bytes) (n st : Nat) : NumRes :=
  match r with
  | c :: r1 =>
    if c == 0x2E then
      match r1 with
      | [] => (n, 3, .eof)
      | d :: r2 =>
        if isDigit d then beforeExponent (r2.drop (countDigits r2)) (n + 2 + countDigits r2) 4
        else (n + 1, st, .invalidChar)
    else beforeExponent r n st
  | [] => beforeExponent r n st

/-- the `switch` of label `beforeInteger` (decode.go:505-519): `r = b[n1:]` where `n1` is the offset after the
optional minus sign and `n` the offset at which the label was entered (the saved resumeOffset). -/
def integerBody (r : Bytes) (n n1 st : Nat) : NumRes :=
  match r with
  | [] => (n, 1, .eof)
  | c :: r1 =>
    if c == 0x30 then beforeFractional r1 (n1 + 1) 3
    else if 0x31 ≤ c && c ≤ 0x39 then
      beforeFractional (r1.drop (countDigits r1)) (n1 + 1 + countDigits r1) 2
    else (n1, st, .invalidChar)

/-- label `beforeInteger` (decode.go:500).  Note that the sign is looked up at `b[0]`, not `b[n]`. -/
def beforeInteger (b : Bytes) (n st : Nat) : NumRes :=
  let n1 := match b with
    | c :: _ => if c == 0x2D then n + 1 else n
    | [] => n
  integerBody (b.drop n1) n n1 st

/-- the second `switch state` of the resume prologue (decode.go:487). -/
def numDispatch (b : Bytes) (n st : Nat) : NumRes :=
  if st == 1 then beforeInteger b n st
  else if st == 3 then beforeFractional (b.drop n) n st
  else if st == 5 then beforeExponent (b.drop n) n st
  else (n, st, .ok)

/-- `ConsumeNumberResumable(b, resumeOffset, state)`: (n, state, err). -/
def consumeNumberResumable (b : Bytes) (resumeOffset state : Nat) : NumRes :=
  if state > 0 then
    if state == 2 || state == 4 || state == 6 then
      let n := resumeOffset + countDigits (b.drop resumeOffset)
      if b.length ≤ n then (n, state, .ok) else numDispatch b n (state + 1)
    else numDispatch b resumeOffset state
  else beforeInteger b resumeOffset state

/-! ## Strings -/

/-- `ValueFlags`: bit 1 = stringNonVerbatim, bit 2 = stringNonCanonical. -/
structure VFlags where
  nonVerbatim : Bool
  nonCanonical : Bool
  deriving DecidableEq, Repr, Inhabited

namespace VFlags
def none : VFlags := ⟨false, false⟩
def nv : VFlags := ⟨true, false⟩
def nc : VFlags := ⟨false, true⟩
def nvnc : VFlags := ⟨true, true⟩
/-- `flags.Join(g)` -/
def join (f g : VFlags) : VFlags := ⟨f.nonVerbatim || g.nonVerbatim, f.nonCanonical || g.nonCanonical⟩
def toNat (f : VFlags) : Nat := (if f.nonVerbatim then 1 else 0) + (if f.nonCanonical then 2 else 0)
def ofNat (n : Nat) : VFlags := ⟨n % 2 == 1, (n / 2) % 2 == 1⟩
end VFlags

def hexVal (c : UInt8) : Option Nat :=
  if 0x30 ≤ c && c ≤ 0x39 then some (c.toNat - 0x30)
  else if 0x61 ≤ c && c ≤ 0x66 then some (c.toNat - 0x61 + 10)
  else if 0x41 ≤ c && c ≤ 0x46 then some (c.toNat - 0x41 + 10)
  else Option.none

/-- `parseHexUint16` on exactly four bytes. -/
def parseHex4 (a b c d : UInt8) : Option Nat :=
  match hexVal a, hexVal b, hexVal c, hexVal d with
  | some w, some x, some y, some z => some (((w * 16 + x) * 16 + y) * 16 + z)
  | _, _, _, _ => Option.none

/-- one iteration of the loop in `hasEscapedUTF16Prefix` (decode.go:392): does byte `c` at index `i` rule the prefix out. -/
def prefixBad (lower : Bool) (i : Nat) (c : UInt8) : Bool :=
  (i == 0 && c != 0x5C) || (i == 1 && c != 0x75) ||
  (i == 2 && lower && c != 0x64 && c != 0x44) ||
  (i == 3 && lower && !(0x63 ≤ c && c ≤ 0x66) && !(0x43 ≤ c && c ≤ 0x46)) ||
  (2 ≤ i && i < 6 && (hexVal c).isNone)

def hasEscapedUTF16PrefixAux (lower : Bool) : Nat → Bytes → Bool
  | _, [] => true
  | i, c :: r => if prefixBad lower i c then false else hasEscapedUTF16PrefixAux lower (i + 1) r

/-- `hasEscapedUTF16Prefix(b, lowerSurrogateHalf)`. -/
def hasEscapedUTF16Prefix (b : Bytes) (lower : Bool) : Bool := hasEscapedUTF16PrefixAux lower 0 b

def isUpperHexLetter (c : UInt8) : Bool := 0x41 ≤ c && c ≤ 0x46

/-- the RFC 8785 canonical-form bookkeeping for one `\uXXXX` (decode.go:191-207): is stringNonCanonical joined. -/
def uEscNonCanonical (v1 : Nat) (h0 h1 h2 h3 : UInt8) : Bool :=
  if v1 == 8 || v1 == 12 || v1 == 10 || v1 == 13 || v1 == 9 then true
  else if v1 ≥ 0x20 then true
  else isUpperHexLetter h0 || isUpperHexLetter h1 || isUpperHexLetter h2 || isUpperHexLetter h3

/-- What one iteration of the main loop of ConsumeStringResumable does at offset `n` (`r = b[n:]`, non-empty). -/
inductive Step where
  /-- `n += k + 1`, flags joined, next iteration -/
  | adv (k : Nat) (g : VFlags)
  /-- terminating quote: `return n + 1, nil` -/
  | done
  /-- `return n, err` (every early return of the loop reports the offset where the iteration began;
      for io.ErrUnexpectedEOF that is the saved resumeOffset), flags joined before returning -/
  | stop (g : VFlags) (e : Err)
  deriving DecidableEq, Repr, Inhabited

/-- `noEscape` closure (decode.go:139). -/
def noEscape (c : UInt8) : Bool := c < 0x80 && 0x20 ≤ c && c != 0x5C && c != 0x22

def isSimpleEscape (c : UInt8) : Bool :=
  c == 0x22 || c == 0x5C || c == 0x62 || c == 0x66 || c == 0x6E || c == 0x72 || c == 0x74

/-- the second half of a surrogate pair (decode.go:211-227); `r6 = b[n+6:]` after the first `\uXXXX`. -/
def lowSurrogateStep (v1 : Nat) (f1 : VFlags) (r6 : Bytes) : Step :=
  match r6 with
  | b0 :: b1 :: l0 :: l1 :: l2 :: l3 :: _ =>
    if b0 != 0x5C || b1 != 0x75 then .stop (f1.join .nc) .invalidEscape
    else match parseHex4 l0 l1 l2 l3 with
      | Option.none => .stop (f1.join .nc) .invalidEscape
      | some v2 =>
        if Utf8.utf16DecodeRune v1 v2 == Utf8.runeError then .stop (f1.join .nc) .invalidEscape
        else .adv 11 f1
  | short =>
    if hasEscapedUTF16Prefix short true then .stop f1 .eof
    else .stop (f1.join .nc) .invalidEscape

/-- escape sequences (decode.go:162-231); `r1 = b[n+1:]`, the bytes after the backslash. -/
def escStep (r1 : Bytes) (validate : Bool) : Step :=
  match r1 with
  | [] => .stop .nv .eof
  | c1 :: r2 =>
    if c1 == 0x2F then .adv 1 .nvnc
    else if isSimpleEscape c1 then .adv 1 .nv
    else if c1 == 0x75 then
      match r2 with
      | h0 :: h1 :: h2 :: h3 :: r6 =>
        match parseHex4 h0 h1 h2 h3 with
        | Option.none => .stop .nvnc .invalidEscape
        | some v1 =>
          let f1 : VFlags := ⟨true, uEscNonCanonical v1 h0 h1 h2 h3⟩
          if validate && Utf8.isSurrogate v1 then lowSurrogateStep v1 f1 r6 else .adv 5 f1
      | short =>
        if hasEscapedUTF16Prefix (0x5C :: 0x75 :: short) false then .stop .nv .eof
        else .stop .nvnc .invalidEscape
    else .stop .nvnc .invalidEscape

/-- one iteration of `for uint(len(b)) > uint(n)` (decode.go:137-249) on the non-empty suffix `c :: r1`.
The run of unescaped ASCII is taken one byte per iteration (the inner `for` and the `len(b) <= n` test). -/
def strStep (c : UInt8) (r1 : Bytes) (validate : Bool) : Step :=
  if noEscape c then .adv 0 .none
  else if c == 0x22 then .done
  else
    let d := Utf8.decodeRune (c :: r1)
    if d.2 > 1 then .adv (d.2 - 1) .none
    else if d.1 == 0x5C then escStep r1 validate
    else if d.1 == Utf8.runeError then
      if !Utf8.fullRune (c :: r1) then .stop .none .eof
      else if validate then .stop .nvnc .invalidUTF8
      else .adv 0 .nvnc
    else .stop .nvnc .invalidChar   -- r < ' ' (the `default: panic` arm is unreachable: `strStep_default_unreachable` in Lemmas/ResumeStr)

/-- the main loop from offset `n` with `r = b[n:]`: (n, flags, err). -/
def strLoop (r : Bytes) (n : Nat) (f : VFlags) (validate : Bool) : Nat × VFlags × Err :=
  match r with
  | [] => (n, f, .eof)
  | c :: r1 =>
    match strStep c r1 validate with
    | .adv k g => strLoop (r1.drop k) (n + k + 1) (f.join g) validate
    | .done => (n + 1, f, .ok)
    | .stop g e => (n, f.join g, e)
termination_by r.length
decreasing_by simp [List.length_drop]; omega

/-- `ConsumeStringResumable(flags, b, resumeOffset, validateUTF8)`: (n, *flags afterwards, err). -/
def consumeStringResumable (f : VFlags) (b : Bytes) (resumeOffset : Nat) (validate : Bool) : Nat × VFlags × Err :=
  if resumeOffset > 0 then strLoop (b.drop resumeOffset) resumeOffset f validate
  else match b with
    | [] => (0, f, .eof)
    | c :: r => if c == 0x22 then strLoop r 1 f validate else (0, f, .invalidChar)

/-! ## The refill loops of jsontext/decode.go over a list of chunks

`fetch` appends at least one byte or fails; `rd == nil` (decoding a whole slice) is the empty chunk list.
Offsets are relative to the start of the token (`pos`), which `fetch` preserves (`absPos`). -/

/-- `decoderState.consumeNumber` (decode.go:945): the buffer holds `b` from `pos` on, more chunks may follow.
Refill when `err == io.ErrUnexpectedEOF || d.needMore(pos+n)`; when the reader is exhausted the number ends
if it may terminate here (`mayTerminate := err == nil`), otherwise `return pos, err`. -/
def consumeNumberChunks (b : Bytes) (n st : Nat) (chunks : List Bytes) : Nat × Err :=
  match chunks with
  | [] =>
    let r := consumeNumberResumable b n st
    if r.2.2 = .eof ∨ r.1 = b.length then (if r.2.2 = .ok then (r.1, .ok) else (0, .eof)) else (r.1, r.2.2)
  | c :: cs =>
    let r := consumeNumberResumable b n st
    if r.2.2 = .eof ∨ r.1 = b.length then consumeNumberChunks (b ++ c) r.1 r.2.1 cs else (r.1, r.2.2)

/-- `decoderState.consumeString` (decode.go:926). -/
def consumeStringChunks (f : VFlags) (b : Bytes) (n : Nat) (validate : Bool) (chunks : List Bytes) : Nat × VFlags × Err :=
  match chunks with
  | [] => consumeStringResumable f b n validate
  | c :: cs =>
    let r := consumeStringResumable f b n validate
    if r.2.2 = .eof then consumeStringChunks r.2.1 (b ++ c) r.1 validate cs else r

/-- `decoderState.consumeLiteral` (decode.go:908): rescans from the start after every refill. -/
def consumeLiteralChunks (b lit : Bytes) (chunks : List Bytes) : Nat × Err :=
  match chunks with
  | [] => consumeLiteral b lit
  | c :: cs =>
    let r := consumeLiteral b lit
    if r.2 = .eof then consumeLiteralChunks (b ++ c) lit cs else r

/-- `decoderState.consumeWhitespace` (decode.go:838): continues at `pos` after every refill; returns the
offset of the first non-blank byte and whether one exists (`nil`) or the input ended (`io.ErrUnexpectedEOF`). -/
def consumeWhitespaceChunks (b : Bytes) (pos : Nat) (chunks : List Bytes) : Nat × Err :=
  match chunks with
  | [] =>
    let p := pos + consumeWhitespace (b.drop pos)
    if p = b.length then (p, .eof) else (p, .ok)
  | c :: cs =>
    let p := pos + consumeWhitespace (b.drop pos)
    if p = b.length then consumeWhitespaceChunks (b ++ c) p cs else (p, .ok)

end JsonV.Model.Resume
