#!/bin/bash
# seed_matrix.sh [seed-dir ...]  — runs every seeded change against the check of the property it breaks and writes
# seeded/RESULTS.tsv: seed, property, exit status, #violations, violation kinds (from the replay files), broken obligations.
set -u
cd "$(dirname "$0")/.."
seeds=("$@"); [ ${#seeds[@]} -eq 0 ] && seeds=(seeded/*/)
run_one() {
  d=$(cd "${1%/}" && pwd); id=$(basename "$d"); prop=$(jq -r .property "$d/meta.json")
  wt=/tmp/seedmx-$id-$$
  git -C /repo worktree add -q --detach "$wt" HEAD || { echo -e "$id\t$prop\tERR\tworktree"; return; }
  if ! git -C "$wt" apply "$d/patch.diff" 2>/dev/null; then echo -e "$id\t$prop\tERR\tpatch does not apply"; git -C /repo worktree remove --force "$wt"; return; fi
  rp=/tmp/seedmx-replays-$id-$$; mkdir -p "$rp"
  out=$(VERIF_REPLAY_DIR="$rp" VERIF_REPO="$wt" ./check "$prop" --tier quick 2>/dev/null); rc=$?
  nv=$(echo "$out" | grep -c '^VIOLATION')
  kinds=$(echo "$out" | grep '^VIOLATION' | sed -n 's/.*replay=\([^ ]*\).*/\1/p' | while read f; do jq -r '(.violation.kind // empty), (if .no_failing_input_found then "BROKEN-TIE:" + ((.no_longer_checks // []) | map(.[0:60]) | join(" | ")) else empty end)' "$f" 2>/dev/null; done | sort | uniq -c | sort -rn | awk '{c=$1; $1=""; printf "%s×%s; ", substr($0,2), c}')
  echo -e "$id\t$prop\t$rc\t$nv\t$kinds"
  echo -e "$id\t$prop\t$rc\t$nv\t$kinds" >> "${SEED_OUT:-seeded/RESULTS.tsv}.partial"
  git -C /repo worktree remove --force "$wt" >/dev/null 2>&1; rm -rf "$wt" "$rp"
}
export -f run_one
printf '%s\n' "${seeds[@]}" | xargs -P "${SEED_JOBS:-4}" -I{} bash -c 'run_one {}' | sort > "${SEED_OUT:-seeded/RESULTS.tsv}"
awk -F'\t' '{t++; if ($3==1) c++} END {printf "caught %d of %d\n", c, t}' "${SEED_OUT:-seeded/RESULTS.tsv}"
