#!/usr/bin/env python3
"""Regenerate /verif/MANIFEST.json from meta/*.json (one file per claimed property) and properties.jsonl.
A property is claimed iff meta/<id>.json, lean/JsonV/Props/<id>.lean and a harness registration exist."""
import json, os, re, subprocess, sys

V = os.path.dirname(os.path.dirname(os.path.abspath(__file__)))
ids = [json.loads(l)["id"] for l in open(os.path.join(V, "properties.jsonl"))]
titles = {json.loads(l)["id"]: json.loads(l)["title"] for l in open(os.path.join(V, "properties.jsonl"))}
harness_src = "".join(open(os.path.join(V, "harness", f)).read() for f in os.listdir(os.path.join(V, "harness")) if f.endswith(".go"))

checks, na = [], []
for i in ids:
    mp = os.path.join(V, "meta", i + ".json")
    ok = os.path.exists(mp) and ('register("%s"' % i) in harness_src
    if not ok:
        na.append({"property_id": i, "reason": "check under construction in this session (model/theorems/harness not yet merged); will be claimed, not abandoned"})
        continue
    m = json.load(open(mp))
    partial = m.get("partial")
    text = m.get("level_text") or (
        "Lean 4 theorems (no sorry, axioms ⊆ {propext, Classical.choice, Quot.sound}) about an executable model of the code anchored by this property, "
        "re-checked on every run; the model is tied to /repo by the regenerated Gen files (Tie A) where applicable and by a differential "
        "correspondence check against the compiled Lean oracle (Tie B); the property's own predicate is additionally evaluated on the implementation.")
    if partial:
        text += " PARTIAL: " + partial
    note = m.get("level_note") or ("Trusted: " + "; ".join(m.get("trusted_base", [])) + ". Assumed/modelled: " + "; ".join(m.get("assumptions", [])) +
                                   (". Not proved (validated only): " + "; ".join(m.get("not_proved", [])) if m.get("not_proved") else ""))
    checks.append({
        "property_id": i,
        "quick_cmd": "./check %s --tier quick" % i,
        "thorough_cmd": "./check %s --tier thorough" % i,
        "evidence_file": "/verif/evidence/%s.json" % i,
        "replay_cmd_template": "./check %s --replay {path}" % i,
        "engine": "lean4-proof+correspondence",
        "level_claimed": {"category": "proof", "text": text, "design_ref": "DESIGN.md §5 " + i},
        "level_note": note[:4000],
        "technique": m.get("technique", "Lean 4 proof over an executable model, tied to the code by regeneration (translator) and differential correspondence"),
    })

hooks_commits = subprocess.run(["git", "-C", "/repo", "log", "--format=%H %s"], capture_output=True, text=True).stdout.strip().split("\n")
hook_shas = [l.split()[0] for l in hooks_commits if "verif hooks" in l]
manifest = {
    "version": 1,
    "setup_cmd": "./setup.sh",
    "hooks": {
        "guard": "verif",
        "enable": "go1.26 build -tags verif (harness module github.com/go-json-experiment/json/verifh, replace => /repo); hook files: verif_hooks.go, verif_hooks_pools.go, jsontext/verif_hooks.go, jsontext/verif_hooks_pools.go, internal/jsonwire/verif_hooks.go",
        "baseline_off_cmd": "cd /repo && GOFLAGS=-mod=mod GOPROXY=off GOSUMDB=off GOTOOLCHAIN=local go1.26 test -json -vet=off -count=1 -timeout 25m ./...",
        "source_commits": hook_shas,
        "add_only": True,
    },
    "engines": [{"name": "lean4-proof+correspondence", "path": "/verif/check", "serves_properties": [c["property_id"] for c in checks],
                 "kind_free_text": "Lean 4 theorems over models (lean/JsonV), Tie A translator (tools/translate), Tie B Go harness + compiled Lean oracle (harness/, lean/Oracle.lean)"}],
    "checks": checks,
    "not_applicable": na,
    "notes": "See DESIGN.md. known_findings.json lists known/fixed defects of /repo. Exit 2 of a check = machinery failure (never a verdict).",
}
json.dump(manifest, open(os.path.join(V, "MANIFEST.json"), "w"), indent=1, ensure_ascii=False)
print("claimed:", [c["property_id"] for c in checks])
print("not yet:", [n["property_id"] for n in na])
