#!/bin/bash
# sweep.sh <tier> [seed ...] — runs every claimed check at the given tier (for each seed) and prints one line per run:
# env PROPS="C03 C07" restricts/orders the properties.
#   <id> seed=<s> rc=<exit> violations=<n> known=<n> <last log line>.  Exit 1 if any run has rc != 0.
cd "$(dirname "$0")/.."
tier=${1:-quick}; shift; seeds=${*:-1}; bad=0
for s in $seeds; do
  for p in ${PROPS:-$(jq -r '.checks[].property_id' MANIFEST.json)}; do
    out=$(VERIF_SEED=$s ./check "$p" --tier "$tier" 2>.build/sweep-$p.err); rc=$?
    echo "$p seed=$s rc=$rc violations=$(echo "$out" | grep -c '^VIOLATION') known=$(echo "$out" | grep -c '^KNOWN-FINDING') $(tail -1 .build/sweep-$p.err | cut -c1-160)"
    [ $rc -ne 0 ] && { bad=1; echo "$out" | grep '^VIOLATION' | head -5; tail -5 .build/sweep-$p.err; }
  done
done
exit $bad
