#!/bin/bash
# seed_run.sh <seeded-dir> [property-id ...]
# Runs the quick check(s) of the property the seeded change breaks against a scratch worktree of /repo carrying the patch
# (VERIF_REPO), and prints whether the check raised a violation.  Nothing is applied to /repo itself.
set -u
d=$(cd "$1" && pwd); shift
props="$*"; [ -z "$props" ] && props=$(jq -r '.property' "$d/meta.json")
wt=/tmp/seedrun-$(basename "$d")-$$
git -C /repo worktree add -q --detach "$wt" HEAD || exit 2
trap 'git -C /repo worktree remove --force "$wt" >/dev/null 2>&1; rm -rf "$wt"' EXIT
git -C "$wt" apply "$d/patch.diff" || { echo "patch does not apply"; exit 2; }
for p in $props; do
  out=$(VERIF_REPO="$wt" "$(dirname "$0")/../check" "$p" --tier "${VERIF_TIER:-quick}" 2>/tmp/seedrun-$$.err); rc=$?
  nv=$(echo "$out" | grep -c '^VIOLATION')
  echo "SEED $(basename "$d") check=$p exit=$rc violations=$nv $(echo "$out" | grep '^VIOLATION' | head -2 | tr '\n' ' ')"
  [ $rc -eq 2 ] && tail -5 /tmp/seedrun-$$.err
  rm -f /tmp/seedrun-$$.err
done
