// translate regenerates the Lean files under lean/JsonV/Gen from the Go
// sources of the repository (Tie A of DESIGN.md).  It type-checks the packages
// from source (offline) and emits
//
//	Constants.lean  every package-level integer constant of the listed packages
//	Tables.lean     listed lookup tables ([N]uint8 / [N]Kind composite literals) and string constants
//	Straight.lean   a whitelist of straight-line functions translated to BitVec terms
//
// Anything it cannot translate is a hard error (exit 3) that names the function
// and the construct: the check driver treats that as a broken tie.
package main

import (
	"fmt"
	"go/ast"
	"go/build"
	"go/constant"
	"go/importer"
	"go/parser"
	"go/token"
	"go/types"
	"math/big"
	"os"
	"path/filepath"
	"sort"
	"strings"
)

const modPath = "github.com/go-json-experiment/json"

type pkgInfo struct {
	name  string // short id used as Lean namespace
	dir   string
	files []*ast.File
	pkg   *types.Package
	info  *types.Info
}

var fset = token.NewFileSet()

func die(code int, format string, a ...any) {
	fmt.Fprintf(os.Stderr, "translate: "+format+"\n", a...)
	os.Exit(code)
}

func load(repo, rel, name string) *pkgInfo {
	dir := filepath.Join(repo, rel)
	ctx := build.Default
	ctx.GOARCH = "amd64"
	ctx.GOOS = "linux"
	ctx.CgoEnabled = false
	bp, err := ctx.ImportDir(dir, 0)
	if err != nil {
		die(3, "cannot list %s: %v", dir, err)
	}
	var files []*ast.File
	for _, f := range bp.GoFiles {
		af, err := parser.ParseFile(fset, filepath.Join(dir, f), nil, parser.ParseComments)
		if err != nil {
			die(3, "parse %s: %v", f, err)
		}
		files = append(files, af)
	}
	info := &types.Info{
		Types: map[ast.Expr]types.TypeAndValue{},
		Defs:  map[*ast.Ident]types.Object{},
		Uses:  map[*ast.Ident]types.Object{},
	}
	conf := types.Config{Importer: importer.ForCompiler(fset, "source", nil), Error: func(err error) {}}
	path := modPath
	if rel != "." {
		path = modPath + "/" + rel
	}
	pkg, err := conf.Check(path, fset, files, info)
	if err != nil && pkg == nil {
		die(3, "typecheck %s: %v", rel, err)
	}
	return &pkgInfo{name: name, dir: dir, files: files, pkg: pkg, info: info}
}

// ---------------------------------------------------------------- constants

func leanIdent(s string) string {
	r := strings.NewReplacer(".", "_", "*", "", "(", "", ")", "")
	return r.Replace(s)
}

func emitConstants(w *strings.Builder, p *pkgInfo) {
	fmt.Fprintf(w, "\nnamespace %s\n", p.name)
	type kv struct {
		name string
		val  *big.Int
		pos  token.Pos
	}
	var all []kv
	// package-level and function-level integer constants
	for id, obj := range p.info.Defs {
		c, ok := obj.(*types.Const)
		if !ok || id.Name == "_" {
			continue
		}
		v := constant.ToInt(c.Val())
		if v.Kind() != constant.Int {
			continue
		}
		bi, ok := new(big.Int).SetString(v.ExactString(), 10)
		if !ok {
			continue
		}
		name := id.Name
		if c.Parent() != p.pkg.Scope() {
			// local constant: qualify with enclosing function
			fn := enclosingFunc(p, id.Pos())
			if fn == "" {
				continue
			}
			name = fn + "_" + name
		}
		all = append(all, kv{name, bi, id.Pos()})
	}
	sort.Slice(all, func(i, j int) bool {
		if all[i].name != all[j].name {
			return all[i].name < all[j].name
		}
		return all[i].pos < all[j].pos
	})
	seen := map[string]bool{}
	for _, c := range all {
		if seen[c.name] {
			continue
		}
		seen[c.name] = true
		if c.val.Sign() >= 0 {
			fmt.Fprintf(w, "def c_%s : Nat := %s\n", leanIdent(c.name), c.val.String())
		} else {
			fmt.Fprintf(w, "def c_%s : Int := %s\n", leanIdent(c.name), c.val.String())
		}
	}
	fmt.Fprintf(w, "end %s\n", p.name)
}

func enclosingFunc(p *pkgInfo, pos token.Pos) string {
	for _, f := range p.files {
		if pos < f.Pos() || pos > f.End() {
			continue
		}
		for _, d := range f.Decls {
			fd, ok := d.(*ast.FuncDecl)
			if !ok || pos < fd.Pos() || pos > fd.End() {
				continue
			}
			n := fd.Name.Name
			if fd.Recv != nil && len(fd.Recv.List) == 1 {
				n = recvTypeName(fd.Recv.List[0].Type) + "_" + n
			}
			return n
		}
	}
	return ""
}

func recvTypeName(e ast.Expr) string {
	switch t := e.(type) {
	case *ast.StarExpr:
		return recvTypeName(t.X)
	case *ast.Ident:
		return t.Name
	case *ast.IndexExpr:
		return recvTypeName(t.X)
	}
	return "?"
}

// ---------------------------------------------------------------- tables

func findVarDecl(p *pkgInfo, name string) ast.Expr {
	for _, f := range p.files {
		for _, d := range f.Decls {
			gd, ok := d.(*ast.GenDecl)
			if !ok || gd.Tok != token.VAR {
				continue
			}
			for _, s := range gd.Specs {
				vs := s.(*ast.ValueSpec)
				for i, n := range vs.Names {
					if n.Name == name && i < len(vs.Values) {
						return vs.Values[i]
					}
				}
			}
		}
	}
	return nil
}

// emitTable evaluates an array composite literal with constant (possibly keyed) elements.
func emitTable(w *strings.Builder, p *pkgInfo, name string) {
	e := findVarDecl(p, name)
	cl, ok := e.(*ast.CompositeLit)
	if !ok {
		die(3, "cannot translate table %s.%s: not a composite literal", p.name, name)
	}
	tv := p.info.Types[cl]
	arr, ok := tv.Type.Underlying().(*types.Array)
	if !ok {
		die(3, "cannot translate table %s.%s: not an array", p.name, name)
	}
	vals := make([]string, arr.Len())
	for i := range vals {
		vals[i] = "0"
	}
	idx := int64(0)
	for _, el := range cl.Elts {
		v := el
		if kv, ok := el.(*ast.KeyValueExpr); ok {
			ktv := p.info.Types[kv.Key]
			if ktv.Value == nil {
				die(3, "cannot translate table %s.%s: non-constant key", p.name, name)
			}
			k, _ := constant.Int64Val(constant.ToInt(ktv.Value))
			idx = k
			v = kv.Value
		}
		vtv := p.info.Types[v]
		if vtv.Value == nil {
			die(3, "cannot translate table %s.%s: non-constant element", p.name, name)
		}
		vals[idx] = constant.ToInt(vtv.Value).ExactString()
		idx++
	}
	fmt.Fprintf(w, "def %s_%s : List Nat := [", p.name, name)
	for i, v := range vals {
		if i > 0 {
			w.WriteString(", ")
		}
		if i%16 == 0 {
			w.WriteString("\n  ")
		}
		w.WriteString(v)
	}
	w.WriteString("]\n")
}

// ---------------------------------------------------------------- straight-line functions

type tr struct {
	p      *pkgInfo
	fn     string
	lets   []string
	params []string
	muts   []string // mutated outputs (lean var names), in order
}

func (t *tr) bad(n ast.Node, what string) {
	die(3, "cannot translate %s.%s: %s at %s", t.p.name, t.fn, what, fset.Position(n.Pos()))
}

func widthOf(ty types.Type) (w int, signed bool, isBool bool, ok bool) {
	b, isB := ty.Underlying().(*types.Basic)
	if !isB {
		return 0, false, false, false
	}
	switch b.Kind() {
	case types.Bool, types.UntypedBool:
		return 0, false, true, true
	case types.Uint8:
		return 8, false, false, true
	case types.Int8:
		return 8, true, false, true
	case types.Uint16:
		return 16, false, false, true
	case types.Int16:
		return 16, true, false, true
	case types.Uint32:
		return 32, false, false, true
	case types.Int32:
		return 32, true, false, true
	case types.Uint64, types.Uint, types.Uintptr:
		return 64, false, false, true
	case types.Int64, types.Int:
		return 64, true, false, true
	}
	return 0, false, false, false
}

func leanType(ty types.Type) string {
	w, _, isBool, ok := widthOf(ty)
	if !ok {
		return ""
	}
	if isBool {
		return "Bool"
	}
	return fmt.Sprintf("BitVec %d", w)
}

func (t *tr) lit(v constant.Value, ty types.Type, n ast.Node) string {
	w, _, isBool, ok := widthOf(ty)
	if !ok {
		t.bad(n, "constant of unsupported type "+ty.String())
	}
	if isBool {
		if constant.BoolVal(v) {
			return "true"
		}
		return "false"
	}
	bi, _ := new(big.Int).SetString(constant.ToInt(v).ExactString(), 10)
	if bi.Sign() < 0 {
		bi.Add(bi, new(big.Int).Lsh(big.NewInt(1), uint(w)))
	}
	return fmt.Sprintf("(0x%s#%d)", bi.Text(16), w)
}

// typeFor returns the type to use for expression e; untyped constants take the hint.
func (t *tr) typeOf(e ast.Expr) types.Type {
	return t.p.info.Types[e].Type
}

func isUntyped(ty types.Type) bool {
	b, ok := ty.(*types.Basic)
	return ok && b.Info()&types.IsUntyped != 0
}

func (t *tr) expr(e ast.Expr, hint types.Type) string {
	tv := t.p.info.Types[e]
	if tv.Value != nil {
		ty := tv.Type
		if isUntyped(ty) {
			if hint == nil {
				t.bad(e, "untyped constant without context")
			}
			ty = hint
		}
		return t.lit(tv.Value, ty, e)
	}
	switch x := e.(type) {
	case *ast.ParenExpr:
		return t.expr(x.X, hint)
	case *ast.Ident:
		return leanVar(x.Name)
	case *ast.StarExpr:
		if id, ok := x.X.(*ast.Ident); ok {
			return leanVar(id.Name)
		}
		t.bad(e, "dereference")
	case *ast.SelectorExpr:
		if id, ok := x.X.(*ast.Ident); ok {
			return leanVar(id.Name) + "_" + x.Sel.Name
		}
		t.bad(e, "selector")
	case *ast.UnaryExpr:
		switch x.Op {
		case token.XOR:
			return "(~~~" + t.expr(x.X, hint) + ")"
		case token.NOT:
			return "(!" + t.expr(x.X, hint) + ")"
		case token.SUB:
			return "(-" + t.expr(x.X, hint) + ")"
		}
		t.bad(e, "unary "+x.Op.String())
	case *ast.BinaryExpr:
		return t.binary(x, hint)
	case *ast.CallExpr:
		return t.call(x, hint)
	}
	t.bad(e, fmt.Sprintf("expression %T", e))
	return ""
}

func (t *tr) binary(x *ast.BinaryExpr, hint types.Type) string {
	lt, rt := t.typeOf(x.X), t.typeOf(x.Y)
	switch x.Op {
	case token.LAND:
		return "(" + t.expr(x.X, nil) + " && " + t.expr(x.Y, nil) + ")"
	case token.LOR:
		return "(" + t.expr(x.X, nil) + " || " + t.expr(x.Y, nil) + ")"
	case token.SHL, token.SHR:
		// shift count: translate in its own type, convert to Nat
		ty := lt
		if isUntyped(ty) {
			ty = hint
		}
		l := t.expr(x.X, ty)
		cty := rt
		if isUntyped(cty) {
			cty = types.Typ[types.Uint]
		}
		r := t.expr(x.Y, cty)
		_, signed, _, _ := widthOf(ty)
		op := "<<<"
		if x.Op == token.SHR {
			op = ">>>"
			if signed {
				return "(BitVec.sshiftRight " + l + " (" + r + ").toNat)"
			}
		}
		return "(" + l + " " + op + " (" + r + ").toNat)"
	}
	// operand type
	ot := lt
	if isUntyped(ot) {
		ot = rt
	}
	if isUntyped(ot) {
		ot = hint
	}
	l, r := t.expr(x.X, ot), t.expr(x.Y, ot)
	_, signed, isBool, _ := widthOf(ot)
	switch x.Op {
	case token.OR:
		return "(" + l + " ||| " + r + ")"
	case token.AND:
		return "(" + l + " &&& " + r + ")"
	case token.AND_NOT:
		return "(" + l + " &&& ~~~" + r + ")"
	case token.XOR:
		return "(" + l + " ^^^ " + r + ")"
	case token.ADD:
		return "(" + l + " + " + r + ")"
	case token.SUB:
		return "(" + l + " - " + r + ")"
	case token.MUL:
		return "(" + l + " * " + r + ")"
	case token.REM:
		if signed {
			t.bad(x, "signed %")
		}
		return "(" + l + " % " + r + ")"
	case token.EQL:
		return "(" + l + " == " + r + ")"
	case token.NEQ:
		return "(" + l + " != " + r + ")"
	case token.LSS, token.GTR, token.LEQ, token.GEQ:
		if isBool {
			t.bad(x, "ordering on bool")
		}
		a, b := l, r
		if x.Op == token.GTR || x.Op == token.LEQ {
			a, b = r, l
		}
		// LSS: a<b ; GTR: b<a (swapped) ; LEQ: !(r<l) ; GEQ: !(l<r)
		f := "BitVec.ult"
		if signed {
			f = "BitVec.slt"
		}
		s := "(" + f + " " + a + " " + b + ")"
		if x.Op == token.LEQ || x.Op == token.GEQ {
			s = "(!" + s + ")"
		}
		return s
	}
	t.bad(x, "binary "+x.Op.String())
	return ""
}

func leanVar(n string) string {
	switch n {
	case "at", "end", "from", "in", "do", "then", "else", "fun", "let", "have", "show", "open", "by", "if", "match", "with", "where", "instance", "structure", "def", "theorem":
		return n + "'"
	}
	return n
}

func (t *tr) call(x *ast.CallExpr, hint types.Type) string {
	// conversion?
	if tv, ok := t.p.info.Types[x.Fun]; ok && tv.IsType() {
		to := tv.Type
		from := t.typeOf(x.Args[0])
		arg := t.expr(x.Args[0], to)
		if isUntyped(from) {
			return arg
		}
		fw, fsigned, fb, ok1 := widthOf(from)
		tw, _, tb, ok2 := widthOf(to)
		if !ok1 || !ok2 || fb || tb {
			t.bad(x, "conversion "+from.String()+"→"+to.String())
		}
		if fw == tw {
			return arg
		}
		if tw < fw {
			return fmt.Sprintf("(BitVec.setWidth %d %s)", tw, arg)
		}
		if fsigned {
			return fmt.Sprintf("(BitVec.signExtend %d %s)", tw, arg)
		}
		return fmt.Sprintf("(BitVec.setWidth %d %s)", tw, arg)
	}
	// bits.RotateLeft32(h, k)
	if sel, ok := x.Fun.(*ast.SelectorExpr); ok {
		if id, ok := sel.X.(*ast.Ident); ok {
			if pn, ok := t.p.info.Uses[id].(*types.PkgName); ok {
				if pn.Imported().Path() == "math/bits" && (sel.Sel.Name == "RotateLeft32" || sel.Sel.Name == "RotateLeft64") {
					ktv := t.p.info.Types[x.Args[1]]
					if ktv.Value == nil {
						t.bad(x, "non-constant rotation")
					}
					k, _ := constant.Int64Val(constant.ToInt(ktv.Value))
					if k < 0 {
						t.bad(x, "negative rotation")
					}
					return fmt.Sprintf("(BitVec.rotateLeft %s %d)", t.expr(x.Args[0], nil), k)
				}
				t.bad(x, "call to "+pn.Imported().Path()+"."+sel.Sel.Name)
			}
			// method call on a local: e.method(args) where method is whitelisted in same package
			recvT := t.typeOf(sel.X)
			if recvT != nil {
				tn := typeName(recvT)
				name := t.p.name + "_" + tn + "_" + sel.Sel.Name
				if !translated[name] {
					t.bad(x, "call to untranslated method "+tn+"."+sel.Sel.Name)
				}
				s := "(" + name + " " + t.recvArgs(sel.X)
				sig := t.p.info.Types[x.Fun].Type.(*types.Signature)
				for i, a := range x.Args {
					s += " " + t.expr(a, sig.Params().At(i).Type())
				}
				return s + ")"
			}
		}
	}
	if id, ok := x.Fun.(*ast.Ident); ok {
		name := t.p.name + "_" + id.Name
		if translated[name] {
			s := "(" + name
			sig := t.p.info.Types[x.Fun].Type.(*types.Signature)
			for i, a := range x.Args {
				s += " " + t.expr(a, sig.Params().At(i).Type())
			}
			return s + ")"
		}
	}
	t.bad(x, "call")
	return ""
}

func typeName(ty types.Type) string {
	if p, ok := ty.(*types.Pointer); ok {
		ty = p.Elem()
	}
	if n, ok := ty.(*types.Named); ok {
		return n.Obj().Name()
	}
	return ty.String()
}

// recvArgs renders the receiver as lean arguments (struct receivers expand to fields).
func (t *tr) recvArgs(e ast.Expr) string {
	ty := t.typeOf(e)
	if p, ok := ty.(*types.Pointer); ok {
		ty = p.Elem()
	}
	if st, ok := ty.Underlying().(*types.Struct); ok {
		id, ok := e.(*ast.Ident)
		if !ok {
			t.bad(e, "struct receiver expression")
		}
		var parts []string
		for i := 0; i < st.NumFields(); i++ {
			parts = append(parts, leanVar(id.Name)+"_"+st.Field(i).Name())
		}
		return strings.Join(parts, " ")
	}
	return t.expr(e, nil)
}

var translated = map[string]bool{}

func findFunc(p *pkgInfo, recv, name string) *ast.FuncDecl {
	for _, f := range p.files {
		for _, d := range f.Decls {
			fd, ok := d.(*ast.FuncDecl)
			if !ok || fd.Name.Name != name {
				continue
			}
			if recv == "" && fd.Recv == nil {
				return fd
			}
			if recv != "" && fd.Recv != nil && recvTypeName(fd.Recv.List[0].Type) == recv {
				return fd
			}
		}
	}
	return nil
}

// addParam declares lean binders for a Go parameter; returns the names that are
// mutable outputs if the parameter is a pointer.
func (t *tr) addParam(name string, ty types.Type, n ast.Node) (outs []string) {
	ptr := false
	if p, ok := ty.(*types.Pointer); ok {
		ptr = true
		ty = p.Elem()
	}
	if st, ok := ty.Underlying().(*types.Struct); ok {
		for i := 0; i < st.NumFields(); i++ {
			lt := leanType(st.Field(i).Type())
			if lt == "" {
				t.bad(n, "struct field type "+st.Field(i).Type().String())
			}
			v := leanVar(name) + "_" + st.Field(i).Name()
			t.params = append(t.params, fmt.Sprintf("(%s : %s)", v, lt))
			if ptr {
				outs = append(outs, v)
			}
		}
		return
	}
	lt := leanType(ty)
	if lt == "" {
		t.bad(n, "parameter type "+ty.String())
	}
	t.params = append(t.params, fmt.Sprintf("(%s : %s)", leanVar(name), lt))
	if ptr {
		outs = append(outs, leanVar(name))
	}
	return
}

func (t *tr) lhs(e ast.Expr) (string, types.Type) {
	switch x := e.(type) {
	case *ast.Ident:
		return leanVar(x.Name), t.typeOf(e)
	case *ast.StarExpr:
		if id, ok := x.X.(*ast.Ident); ok {
			return leanVar(id.Name), t.typeOf(e)
		}
	case *ast.ParenExpr:
		return t.lhs(x.X)
	case *ast.SelectorExpr:
		if id, ok := x.X.(*ast.Ident); ok {
			return leanVar(id.Name) + "_" + x.Sel.Name, t.typeOf(e)
		}
	}
	t.bad(e, "assignment target")
	return "", nil
}

var assignOps = map[token.Token]token.Token{
	token.OR_ASSIGN: token.OR, token.AND_ASSIGN: token.AND, token.XOR_ASSIGN: token.XOR,
	token.ADD_ASSIGN: token.ADD, token.SUB_ASSIGN: token.SUB, token.MUL_ASSIGN: token.MUL,
	token.AND_NOT_ASSIGN: token.AND_NOT, token.SHL_ASSIGN: token.SHL, token.SHR_ASSIGN: token.SHR,
}

func (t *tr) stmts(list []ast.Stmt, results *types.Tuple) (ret string, returned bool) {
	for _, s := range list {
		switch x := s.(type) {
		case *ast.AssignStmt:
			if len(x.Lhs) != 1 || len(x.Rhs) != 1 {
				t.bad(s, "multi-assignment")
			}
			name, ty := t.lhs(x.Lhs[0])
			if x.Tok == token.DEFINE || x.Tok == token.ASSIGN {
				if ty == nil || isUntyped(ty) {
					ty = t.typeOf(x.Rhs[0])
				}
				if x.Tok == token.DEFINE {
					if obj := t.p.info.Defs[x.Lhs[0].(*ast.Ident)]; obj != nil {
						ty = obj.Type()
					}
				}
				t.lets = append(t.lets, fmt.Sprintf("let %s : %s := %s", name, leanType(ty), t.expr(x.Rhs[0], ty)))
				continue
			}
			op, ok := assignOps[x.Tok]
			if !ok {
				t.bad(s, "assignment "+x.Tok.String())
			}
			be := &ast.BinaryExpr{X: x.Lhs[0], Op: op, Y: x.Rhs[0], OpPos: x.TokPos}
			t.p.info.Types[be] = types.TypeAndValue{Type: ty}
			t.lets = append(t.lets, fmt.Sprintf("let %s : %s := %s", name, leanType(ty), t.binary(be, ty)))
		case *ast.IncDecStmt:
			name, ty := t.lhs(x.X)
			w, _, _, _ := widthOf(ty)
			op := "+"
			if x.Tok == token.DEC {
				op = "-"
			}
			t.lets = append(t.lets, fmt.Sprintf("let %s : %s := %s %s (0x1#%d)", name, leanType(ty), name, op, w))
		case *ast.DeclStmt:
			gd := x.Decl.(*ast.GenDecl)
			if gd.Tok == token.CONST {
				continue // constants are folded by the type checker
			}
			if gd.Tok == token.VAR {
				for _, sp := range gd.Specs {
					vs := sp.(*ast.ValueSpec)
					for i, n := range vs.Names {
						ty := t.p.info.Defs[n].Type()
						if i < len(vs.Values) {
							t.lets = append(t.lets, fmt.Sprintf("let %s : %s := %s", leanVar(n.Name), leanType(ty), t.expr(vs.Values[i], ty)))
						} else {
							w, _, isBool, ok := widthOf(ty)
							if !ok {
								t.bad(s, "var type")
							}
							z := fmt.Sprintf("(0x0#%d)", w)
							if isBool {
								z = "false"
							}
							t.lets = append(t.lets, fmt.Sprintf("let %s : %s := %s", leanVar(n.Name), leanType(ty), z))
						}
					}
				}
				continue
			}
			t.bad(s, "declaration")
		case *ast.IfStmt:
			// only `if <constant false> { ... }` (dead code) is accepted
			tv := t.p.info.Types[x.Cond]
			if tv.Value != nil && x.Init == nil && x.Else == nil {
				if !constant.BoolVal(tv.Value) {
					continue
				}
				r, done := t.stmts(x.Body.List, results)
				if done {
					return r, true
				}
				continue
			}
			t.bad(s, "if statement")
		case *ast.ReturnStmt:
			if len(x.Results) == 0 {
				return "", true
			}
			if len(x.Results) != 1 {
				t.bad(s, "multi-value return")
			}
			return t.expr(x.Results[0], results.At(0).Type()), true
		default:
			t.bad(s, fmt.Sprintf("statement %T", s))
		}
	}
	return "", false
}

func emitFunc(w *strings.Builder, p *pkgInfo, recv, name string) {
	fd := findFunc(p, recv, name)
	full := name
	if recv != "" {
		full = recv + "_" + name
	}
	t := &tr{p: p, fn: full}
	if fd == nil {
		die(3, "cannot translate %s.%s: function not found", p.name, full)
	}
	obj := p.info.Defs[fd.Name].(*types.Func)
	sig := obj.Type().(*types.Signature)
	if fd.Recv != nil {
		rn := "recv"
		if len(fd.Recv.List[0].Names) > 0 {
			rn = fd.Recv.List[0].Names[0].Name
		}
		t.muts = append(t.muts, t.addParam(rn, sig.Recv().Type(), fd)...)
	}
	for i := 0; i < sig.Params().Len(); i++ {
		pv := sig.Params().At(i)
		t.muts = append(t.muts, t.addParam(pv.Name(), pv.Type(), fd)...)
	}
	if sig.Results().Len() > 1 {
		t.bad(fd, "multiple results")
	}
	// named result
	if sig.Results().Len() == 1 && sig.Results().At(0).Name() != "" {
		t.bad(fd, "named result")
	}
	ret, _ := t.stmts(fd.Body.List, sig.Results())
	var outs []string
	var outTypes []string
	if sig.Results().Len() == 1 {
		outs = append(outs, ret)
		outTypes = append(outTypes, leanType(sig.Results().At(0).Type()))
	}
	for _, m := range t.muts {
		outs = append(outs, m)
		for _, pr := range t.params {
			if strings.HasPrefix(pr, "("+m+" : ") {
				outTypes = append(outTypes, strings.TrimSuffix(strings.TrimPrefix(pr, "("+m+" : "), ")"))
			}
		}
	}
	if len(outs) == 0 {
		t.bad(fd, "function without result or mutation")
	}
	leanName := p.name + "_" + full
	fmt.Fprintf(w, "\n/-- %s -/\ndef %s %s : %s :=\n", fset.Position(fd.Pos()).String()[len(filepath.Dir(p.dir)):], leanName, strings.Join(t.params, " "), strings.Join(outTypes, " × "))
	for _, l := range t.lets {
		fmt.Fprintf(w, "  %s\n", l)
	}
	if len(outs) == 1 {
		fmt.Fprintf(w, "  %s\n", outs[0])
	} else {
		fmt.Fprintf(w, "  (%s)\n", strings.Join(outs, ", "))
	}
	translated[leanName] = true
}

func emitString(w *strings.Builder, name, s string) {
	fmt.Fprintf(w, "def %s : List Nat := [", name)
	for i := 0; i < len(s); i++ {
		if i > 0 {
			w.WriteString(", ")
		}
		fmt.Fprintf(w, "%d", s[i])
	}
	w.WriteString("]\n")
}

// emitLits emits, for one function, the integer literals (in source order, as written, constant-folded per literal
// expression such as 1<<10) and the string/char literals that occur in its body.  Hand-written models that copy such
// literals (thresholds, suffix lists) state `tie_…` theorems against these regenerated lists.
func emitLits(w *strings.Builder, p *pkgInfo, recv, name string) {
	fd := findFunc(p, recv, name)
	full := name
	if recv != "" {
		full = recv + "_" + name
	}
	if fd == nil {
		die(3, "cannot translate %s.%s: function not found", p.name, full)
	}
	var ints []string
	var strs []string
	var visit func(n ast.Node) bool
	visit = func(n ast.Node) bool {
		switch x := n.(type) {
		case *ast.BinaryExpr:
			// a constant-valued shift/arith of literals counts as one literal (e.g. 1<<10)
			if tv, ok := p.info.Types[x]; ok && tv.Value != nil && onlyLits(x) {
				if v := constant.ToInt(tv.Value); v.Kind() == constant.Int {
					ints = append(ints, v.ExactString())
					return false
				}
			}
		case *ast.BasicLit:
			tv := p.info.Types[x]
			switch x.Kind {
			case token.INT:
				if tv.Value != nil {
					ints = append(ints, constant.ToInt(tv.Value).ExactString())
				}
			case token.STRING:
				if tv.Value != nil {
					strs = append(strs, constant.StringVal(tv.Value))
				}
			case token.CHAR:
				if tv.Value != nil {
					if v, ok := constant.Int64Val(constant.ToInt(tv.Value)); ok && v < 256 {
						strs = append(strs, string([]byte{byte(v)}))
					}
				}
			}
		}
		return true
	}
	ast.Inspect(fd.Body, visit)
	fmt.Fprintf(w, "\n/-- integer literals of %s.%s in source order -/\ndef %s_%s_ints : List Int := [%s]\n", p.name, full, p.name, full, strings.Join(ints, ", "))
	fmt.Fprintf(w, "/-- string and character literals of %s.%s in source order (as byte lists) -/\ndef %s_%s_strs : List (List Nat) := [", p.name, full, p.name, full)
	for i, s := range strs {
		if i > 0 {
			w.WriteString(", ")
		}
		w.WriteString("[")
		for j := 0; j < len(s); j++ {
			if j > 0 {
				w.WriteString(", ")
			}
			fmt.Fprintf(w, "%d", s[j])
		}
		w.WriteString("]")
	}
	w.WriteString("]\n")
}

func onlyLits(e ast.Expr) bool {
	switch x := e.(type) {
	case *ast.BasicLit:
		return x.Kind == token.INT
	case *ast.ParenExpr:
		return onlyLits(x.X)
	case *ast.BinaryExpr:
		return onlyLits(x.X) && onlyLits(x.Y)
	}
	return false
}

func main() {
	if len(os.Args) != 3 {
		die(2, "usage: translate <repo> <outdir>")
	}
	repo, out := os.Args[1], os.Args[2]
	if err := os.MkdirAll(out, 0o755); err != nil {
		die(2, "%v", err)
	}
	// The source importer resolves the repository's own import paths (internal/jsonflags, internal/jsonopts, …) relative to
	// the working directory: run inside the repository so that cross-package types are known (needed by scope.go).
	if a, err := filepath.Abs(out); err == nil {
		out = a
	}
	if a, err := filepath.Abs(repo); err == nil {
		repo = a
	}
	if err := os.Chdir(repo); err != nil {
		die(2, "%v", err)
	}
	flags := load(repo, "internal/jsonflags", "jsonflags")
	wire := load(repo, "internal/jsonwire", "jsonwire")
	text := load(repo, "jsontext", "jsontext")
	root := load(repo, ".", "json")

	header := "-- GENERATED by /verif/tools/translate from the Go sources; do not edit.\n-- Regenerated (after deletion) on every check run.\nset_option linter.unusedVariables false\n"

	var c strings.Builder
	c.WriteString(header)
	c.WriteString("namespace JsonV.Gen\n")
	for _, p := range []*pkgInfo{flags, wire, text, root} {
		emitConstants(&c, p)
	}
	c.WriteString("\nend JsonV.Gen\n")
	write(filepath.Join(out, "Constants.lean"), c.String())

	var tb strings.Builder
	tb.WriteString(header)
	tb.WriteString("namespace JsonV.Gen\n\n")
	emitTable(&tb, wire, "escapeASCII")
	emitTable(&tb, text, "normKind")
	tb.WriteString("\nend JsonV.Gen\n")
	write(filepath.Join(out, "Tables.lean"), tb.String())

	var s strings.Builder
	s.WriteString(header)
	s.WriteString("namespace JsonV.Gen\n")
	for _, m := range []string{"Join", "Set", "Get", "Has", "Clear"} {
		emitFunc(&s, flags, "Flags", m)
	}
	for _, m := range []string{"Length", "isObject", "isArray", "NeedObjectName", "needObjectValue", "needImplicitColon",
		"needImplicitComma", "Increment", "decrement", "DisableNamespace", "isActiveNamespace", "invalidateNamespace", "isValidNamespace"} {
		emitFunc(&s, text, "stateEntry", m)
	}
	emitFunc(&s, root, "", "hash64")
	emitFunc(&s, root, "uintSet64", "has")
	emitFunc(&s, root, "uintSet64", "set")
	emitFunc(&s, wire, "", "isInvalidUTF8")
	s.WriteString("\nend JsonV.Gen\n")
	write(filepath.Join(out, "Straight.lean"), s.String())

	var l strings.Builder
	l.WriteString(header)
	l.WriteString("namespace JsonV.Gen\n")
	emitLits(&l, text, "objectNamespace", "insert")
	emitLits(&l, text, "objectNamespace", "reset")
	emitLits(&l, text, "objectNameStack", "reset")
	emitLits(&l, text, "stateMachine", "reset")
	emitLits(&l, text, "encoderState", "avoidFlush")
	emitLits(&l, text, "encoderState", "UnwriteEmptyObjectMember")
	emitLits(&l, text, "encoderState", "UnwriteOnlyObjectMemberName")
	emitLits(&l, text, "encoderState", "NeedFlush")
	emitLits(&l, text, "encoderState", "Flush")
	emitLits(&l, text, "decoderState", "fetch")
	emitLits(&l, text, "encoderState", "AppendIndent")
	emitLits(&l, text, "encoderState", "appendWhitespace")
	emitLits(&l, text, "encoderState", "reformatValue")
	emitLits(&l, text, "encoderState", "reformatObject")
	emitLits(&l, text, "encoderState", "reformatArray")
	emitLits(&l, wire, "", "ReformatString")
	emitLits(&l, wire, "", "ParseUint")
	emitLits(&l, wire, "", "AppendFloat")
	emitLits(&l, wire, "", "ReformatNumber")
	emitLits(&l, wire, "", "ConsumeWhitespace")
	emitLits(&l, wire, "", "ConsumeSimpleString")
	emitLits(&l, wire, "", "appendEscapedASCII")
	emitLits(&l, wire, "", "hasEscapedUTF16Prefix")
	emitLits(&l, root, "", "makeString")
	emitLits(&l, root, "uintSet", "insert")
	emitLits(&l, root, "uintSet", "has")
	emitLits(&l, root, "", "appendDurationBase10")
	emitLits(&l, root, "", "appendTimeUnix")
	emitLits(&l, root, "", "negateSecNano")
	emitLits(&l, root, "", "appendFoldedName")
	l.WriteString("\nend JsonV.Gen\n")
	write(filepath.Join(out, "Lits.lean"), l.String())

	write(filepath.Join(out, "Scope.lean"), emitScope(root, text, wire))             // scope.go (C19)
	write(filepath.Join(out, "Reads.lean"), emitReads(flags, wire, text, root, repo)) // reads.go (C19)
}

func write(path, content string) {
	if err := os.WriteFile(path, []byte(content), 0o644); err != nil {
		die(2, "%v", err)
	}
}
