package main

// Reads.lean (Tie A for C19 "noninterf"): which jsonflags constants each function group of the library mentions, and
// what flags.go documents about each flag.
//
//   doc        (name, value, documented scope) for every flag constant of flags.go; the scope is the text of the
//              trailing comment up to the first ';'  ("encode only", "marshal only", "unmarshal", "marshal or unmarshal", …)
//   reads_<g>  OR of all jsonflags constants mentioned in group g other than as the argument of Flags.Set / Flags.Clear
//   writes_<g> OR of the constants passed to Flags.Set / Flags.Clear in group g
//
// Groups: jsonwire by file (encode.go / decode.go / rest), jsontext by the receiver or parameter types of the enclosing
// function (Encoder, encoderState, encodeBuffer / Decoder, decoderState, decodeBuffer / neither), json by the innermost
// enclosing function (literal) that has a *jsontext.Encoder or *jsontext.Decoder parameter (files options*.go — the
// option constructors — are a group of their own), jsonopts as one group.
// Every Flags.Get / Flags.Has outside jsonflags and jsonopts must have a constant argument (else exit 3): there is no
// computed flag word whose reads this table would miss.

import (
	"fmt"
	"go/ast"
	"go/types"
	"path/filepath"
	"sort"
	"strings"
)

func isJsonflagsConst(p *pkgInfo, sel *ast.SelectorExpr) (uint64, bool) {
	id, ok := sel.X.(*ast.Ident)
	if !ok {
		return 0, false
	}
	pn, ok := p.info.Uses[id].(*types.PkgName)
	if !ok || !strings.HasSuffix(pn.Imported().Path(), "internal/jsonflags") {
		return 0, false
	}
	c, ok := p.info.Uses[sel.Sel].(*types.Const)
	if !ok {
		return 0, false
	}
	_ = c
	return constU64(p, sel)
}

func sigGroup(p *pkgInfo, ft *ast.FuncType, recv *ast.FieldList, encNames, decNames []string) string {
	enc, dec := false, false
	visit := func(fl *ast.FieldList) {
		if fl == nil {
			return
		}
		for _, f := range fl.List {
			ty := p.info.Types[f.Type].Type
			if ty == nil {
				continue
			}
			for _, n := range encNames {
				if namedIn(ty, "/jsontext", n) {
					enc = true
				}
			}
			for _, n := range decNames {
				if namedIn(ty, "/jsontext", n) {
					dec = true
				}
			}
		}
	}
	visit(recv)
	visit(ft.Params)
	switch {
	case enc && !dec:
		return "enc"
	case dec && !enc:
		return "dec"
	case enc && dec:
		return "both"
	}
	return ""
}

var slotFlag = map[string]string{"Indent": "Indent", "IndentPrefix": "IndentPrefix", "ByteLimit": "ByteLimit", "DepthLimit": "DepthLimit",
	"Marshalers": "Marshalers", "Unmarshalers": "Unmarshalers", "Format": "FormatTag"}

var flagsPkg *pkgInfo

func slotVal(name string) uint64 {
	c, ok := flagsPkg.pkg.Scope().Lookup(name).(*types.Const)
	if !ok {
		die(3, "cannot translate reads: jsonflags.%s not found", name)
	}
	v, ok := constU64From(c)
	if !ok {
		die(3, "cannot translate reads: jsonflags.%s is not an integer constant", name)
	}
	return v
}

// the selector on top of the stack is (part of) the left-hand side of an assignment
func isAssignTarget(stack []ast.Node) bool {
	sel := stack[len(stack)-1]
	for i := len(stack) - 2; i >= 0; i-- {
		if as, ok := stack[i].(*ast.AssignStmt); ok {
			for _, l := range as.Lhs {
				if l == sel {
					return true
				}
			}
			return false
		}
		if _, ok := stack[i].(ast.Stmt); ok {
			return false
		}
	}
	return false
}

type readsAcc struct {
	reads, writes map[string]uint64
	names         map[string]map[string]bool
}

func (a *readsAcc) add(group string, write bool, name string, v uint64) {
	if write {
		a.writes[group] |= v
	} else {
		a.reads[group] |= v
		if a.names[group] == nil {
			a.names[group] = map[string]bool{}
		}
		a.names[group][name] = true
	}
}

func collectReads(a *readsAcc, p *pkgInfo, groupOf func(file string, stack []ast.Node) string, requireConst bool) {
	for _, f := range p.files {
		fname := filepath.Base(fset.Position(f.Pos()).Filename)
		var stack []ast.Node
		ast.Inspect(f, func(n ast.Node) bool {
			if n == nil {
				stack = stack[:len(stack)-1]
				return false
			}
			stack = append(stack, n)
			switch x := n.(type) {
			case *ast.CallExpr:
				if sel, ok := x.Fun.(*ast.SelectorExpr); ok && requireConst {
					if rt := p.info.Types[sel.X].Type; rt != nil && isFlagsTy(rt) && (sel.Sel.Name == "Get" || sel.Sel.Name == "Has") {
						if len(x.Args) != 1 {
							die(3, "cannot translate reads of %s: %s", p.name, nodeStr(x))
						}
						if _, ok := constU64(p, x.Args[0]); !ok {
							die(3, "cannot translate reads of %s: non-constant flag word in %s (%s)", p.name, nodeStr(x), fset.Position(x.Pos()))
						}
					}
				}
			case *ast.SelectorExpr:
				// a read of a value slot of jsonopts.Struct counts as a read of the flag that guards it
				if optField(p, x.Sel) {
					if fl, ok := slotFlag[x.Sel.Name]; ok && !isAssignTarget(stack) {
						a.add(groupOf(fname, stack), false, "slot:"+x.Sel.Name, slotVal(fl))
					}
					break
				}
				v, ok := isJsonflagsConst(p, x)
				if !ok {
					break
				}
				// is this mention (part of) the argument of Flags.Set / Flags.Clear ?
				write := false
				for i := len(stack) - 2; i >= 0; i-- {
					if ce, ok := stack[i].(*ast.CallExpr); ok {
						if s2, ok := ce.Fun.(*ast.SelectorExpr); ok {
							if rt := p.info.Types[s2.X].Type; rt != nil && isFlagsTy(rt) && (s2.Sel.Name == "Set" || s2.Sel.Name == "Clear") {
								write = true
							}
						}
						break
					}
					if _, ok := stack[i].(*ast.BinaryExpr); ok {
						continue
					}
					if _, ok := stack[i].(*ast.ParenExpr); ok {
						continue
					}
					break
				}
				a.add(groupOf(fname, stack), write, x.Sel.Name, v)
			}
			return true
		})
	}
}

func emitReads(flags, wire, text, root *pkgInfo, repo string) string {
	var w strings.Builder
	flagsPkg = flags
	w.WriteString("-- GENERATED by /verif/tools/translate from the Go sources; do not edit.\n-- Regenerated (after deletion) on every check run.\n")
	w.WriteString("namespace JsonV.Gen.Reads\n")

	// documented scope of every flag
	w.WriteString("\n/-- (name, value, documented scope) of every flag constant of internal/jsonflags/flags.go -/\ndef doc : List (String × Nat × String) := [\n")
	first := true
	for _, f := range flags.files {
		for _, d := range f.Decls {
			gd, ok := d.(*ast.GenDecl)
			if !ok {
				continue
			}
			for _, s := range gd.Specs {
				vs, ok := s.(*ast.ValueSpec)
				if !ok || vs.Comment == nil || len(vs.Names) != 1 {
					continue
				}
				obj, ok := flags.info.Defs[vs.Names[0]].(*types.Const)
				if !ok || !namedIn(obj.Type(), "internal/jsonflags", "Bools") || vs.Names[0].Name == "_" {
					continue
				}
				v, ok := constU64From(obj)
				if !ok {
					continue
				}
				scope := strings.TrimSpace(strings.SplitN(strings.TrimSpace(vs.Comment.Text()), ";", 2)[0])
				if !first {
					w.WriteString(",\n")
				}
				first = false
				fmt.Fprintf(&w, "  (%q, %d, %q)", vs.Names[0].Name, v, scope)
			}
		}
	}
	w.WriteString("]\n")

	acc := &readsAcc{reads: map[string]uint64{}, writes: map[string]uint64{}, names: map[string]map[string]bool{}}
	collectReads(acc, wire, func(file string, _ []ast.Node) string {
		switch file {
		case "encode.go":
			return "jsonwire_encode"
		case "decode.go":
			return "jsonwire_decode"
		}
		return "jsonwire_shared"
	}, true)
	enclosing := func(p *pkgInfo, stack []ast.Node, encN, decN []string) string {
		for i := len(stack) - 1; i >= 0; i-- {
			var g string
			switch fn := stack[i].(type) {
			case *ast.FuncLit:
				g = sigGroup(p, fn.Type, nil, encN, decN)
			case *ast.FuncDecl:
				g = sigGroup(p, fn.Type, fn.Recv, encN, decN)
			}
			if g == "enc" || g == "dec" {
				return g
			}
			if g == "both" {
				return ""
			}
		}
		return ""
	}
	collectReads(acc, text, func(file string, stack []ast.Node) string {
		if strings.HasPrefix(file, "options") {
			return "jsontext_options"
		}
		switch enclosing(text, stack, []string{"Encoder", "encoderState", "encodeBuffer"}, []string{"Decoder", "decoderState", "decodeBuffer"}) {
		case "enc":
			return "jsontext_encode"
		case "dec":
			return "jsontext_decode"
		}
		return "jsontext_shared"
	}, true)
	collectReads(acc, root, func(file string, stack []ast.Node) string {
		if strings.HasPrefix(file, "options") {
			return "json_options" // the option constructors and the GetOption/JoinOptions glue, not a (un)marshal path
		}
		switch enclosing(root, stack, []string{"Encoder"}, []string{"Decoder"}) {
		case "enc":
			return "json_marshal"
		case "dec":
			return "json_unmarshal"
		}
		return "json_shared"
	}, true)
	opts := load(repo, "internal/jsonopts", "jsonopts")
	collectReads(acc, opts, func(string, []ast.Node) string { return "jsonopts" }, false)

	groups := []string{"jsonwire_encode", "jsonwire_decode", "jsonwire_shared", "jsontext_encode", "jsontext_decode", "jsontext_shared", "jsontext_options",
		"json_marshal", "json_unmarshal", "json_shared", "json_options", "jsonopts"}
	for _, g := range groups {
		var ns []string
		for n := range acc.names[g] {
			ns = append(ns, n)
		}
		sort.Strings(ns)
		fmt.Fprintf(&w, "\n/-- jsonflags constants mentioned (not as a Set/Clear argument) in group %s: %s -/\ndef reads_%s : Nat := %d\n", g, strings.Join(ns, " "), g, acc.reads[g])
		fmt.Fprintf(&w, "/-- OR of the arguments of Flags.Set / Flags.Clear in group %s -/\ndef writes_%s : Nat := %d\n", g, g, acc.writes[g])
	}
	w.WriteString("\nend JsonV.Gen.Reads\n")
	return w.String()
}

func constU64From(c *types.Const) (uint64, bool) {
	v := c.Val()
	if v == nil {
		return 0, false
	}
	s := v.ExactString()
	var u uint64
	if _, err := fmt.Sscanf(s, "%d", &u); err != nil {
		return 0, false
	}
	return u, true
}
