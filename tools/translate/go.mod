module verif/translate

go 1.26
