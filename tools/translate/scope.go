package main

// Scope.lean (Tie A for C19 "scoped"): the statements of the Go code that save, change and restore the
// option struct of a (un)marshal call, as DATA that the Lean model interprets.
//
//   structMarshalMember / structUnmarshalMember   the window  flagsOriginal := mo.Flags … if err != nil {…}
//                                                 of the two closures of makeStructArshaler
//   marshalEncode / unmarshalDecode               the whole bodies of MarshalEncode / UnmarshalDecode
//   userCalls                                     the option-writing statements around every call of user code
//                                                 (MarshalToFunc, UnmarshalFromFunc, MarshalerTo, UnmarshalerFrom)
//   writeSites                                    EVERY statement of packages json, jsontext, jsonwire that writes
//                                                 (or takes the address of) a jsonflags.Flags / jsonopts.Struct
//
// The vocabulary is closed: a statement of another shape inside one of the windows is a hard error (exit 3).

import (
	"bytes"
	"fmt"
	"go/ast"
	"go/constant"
	"go/printer"
	"go/token"
	"go/types"
	"regexp"
	"strings"
)

const scopeHeader = `
namespace JsonV.Gen.Scope

/-- condition under which a statement runs (conjunction of the enclosing ` + "`if`" + `s) -/
inductive Guard where
  | str        -- f.string
  | fmt        -- f.format != ""
  | opts       -- len(opts) > 0
  | needName   -- x.Tokens.Last.NeedObjectName()
  | notSaved   -- !withinArshalCall
  | reg (i : Nat)  -- the i-th ` + "`test`" + ` of this script was true
deriving DecidableEq, Repr

inductive Cond where
  | has (w : Nat)   -- x.Struct.Flags.Has(w)
  | get (w : Nat)   -- x.Struct.Flags.Get(w)
deriving DecidableEq, Repr

inductive Prim where
  | saveFlags            -- flagsOriginal := mo.Flags
  | restoreFlags         -- mo.Flags = flagsOriginal
  | set (w : Nat)        -- x.Flags.Set(w)
  | clear (w : Nat)      -- x.Flags.Clear(w)
  | assignFormat         -- mo.Format = f.format
  | clearFormat          -- mo.Format = ""
  | child                -- err := marshal(enc, v, mo) / the user function or method
  | retIfErr             -- if err != nil { return err }
  | retIfFatal           -- if err != nil { if isFatalError(err, uo.Flags) { return err }; errUnmarshal = cmp.Or(errUnmarshal, err) }
  | appendFormatTag      -- opts = mayAppendSupportFormatTag(opts)
  | saveStruct           -- optsOriginal := x.Struct
  | deferRestoreStruct   -- defer func() { x.Struct = optsOriginal }()
  | joinOpts             -- x.Struct.Join(opts...)
  | guardGet (w : Nat)   -- if optsOriginal.Flags.Get(w) != x.Struct.Flags.Get(w) { return error }
  | test (c : Cond)      -- if c { … }: evaluated once, result in the next register
  | initMultiline        -- x.Struct.InitializeMultiline()
  | guardWhitespace      -- if jsonopts.ChangedWhitespace(optsOriginal, x.Struct) { return error }
  | body                 -- err = marshalEncode(out, in, &x.Struct): the arshal option struct IS the coder's
  | transformErr         -- if err != nil && x.Flags.Get(ReportErrorsWithLegacySemantics) { return Transform…(err) }
  | ret                  -- return err
  | saveGet (w : Nat)    -- withinArshalCall := x.Flags.Get(w)
deriving DecidableEq, Repr

structure Stmt where
  guards : List Guard
  prim : Prim
deriving DecidableEq, Repr
`

func nodeStr(n ast.Node) string {
	var b bytes.Buffer
	printer.Fprint(&b, fset, n)
	return strings.Join(strings.Fields(b.String()), " ")
}

func namedIn(ty types.Type, pkgSuffix string, names ...string) bool {
	for ty != nil {
		if p, ok := ty.(*types.Pointer); ok {
			ty = p.Elem()
			continue
		}
		break
	}
	ty = types.Unalias(ty)
	n, ok := ty.(*types.Named)
	if !ok || n.Obj().Pkg() == nil || !strings.HasSuffix(n.Obj().Pkg().Path(), pkgSuffix) {
		return false
	}
	for _, nm := range names {
		if n.Obj().Name() == nm {
			return true
		}
	}
	return false
}

func isFlagsTy(ty types.Type) bool  { return namedIn(ty, "internal/jsonflags", "Flags") }
func isStructTy(ty types.Type) bool { return namedIn(ty, "internal/jsonopts", "Struct") }
func isOptTy(ty types.Type) bool {
	return isFlagsTy(ty) || namedIn(ty, "internal/jsonopts", "Struct", "CoderValues", "ArshalValues")
}

// optField: the identifier selects a field declared in internal/jsonopts or internal/jsonflags (also when promoted
// through an embedded struct, e.g. encoderState.Indent).
func optField(p *pkgInfo, id *ast.Ident) bool {
	v, ok := p.info.Uses[id].(*types.Var)
	if !ok || !v.IsField() || v.Pkg() == nil {
		return false
	}
	return strings.HasSuffix(v.Pkg().Path(), "internal/jsonopts") || strings.HasSuffix(v.Pkg().Path(), "internal/jsonflags")
}

func constU64(p *pkgInfo, e ast.Expr) (uint64, bool) {
	tv, ok := p.info.Types[e]
	if !ok || tv.Value == nil {
		return 0, false
	}
	v := constant.ToInt(tv.Value)
	if v.Kind() != constant.Int {
		return 0, false
	}
	u, ok := constant.Uint64Val(v)
	return u, ok
}

// writeOf classifies ONE node (not its children) as a write to / alias of option state.
func writeOf(p *pkgInfo, n ast.Node) (ops []string, args []uint64) {
	add := func(op string, a uint64) { ops = append(ops, op); args = append(args, a) }
	switch x := n.(type) {
	case *ast.CallExpr:
		sel, ok := x.Fun.(*ast.SelectorExpr)
		if !ok {
			return
		}
		rt := p.info.Types[sel.X].Type
		if rt == nil {
			return
		}
		switch {
		case isFlagsTy(rt) && (sel.Sel.Name == "Set" || sel.Sel.Name == "Clear" || sel.Sel.Name == "Join"):
			var a uint64
			if len(x.Args) == 1 {
				a, _ = constU64(p, x.Args[0])
			}
			add("Flags."+sel.Sel.Name, a)
		case isStructTy(rt) && (sel.Sel.Name == "Join" || sel.Sel.Name == "InitializeMultiline"):
			add("Struct."+sel.Sel.Name, 0)
		}
	case *ast.AssignStmt:
		if x.Tok == token.DEFINE {
			return
		}
		for _, l := range x.Lhs {
			lt := p.info.Types[l].Type
			switch {
			case lt != nil && isFlagsTy(lt):
				add("=Flags", 0)
			case lt != nil && isStructTy(lt):
				add("=Struct", 0)
			default:
				if sel, ok := l.(*ast.SelectorExpr); ok && optField(p, sel.Sel) {
					add("="+sel.Sel.Name, 0)
				}
			}
		}
	case *ast.IncDecStmt:
		if sel, ok := x.X.(*ast.SelectorExpr); ok && optField(p, sel.Sel) {
			add("="+sel.Sel.Name, 0)
		}
	case *ast.UnaryExpr:
		if x.Op == token.AND {
			if t := p.info.Types[x.X].Type; t != nil {
				switch {
				case isFlagsTy(t):
					add("&Flags", 0)
				case isStructTy(t):
					add("&Struct", 0)
				}
			}
		}
	}
	return
}

func containsWrite(p *pkgInfo, n ast.Node) bool {
	found := false
	ast.Inspect(n, func(m ast.Node) bool {
		if m == nil || found {
			return false
		}
		if ops, _ := writeOf(p, m); len(ops) > 0 {
			found = true
		}
		return !found
	})
	return found
}

func emitWriteSites(w *strings.Builder, pkgs []*pkgInfo) {
	w.WriteString("\n/-- every statement of the listed packages that writes, or takes the address of, a jsonflags.Flags or\njsonopts.Struct (package, enclosing function, operation, constant argument), in source order -/\ndef writeSites : List (String × String × String × Nat) := [\n")
	first := true
	for _, p := range pkgs {
		for _, f := range p.files {
			ast.Inspect(f, func(n ast.Node) bool {
				if n == nil {
					return false
				}
				ops, args := writeOf(p, n)
				for i, op := range ops {
					fn := enclosingFunc(p, n.Pos())
					if fn == "" {
						fn = "<package level>"
					}
					if !first {
						w.WriteString(",\n")
					}
					first = false
					fmt.Fprintf(w, "  (%q, %q, %q, %d)", p.name, fn, op, args[i])
				}
				return true
			})
		}
	}
	w.WriteString("]\n")
}

type scopeTr struct {
	p      *pkgInfo
	what   string
	out    []string
	nreg   int
	filter bool // statements that do not write option state are skipped instead of refused
	done   bool // the closing `if err != nil` of a member window has been seen
}

func (t *scopeTr) bad(n ast.Node, why string) {
	die(3, "cannot translate %s: %s: %s (%s)", t.what, why, nodeStr(n), fset.Position(n.Pos()))
}

func (t *scopeTr) emit(guards []string, prim string) {
	t.out = append(t.out, fmt.Sprintf("⟨[%s], %s⟩", strings.Join(guards, ", "), prim))
}

var (
	reSaveFlags    = regexp.MustCompile(`^flagsOriginal := (mo|uo)\.Flags$`)
	reRestoreFlags = regexp.MustCompile(`^(mo|uo)\.Flags = flagsOriginal$`)
	reAssignFormat = regexp.MustCompile(`^(mo|uo)\.Format = f\.format$`)
	reClearFormat  = regexp.MustCompile(`^(mo|uo)\.Format = ""$`)
	reChild        = regexp.MustCompile(`^err :?= (marshal\(enc, v, mo\)|unmarshal\(dec, v, uo\))$`)
	reUserChild    = regexp.MustCompile(`^err := (fn\((enc|dec), v\)|marshaler\.MarshalJSONTo\(enc\)|unmarshaler\.UnmarshalJSONFrom\(dec\))$`)
	reAppendFmt    = regexp.MustCompile(`^opts = mayAppendSupportFormatTag\(opts\)$`)
	reBind         = regexp.MustCompile(`^(xe := export\.Encoder\(out\)|xd := export\.Decoder\(in\))$`)
	reSaveStruct   = regexp.MustCompile(`^optsOriginal := (xe|xd)\.Struct$`)
	reBody         = regexp.MustCompile(`^err = (marshalEncode\(out, in, &xe\.Struct\)|unmarshalDecode\(in, out, &xd\.Struct, false\))$`)
	reSaveGet      = regexp.MustCompile(`^withinArshalCall := (xe|xd)\.Flags\.Get\(jsonflags\.WithinArshalCall\)$`)
	reJoinOpts     = regexp.MustCompile(`^(xe|xd)\.Struct\.Join\(opts\.\.\.\)$`)
	reInitMulti    = regexp.MustCompile(`^(xe|xd)\.Struct\.InitializeMultiline\(\)$`)
	reDefer        = regexp.MustCompile(`^defer func\(\) \{ (xe|xd)\.Struct = optsOriginal \}\(\)$`)
	reNeedName     = regexp.MustCompile(`^(xe|xd)\.Tokens\.Last\.NeedObjectName\(\)$`)
	reGuardGet     = regexp.MustCompile(`^optsOriginal\.Flags\.Get\((jsonflags\.\w+)\) != (xe|xd)\.Struct\.Flags\.Get\((jsonflags\.\w+)\)$`)
	reTest         = regexp.MustCompile(`^(xe|xd)\.Struct\.Flags\.(Has|Get)\(jsonflags\.\w+\)$`)
	reChangedWs    = regexp.MustCompile(`^jsonopts\.ChangedWhitespace\(optsOriginal, (xe|xd)\.Struct\)$`)
	reTransform    = regexp.MustCompile(`^err != nil && (xe|xd)\.Flags\.Get\(jsonflags\.ReportErrorsWithLegacySemantics\)$`)
	reFatal        = regexp.MustCompile(`^if isFatalError\(err, uo\.Flags\) \{ return err \}$`)
)

func (t *scopeTr) onlyReturn(b *ast.BlockStmt) bool {
	if len(b.List) != 1 {
		return false
	}
	_, ok := b.List[0].(*ast.ReturnStmt)
	return ok
}

func (t *scopeTr) flagsCallArg(e ast.Expr) (method string, w uint64, ok bool) {
	c, isCall := e.(*ast.CallExpr)
	if !isCall || len(c.Args) != 1 {
		return
	}
	sel, isSel := c.Fun.(*ast.SelectorExpr)
	if !isSel {
		return
	}
	if rt := t.p.info.Types[sel.X].Type; rt == nil || !isFlagsTy(rt) {
		return
	}
	w, ok = constU64(t.p, c.Args[0])
	return sel.Sel.Name, w, ok
}

func (t *scopeTr) block(list []ast.Stmt, guards []string) {
	for _, s := range list {
		if t.done {
			return
		}
		t.stmt(s, guards)
	}
}

func (t *scopeTr) unknown(s ast.Stmt) {
	if t.filter && !containsWrite(t.p, s) {
		return
	}
	t.bad(s, "statement of unknown shape in a scope window")
}

func (t *scopeTr) stmt(s ast.Stmt, guards []string) {
	str := nodeStr(s)
	switch x := s.(type) {
	case *ast.AssignStmt:
		switch {
		case reSaveFlags.MatchString(str):
			t.emit(guards, ".saveFlags")
		case reRestoreFlags.MatchString(str):
			t.emit(guards, ".restoreFlags")
		case reAssignFormat.MatchString(str):
			t.emit(guards, ".assignFormat")
		case reClearFormat.MatchString(str):
			t.emit(guards, ".clearFormat")
		case reChild.MatchString(str), t.filter && reUserChild.MatchString(str):
			t.emit(guards, ".child")
		case reAppendFmt.MatchString(str):
			t.emit(guards, ".appendFormatTag")
		case reBind.MatchString(str):
			// a local name for the coder's state; no effect
		case reSaveStruct.MatchString(str):
			t.emit(guards, ".saveStruct")
		case reBody.MatchString(str):
			t.emit(guards, ".body")
		case reSaveGet.MatchString(str):
			_, w, ok := t.flagsCallArg(x.Rhs[0])
			if !ok {
				t.bad(s, "non-constant flag")
			}
			t.emit(guards, fmt.Sprintf(".saveGet %d", w))
		default:
			t.unknown(s)
		}
	case *ast.ExprStmt:
		if m, w, ok := t.flagsCallArg(x.X); ok && (m == "Set" || m == "Clear") {
			t.emit(guards, fmt.Sprintf(".%s %d", strings.ToLower(m), w))
			return
		}
		switch {
		case reJoinOpts.MatchString(str):
			t.emit(guards, ".joinOpts")
		case reInitMulti.MatchString(str):
			t.emit(guards, ".initMultiline")
		default:
			t.unknown(s)
		}
	case *ast.DeferStmt:
		if reDefer.MatchString(str) {
			t.emit(guards, ".deferRestoreStruct")
			return
		}
		t.unknown(s)
	case *ast.ReturnStmt:
		if str == "return err" && !t.filter {
			t.emit(guards, ".ret")
			return
		}
		t.unknown(s)
	case *ast.IfStmt:
		cond := nodeStr(x.Cond)
		if x.Init != nil || x.Else != nil {
			t.unknown(s)
			return
		}
		with := func(g string) []string { return append(append([]string{}, guards...), g) }
		switch {
		case cond == "f.string":
			t.block(x.Body.List, with(".str"))
		case cond == `f.format != ""`:
			t.block(x.Body.List, with(".fmt"))
		case cond == "len(opts) > 0":
			t.block(x.Body.List, with(".opts"))
		case cond == "!withinArshalCall":
			t.block(x.Body.List, with(".notSaved"))
		case reNeedName.MatchString(cond) && !t.filter:
			t.block(x.Body.List, with(".needName"))
		case reGuardGet.MatchString(cond):
			m := reGuardGet.FindStringSubmatch(cond)
			be := x.Cond.(*ast.BinaryExpr)
			_, w1, ok1 := t.flagsCallArg(be.X)
			_, w2, ok2 := t.flagsCallArg(be.Y)
			if m[1] != m[3] || !ok1 || !ok2 || w1 != w2 || !t.onlyReturn(x.Body) {
				t.bad(s, "option guard of unknown shape")
			}
			t.emit(guards, fmt.Sprintf(".guardGet %d", w1))
		case reTest.MatchString(cond):
			m, w, ok := t.flagsCallArg(x.Cond)
			if !ok {
				t.bad(s, "non-constant flag")
			}
			t.emit(guards, fmt.Sprintf(".test (.%s %d)", strings.ToLower(m), w))
			r := t.nreg
			t.nreg++
			t.block(x.Body.List, with(fmt.Sprintf(".reg %d", r)))
		case reChangedWs.MatchString(cond):
			if !t.onlyReturn(x.Body) {
				t.bad(s, "whitespace guard of unknown shape")
			}
			t.emit(guards, ".guardWhitespace")
		case reTransform.MatchString(cond) && !t.filter:
			if !t.onlyReturn(x.Body) {
				t.bad(s, "error transformation of unknown shape")
			}
			t.emit(guards, ".transformErr")
		case cond == "err != nil" && !t.filter:
			switch {
			case len(x.Body.List) == 1 && nodeStr(x.Body.List[0]) == "return err":
				t.emit(guards, ".retIfErr")
			case len(x.Body.List) == 2 && reFatal.MatchString(nodeStr(x.Body.List[0])) &&
				nodeStr(x.Body.List[1]) == "errUnmarshal = cmp.Or(errUnmarshal, err)":
				t.emit(guards, ".retIfFatal")
			default:
				t.bad(s, "error check of unknown shape")
			}
			t.done = true
		default:
			t.unknown(s)
		}
	default:
		t.unknown(s)
	}
}

func emitScript(w *strings.Builder, name, doc string, out []string) {
	fmt.Fprintf(w, "\n/-- %s -/\ndef %s : List Stmt := [\n  %s]\n", doc, name, strings.Join(out, ",\n  "))
}

// memberWindow translates, inside the closure assigned to fncs.<which> of makeStructArshaler, the statements from
// `flagsOriginal := …` up to and including the following `if err != nil`.
func memberWindow(p *pkgInfo, which string) []string {
	fd := findFunc(p, "", "makeStructArshaler")
	if fd == nil {
		die(3, "cannot translate json.makeStructArshaler: function not found")
	}
	var lit *ast.FuncLit
	ast.Inspect(fd.Body, func(n ast.Node) bool {
		if as, ok := n.(*ast.AssignStmt); ok && len(as.Lhs) == 1 && len(as.Rhs) == 1 && nodeStr(as.Lhs[0]) == "fncs."+which {
			if fl, ok := as.Rhs[0].(*ast.FuncLit); ok {
				if lit != nil {
					die(3, "cannot translate json.makeStructArshaler: fncs.%s assigned twice", which)
				}
				lit = fl
			}
		}
		return true
	})
	if lit == nil {
		die(3, "cannot translate json.makeStructArshaler: closure fncs.%s not found", which)
	}
	var res [][]string
	ast.Inspect(lit.Body, func(n ast.Node) bool {
		var list []ast.Stmt
		switch b := n.(type) {
		case *ast.BlockStmt:
			list = b.List
		case *ast.CaseClause:
			list = b.Body
		default:
			return true
		}
		for i, s := range list {
			if reSaveFlags.MatchString(nodeStr(s)) {
				t := &scopeTr{p: p, what: "json.makeStructArshaler(" + which + ") member window"}
				t.block(list[i:], nil)
				if !t.done {
					die(3, "cannot translate %s: no `if err != nil` after the member call", t.what)
				}
				res = append(res, t.out)
			}
		}
		return true
	})
	if len(res) != 1 {
		die(3, "cannot translate json.makeStructArshaler(%s): %d member windows (flagsOriginal := …), want 1", which, len(res))
	}
	return res[0]
}

func wholeBody(p *pkgInfo, name string) []string {
	fd := findFunc(p, "", name)
	if fd == nil {
		die(3, "cannot translate json.%s: function not found", name)
	}
	t := &scopeTr{p: p, what: "json." + name}
	t.block(fd.Body.List, nil)
	return t.out
}

// userCalls: every function literal whose own statement list sets WithinArshalCall.
func userCalls(w *strings.Builder, p *pkgInfo) {
	type uc struct {
		name string
		out  []string
	}
	var all []uc
	for _, f := range p.files {
		ast.Inspect(f, func(n ast.Node) bool {
			fl, ok := n.(*ast.FuncLit)
			if !ok {
				return true
			}
			sets := false
			for _, s := range fl.Body.List {
				if strings.Contains(nodeStr(s), "Flags.Set(jsonflags.WithinArshalCall") {
					sets = true
				}
			}
			if !sets {
				return true
			}
			t := &scopeTr{p: p, what: "user call wrapper in json." + enclosingFunc(p, fl.Pos()), filter: true}
			t.block(fl.Body.List, nil)
			all = append(all, uc{enclosingFunc(p, fl.Pos()), t.out})
			return true
		})
	}
	// any other mention of WithinArshalCall in a write position is refused
	w.WriteString("\n/-- the option-writing statements around each call of user code, by enclosing function, in source order -/\ndef userCalls : List (String × List Stmt) := [\n")
	for i, u := range all {
		if i > 0 {
			w.WriteString(",\n")
		}
		fmt.Fprintf(w, "  (%q, [\n    %s])", u.name, strings.Join(u.out, ",\n    "))
	}
	w.WriteString("]\n")
}

func emitScope(root, text, wire *pkgInfo) string {
	var w strings.Builder
	w.WriteString("-- GENERATED by /verif/tools/translate from the Go sources; do not edit.\n-- Regenerated (after deletion) on every check run.\n")
	w.WriteString(scopeHeader)
	emitScript(&w, "structMarshalMember", "arshal_default.go makeStructArshaler, fncs.marshal: one struct member", memberWindow(root, "marshal"))
	emitScript(&w, "structUnmarshalMember", "arshal_default.go makeStructArshaler, fncs.unmarshal: one struct member", memberWindow(root, "unmarshal"))
	emitScript(&w, "marshalEncode", "arshal.go MarshalEncode", wholeBody(root, "MarshalEncode"))
	emitScript(&w, "unmarshalDecode", "arshal.go UnmarshalDecode", wholeBody(root, "UnmarshalDecode"))
	userCalls(&w, root)
	emitWriteSites(&w, []*pkgInfo{root, text, wire})
	w.WriteString("\nend JsonV.Gen.Scope\n")
	return w.String()
}
