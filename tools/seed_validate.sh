#!/bin/bash
# seed_validate.sh <seeded-dir>
# Confirms a seeded change: (1) demo passes on the unchanged tree, (2) with the patch the repo still builds and the
# pinned test suite passes, (3) the demo fails with the patch.  Works in a scratch worktree that is removed afterwards.
# meta.json needs: demo_pkg (package dir relative to repo root, e.g. "./jsontext" or "."), demo_run (test name regexp).
set -u
d=$(cd "$1" && pwd)
export GOFLAGS=-mod=mod GOPROXY=off GOSUMDB=off GOTOOLCHAIN=local
pkg=$(jq -r .demo_pkg "$d/meta.json"); run=$(jq -r .demo_run "$d/meta.json")
wt=/tmp/seedval-$(basename "$d")-$$
git -C /repo worktree add -q --detach "$wt" HEAD || exit 2
cleanup() { git -C /repo worktree remove --force "$wt" >/dev/null 2>&1; rm -rf "$wt"; }
trap cleanup EXIT
res() { echo "RESULT $(basename "$d"): $*"; }
cp "$d"/demo_test.go "$wt/$pkg/zz_seed_demo_test.go"
if ! (cd "$wt" && go1.26 test -vet=off -count=1 -run "$run" "$pkg" >"$wt/.demo0.log" 2>&1); then res "REJECT demo fails on the unchanged tree"; tail -20 "$wt/.demo0.log"; exit 1; fi
rm "$wt/$pkg/zz_seed_demo_test.go"
if ! git -C "$wt" apply "$d/patch.diff"; then res "REJECT patch does not apply"; exit 1; fi
if ! (cd "$wt" && go1.26 build ./... >"$wt/.build.log" 2>&1); then res "REJECT does not build"; tail -20 "$wt/.build.log"; exit 1; fi
if ! (cd "$wt" && go1.26 test -vet=off -count=1 -timeout 25m ./... >"$wt/.suite.log" 2>&1); then res "REJECT existing test suite fails with the patch"; grep -E "^(--- FAIL|FAIL|panic)" "$wt/.suite.log" | head; exit 1; fi
cp "$d"/demo_test.go "$wt/$pkg/zz_seed_demo_test.go"
if (cd "$wt" && timeout 300 go1.26 test -vet=off -count=1 -run "$run" "$pkg" >"$wt/.demo1.log" 2>&1); then res "REJECT demo passes with the patch (change not demonstrated)"; exit 1; fi
res "CONFIRMED (demo passes without, fails with; suite passes with)"
tail -5 "$wt/.demo1.log" | sed 's/^/    /'
exit 0
