#!/bin/bash
# seed_matrix_par.sh [N] — the full seeded-change matrix, N-way parallel: the check driver serialises its build phases
# env PROPS="C05 C06" restricts to the seeds of those properties, SEED_OUT=<file> redirects the result.
# on one lock per /verif tree (Gen/ is regenerated per run), so N scratch CLONES of /verif (under /tmp, removed afterwards)
# each run a share of the seeds with their own Gen/, build cache and lock.  Result: seeded/RESULTS.tsv.
set -u
cd "$(dirname "$0")/.."
V=$PWD; N=${1:-6}; W=/tmp/vclone-$$; mkdir -p $W
seeds=(); for d in seeded/*/; do if [ -n "${PROPS:-}" ] && ! echo " $PROPS " | grep -q " $(jq -r .property $d/meta.json) "; then continue; fi; seeds+=("$V/${d%/}/"); done
OUT=${SEED_OUT:-seeded/RESULTS.tsv}
for i in $(seq 1 $N); do
  rsync -a --exclude .git --exclude replays --exclude 'evidence' "$V/" "$W/$i/"; mkdir -p "$W/$i/evidence" "$W/$i/replays"; rm -f "$W/$i/.build/lock"
  list=(); for j in "${!seeds[@]}"; do [ $((j % N)) -eq $((i - 1)) ] && list+=("${seeds[$j]}"); done
  ( cd "$W/$i" && SEED_OUT="$W/$i.tsv" SEED_JOBS=1 tools/seed_matrix.sh "${list[@]}" > "$W/$i.log" 2>&1 ) &
done
wait
cat $W/*.tsv | sort > "$OUT"
awk -F'\t' '{t++; if ($3==1) c++} END {printf "caught %d of %d\n", c, t}' "$OUT"
rm -rf $W
