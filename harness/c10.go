package main

// C10 — Numbers are converted exactly in both directions.
//
// Correspondence (Tie B, family `num`): jsonwire.ParseUint, the int/uint unmarshalers (bare, quoted
// under `string`/StringifyNumbers, map keys), Token.Int/Uint/Float/Float32 on raw literals,
// jsonwire.AppendFloat against the model's layout of strconv's shortest decomposition (and against the
// ECMA-262 spec layout), jsonwire.ReformatNumber, Marshal of int64/uint64.
//
// Predicates on the implementation, independent of the Lean model: integer conversions against math/big
// (exact, or refused exactly outside [min,max]; '-' refused for unsigned; fraction/exponent refused);
// AppendFloat output parses back to identical bits, is the shortest, and matches an independent Go
// implementation of ECMA-262 Number::toString with -0 kept; Unmarshal into float64/float32 equals the
// correctly rounded value computed from the exact rational (math/big.Rat, one rounding); overflow is an error.

import (
	"bytes"
	"errors"
	"fmt"
	"math"
	"math/big"
	"math/rand/v2"
	"reflect"
	"regexp"
	"strconv"
	"strings"
	"sync"

	json "github.com/go-json-experiment/json"
	"github.com/go-json-experiment/json/internal/jsonflags"
	"github.com/go-json-experiment/json/internal/jsonwire"
	"github.com/go-json-experiment/json/jsontext"
)

func init() { register("C10", runC10) }

// ---------------------------------------------------------------- oracle batching

type c10Batch struct {
	c     *Ctx
	or    *Oracle
	lines []string
	cbs   []func(ans string)
}

func (b *c10Batch) add(line string, cb func(ans string)) {
	if b.or == nil {
		return
	}
	b.lines = append(b.lines, line)
	b.cbs = append(b.cbs, cb)
	if len(b.lines) >= 8000 {
		b.flush()
	}
}

func (b *c10Batch) flush() {
	if b.or == nil || len(b.lines) == 0 {
		return
	}
	ans := b.or.Ask(b.lines)
	for i, a := range ans {
		if strings.HasPrefix(a, "ERR") {
			fail("oracle answered %q to %q", a, b.lines[i])
		}
		b.cbs[i](a)
	}
	b.lines, b.cbs = b.lines[:0], b.cbs[:0]
}

func c10ErrClass(err error) string {
	switch {
	case err == nil:
		return "none"
	case errors.Is(err, strconv.ErrSyntax):
		return "syntax"
	case errors.Is(err, strconv.ErrRange):
		return "range"
	}
	var se *json.SemanticError
	if errors.As(err, &se) {
		return "mismatch"
	}
	return fmt.Sprintf("other(%T)", err)
}

var (
	c10IntLit  = regexp.MustCompile(`^-?(0|[1-9][0-9]*)$`)
	c10UintLit = regexp.MustCompile(`^(0|[1-9][0-9]*)$`)
	c10NumLit  = regexp.MustCompile(`^-?(0|[1-9][0-9]*)(\.[0-9]+)?([eE][-+]?[0-9]+)?$`)
	bigOne     = big.NewInt(1)
)

func pow2(k uint) *big.Int { return new(big.Int).Lsh(bigOne, k) }

func runC10(c *Ctx) {
	or := c.NewOracle()
	b := &c10Batch{c: c, or: or}
	if or == nil {
		c.Note("oracle not available: Go-only predicates")
	}
	c10ParseUint(c, b)
	b.flush()
	c10IntArshal(c, b)
	b.flush()
	c10Tokens(c, b)
	b.flush()
	c10FloatFormat(c, b)
	b.flush()
	c10FloatParse(c, b)
	b.flush()
	c10Reformat(c, b)
	b.flush()
	c10FormatInt(c, b)
	b.flush()
	c10TypedTokens(c, b)
	b.flush()
	c10MarshalKinds(c, b)
	b.flush()
	c10LegacyFloats(c, b)
	b.flush()
	if c.Thorough() {
		c10Float32All(c)
		c.SetExhaustive(true)
		c.Note("float32: all 2^32 bit patterns through AppendFloat(.,32) -> ParseFloat(.,32), shortest and ECMA layout checks")
	}
}

// ---------------------------------------------------------------- A. jsonwire.ParseUint

// anchors around which 19-21 digit strings are enumerated
func c10Anchors() []*big.Int {
	e := func(k int64) *big.Int { return new(big.Int).Exp(big.NewInt(10), big.NewInt(k), nil) }
	add := func(a, b *big.Int) *big.Int { return new(big.Int).Add(a, b) }
	mul := func(a *big.Int, k int64) *big.Int { return new(big.Int).Mul(a, big.NewInt(k)) }
	return []*big.Int{
		pow2(63), pow2(64), e(18), e(19), e(20), e(21), mul(e(19), 2), mul(e(19), 3), mul(e(20), 2),
		add(pow2(64), e(19)),         // wraps to exactly 1e19: the `v < 1e19` boundary
		add(pow2(64), mul(e(19), 2)), // 21 digits, wrapped value looks in range
		add(mul(pow2(64), 5), e(19)), // 21 digits, leading 1, wrapped ≥ 1e19
		add(mul(pow2(64), 10), pow2(63)),
		mul(pow2(64), 2), mul(pow2(64), 5), mul(pow2(64), 10),
		add(pow2(63), pow2(64)),
	}
}

func c10CheckParseUint(c *Ctx, b *c10Batch, in []byte) {
	in = append([]byte(nil), in...)
	var v uint64
	var ok bool
	if p := guard(func() { v, ok = jsonwire.ParseUint(in) }); p != nil {
		c.Panic("ParseUint", in, p, nil)
		return
	}
	// predicate against math/big
	canonical := c10UintLit.Match(in)
	var wantV uint64
	wantOK := false
	if canonical {
		n, _ := new(big.Int).SetString(string(in), 10)
		if n.IsUint64() {
			wantV, wantOK = n.Uint64(), true
		} else {
			wantV = math.MaxUint64
		}
	}
	c.Case("puint "+string(in), canonical && len(in) >= 19)
	switch {
	case !canonical:
		c.Hit("puint/malformed")
	case wantOK:
		c.Hit(fmt.Sprintf("puint/ok/len%02d", len(in)))
	default:
		c.Hit(fmt.Sprintf("puint/overflow/len%02d", len(in)))
	}
	if v != wantV || ok != wantOK {
		c.Violate("parseuint-inexact", "jsonwire.ParseUint", in, map[string]any{"got": fmt.Sprint(v, ok), "want": fmt.Sprint(wantV, wantOK)})
	}
	got := fmt.Sprintf("%d %s", v, map[bool]string{false: "0", true: "1"}[ok])
	b.add("num puint "+hx(in), func(ans string) {
		if ans != got {
			c.Violate("corr-puint", "jsonwire.ParseUint", in, map[string]any{"impl": got, "model": ans})
		}
	})
}

func c10ParseUint(c *Ctx, b *c10Batch) {
	delta := int64(c.N(300, 2000))
	for _, a := range c10Anchors() {
		for d := -delta; d <= delta; d++ {
			n := new(big.Int).Add(a, big.NewInt(d))
			s := n.String()
			c10CheckParseUint(c, b, []byte(s))
			if d%7 == 0 || d >= -2 && d <= 2 {
				// first digits × last digits: every leading digit, with and without one more digit
				for lead := byte('0'); lead <= '9'; lead++ {
					t := []byte(s)
					t[0] = lead
					c10CheckParseUint(c, b, t)
					c10CheckParseUint(c, b, append([]byte{lead}, s...))
				}
			}
		}
	}
	r := c.Rng
	// random digit strings of every length 0..24, biased to 19..21
	for i := 0; i < c.N(40000, 400000); i++ {
		n := r.IntN(25)
		if r.IntN(2) == 0 {
			n = 19 + r.IntN(3)
		}
		s := make([]byte, n)
		for j := range s {
			s[j] = '0' + byte(r.IntN(10))
		}
		if n > 0 && r.IntN(4) != 0 && s[0] == '0' {
			s[0] = '1' + byte(r.IntN(9))
		}
		if n == 20 && r.IntN(2) == 0 {
			s[0] = '1'
			if r.IntN(2) == 0 {
				s[1] = '8'
			}
		}
		c10CheckParseUint(c, b, s)
		// malformed: mutate one position
		if n > 0 && i%5 == 0 {
			bad := []byte{'/', ':', '-', '+', ' ', '.', 'e', 'E', 0, 0xff, 'a', '\t'}
			t := append([]byte(nil), s...)
			switch r.IntN(3) {
			case 0:
				t[r.IntN(n)] = bad[r.IntN(len(bad))]
			case 1:
				p := r.IntN(n + 1)
				t = append(t[:p:p], append([]byte{bad[r.IntN(len(bad))]}, t[p:]...)...)
			case 2:
				t = append([]byte{'0'}, t...)
			}
			c10CheckParseUint(c, b, t)
		}
	}
	for _, s := range []string{"", "0", "00", "01", "-0", "+0", " 0", "0 ", "1.0", "1e0", "٣", "１", "0x1", "18446744073709551615", "18446744073709551616",
		"018446744073709551615", "99999999999999999999", "100000000000000000000", "00000000000000000000", "000000000000000000000"} {
		c10CheckParseUint(c, b, []byte(s))
	}
}

// ---------------------------------------------------------------- B. integer unmarshalers

type c10Target struct {
	name   string
	t      reflect.Type
	bits   uint
	signed bool
}

var c10Targets = []c10Target{
	{"int8", reflect.TypeFor[int8](), 8, true}, {"int16", reflect.TypeFor[int16](), 16, true},
	{"int32", reflect.TypeFor[int32](), 32, true}, {"int64", reflect.TypeFor[int64](), 64, true},
	{"int", reflect.TypeFor[int](), strconv.IntSize, true},
	{"uint8", reflect.TypeFor[uint8](), 8, false}, {"uint16", reflect.TypeFor[uint16](), 16, false},
	{"uint32", reflect.TypeFor[uint32](), 32, false}, {"uint64", reflect.TypeFor[uint64](), 64, false},
	{"uint", reflect.TypeFor[uint](), strconv.IntSize, false}, {"uintptr", reflect.TypeFor[uintptr](), strconv.IntSize, false},
}

type c10Named int16 // a named type goes through the same arshaler

var (
	c10TagTypes = map[string]reflect.Type{}
	c10MapTypes = map[string]reflect.Type{}
)

func init() {
	c10Targets = append(c10Targets, c10Target{"named-int16", reflect.TypeFor[c10Named](), 16, true})
	for _, t := range c10Targets {
		c10TagTypes[t.name] = reflect.StructOf([]reflect.StructField{{Name: "V", Type: t.t, Tag: `json:",string"`}})
		c10MapTypes[t.name] = reflect.MapOf(t.t, reflect.TypeFor[int]())
	}
}

// quote content as a JSON string using only \u escapes where needed (ASCII content)
func c10Quote(content string) string {
	var sb strings.Builder
	sb.WriteByte('"')
	for i := 0; i < len(content); i++ {
		ch := content[i]
		if ch < 0x20 || ch == '"' || ch == '\\' || ch >= 0x7f {
			fmt.Fprintf(&sb, `\u%04x`, ch)
		} else {
			sb.WriteByte(ch)
		}
	}
	sb.WriteByte('"')
	return sb.String()
}

// forms: how the literal reaches the arshaler
const (
	c10Bare      = iota // 123 into T
	c10Tag              // {"V":"123"} into struct{V T `json:",string"`}
	c10Opt              // "123" into T with StringifyNumbers(true)
	c10Key              // {"123":0} into map[T]int
	c10BareUnder        // 123 into T with StringifyNumbers(true): kind mismatch
	c10QuotedNo         // "123" into T without the option: kind mismatch
	c10Null             // null into T
)

var c10FormNames = []string{"bare", "tag", "opt", "key", "bare-under-stringify", "quoted-without", "null"}

// c10Unmarshal runs the real code; returns "set <v>" | "null" | "E <class>".
func c10Unmarshal(c *Ctx, tg c10Target, form int, lit string) (res string, input []byte) {
	var data string
	var opts []json.Options
	target := reflect.New(tg.t)
	sentinel := func(v reflect.Value) {
		if tg.signed {
			v.SetInt(1)
		} else {
			v.SetUint(1)
		}
	}
	sentinel(target.Elem())
	read := func() reflect.Value { return target.Elem() }
	switch form {
	case c10Bare:
		data = lit
	case c10Tag:
		data = `{"V":` + c10Quote(lit) + `}`
		target = reflect.New(c10TagTypes[tg.name])
		sentinel(target.Elem().Field(0))
		read = func() reflect.Value { return target.Elem().Field(0) }
	case c10Opt:
		data = c10Quote(lit)
		opts = []json.Options{json.StringifyNumbers(true)}
	case c10Key:
		data = `{` + c10Quote(lit) + `:0}`
		target = reflect.New(c10MapTypes[tg.name])
		read = func() reflect.Value {
			ks := target.Elem().MapKeys()
			if len(ks) != 1 {
				return reflect.Value{}
			}
			return ks[0]
		}
	case c10BareUnder:
		data = lit
		opts = []json.Options{json.StringifyNumbers(true)}
	case c10QuotedNo:
		data = c10Quote(lit)
	case c10Null:
		data = "null"
	}
	input = []byte(data)
	var err error
	if p := guard(func() { err = json.Unmarshal(input, target.Interface(), opts...) }); p != nil {
		c.Panic("json.Unmarshal/"+tg.name+"/"+c10FormNames[form], input, p, nil)
		return "panic", input
	}
	if err != nil {
		return "E " + c10ErrClass(err), input
	}
	v := read()
	if !v.IsValid() {
		return "E no-key", input
	}
	var s string
	if tg.signed {
		s = strconv.FormatInt(v.Int(), 10)
	} else {
		s = strconv.FormatUint(v.Uint(), 10)
	}
	if form == c10Null {
		if s == "0" {
			return "null", input
		}
		return "null-kept " + s, input
	}
	return "set " + s, input
}

func c10CheckInt(c *Ctx, b *c10Batch, tg c10Target, form int, lit string) {
	res, input := c10Unmarshal(c, tg, form, lit)
	if res == "panic" {
		return
	}
	op := "json.Unmarshal/" + tg.name + "/" + c10FormNames[form]
	// ---- predicate against math/big (independent of the model)
	isInt := c10IntLit.MatchString(lit)
	min, max := new(big.Int), new(big.Int)
	if tg.signed {
		min.Neg(pow2(tg.bits - 1))
		max.Sub(pow2(tg.bits-1), bigOne)
	} else {
		max.Sub(pow2(tg.bits), bigOne)
	}
	bucket := "int/" + c10FormNames[form] + "/"
	switch form {
	case c10Bare, c10Tag, c10Opt, c10Key:
		var want string // "" = must be refused
		if isInt && (tg.signed || lit[0] != '-') {
			n, _ := new(big.Int).SetString(lit, 10)
			if n.Cmp(min) >= 0 && n.Cmp(max) <= 0 {
				want = "set " + n.String()
				bucket += "in-range"
			} else {
				bucket += "out-of-range"
			}
		} else if isInt {
			bucket += "minus-for-unsigned"
		} else if c10NumLit.MatchString(lit) {
			bucket += "fraction-or-exponent"
		} else {
			bucket += "not-a-number"
		}
		refused := strings.HasPrefix(res, "E ")
		if want == "" && !refused {
			c.Violate("int-accepted", op, input, map[string]any{"literal": lit, "got": res, "want": "refusal"})
		} else if want != "" && res != want {
			c.Violate("int-inexact", op, input, map[string]any{"literal": lit, "got": res, "want": want})
		}
	case c10BareUnder, c10QuotedNo:
		bucket += "mismatch"
		if !strings.HasPrefix(res, "E ") {
			c.Violate("int-accepted", op, input, map[string]any{"literal": lit, "got": res, "want": "refusal (kind mismatch)"})
		}
	case c10Null:
		bucket += "null"
	}
	c.Hit(bucket)
	c.Case(op+" "+lit, isInt && len(lit) > 1)
	// ---- correspondence with the model
	st, kind := "0", "0"
	switch form {
	case c10Tag, c10Opt, c10Key:
		st, kind = "1", "s"
	case c10BareUnder:
		st, kind = "1", "0"
	case c10QuotedNo:
		st, kind = "0", "s"
	case c10Null:
		kind = "n"
	}
	fam := "uintv"
	if tg.signed {
		fam = "intv"
	}
	b.add(fmt.Sprintf("num %s %d %s %s %s", fam, tg.bits, st, kind, hx([]byte(lit))), func(ans string) {
		if ans != res {
			c.Violate("corr-int", op, input, map[string]any{"literal": lit, "impl": res, "model": ans})
		}
	})
}

func c10IntLiterals(c *Ctx, delta int64) []string {
	var out []string
	seen := map[string]bool{}
	put := func(s string) {
		if !seen[s] {
			seen[s] = true
			out = append(out, s)
		}
	}
	for _, k := range []uint{7, 8, 15, 16, 31, 32, 63, 64} {
		for _, sign := range []int64{1, -1} {
			a := new(big.Int).Mul(pow2(k), big.NewInt(sign))
			for d := -delta; d <= delta; d++ {
				put(new(big.Int).Add(a, big.NewInt(d)).String())
			}
		}
	}
	for d := -delta; d <= delta; d++ {
		put(strconv.FormatInt(d, 10))
	}
	return out
}

var c10OddLits = []string{"-0", "0", "-", "", "+1", " 1", "1 ", "01", "-01", "00", "-00", "1.0", "-1.0", "1e0", "1E0", "1e+0", "0.0", "-0.0", "0e0",
	"10e-1", "1e2", "1.5", "-1.5", "127.0", "255e0", "0x10", "1_0", "--1", "-+1", "1-", "null", "true", "Infinity", "NaN",
	"18446744073709551616", "-18446744073709551616", "-9223372036854775809", "99999999999999999999", "100000000000000000000",
	"-99999999999999999999", "-100000000000000000000", "123456789012345678901234567890", "-123456789012345678901234567890",
	"1\x00", "\"1\"", "1\\", "１"}

func c10IntArshal(c *Ctx, b *c10Batch) {
	lits := c10IntLiterals(c, 2000)
	for _, tg := range c10Targets {
		for _, lit := range lits {
			c10CheckInt(c, b, tg, c10Bare, lit)
		}
	}
	// quoted forms and map keys: a thinner sweep in the quick tier
	qd := int64(c.N(40, 2000))
	qlits := c10IntLiterals(c, qd)
	for _, tg := range c10Targets {
		for _, lit := range qlits {
			for _, form := range []int{c10Tag, c10Opt, c10Key} {
				c10CheckInt(c, b, tg, form, lit)
			}
		}
		for _, lit := range []string{"0", "-1", "1", "127", "128", "300"} {
			c10CheckInt(c, b, tg, c10BareUnder, lit)
			c10CheckInt(c, b, tg, c10QuotedNo, lit)
		}
		c10CheckInt(c, b, tg, c10Null, "null")
		for _, lit := range c10OddLits {
			for _, form := range []int{c10Tag, c10Opt, c10Key} {
				c10CheckInt(c, b, tg, form, lit)
			}
			if c10NumLit.MatchString(lit) { // bare literals must be JSON numbers
				c10CheckInt(c, b, tg, c10Bare, lit)
			}
		}
	}
	// random JSON number literals (bare) and random contents (quoted)
	r := c.Rng
	for i := 0; i < c.N(20000, 300000); i++ {
		tg := c10Targets[r.IntN(len(c10Targets))]
		lit := c10GenIntish(r)
		if c10NumLit.MatchString(lit) {
			c10CheckInt(c, b, tg, c10Bare, lit)
		}
		c10CheckInt(c, b, tg, []int{c10Tag, c10Opt, c10Key}[r.IntN(3)], lit)
	}
}

// integer-like literals: mostly canonical integers of random magnitude, sometimes decorated
func c10GenIntish(r *rand.Rand) string {
	var sb strings.Builder
	if r.IntN(3) == 0 {
		sb.WriteByte('-')
	}
	n := 1 + r.IntN(22)
	for j := 0; j < n; j++ {
		d := byte(r.IntN(10))
		if j == 0 && n > 1 && r.IntN(20) != 0 && d == 0 {
			d = 1 + byte(r.IntN(9))
		}
		sb.WriteByte('0' + d)
	}
	switch r.IntN(12) {
	case 0:
		sb.WriteString(".0")
	case 1:
		sb.WriteString("e0")
	case 2:
		sb.WriteString("E+1")
	case 3:
		sb.WriteString(".5e1")
	}
	return sb.String()
}

// ---------------------------------------------------------------- C. Token.Int / Uint / Float

func c10RatOf(lit string) *big.Rat {
	r, ok := new(big.Rat).SetString(lit)
	if !ok {
		fail("big.Rat cannot read %q", lit)
	}
	return r
}

// correctly rounded float64 / float32 of a JSON number literal, by one rounding of the exact rational
func c10Round64(lit string) float64 {
	f, _ := c10RatOf(lit).Float64()
	if f == 0 && lit[0] == '-' {
		f = math.Copysign(0, -1)
	}
	return f
}
func c10Round32(lit string) float32 {
	f, _ := c10RatOf(lit).Float32()
	if f == 0 && lit[0] == '-' {
		f = float32(math.Copysign(0, -1))
	}
	return f
}

func c10CheckToken(c *Ctx, b *c10Batch, lit string) {
	if !c10NumLit.MatchString(lit) {
		fail("c10CheckToken: %q is not a JSON number", lit)
	}
	if e := strings.IndexAny(lit, "eE"); e >= 0 && len(lit)-e > 8 {
		return // exponents beyond ±10^6 make the exact rational unaffordable
	}
	input := []byte(" " + lit + " ")
	var (
		i          int64
		u          uint64
		f          float64
		f32        float32
		ie, ue, fe error
		f32e       error
		rerr       error
		kind       jsontext.Kind
	)
	if p := guard(func() {
		dec := jsontext.NewDecoder(bytes.NewReader(input))
		tok, err := dec.ReadToken()
		if err != nil {
			rerr = err
			return
		}
		kind = tok.Kind()
		i, ie = tok.Int()
		u, ue = tok.Uint()
		f, fe = tok.Float()
		f32, f32e = tok.Float32()
	}); p != nil {
		c.Panic("Token.Int/Uint/Float", input, p, nil)
		return
	}
	if rerr != nil || kind != '0' {
		c.Violate("token-not-number", "Decoder.ReadToken", input, map[string]any{"err": fmt.Sprint(rerr), "kind": kind.String()})
		return
	}
	gotI := fmt.Sprintf("%d %s", i, c10ErrClass(ie))
	gotU := fmt.Sprintf("%d %s", u, c10ErrClass(ue))
	gotF := fmt.Sprintf("%d %s", math.Float64bits(f), c10ErrClass(fe))
	gotF32 := fmt.Sprintf("%d %s", math.Float32bits(f32), c10ErrClass(f32e))

	// ---- predicate (math/big)
	r64 := c10Round64(lit)
	wantF := fmt.Sprintf("%d %s", math.Float64bits(r64), map[bool]string{false: "none", true: "range"}[math.IsInf(r64, 0)])
	r32 := c10Round32(lit)
	wantF32 := fmt.Sprintf("%d %s", math.Float32bits(r32), map[bool]string{false: "none", true: "range"}[math.IsInf(float64(r32), 0)])
	var wantI, wantU string
	if c10IntLit.MatchString(lit) {
		n, _ := new(big.Int).SetString(lit, 10)
		switch {
		case n.IsInt64():
			wantI = n.String() + " none"
			c.Hit("tokint/exact")
		case n.Sign() < 0:
			wantI = fmt.Sprintf("%d range", int64(math.MinInt64))
			c.Hit("tokint/range-min")
		default:
			wantI = fmt.Sprintf("%d range", int64(math.MaxInt64))
			c.Hit("tokint/range-max")
		}
	} else {
		// syntax error; the value is the float64 truncated toward zero and saturated
		var t int64
		switch {
		case r64 >= 0x1p63:
			t = math.MaxInt64
		case r64 < -0x1p63:
			t = math.MinInt64
		default:
			t = int64(r64)
		}
		wantI = fmt.Sprintf("%d syntax", t)
		c.Hit("tokint/syntax")
	}
	if c10UintLit.MatchString(lit) {
		n, _ := new(big.Int).SetString(lit, 10)
		if n.IsUint64() {
			wantU = n.String() + " none"
			c.Hit("tokuint/exact")
		} else {
			wantU = fmt.Sprintf("%d range", uint64(math.MaxUint64))
			c.Hit("tokuint/range")
		}
	} else {
		var t uint64
		switch {
		case r64 >= 0x1p64:
			t = math.MaxUint64
		case r64 < 0:
			t = 0
		default:
			t = uint64(r64)
		}
		wantU = fmt.Sprintf("%d syntax", t)
		c.Hit("tokuint/syntax")
	}
	c.Case("token "+lit, len(lit) > 1)
	for _, x := range []struct{ name, got, want string }{{"Token.Int", gotI, wantI}, {"Token.Uint", gotU, wantU}, {"Token.Float", gotF, wantF}, {"Token.Float32", gotF32, wantF32}} {
		if x.got != x.want {
			c.Violate("token-value", x.name, input, map[string]any{"literal": trunc(lit, 200), "got": x.got, "want": x.want})
		}
	}
	// ---- correspondence
	h := hx([]byte(lit))
	for _, x := range []struct{ name, line, got string }{{"Token.Int", "num tokint " + h, gotI}, {"Token.Uint", "num tokuint " + h, gotU},
		{"Token.Float", "num tokfloat 64 " + h, gotF}, {"Token.Float32", "num tokfloat 32 " + h, gotF32}} {
		x := x
		b.add(x.line, func(ans string) {
			if ans != x.got {
				c.Violate("corr-token", x.name, input, map[string]any{"literal": trunc(lit, 200), "impl": x.got, "model": ans})
			}
		})
	}
}

func c10Tokens(c *Ctx, b *c10Batch) {
	d := int64(c.N(60, 2000))
	for _, k := range []uint{31, 32, 53, 63, 64} {
		for _, sign := range []int64{1, -1} {
			a := new(big.Int).Mul(pow2(k), big.NewInt(sign))
			for dd := -d; dd <= d; dd++ {
				s := new(big.Int).Add(a, big.NewInt(dd)).String()
				c10CheckToken(c, b, s)
				if dd%9 == 0 {
					c10CheckToken(c, b, s+".0")
					c10CheckToken(c, b, s+".9")
					c10CheckToken(c, b, s+"e0")
					c10CheckToken(c, b, s+"E-1")
					c10CheckToken(c, b, s+"e1")
				}
			}
		}
	}
	for _, s := range c10SpecialFloatLits {
		c10CheckToken(c, b, s)
	}
	r := c.Rng
	for i := 0; i < c.N(15000, 300000); i++ {
		c10CheckToken(c, b, c10GenNumber(r))
	}
	for i := 0; i < c.N(5000, 100000); i++ {
		c10CheckToken(c, b, c10GenIntishNumber(r))
	}
}

func c10GenIntishNumber(r *rand.Rand) string {
	for {
		s := c10GenIntish(r)
		if c10NumLit.MatchString(s) {
			return s
		}
	}
}

var c10SpecialFloatLits = []string{"0", "-0", "0.0", "-0.0", "-0.0e5", "0e0", "-0e-0", "0.5", "-0.5", "0.9999999999999999", "-0.9999999999999999", "1.9", "-1.9",
	"1e400", "-1e400", "1e-400", "-1e-400", "1e309", "1e308", "1e-323", "1e-324", "4.9e-324", "5e-324", "2.4703282292062327e-324", "2.4703282292062328e-324",
	"2.47032822920623272088284396434110686182529901307162382212792841250337753635104375932649918180817996189898282347722858865463328355177969898199387398005390939063150356595155702263922908583924491051844359318028499365361525003193704576782492193656236698636584807570015857692699037063119282795585513329278343384093519780155312465972635795746227664652728272200563740064854999770965994704540208281662262378573934507363390079677619305775067401763246736009689513405355374585166611342237666786041621596804619144672918403005300575308490487653917113865916462395249126236538818796362393732804238910186723484976682350898633885879256283027559956575244555072551893136908362547791869486679949683240497058210285131854513962138377228261454376934125320985913276672363281251e-324",
	"1.7976931348623157e308", "1.7976931348623158e308", "1.7976931348623159e308", "179769313486231580793728971405303415079934132710037826936173778980444968292764750946649017977587207096330286416692887910946555547851940402630657488671505820681908902000708383676273854845817711531764475730270069855571366959622842914819860834936475292719074168444365510704342711559699508093042880177904174497791.9999999999999999999",
	"179769313486231580793728971405303415079934132710037826936173778980444968292764750946649017977587207096330286416692887910946555547851940402630657488671505820681908902000708383676273854845817711531764475730270069855571366959622842914819860834936475292719074168444365510704342711559699508093042880177904174497792",
	"3.4028235e38", "3.4028236e38", "3.4028235677973366e38", "340282356779733661637539395458142568447.9999", "340282356779733661637539395458142568448", "1e-45", "7e-46", "7.006492321624085e-46", "7.0064923216240853546186479164495806564013097093825788587853914196e-46", "7.0064923216240853546186479164495806564013097093825788587853914197e-46",
	"1.1754943508222875e-38", "1e23", "8.41e21", "9007199254740993", "9007199254740992.5", "9007199254740993.0000000000000000000000000001", "0.1", "0.3", "1e21", "1e-6", "1e-7", "123456789012345678901234567890e-20",
	"9223372036854775807.5", "9223372036854775808.5", "-9223372036854775808.5", "-9223372036854775809.5", "18446744073709551615.5", "18446744073709551616.5", "9223372036854775295", "9223372036854775296", "18446744073709550591", "18446744073709550592",
	"1e18", "1e19", "1e20", "-1e19", "9.223372036854775807e18", "9.223372036854775808e18", "1.8446744073709551615e19", "1.8446744073709551616e19", "0.000001e25", "100000000000000000000e-2",
	"16777217", "16777216.5", "16777217.0000001", "0." + strings.Repeat("0", 400) + "1", "1" + strings.Repeat("0", 400), "1" + strings.Repeat("0", 308), "0." + strings.Repeat("0", 322) + "49", "0." + strings.Repeat("9", 400)}

// JSON number literals: random sign / integer / fraction / exponent of varied lengths
func c10GenNumber(r *rand.Rand) string {
	var sb strings.Builder
	if r.IntN(2) == 0 {
		sb.WriteByte('-')
	}
	digits := func(n int) {
		for j := 0; j < n; j++ {
			sb.WriteByte('0' + byte(r.IntN(10)))
		}
	}
	lens := []int{1, 1, 2, 3, 5, 8, 15, 16, 17, 18, 19, 20, 21, 25, 40, 120}
	if r.IntN(4) == 0 {
		sb.WriteByte('0')
	} else {
		sb.WriteByte('1' + byte(r.IntN(9)))
		digits(lens[r.IntN(len(lens))] - 1)
	}
	if r.IntN(3) != 0 {
		sb.WriteByte('.')
		if r.IntN(5) == 0 {
			sb.WriteString(strings.Repeat("0", r.IntN(30)))
		}
		digits(lens[r.IntN(len(lens))])
	}
	if r.IntN(2) == 0 {
		sb.WriteByte("eE"[r.IntN(2)])
		switch r.IntN(3) {
		case 0:
			sb.WriteByte('-')
		case 1:
			sb.WriteByte('+')
		}
		switch r.IntN(6) {
		case 0:
			sb.WriteString(strconv.Itoa(r.IntN(10)))
		case 1, 2:
			sb.WriteString(strconv.Itoa(r.IntN(40)))
		case 3:
			sb.WriteString(strconv.Itoa(280 + r.IntN(60)))
		case 4:
			sb.WriteString("0" + strconv.Itoa(r.IntN(400)))
		default:
			sb.WriteString(strconv.Itoa(r.IntN(420)))
		}
	}
	return sb.String()
}

// ---------------------------------------------------------------- D. AppendFloat

// shortest decomposition from strconv: value = 0.d1…dk × 10^dp
func c10Decomp(f float64, bits int) (neg bool, digits string, dp int) {
	neg = math.Signbit(f)
	s := strconv.FormatFloat(math.Abs(f), 'e', -1, bits)
	e := strings.IndexByte(s, 'e')
	exp, err := strconv.Atoi(s[e+1:])
	if err != nil {
		fail("bad %%e output %q", s)
	}
	digits = strings.Replace(s[:e], ".", "", 1)
	if digits == "0" {
		return neg, "", 0
	}
	return neg, digits, exp + 1
}

// independent implementation of ECMA-262 Number::toString (steps 5-10), with the sign of zero kept
func c10Ecma(neg bool, digits string, n int) string {
	var sb strings.Builder
	if neg {
		sb.WriteByte('-')
	}
	k := len(digits)
	switch {
	case k == 0:
		sb.WriteByte('0')
	case k <= n && n <= 21:
		sb.WriteString(digits)
		sb.WriteString(strings.Repeat("0", n-k))
	case 0 < n && n <= 21:
		sb.WriteString(digits[:n] + "." + digits[n:])
	case -6 < n && n <= 0:
		sb.WriteString("0." + strings.Repeat("0", -n) + digits)
	default:
		e := n - 1
		sign := "+"
		if e < 0 {
			sign, e = "-", -e
		}
		if k == 1 {
			sb.WriteString(digits + "e" + sign + strconv.Itoa(e))
		} else {
			sb.WriteString(digits[:1] + "." + digits[1:] + "e" + sign + strconv.Itoa(e))
		}
	}
	return sb.String()
}

// hand-written recogniser of the RFC 8259 number grammar (the regexp is too slow for 2^32 calls)
func c10IsJSONNumber(b []byte) bool {
	i := 0
	if i < len(b) && b[i] == '-' {
		i++
	}
	digits := func() int {
		n := 0
		for i < len(b) && '0' <= b[i] && b[i] <= '9' {
			i++
			n++
		}
		return n
	}
	switch {
	case i < len(b) && b[i] == '0':
		i++
	case i < len(b) && '1' <= b[i] && b[i] <= '9':
		digits()
	default:
		return false
	}
	if i < len(b) && b[i] == '.' {
		i++
		if digits() == 0 {
			return false
		}
	}
	if i < len(b) && (b[i] == 'e' || b[i] == 'E') {
		i++
		if i < len(b) && (b[i] == '+' || b[i] == '-') {
			i++
		}
		if digits() == 0 {
			return false
		}
	}
	return i == len(b)
}

// c10FloatPred evaluates the float formatting predicates on one value; returns the text (nil on panic).
func c10FloatPred(c *Ctx, f float64, bits int) (out []byte, neg bool, digits string, dp int) {
	if bits == 32 {
		f = float64(float32(f))
	}
	var in [8]byte
	for i := range in {
		in[i] = byte(math.Float64bits(f) >> (56 - 8*i))
	}
	op := fmt.Sprintf("jsonwire.AppendFloat/%d", bits)
	if p := guard(func() { out = jsonwire.AppendFloat(nil, f, bits) }); p != nil {
		c.Panic(op, in[:], p, nil)
		return nil, false, "", 0
	}
	// 1. parses back to identical bits
	back, err := strconv.ParseFloat(string(out), bits)
	if err != nil || math.Float64bits(back) != math.Float64bits(f) {
		c.Violate("float-roundtrip", op, in[:], map[string]any{"text": string(out), "back": math.Float64bits(back), "bits": math.Float64bits(f), "err": fmt.Sprint(err)})
	}
	// 2. layout = ECMA-262 of the shortest decomposition
	neg, digits, dp = c10Decomp(f, bits)
	if want := c10Ecma(neg, digits, dp); string(out) != want {
		c.Violate("float-layout", op, in[:], map[string]any{"text": string(out), "ecma": want})
	}
	if !c10IsJSONNumber(out) {
		c.Violate("float-not-json", op, in[:], map[string]any{"text": string(out)})
	}
	// 3. shortest: no (k-1)-digit decimal parses back to f.  If any did, then (the set of decimals that
	// round to f being an interval containing the k-digit value D) one of the two (k-1)-digit neighbours of D would.
	if k := len(digits); k >= 1 {
		if digits[k-1] == '0' || digits[0] == '0' {
			c.Violate("float-not-shortest", op, in[:], map[string]any{"text": string(out), "digits": digits})
		}
		if k >= 2 {
			lo := digits[:k-1]
			loN, _ := strconv.ParseUint(lo, 10, 64) // k-1 <= 16 digits
			hi := strconv.FormatUint(loN+1, 10)
			for _, cand := range []string{lo + "e" + strconv.Itoa(dp-(k-1)), hi + "e" + strconv.Itoa(dp-(k-1))} {
				g, err := strconv.ParseFloat(cand, bits)
				if err == nil && math.Float64bits(g) == math.Float64bits(math.Abs(f)) {
					c.Violate("float-not-shortest", op, in[:], map[string]any{"text": string(out), "shorter": cand})
				}
			}
		}
	}
	return out, neg, digits, dp
}

func c10CheckFloat(c *Ctx, b *c10Batch, f float64, bits int, viaMarshal bool) {
	if math.IsNaN(f) || math.IsInf(f, 0) {
		return
	}
	if bits == 32 {
		f = float64(float32(f))
		if math.IsInf(f, 0) {
			return
		}
	}
	out, neg, digits, dp := c10FloatPred(c, f, bits)
	if out == nil {
		return
	}
	op := fmt.Sprintf("jsonwire.AppendFloat/%d", bits)
	in := []byte(fmt.Sprintf("%016x", math.Float64bits(f)))
	nontrivial := len(digits) > 1
	c.Case(fmt.Sprintf("float%d %x", bits, math.Float64bits(f)), nontrivial)
	switch {
	case digits == "":
		c.Hit(fmt.Sprintf("float%d/zero", bits))
	case dp < -5 || dp > 21:
		c.Hit(fmt.Sprintf("float%d/exp-form", bits))
	case dp >= len(digits):
		c.Hit(fmt.Sprintf("float%d/integer-form", bits))
	case dp > 0:
		c.Hit(fmt.Sprintf("float%d/point-inside", bits))
	default:
		c.Hit(fmt.Sprintf("float%d/0.00ddd", bits))
	}
	c.Hit(fmt.Sprintf("float%d/digits%02d", bits, len(digits)))
	ds := digits
	if ds == "" {
		ds = "-"
	}
	sn := "0"
	if neg {
		sn = "1"
	}
	got := hx(out)
	text := string(out)
	b.add(fmt.Sprintf("num fmtfloat %s %s %d", sn, ds, dp), func(ans string) {
		if ans != got {
			c.Violate("corr-fmtfloat", op, in, map[string]any{"impl": text, "model": string(unhx(ans))})
		}
	})
	b.add(fmt.Sprintf("num ecma %s %s %d", sn, ds, dp), func(ans string) {
		if ans != got {
			c.Violate("float-layout", op, in, map[string]any{"impl": text, "spec(Lean Ecma.numberToString)": string(unhx(ans))})
		}
	})
	if viaMarshal {
		// the public entry points emit the same text
		var m []byte
		var err error
		var v any = f
		if bits == 32 {
			v = float32(f)
		}
		if p := guard(func() { m, err = json.Marshal(v) }); p != nil {
			c.Panic("json.Marshal/float", in, p, nil)
		} else if err != nil || string(m) != text {
			c.Violate("float-marshal-differs", fmt.Sprintf("json.Marshal/float%d", bits), in, map[string]any{"marshal": string(m), "appendfloat": text, "err": fmt.Sprint(err)})
		}
		var tb bytes.Buffer
		if p := guard(func() {
			enc := jsontext.NewEncoder(&tb)
			if bits == 32 {
				err = enc.WriteToken(jsontext.Float32(float32(f)))
			} else {
				err = enc.WriteToken(jsontext.Float(f))
			}
		}); p != nil {
			c.Panic("Encoder.WriteToken/float", in, p, nil)
		} else if err != nil || strings.TrimSuffix(tb.String(), "\n") != text {
			c.Violate("float-marshal-differs", fmt.Sprintf("Encoder.WriteToken(Float%d)", bits), in, map[string]any{"token": tb.String(), "appendfloat": text, "err": fmt.Sprint(err)})
		}
		// and Unmarshal restores the bits
		if bits == 64 {
			var g float64
			if err := json.Unmarshal(out, &g); err != nil || math.Float64bits(g) != math.Float64bits(f) {
				c.Violate("float-roundtrip", "json.Unmarshal/float64", out, map[string]any{"got": math.Float64bits(g), "want": math.Float64bits(f), "err": fmt.Sprint(err)})
			}
		} else {
			var g float32
			if err := json.Unmarshal(out, &g); err != nil || math.Float32bits(g) != math.Float32bits(float32(f)) {
				c.Violate("float-roundtrip", "json.Unmarshal/float32", out, map[string]any{"got": math.Float32bits(g), "want": math.Float32bits(float32(f)), "err": fmt.Sprint(err)})
			}
		}
	}
}

func c10MantPatterns(r *rand.Rand, mbits uint, nrand int) []uint64 {
	all := uint64(1)<<mbits - 1
	ps := []uint64{0, 1, 2, 3, all, all - 1, all - 2, 1 << (mbits - 1), 1<<(mbits-1) - 1, 1<<(mbits-1) + 1, 0x5555555555555555 & all, 0xAAAAAAAAAAAAAAAA & all}
	for i := uint(0); i < mbits; i += 3 {
		ps = append(ps, 1<<i, all&^(1<<i))
	}
	for i := 0; i < nrand; i++ {
		ps = append(ps, r.Uint64()&all)
	}
	return ps
}

func c10FloatFormat(c *Ctx, b *c10Batch) {
	r := c.Rng
	// float64: every exponent field × mantissa patterns × sign
	stride := c.N(1, 1)
	for e := uint64(0); e < 2047; e += uint64(stride) {
		for _, m := range c10MantPatterns(r, 52, c.N(4, 60)) {
			bits := e<<52 | m
			c10CheckFloat(c, b, math.Float64frombits(bits), 64, e%64 == 0)
			if m&1 == 0 {
				c10CheckFloat(c, b, math.Float64frombits(bits|1<<63), 64, false)
			}
		}
	}
	// float32: every exponent field × mantissa patterns × sign
	for e := uint32(0); e < 255; e++ {
		for _, m := range c10MantPatterns(r, 23, c.N(30, 400)) {
			bits := e<<23 | uint32(m)
			c10CheckFloat(c, b, float64(math.Float32frombits(bits)), 32, e%16 == 0)
			if m&1 == 0 {
				c10CheckFloat(c, b, float64(math.Float32frombits(bits|1<<31)), 32, false)
			}
		}
	}
	// every neighbour of the layout switches (±50 ulps), in both widths, both signs
	for _, x := range []float64{1e-6, 1e21, 1e-7, 1e-5, 1e20, 1e22, 1, 10, 0.1, 1 << 53, 123456789012345680000, 0.000001234} {
		up, dn := x, x
		c10CheckFloat(c, b, x, 64, true)
		c10CheckFloat(c, b, -x, 64, true)
		for i := 0; i < 50; i++ {
			up, dn = math.Nextafter(up, math.Inf(1)), math.Nextafter(dn, 0)
			for _, y := range []float64{up, dn, -up, -dn} {
				c10CheckFloat(c, b, y, 64, true)
			}
		}
		up32, dn32 := float32(x), float32(x)
		c10CheckFloat(c, b, float64(up32), 32, true)
		c10CheckFloat(c, b, -float64(up32), 32, true)
		for i := 0; i < 50; i++ {
			up32, dn32 = math.Nextafter32(up32, float32(math.Inf(1))), math.Nextafter32(dn32, 0)
			for _, y := range []float32{up32, dn32, -up32, -dn32} {
				c10CheckFloat(c, b, float64(y), 32, true)
			}
		}
	}
	// powers of ten and their neighbours, extremes, subnormals, integers around 2^53 / 2^24
	for e := -330; e <= 310; e++ {
		x, err := strconv.ParseFloat("1e"+strconv.Itoa(e), 64)
		if err != nil && math.IsInf(x, 0) {
			continue
		}
		for _, y := range []float64{x, math.Nextafter(x, 0), math.Nextafter(x, math.Inf(1)), -x, x * 5, x * 2} {
			c10CheckFloat(c, b, y, 64, false)
			c10CheckFloat(c, b, y, 32, false)
		}
	}
	for _, x := range []float64{0, math.Copysign(0, -1), math.SmallestNonzeroFloat64, math.MaxFloat64, 0x1p-1022, 0x1p-1022 - 0x1p-1074, math.SmallestNonzeroFloat32, math.MaxFloat32,
		0x1p-126, 0x1p-126 - 0x1p-149, 1 << 53, 1<<53 + 2, 1<<53 - 1, 1 << 24, 1<<24 + 2, 1<<24 - 1, 1 << 63, 1 << 64, 5e-324, 1.5, 0.5, 100, 1e6, 123456, 0.000001, 0.0000001} {
		c10CheckFloat(c, b, x, 64, true)
		c10CheckFloat(c, b, -x, 64, true)
		c10CheckFloat(c, b, x, 32, true)
		c10CheckFloat(c, b, -x, 32, true)
	}
	for i := 1; i < 2000; i++ {
		c10CheckFloat(c, b, float64(i), 64, false)
		c10CheckFloat(c, b, float64(i)/1000, 64, false)
		c10CheckFloat(c, b, float64(i)/8, 32, false)
	}
	// random bit patterns
	for i := 0; i < c.N(60000, 3000000); i++ {
		c10CheckFloat(c, b, math.Float64frombits(r.Uint64()), 64, i%16 == 0)
		c10CheckFloat(c, b, float64(math.Float32frombits(r.Uint32())), 32, i%16 == 0)
	}
	// magnitudes where the plain layouts live (1e-9 … 1e24), and short decimals d₁…d_k × 10^e (every ECMA case, zero padding)
	for i := 0; i < c.N(40000, 2000000); i++ {
		e := uint64(1023 - 30 + r.IntN(110))
		c10CheckFloat(c, b, math.Float64frombits(uint64(r.IntN(2))<<63|e<<52|r.Uint64()&(1<<52-1)), 64, i%16 == 0)
		e32 := uint32(127 - 30 + r.IntN(110))
		c10CheckFloat(c, b, float64(math.Float32frombits(uint32(r.IntN(2))<<31|e32<<23|r.Uint32()&(1<<23-1))), 32, i%16 == 0)
	}
	for i := 0; i < c.N(30000, 600000); i++ {
		k := 1 + r.IntN(7)
		if r.IntN(4) == 0 {
			k = 1 + r.IntN(17)
		}
		ds := make([]byte, k)
		for j := range ds {
			ds[j] = '0' + byte(r.IntN(10))
		}
		s := string(ds) + "e" + strconv.Itoa(r.IntN(40)-14)
		if x, err := strconv.ParseFloat(s, 64); err == nil {
			c10CheckFloat(c, b, x, 64, i%16 == 0)
			c10CheckFloat(c, b, -x, 32, i%16 == 0)
		}
	}
	// non-finite values are refused by Marshal
	for _, x := range []any{math.NaN(), math.Inf(1), math.Inf(-1), float32(math.NaN()), float32(math.Inf(1)), float32(math.Inf(-1))} {
		var err error
		var out []byte
		if p := guard(func() { out, err = json.Marshal(x) }); p != nil {
			c.Panic("json.Marshal/nonfinite", nil, p, nil)
		} else if err == nil {
			c.Violate("nonfinite-accepted", "json.Marshal", nil, map[string]any{"value": fmt.Sprint(x), "out": string(out)})
		}
		c.Hit("float/nonfinite-refused")
	}
}

// thorough tier: every float32
func c10Float32All(c *Ctx) {
	const workers = 16
	var wg sync.WaitGroup
	var counts [workers][4]int64
	for w := 0; w < workers; w++ {
		wg.Add(1)
		go func(w int) {
			defer wg.Done()
			lo := uint64(w) << 28
			hi := lo + 1<<28
			for u := lo; u < hi; u++ {
				f32 := math.Float32frombits(uint32(u))
				f := float64(f32)
				if math.IsNaN(f) || math.IsInf(f, 0) {
					counts[w][0]++
					continue
				}
				out, _, digits, dp := c10FloatPred(c, f, 32)
				if out == nil {
					continue
				}
				switch {
				case digits == "":
					counts[w][1]++
				case dp < -5 || dp > 21:
					counts[w][2]++
				default:
					counts[w][3]++
				}
			}
		}(w)
	}
	wg.Wait()
	var tot [4]int64
	for w := range counts {
		for i := range tot {
			tot[i] += counts[w][i]
		}
	}
	c.HitN("float32-all/nan-inf-skipped", tot[0])
	c.HitN("float32-all/zero", tot[1])
	c.HitN("float32-all/exp-form", tot[2])
	c.HitN("float32-all/plain-form", tot[3])
	c.mu.Lock()
	c.evals += tot[1] + tot[2] + tot[3]
	c.mu.Unlock()
}

// ---------------------------------------------------------------- E. Unmarshal into float types

func c10CheckFloatParse(c *Ctx, b *c10Batch, lit string) {
	if !c10NumLit.MatchString(lit) {
		fail("c10CheckFloatParse: %q is not a JSON number", lit)
	}
	input := []byte(lit)
	var f64 float64
	var f32 float32
	var e64, e32 error
	if p := guard(func() { e64 = json.Unmarshal(input, &f64); e32 = json.Unmarshal(input, &f32) }); p != nil {
		c.Panic("json.Unmarshal/float", input, p, nil)
		return
	}
	w64, w32 := c10Round64(lit), c10Round32(lit)
	c.Case("floatparse "+lit, len(lit) > 1)
	if math.IsInf(w64, 0) {
		c.Hit("floatparse64/overflow")
		if e64 == nil || !errors.Is(e64, strconv.ErrRange) {
			c.Violate("float-overflow-accepted", "json.Unmarshal/float64", input, map[string]any{"literal": trunc(lit, 200), "got": math.Float64bits(f64), "err": fmt.Sprint(e64)})
		}
	} else {
		switch {
		case w64 == 0:
			c.Hit("floatparse64/zero-or-underflow")
		case math.Abs(w64) < 0x1p-1022:
			c.Hit("floatparse64/subnormal")
		default:
			c.Hit("floatparse64/normal")
		}
		if e64 != nil || math.Float64bits(f64) != math.Float64bits(w64) {
			c.Violate("float-misrounded", "json.Unmarshal/float64", input, map[string]any{"literal": trunc(lit, 200), "got": math.Float64bits(f64), "want": math.Float64bits(w64), "err": fmt.Sprint(e64)})
		}
	}
	if math.IsInf(float64(w32), 0) {
		c.Hit("floatparse32/overflow")
		if e32 == nil || !errors.Is(e32, strconv.ErrRange) {
			c.Violate("float-overflow-accepted", "json.Unmarshal/float32", input, map[string]any{"literal": trunc(lit, 200), "got": math.Float32bits(f32), "err": fmt.Sprint(e32)})
		}
	} else {
		switch {
		case w32 == 0:
			c.Hit("floatparse32/zero-or-underflow")
		case math.Abs(float64(w32)) < 0x1p-126:
			c.Hit("floatparse32/subnormal")
		default:
			c.Hit("floatparse32/normal")
		}
		if e32 != nil || math.Float32bits(f32) != math.Float32bits(w32) {
			c.Violate("float-misrounded", "json.Unmarshal/float32", input, map[string]any{"literal": trunc(lit, 200), "got": math.Float32bits(f32), "want": math.Float32bits(w32), "err": fmt.Sprint(e32)})
		}
	}
	// every other route by which a JSON number reaches a float destination must give the same single rounding
	for _, rt := range c10FloatRoutes {
		var bits uint64
		var err error
		var in []byte
		if p := guard(func() { bits, in, err = rt.run(lit) }); p != nil {
			c.Panic("json.Unmarshal/"+rt.name, []byte(lit), p, nil)
			continue
		}
		want, inf := math.Float64bits(w64), math.IsInf(w64, 0)
		if rt.is32 {
			want, inf = uint64(math.Float32bits(w32)), math.IsInf(float64(w32), 0)
		}
		switch {
		case inf:
			// the v1 package rewrites the error (no ErrRange to match): only its presence is required there
			if err == nil || (!errors.Is(err, strconv.ErrRange) && !strings.HasPrefix(rt.name, "v1/")) {
				c.Violate("float-overflow-accepted", "json.Unmarshal/"+rt.name, in, map[string]any{"literal": trunc(lit, 200), "got": bits, "err": fmt.Sprint(err)})
			}
		case err != nil || bits != want:
			c.Violate("float-misrounded", "json.Unmarshal/"+rt.name, in, map[string]any{"literal": trunc(lit, 200), "got": bits, "want": want, "err": fmt.Sprint(err)})
		}
	}
	c.HitN("floatparse/routes", int64(len(c10FloatRoutes)))
	// correspondence with the model of the float unmarshaler (bare and quoted arms)
	showF := func(bits uint64, err error) string {
		if err != nil {
			return "E " + c10ErrClass(err)
		}
		return fmt.Sprintf("set %d", bits)
	}
	hl := hx(input)
	for _, x := range []struct {
		op, line, got string
	}{
		{"json.Unmarshal/float64", "num floatv 64 0 0 " + hl, showF(math.Float64bits(f64), e64)},
		{"json.Unmarshal/float32", "num floatv 32 0 0 " + hl, showF(uint64(math.Float32bits(f32)), e32)},
	} {
		x := x
		b.add(x.line, func(ans string) {
			if ans != x.got {
				c.Violate("corr-floatv", x.op, input, map[string]any{"literal": trunc(lit, 200), "impl": x.got, "model": ans})
			}
		})
	}
	// the Lean specification of correct rounding agrees as well (third implementation)
	g64 := fmt.Sprintf("%d", math.Float64bits(w64))
	g32 := fmt.Sprintf("%d", math.Float32bits(w32))
	h := hx(input)
	b.add("num tokfloat 64 "+h, func(ans string) {
		if strings.Fields(ans)[0] != g64 {
			c.Violate("corr-parsefloat-spec", "math/big.Rat.Float64 vs Lean parseFloatExact", input, map[string]any{"big": g64, "lean": ans})
		}
	})
	b.add("num tokfloat 32 "+h, func(ans string) {
		if strings.Fields(ans)[0] != g32 {
			c.Violate("corr-parsefloat-spec", "math/big.Rat.Float32 vs Lean parseFloatExact", input, map[string]any{"big": g32, "lean": ans})
		}
	})
}

// c10FloatRoute is one way a JSON number literal reaches a float destination.
type c10FloatRoute struct {
	name string
	is32 bool
	run  func(lit string) (bits uint64, input []byte, err error)
}

type c10F32 float32
type c10F64 float64

func c10b32(f float32) uint64 { return uint64(math.Float32bits(f)) }
func c10b64(f float64) uint64 { return math.Float64bits(f) }

var errC10Shape = errors.New("harness: unexpected shape of the unmarshaled value")

var c10FloatRoutes = []c10FloatRoute{
	{"*float32", true, func(lit string) (uint64, []byte, error) {
		var p *float32
		in := []byte(lit)
		if err := json.Unmarshal(in, &p); err != nil || p == nil {
			return 0, in, c10or(err)
		}
		return c10b32(*p), in, nil
	}},
	{"*float64", false, func(lit string) (uint64, []byte, error) {
		var p *float64
		in := []byte(lit)
		if err := json.Unmarshal(in, &p); err != nil || p == nil {
			return 0, in, c10or(err)
		}
		return c10b64(*p), in, nil
	}},
	{"any", false, func(lit string) (uint64, []byte, error) {
		var a any
		in := []byte(lit)
		if err := json.Unmarshal(in, &a); err != nil {
			return 0, in, err
		}
		f, ok := a.(float64)
		if !ok {
			return 0, in, errC10Shape
		}
		return c10b64(f), in, nil
	}},
	{"named-float32", true, func(lit string) (uint64, []byte, error) {
		var f c10F32
		in := []byte(lit)
		err := json.Unmarshal(in, &f)
		return c10b32(float32(f)), in, err
	}},
	{"named-float64", false, func(lit string) (uint64, []byte, error) {
		var f c10F64
		in := []byte(lit)
		err := json.Unmarshal(in, &f)
		return c10b64(float64(f)), in, err
	}},
	{"[]float32", true, func(lit string) (uint64, []byte, error) {
		var v []float32
		in := []byte("[" + lit + "]")
		if err := json.Unmarshal(in, &v); err != nil || len(v) != 1 {
			return 0, in, c10or(err)
		}
		return c10b32(v[0]), in, nil
	}},
	{"[1]float64", false, func(lit string) (uint64, []byte, error) {
		var v [1]float64
		in := []byte("[" + lit + "]")
		err := json.Unmarshal(in, &v)
		return c10b64(v[0]), in, err
	}},
	{"struct-field-float32", true, func(lit string) (uint64, []byte, error) {
		var v struct{ V float32 }
		in := []byte(`{"V":` + lit + `}`)
		err := json.Unmarshal(in, &v)
		return c10b32(v.V), in, err
	}},
	{"map[string]float32-value", true, func(lit string) (uint64, []byte, error) {
		var v map[string]float32
		in := []byte(`{"k":` + lit + `}`)
		if err := json.Unmarshal(in, &v); err != nil || len(v) != 1 {
			return 0, in, c10or(err)
		}
		return c10b32(v["k"]), in, nil
	}},
	{"map[float32]int-key", true, func(lit string) (uint64, []byte, error) {
		var v map[float32]int
		in := []byte(`{"` + lit + `":0}`)
		if err := json.Unmarshal(in, &v); err != nil || len(v) != 1 {
			return 0, in, c10or(err)
		}
		for k := range v {
			return c10b32(k), in, nil
		}
		return 0, in, errC10Shape
	}},
	{"map[float64]int-key", false, func(lit string) (uint64, []byte, error) {
		var v map[float64]int
		in := []byte(`{"` + lit + `":0}`)
		if err := json.Unmarshal(in, &v); err != nil || len(v) != 1 {
			return 0, in, c10or(err)
		}
		for k := range v {
			return c10b64(k), in, nil
		}
		return 0, in, errC10Shape
	}},
	{"float32,string-tag", true, func(lit string) (uint64, []byte, error) {
		var v struct {
			V float32 `json:",string"`
		}
		in := []byte(`{"V":"` + lit + `"}`)
		err := json.Unmarshal(in, &v)
		return c10b32(v.V), in, err
	}},
	{"float64,string-tag", false, func(lit string) (uint64, []byte, error) {
		var v struct {
			V float64 `json:",string"`
		}
		in := []byte(`{"V":"` + lit + `"}`)
		err := json.Unmarshal(in, &v)
		return c10b64(v.V), in, err
	}},
	{"float32/StringifyNumbers", true, func(lit string) (uint64, []byte, error) {
		var f float32
		in := []byte(`"` + lit + `"`)
		err := json.Unmarshal(in, &f, json.StringifyNumbers(true))
		return c10b32(f), in, err
	}},
	{"float64/StringifyNumbers", false, func(lit string) (uint64, []byte, error) {
		var f float64
		in := []byte(`"` + lit + `"`)
		err := json.Unmarshal(in, &f, json.StringifyNumbers(true))
		return c10b64(f), in, err
	}},
	{"float32/UnmarshalRead", true, func(lit string) (uint64, []byte, error) {
		var f float32
		in := []byte(" " + lit + "\n")
		err := json.UnmarshalRead(bytes.NewReader(in), &f)
		return c10b32(f), in, err
	}},
	{"float32/UnmarshalDecode", true, func(lit string) (uint64, []byte, error) {
		var v [2]float32
		in := []byte("[" + lit + ", " + lit + "]")
		err := json.UnmarshalDecode(jsontext.NewDecoder(bytes.NewReader(in)), &v)
		if err == nil && math.Float32bits(v[0]) != math.Float32bits(v[1]) {
			return c10b32(v[1]), in, errC10Shape
		}
		return c10b32(v[0]), in, err
	}},
}

func c10or(err error) error {
	if err != nil {
		return err
	}
	return errC10Shape
}

// c10Spellings returns spellings of the same rational as the integer n (sign included):
// plain integer, with a zero fraction, scientific with the point after the first digit,
// scaled up with a negative exponent, and scaled down below one with a positive exponent.
func c10Spellings(n *big.Int) []string {
	sign := ""
	a := new(big.Int).Abs(n)
	if n.Sign() < 0 {
		sign = "-"
	}
	d := a.String()
	out := []string{sign + d, sign + d + ".0", sign + d + "e0", sign + d + "000E-3", sign + "0." + d + "e+" + strconv.Itoa(len(d))}
	if len(d) > 1 {
		out = append(out, sign+d[:1]+"."+d[1:]+"e"+strconv.Itoa(len(d)-1), sign+d[:len(d)-1]+"."+d[len(d)-1:]+"E1")
	}
	return out
}

// c10IntegerMidpoints feeds, for one pair of adjacent floats lo < hi whose midpoint is an integer, the midpoint
// and its integer neighbourhood through `check`: m, m±1, m±2, and — because a wider intermediate format is the
// classical source of double rounding — m ± h ± {0,1} where h is half a float64 ulp at m (when that is an integer
// other than the above).  Every value as a plain integer with and without '-'; the fraction/exponent spellings of
// c10Spellings for every value when `full` (thorough tier), else for m and m±1.
func c10IntegerMidpoints(lo, hi float64, full bool, check func(lit string)) {
	l, _ := new(big.Float).SetFloat64(lo).Int(nil)
	h, _ := new(big.Float).SetFloat64(hi).Int(nil)
	sum := new(big.Int).Add(l, h)
	if sum.Bit(0) != 0 {
		return // midpoint is not an integer
	}
	m := sum.Rsh(sum, 1)
	if len(m.String()) > 40 {
		return
	}
	deltas := []int64{0, 1, -1, 2, -2}
	var ds []*big.Int
	for _, d := range deltas {
		ds = append(ds, big.NewInt(d))
	}
	// half a float64 ulp at m: 2^(bitlen(m)-54)
	if bl := m.BitLen(); bl >= 56 {
		half := new(big.Int).Lsh(bigOne, uint(bl-54))
		for _, sgn := range []int64{1, -1} {
			for _, d := range []int64{0, 1, -1} {
				x := new(big.Int).Mul(half, big.NewInt(sgn))
				ds = append(ds, x.Add(x, big.NewInt(d)))
			}
		}
	}
	// the midpoint with a decimal tail far below half a float64 ulp, either side (a wider intermediate rounds it
	// onto the midpoint first)
	for _, sgn := range []string{"", "-"} {
		check(sgn + m.String() + ".0000001")
		check(sgn + m.String() + ".000000000000000000000000000001")
		check(sgn + new(big.Int).Sub(m, bigOne).String() + ".9999999")
		check(sgn + new(big.Int).Sub(m, bigOne).String() + ".999999999999999999999999999999")
	}
	for i, d := range ds {
		x := new(big.Int).Add(m, d)
		for _, v := range []*big.Int{x, new(big.Int).Neg(x)} {
			sp := c10Spellings(v)
			if !full && i >= 3 {
				sp = sp[:1] // plain integer only
			}
			for _, s := range sp {
				check(s)
			}
		}
	}
}

// exact decimal expansion of a dyadic rational
func c10ExactDecimal(x *big.Rat) string {
	// denominator is a power of two: 2^k needs k fractional digits
	k := x.Denom().BitLen() - 1
	s := x.FloatString(k)
	if strings.Contains(s, ".") {
		s = strings.TrimRight(s, "0")
		s = strings.TrimSuffix(s, ".")
	}
	return s
}

// c10CheckQuotedFloat: arbitrary quoted content into float64/float32 under StringifyNumbers, and bare numbers under
// the option / strings without it (kind mismatches), against the model.
func c10CheckQuotedFloat(c *Ctx, b *c10Batch, content string) {
	for _, bits := range []int{64, 32} {
		for _, mode := range []struct {
			st, kind string
			data     string
			opts     []json.Options
		}{
			{"1", "s", c10Quote(content), []json.Options{json.StringifyNumbers(true)}},
			{"0", "s", c10Quote(content), nil},
		} {
			input := []byte(mode.data)
			var got string
			var err error
			if p := guard(func() {
				if bits == 64 {
					var f float64
					err = json.Unmarshal(input, &f, mode.opts...)
					got = fmt.Sprintf("set %d", math.Float64bits(f))
				} else {
					var f float32
					err = json.Unmarshal(input, &f, mode.opts...)
					got = fmt.Sprintf("set %d", math.Float32bits(f))
				}
			}); p != nil {
				c.Panic("json.Unmarshal/float/quoted", input, p, nil)
				continue
			}
			if err != nil {
				got = "E " + c10ErrClass(err)
			}
			op := fmt.Sprintf("json.Unmarshal/float%d/quoted-stringify=%s", bits, mode.st)
			c.Case(op+" "+content, true)
			c.Hit("floatparse/quoted-" + mode.st)
			// predicate: accepted iff stringify and the content is exactly one JSON number that does not overflow
			wantOK := mode.st == "1" && c10NumLit.MatchString(content)
			if wantOK {
				if bits == 64 {
					wantOK = !math.IsInf(c10Round64(content), 0)
				} else {
					wantOK = !math.IsInf(float64(c10Round32(content)), 0)
				}
			}
			if wantOK != (err == nil) {
				c.Violate("float-quoted-acceptance", op, input, map[string]any{"content": content, "got": got, "want-accepted": wantOK})
			}
			b.add(fmt.Sprintf("num floatv %d %s %s %s", bits, mode.st, mode.kind, hx([]byte(content))), func(ans string) {
				if ans != got {
					c.Violate("corr-floatv", op, input, map[string]any{"content": content, "impl": got, "model": ans})
				}
			})
		}
	}
}

func c10FloatParse(c *Ctx, b *c10Batch) {
	r := c.Rng
	for _, s := range []string{"", " 1", "1 ", "+1", "-", "0x1", "1e", "1e+", "1.", ".5", "01", "-01", "NaN", "Infinity", "-Infinity", "null", "1,2", "1e5x", "--1",
		"1", "-0", "0.5", "1e400", "-1e400", "1e-400", "3.4028236e38", "123456789012345678901234567890", "1E+2", "0e0"} {
		c10CheckQuotedFloat(c, b, s)
	}
	for i := 0; i < c.N(1500, 40000); i++ {
		s := c10GenNumber(r)
		if i%3 == 0 { // damage it
			p := r.IntN(len(s) + 1)
			s = s[:p] + string(" +-.eE0x"[r.IntN(8)]) + s[p:]
		}
		if e := strings.IndexAny(s, "eE"); e >= 0 && len(s)-e > 6 {
			continue // keep the exact rational affordable: exponents of at most 4 digits
		}
		c10CheckQuotedFloat(c, b, s)
	}
	for _, s := range c10SpecialFloatLits {
		c10CheckFloatParse(c, b, s)
	}
	for i := 0; i < c.N(20000, 500000); i++ {
		c10CheckFloatParse(c, b, c10GenNumber(r))
	}
	// halfway cases: the exact midpoint between adjacent floats, and one digit either side of it
	mid := func(lo, hi float64) {
		m := new(big.Rat).Add(new(big.Rat).SetFloat64(lo), new(big.Rat).SetFloat64(hi))
		m.Quo(m, big.NewRat(2, 1))
		s := c10ExactDecimal(m)
		if !strings.Contains(s, ".") {
			s += ".0"
		}
		c10CheckFloatParse(c, b, s)
		c10CheckFloatParse(c, b, s+"1")
		c10CheckFloatParse(c, b, s+"000000000000000000000000000001")
		// just below: decrement the last digit (it is 5 for a midpoint) and append 9s
		t := []byte(s)
		if last := t[len(t)-1]; last > '0' {
			t[len(t)-1] = last - 1
			c10CheckFloatParse(c, b, string(t)+"9999999999999999999999999999")
		}
		c.Hit("floatparse/halfway-triple")
	}
	for i := 0; i < c.N(1500, 40000); i++ {
		// moderate exponents keep the exact expansions short
		e := uint64(1023 - 80 + r.IntN(200))
		if i%10 == 0 {
			e = uint64(r.IntN(2046))
			if e < 700 {
				e += 700 // expansions of tiny numbers are > 1000 digits; keep a few hundred at most
			}
		}
		f := math.Float64frombits(e<<52 | r.Uint64()&(1<<52-1))
		mid(f, math.Nextafter(f, math.Inf(1)))
		e32 := uint32(127 - 60 + r.IntN(150))
		g := math.Float32frombits(e32<<23 | r.Uint32()&(1<<23-1))
		mid(float64(g), float64(math.Nextafter32(g, float32(math.Inf(1)))))
	}
	// float32 subnormals, the smallest normals and the largest finite values (exact expansions of ~150 digits)
	for _, e32 := range []uint32{0, 0, 0, 1, 2, 252, 253, 254} {
		for k := 0; k < c.N(3, 40); k++ {
			g := math.Float32frombits(e32<<23 | r.Uint32()&(1<<23-1))
			if up := math.Nextafter32(g, float32(math.Inf(1))); !math.IsInf(float64(up), 0) {
				mid(float64(g), float64(up))
			}
		}
	}
	mid(0, float64(math.SmallestNonzeroFloat32))
	mid(float64(math.Float32frombits(0x007fffff)), float64(math.Float32frombits(0x00800000)))
	mid(float64(math.Float32frombits(0x7f7ffffe)), math.MaxFloat32)
	for _, s := range []string{"1e39", "-1e39", "3.402823567797337e38", "3.4028235677973365e38", "-3.402823567797337e38", "1e300", "-1e300", "3.5e38", "1e38", "3.4028234e38",
		"9000000000.0000001", "9000000511.9999999", "16777217.000000000000000000001", "16777216.999999999999999999", "1.17549421e-38", "1.17549435e-38", "1.4e-45", "7.1e-46", "6.9e-46"} {
		c10CheckFloatParse(c, b, s)
	}
	// integer midpoints: every binary exponent at which the midpoint of adjacent floats is an integer
	// (float32: 2^24…2^127; float64: 2^53… up to 40-digit literals), several mantissas per exponent
	// (first, last, all-ones boundary, random), spelled as plain integers and as fraction/exponent forms.
	intMid := func(lit string) {
		c10CheckFloatParse(c, b, lit)
		c10CheckToken(c, b, lit)
		c.Hit("floatparse/integer-midpoint-literal")
	}
	for e := uint32(127 + 24); e <= 254; e++ {
		ms := []uint32{0, 1<<23 - 2}
		if c.Thorough() {
			ms = append(ms, 1, 1<<22, 0x2AAAAA, 0x555555)
		}
		for i := 0; i < c.N(1, 24); i++ {
			ms = append(ms, r.Uint32()&(1<<23-1))
		}
		for _, mnt := range ms {
			g := math.Float32frombits(e<<23 | mnt)
			c10IntegerMidpoints(float64(g), float64(math.Nextafter32(g, float32(math.Inf(1)))), c.Thorough(), intMid)
		}
		// the last float32 of the binade and the first of the next (the ulp changes at the midpoint's upper end)
		g := math.Float32frombits(e<<23 | (1<<23 - 1))
		if up := math.Nextafter32(g, float32(math.Inf(1))); !math.IsInf(float64(up), 0) {
			c10IntegerMidpoints(float64(g), float64(up), c.Thorough(), intMid)
		}
	}
	for e := uint64(1023 + 53); e <= 1023+132; e++ {
		ms := []uint64{0, 1<<52 - 1}
		if c.Thorough() {
			ms = append(ms, 1, 1<<52-2, 1<<51, 0x5555555555555&(1<<52-1))
		}
		for i := 0; i < c.N(1, 24); i++ {
			ms = append(ms, r.Uint64()&(1<<52-1))
		}
		for _, mnt := range ms {
			f := math.Float64frombits(e<<52 | mnt)
			c10IntegerMidpoints(f, math.Nextafter(f, math.Inf(1)), c.Thorough(), intMid)
		}
	}
	// shortest and 17-digit texts of random floats read back exactly
	for i := 0; i < c.N(10000, 300000); i++ {
		f := math.Float64frombits(r.Uint64())
		if math.IsNaN(f) || math.IsInf(f, 0) {
			continue
		}
		c10CheckFloatParse(c, b, strconv.FormatFloat(f, 'e', 16, 64))
		if i%4 == 0 {
			c10CheckFloatParse(c, b, strconv.FormatFloat(f, 'e', 25, 64))
		}
	}
}

// ---------------------------------------------------------------- F. ReformatNumber

func c10CheckReformat(c *Ctx, b *c10Batch, lit string, ci, cf bool) {
	input := []byte(lit)
	var fl jsonflags.Flags
	if ci {
		fl.Set(jsonflags.CanonicalizeRawInts | 1)
	}
	if cf {
		fl.Set(jsonflags.CanonicalizeRawFloats | 1)
	}
	var out []byte
	var n int
	var err error
	op := fmt.Sprintf("jsonwire.ReformatNumber/ints=%v/floats=%v", ci, cf)
	if p := guard(func() { out, n, err = jsonwire.ReformatNumber(nil, input, &fl) }); p != nil {
		c.Panic(op, input, p, nil)
		return
	}
	if err != nil || n != len(input) {
		c.Violate("reformat-refused", op, input, map[string]any{"n": n, "err": fmt.Sprint(err)})
		return
	}
	c.Case(op+" "+lit, len(lit) > 1)
	// predicate: the output is a JSON number that denotes the same float64 (the exact same number when copied / when < 2^53)
	if !c10NumLit.Match(out) {
		c.Violate("reformat-not-json", op, input, map[string]any{"out": string(out)})
	}
	want := c10Round64(lit)
	if math.IsInf(want, 0) {
		want = math.Copysign(math.MaxFloat64, want)
	}
	got := c10Round64(string(out))
	if math.IsInf(got, 0) {
		got = math.Copysign(math.MaxFloat64, got)
	}
	if got != want { // == : -0 and 0 are the same number
		c.Violate("reformat-changed-value", op, input, map[string]any{"out": string(out), "got": math.Float64bits(got), "want": math.Float64bits(want)})
	}
	if ci && cf {
		// canonical form: AppendFloat of the float64 value, "-0" normalised to "0"
		w := want
		if w == 0 {
			w = 0
		}
		if canon := string(jsonwire.AppendFloat(nil, w, 64)); string(out) != canon {
			c.Violate("reformat-not-canonical", op, input, map[string]any{"out": string(out), "canonical": canon})
		}
		c.Hit("reformat/canonical")
	}
	b2s := map[bool]string{false: "0", true: "1"}
	b.add(fmt.Sprintf("num reformat %s %s %s", b2s[ci], b2s[cf], hx(input)), func(ans string) {
		f := strings.Fields(ans)
		var model string
		switch f[0] {
		case "V":
			model = string(unhx(f[1]))
			c.Hit("reformat/model-verbatim")
		case "F":
			u, err := strconv.ParseUint(f[1], 10, 64)
			if err != nil {
				fail("oracle reformat answer %q", ans)
			}
			model = string(jsonwire.AppendFloat(nil, math.Float64frombits(u), 64))
			c.Hit("reformat/model-float")
		default:
			fail("oracle reformat answer %q", ans)
		}
		if model != string(out) {
			c.Violate("corr-reformat", op, input, map[string]any{"impl": string(out), "model": model})
		}
	})
}

func c10Reformat(c *Ctx, b *c10Batch) {
	r := c.Rng
	var lits []string
	lits = append(lits, c10SpecialFloatLits...)
	for _, k := range []uint{53, 63, 64} {
		for d := int64(-40); d <= 40; d++ {
			lits = append(lits, new(big.Int).Add(pow2(k), big.NewInt(d)).String(), "-"+new(big.Int).Add(pow2(k), big.NewInt(d)).String())
		}
	}
	for n := 13; n <= 19; n++ { // around the n < 16 shortcut
		lits = append(lits, strings.Repeat("9", n), "1"+strings.Repeat("0", n-1), "-"+strings.Repeat("9", n), "-1"+strings.Repeat("0", n-2), "1"+strings.Repeat("0", n-2)+"1")
	}
	for i := 0; i < c.N(4000, 100000); i++ {
		lits = append(lits, c10GenNumber(r))
		lits = append(lits, c10GenIntishNumber(r))
	}
	for _, lit := range lits {
		if e := strings.IndexAny(lit, "eE"); e >= 0 && len(lit)-e > 8 {
			continue
		}
		for _, fl := range [][2]bool{{false, false}, {true, false}, {false, true}, {true, true}} {
			c10CheckReformat(c, b, lit, fl[0], fl[1])
		}
	}
}

// ---------------------------------------------------------------- G. integers are printed exactly

func c10FormatInt(c *Ctx, b *c10Batch) {
	r := c.Rng
	check := func(v any, want string) {
		var out []byte
		var err error
		if p := guard(func() { out, err = json.Marshal(v) }); p != nil {
			c.Panic("json.Marshal/int", []byte(want), p, nil)
			return
		}
		c.Case(fmt.Sprintf("fmtint %T %s", v, want), len(want) > 1)
		c.Hit(fmt.Sprintf("fmtint/%T", v))
		if err != nil || string(out) != want {
			c.Violate("int-misprinted", fmt.Sprintf("json.Marshal/%T", v), []byte(want), map[string]any{"got": string(out), "err": fmt.Sprint(err)})
		}
		got := hx(out)
		b.add("num fmtint "+want, func(ans string) {
			if ans != got {
				c.Violate("corr-fmtint", fmt.Sprintf("json.Marshal/%T", v), []byte(want), map[string]any{"impl": string(out), "model": string(unhx(ans))})
			}
		})
		// quoted under StringifyNumbers, and back
		var q []byte
		if p := guard(func() { q, err = json.Marshal(v, json.StringifyNumbers(true)) }); p != nil {
			c.Panic("json.Marshal/int/stringify", []byte(want), p, nil)
		} else if err != nil || string(q) != `"`+want+`"` {
			c.Violate("int-misprinted", fmt.Sprintf("json.Marshal/%T/StringifyNumbers", v), []byte(want), map[string]any{"got": string(q), "err": fmt.Sprint(err)})
		}
		back := reflect.New(reflect.TypeOf(v))
		if err := json.Unmarshal(out, back.Interface()); err != nil || back.Elem().Interface() != v {
			c.Violate("int-roundtrip", fmt.Sprintf("json.Unmarshal/%T", v), out, map[string]any{"got": fmt.Sprint(back.Elem().Interface()), "err": fmt.Sprint(err)})
		}
	}
	bi := func(x *big.Int) {
		if x.IsInt64() {
			check(x.Int64(), x.String())
		}
		if x.IsUint64() {
			check(x.Uint64(), x.String())
		}
		if x.IsInt64() && x.Int64() >= math.MinInt32 && x.Int64() <= math.MaxInt32 {
			check(int32(x.Int64()), x.String())
		}
		if x.IsInt64() && x.Int64() >= math.MinInt8 && x.Int64() <= math.MaxInt8 {
			check(int8(x.Int64()), x.String())
		}
		if x.IsUint64() && x.Uint64() <= math.MaxUint16 {
			check(uint16(x.Uint64()), x.String())
		}
	}
	d := int64(c.N(200, 2000))
	for _, k := range []uint{0, 7, 8, 15, 16, 31, 32, 53, 63, 64} {
		for _, sign := range []int64{1, -1} {
			a := new(big.Int).Mul(pow2(k), big.NewInt(sign))
			for dd := -d; dd <= d; dd++ {
				bi(new(big.Int).Add(a, big.NewInt(dd)))
			}
		}
	}
	for e := 0; e <= 19; e++ { // digit-count boundaries
		p := new(big.Int).Exp(big.NewInt(10), big.NewInt(int64(e)), nil)
		for dd := int64(-2); dd <= 2; dd++ {
			x := new(big.Int).Add(p, big.NewInt(dd))
			bi(x)
			bi(new(big.Int).Neg(x))
		}
	}
	for i := 0; i < c.N(5000, 200000); i++ {
		u := r.Uint64() >> uint(r.IntN(64))
		check(u, strconv.FormatUint(u, 10))
		check(int64(u), strconv.FormatInt(int64(u), 10))
		check(-int64(u>>1), strconv.FormatInt(-int64(u>>1), 10))
	}
}
