package main

// Compiled corpus for C15: struct types that reflect.StructOf cannot build
// (unexported embedded structs, pointer embedding of named/unexported types, recursive types,
// embedded types with methods, embedded non-struct types) plus hand-picked resolution shapes.
// The abstract graph handed to the Lean oracle and to the documented-rule implementation is
// derived from these real types by c15GraphOf, so there is a single source of truth.

import (
	"reflect"
	"time"

	"github.com/go-json-experiment/json/jsontext"
)

// --- the finding shape: a struct type embedded twice at the same depth
type C15U struct{ X int }
type C15T struct {
	C15U
	Y int
}
type C15A struct{ C15T }
type C15B struct{ C15T }
type C15DupRoot struct {
	C15A
	C15B
}

// same type twice but at different depths (harmless re-occurrence)
type C15DupDeeper struct {
	C15T
	C15A
}

// the duplicated type has no embedded children (direct fields cancel, nothing else to see)
type C15L struct{ Z, W int }
type C15LA struct{ C15L }
type C15LB struct{ C15L }
type C15DupLeaf struct {
	C15LA
	C15LB
	Z int `json:"Z"`
}

// --- unexported embedded structs
type c15inner struct {
	P int
	Q int `json:"q"`
	r int
}
type C15Unexp struct {
	c15inner
	Q int
}
type C15UnexpPtr struct {
	*c15inner
	S int
}
type c15deep struct{ c15inner }
type C15UnexpChain struct {
	c15deep
	P string `json:"P"`
}

// unexported embedded struct given an explicit name: a regular (unexported ⇒ still serialisable) field
type C15UnexpNamed struct {
	c15inner `json:"in"`
	T        int
}

// --- recursive types
type C15Rec struct {
	A int
	*C15Rec
}
type C15RecA struct {
	N int
	*C15RecB
}
type C15RecB struct {
	M int
	N int `json:"N"`
	*C15RecA
}
type C15RecEmbedTag struct {
	V    int
	Next *C15RecEmbedTag `json:",embed"`
}

// --- pointer embedding of named exported types, depth 4, collisions across depths
type C15D4 struct {
	Name string
	Deep int `json:"deep"`
}
type C15D3 struct {
	*C15D4
	Name int `json:"name"`
}
type C15D2 struct {
	C15D3
	NAME int
}
type C15D1 struct {
	*C15D2
	Na_me int `json:"na_me,case:ignore"`
}
type C15Depth4 struct {
	C15D1
	Name float64 `json:",omitzero"`
}

// --- tie at equal depth broken by an explicit name; and a tie that is not broken
type C15TieL struct{ V int }
type C15TieR struct {
	W int `json:"V"`
}
type C15TieBroken struct {
	C15TieL
	C15TieR
}
type C15TieR2 struct {
	W2 int `json:"V"`
}
type C15TieBoth struct {
	C15TieR
	C15TieR2
	C15TieL
}

// --- embedded fallbacks
type C15FbInner struct {
	K int
	X jsontext.Value `json:",embed"`
}
type C15FbOuter struct {
	C15FbInner
	Y int
}
type C15FbTwoDepths struct {
	C15FbInner
	M map[string]int `json:",embed"`
}
type C15FbTie struct {
	C15FbInner
	C15FbInner2
}
type C15FbInner2 struct {
	L  int
	X2 map[string]any `json:",embed"`
}
type C15FbTwoInOne struct {
	A jsontext.Value `json:",embed"`
	B map[string]int `json:",embed"`
}
type C15FbPtr struct {
	A int
	V *jsontext.Value `json:",embed"`
}

// --- error shapes
type C15Meth struct{ A int }

func (C15Meth) MarshalJSON() ([]byte, error) { return []byte(`{}`), nil }

type C15EmbedMeth struct {
	C15Meth
	B int
}
type C15Int int
type C15EmbedNonStruct struct {
	C15Int
	B int
}
type C15EmbedNonStructNamed struct {
	C15Int `json:"i"`
	B      int
}
type c15int int
type C15EmbedUnexpNonStruct struct {
	c15int
	B int
}
type C15Conflict struct {
	A int `json:"x"`
	B int `json:"x"`
}
type C15ConflictDeep struct { // conflict inside an embedded struct, dominated by a shallower field: still an error
	C15Conflict
	X int `json:"x"`
}
type C15UnexpTagged struct {
	a int `json:"a"`
	B int
}
type C15NoExported struct{ a, b int }
type C15NoExportedTagged struct {
	a int `json:"-"`
}
type C15EmbedNoExported struct {
	C15NoExported
	Z int
}
type C15EmbedOpts struct {
	C15TieL `json:",omitzero"`
	Q       int
}
type C15EmbedNamedOpt struct {
	In C15TieL `json:"in,embed"`
	Q  int
}
type C15BadMapKey struct {
	M map[C15TextKey]int `json:",embed"`
	Q int
}
type C15TextKey string

func (k C15TextKey) MarshalText() ([]byte, error) { return []byte(k), nil }

type C15EmbedBadType struct {
	S []int `json:",embed"`
	Q int
}
type C15Empty struct{}
type C15EmbedEmpty struct {
	C15Empty
	Q int
}

// --- casing
type C15Case struct {
	FooBar  int `json:"fooBar"`
	Foo_bar int `json:"foo_bar,case:ignore"`
	FOOBAR  int `json:"FOOBAR,case:strict"`
	Kelvin  int `json:"kelvin,case:ignore"`
	Und     int `json:"_,case:ignore"`
	Und2    int `json:"__"`
}

// --- field types with an `IsZero() bool` method that DISAGREES with the zero Go value in both directions

// value receiver on a non-struct: negative values report zero, the zero Go value 0 does not
type C15ZNeg int

func (z C15ZNeg) IsZero() bool { return z < 0 }

// pointer receiver only: {7} reports zero, the zero Go value {0} does not
type C15ZPtrRecv struct{ N int }

func (z *C15ZPtrRecv) IsZero() bool { return z.N == 7 }

// value receiver on a struct: zero iff A == B (agrees on {0,0}, disagrees on {3,3})
type C15ZStruct struct{ A, B int }

func (z C15ZStruct) IsZero() bool { return z.A == z.B }

// never zero, not even as the zero Go value
type C15ZNever struct{ N int }

func (C15ZNever) IsZero() bool { return false }

type C15Zeroer interface{ IsZero() bool }

type C15ZPlain struct {
	Neg  C15ZNeg
	PR   C15ZPtrRecv
	St   C15ZStruct
	Nv   C15ZNever
	T    time.Time
	If   C15Zeroer
	PNeg *C15ZNeg
	PPR  *C15ZPtrRecv
	PT   *time.Time
	Any  any
	I    int
	S    string
	Sl   []int
}
type C15ZOmitzero struct {
	Neg  C15ZNeg      `json:",omitzero"`
	PR   C15ZPtrRecv  `json:",omitzero"`
	St   C15ZStruct   `json:",omitzero"`
	Nv   C15ZNever    `json:",omitzero"`
	T    time.Time    `json:",omitzero"`
	If   C15Zeroer    `json:",omitzero"`
	PNeg *C15ZNeg     `json:",omitzero"`
	PPR  *C15ZPtrRecv `json:",omitzero"`
	PT   *time.Time   `json:",omitzero"`
	Any  any          `json:",omitzero"`
	I    int          `json:",omitzero"`
	S    string       `json:",omitzero"`
	Sl   []int        `json:",omitzero"`
}
type C15ZOmitempty struct {
	Neg  C15ZNeg      `json:",omitempty"`
	PR   C15ZPtrRecv  `json:",omitempty"`
	St   C15ZStruct   `json:",omitempty"`
	Nv   C15ZNever    `json:",omitempty"`
	T    time.Time    `json:",omitempty"`
	If   C15Zeroer    `json:",omitempty"`
	PNeg *C15ZNeg     `json:",omitempty"`
	PPR  *C15ZPtrRecv `json:",omitempty"`
	PT   *time.Time   `json:",omitempty"`
	Any  any          `json:",omitempty"`
	I    int          `json:",omitempty"`
	S    string       `json:",omitempty"`
	Sl   []int        `json:",omitempty"`
}
type C15ZBoth struct {
	Neg  C15ZNeg      `json:",omitzero,omitempty"`
	PR   C15ZPtrRecv  `json:",omitempty,omitzero"`
	St   C15ZStruct   `json:",omitzero,omitempty"`
	Nv   C15ZNever    `json:",omitzero,omitempty"`
	T    time.Time    `json:",omitzero,omitempty"`
	If   C15Zeroer    `json:",omitzero,omitempty"`
	PNeg *C15ZNeg     `json:",omitzero,omitempty"`
	PPR  *C15ZPtrRecv `json:",omitzero,omitempty"`
	PT   *time.Time   `json:",omitzero,omitempty"`
	Any  any          `json:",omitzero,omitempty"`
	I    int          `json:",omitzero,omitempty"`
	S    string       `json:",omitzero,omitempty"`
	Sl   []int        `json:",omitzero,omitempty"`
}

// the four tag variants of the same field list, in the order {no tag, omitzero, omitempty, both}
var c15ZeroGridTypes = []reflect.Type{reflect.TypeFor[C15ZPlain](), reflect.TypeFor[C15ZOmitzero](), reflect.TypeFor[C15ZOmitempty](), reflect.TypeFor[C15ZBoth]()}

func c15ZeroGridValues() map[string][]any {
	loc := time.FixedZone("x", 3600)
	zeroInstantWithLoc := time.Time{}.In(loc) // IsZero() but not the zero Go value
	someTime := time.Unix(1700000000, 0).UTC()
	neg, zneg, pos := C15ZNeg(-3), C15ZNeg(0), C15ZNeg(5)
	return map[string][]any{
		"Neg":  {C15ZNeg(0), C15ZNeg(-3), C15ZNeg(5)},
		"PR":   {C15ZPtrRecv{}, C15ZPtrRecv{7}, C15ZPtrRecv{1}},
		"St":   {C15ZStruct{}, C15ZStruct{3, 3}, C15ZStruct{1, 2}},
		"Nv":   {C15ZNever{}, C15ZNever{1}},
		"T":    {time.Time{}, zeroInstantWithLoc, someTime},
		"If":   {nil, C15ZNeg(-1), C15ZNeg(0), (*C15ZPtrRecv)(nil), &C15ZPtrRecv{7}, &C15ZPtrRecv{0}, time.Time{}, zeroInstantWithLoc, C15ZNever{}},
		"PNeg": {nil, &neg, &zneg, &pos},
		"PPR":  {nil, &C15ZPtrRecv{7}, &C15ZPtrRecv{0}},
		"PT":   {nil, &zeroInstantWithLoc, &someTime, &time.Time{}},
		"Any":  {nil, C15ZNeg(-1), C15ZNeg(0), zeroInstantWithLoc, 0, ""},
		"I":    {0, 1},
		"S":    {"", "x"},
		"Sl":   {nil, []int{}, []int{1}},
	}
}

// values of the IsZero-bearing leaf types (also used by the generated graphs) on which method and zero Go value disagree
func c15SpecialValues(t reflect.Type) []any {
	loc := time.FixedZone("x", 3600)
	neg, zneg := C15ZNeg(-3), C15ZNeg(0)
	switch t {
	case reflect.TypeFor[C15ZNeg]():
		return []any{C15ZNeg(-3), C15ZNeg(0)}
	case reflect.TypeFor[C15ZStruct]():
		return []any{C15ZStruct{3, 3}, C15ZStruct{}}
	case reflect.TypeFor[C15ZPtrRecv]():
		return []any{C15ZPtrRecv{7}, C15ZPtrRecv{}}
	case reflect.TypeFor[time.Time]():
		return []any{time.Time{}.In(loc), time.Time{}}
	case reflect.TypeFor[*C15ZNeg]():
		return []any{&neg, &zneg}
	}
	return nil
}

var c15Corpus = []reflect.Type{
	reflect.TypeFor[C15DupRoot](), reflect.TypeFor[C15DupDeeper](), reflect.TypeFor[C15DupLeaf](),
	reflect.TypeFor[C15Unexp](), reflect.TypeFor[C15UnexpPtr](), reflect.TypeFor[C15UnexpChain](), reflect.TypeFor[C15UnexpNamed](),
	reflect.TypeFor[C15Rec](), reflect.TypeFor[C15RecA](), reflect.TypeFor[C15RecB](), reflect.TypeFor[C15RecEmbedTag](),
	reflect.TypeFor[C15Depth4](), reflect.TypeFor[C15D1](), reflect.TypeFor[C15D2](),
	reflect.TypeFor[C15TieBroken](), reflect.TypeFor[C15TieBoth](),
	reflect.TypeFor[C15FbOuter](), reflect.TypeFor[C15FbTwoDepths](), reflect.TypeFor[C15FbTie](), reflect.TypeFor[C15FbTwoInOne](), reflect.TypeFor[C15FbPtr](),
	reflect.TypeFor[C15EmbedMeth](), reflect.TypeFor[C15EmbedNonStruct](), reflect.TypeFor[C15EmbedNonStructNamed](), reflect.TypeFor[C15EmbedUnexpNonStruct](),
	reflect.TypeFor[C15Conflict](), reflect.TypeFor[C15ConflictDeep](), reflect.TypeFor[C15UnexpTagged](),
	reflect.TypeFor[C15NoExported](), reflect.TypeFor[C15NoExportedTagged](), reflect.TypeFor[C15EmbedNoExported](),
	reflect.TypeFor[C15EmbedOpts](), reflect.TypeFor[C15EmbedNamedOpt](), reflect.TypeFor[C15BadMapKey](), reflect.TypeFor[C15EmbedBadType](),
	reflect.TypeFor[C15Empty](), reflect.TypeFor[C15EmbedEmpty](), reflect.TypeFor[C15Case](),
}
