package main

// C10, continued: the v1 / legacy arm of quoted numbers (jsonflags.StringifyWithLegacySemantics): v1 `,string`
// fields, v1 map keys, v1 top-level and bare values, and v2 Unmarshal with
// StringifyNumbers(true)+StringifyWithLegacySemantics(true) — destination widths 32 and 64.
// The routes are appended to c10FloatRoutes, so every float-parse literal of c10.go (random, halfway, integer
// midpoints with decimal tails, ±MaxFloat32, subnormal boundaries) reaches them and is compared with the single
// exact rounding (math/big.Rat) at the width of the DESTINATION; c10CheckLegacyQuoted adds arbitrary quoted
// contents (Go float syntax that is not JSON, `null`, garbage) against strconv.ParseFloat(content, bits) and the
// Lean model of the arm (`num floatlegacy`).

import (
	"bytes"
	"fmt"
	"math"
	"strconv"
	"strings"

	json "github.com/go-json-experiment/json"
	jsonv1 "github.com/go-json-experiment/json/v1"
)

var c10LegacyOpts = []json.Options{json.StringifyNumbers(true), jsonv1.StringifyWithLegacySemantics(true)}

func init() {
	c10FloatRoutes = append(c10FloatRoutes,
		c10FloatRoute{"float32/legacy-stringify(v2 options)", true, func(lit string) (uint64, []byte, error) {
			var f float32
			in := []byte(`"` + lit + `"`)
			err := json.Unmarshal(in, &f, c10LegacyOpts...)
			return c10b32(f), in, err
		}},
		c10FloatRoute{"float64/legacy-stringify(v2 options)", false, func(lit string) (uint64, []byte, error) {
			var f float64
			in := []byte(`"` + lit + `"`)
			err := json.Unmarshal(in, &f, c10LegacyOpts...)
			return c10b64(f), in, err
		}},
		c10FloatRoute{"v1/float32,string-field", true, func(lit string) (uint64, []byte, error) {
			var v struct {
				V float32 `json:",string"`
			}
			in := []byte(`{"V":"` + lit + `"}`)
			err := jsonv1.Unmarshal(in, &v)
			return c10b32(v.V), in, err
		}},
		c10FloatRoute{"v1/float64,string-field", false, func(lit string) (uint64, []byte, error) {
			var v struct {
				V float64 `json:",string"`
			}
			in := []byte(`{"V":"` + lit + `"}`)
			err := jsonv1.Unmarshal(in, &v)
			return c10b64(v.V), in, err
		}},
		c10FloatRoute{"v1/named-float32,string-field", true, func(lit string) (uint64, []byte, error) {
			var v struct {
				V c10F32 `json:",string"`
			}
			in := []byte(`{"V":"` + lit + `"}`)
			err := jsonv1.Unmarshal(in, &v)
			return c10b32(float32(v.V)), in, err
		}},
		c10FloatRoute{"v1/map[float32]int-key", true, func(lit string) (uint64, []byte, error) {
			var v map[float32]int
			in := []byte(`{"` + lit + `":0}`)
			if err := jsonv1.Unmarshal(in, &v); err != nil || len(v) != 1 {
				return 0, in, c10or(err)
			}
			for k := range v {
				return c10b32(k), in, nil
			}
			return 0, in, errC10Shape
		}},
		c10FloatRoute{"v1/map[float64]int-key", false, func(lit string) (uint64, []byte, error) {
			var v map[float64]int
			in := []byte(`{"` + lit + `":0}`)
			if err := jsonv1.Unmarshal(in, &v); err != nil || len(v) != 1 {
				return 0, in, c10or(err)
			}
			for k := range v {
				return c10b64(k), in, nil
			}
			return 0, in, errC10Shape
		}},
		c10FloatRoute{"v1/float32", true, func(lit string) (uint64, []byte, error) {
			var f float32
			in := []byte(lit)
			err := jsonv1.Unmarshal(in, &f)
			return c10b32(f), in, err
		}},
		c10FloatRoute{"v1/float32-field", true, func(lit string) (uint64, []byte, error) {
			var v struct{ V float32 }
			in := []byte(`{"V":` + lit + `}`)
			err := jsonv1.Unmarshal(in, &v)
			return c10b32(v.V), in, err
		}},
		c10FloatRoute{"v1/Decoder/float32,string-field", true, func(lit string) (uint64, []byte, error) {
			var v struct {
				V float32 `json:",string"`
			}
			in := []byte(`{"V":"` + lit + `"}`)
			err := jsonv1.NewDecoder(bytes.NewReader(in)).Decode(&v)
			return c10b32(v.V), in, err
		}},
	)
}

// c10CheckLegacyQuoted: arbitrary quoted content through the legacy arm, widths 32 and 64, two entry points.
// Reference: strconv.ParseFloat(content, bits) — the documented behaviour of the arm ("parsed according to the Go
// syntax"; a quoted null is permitted) — and, for JSON numbers, null and contents neither syntax accepts, the model.
func c10CheckLegacyQuoted(c *Ctx, b *c10Batch, content string) {
	isJSON := c10NumLit.MatchString(content)
	for _, bits := range []int{32, 64} {
		ref, rerr := strconv.ParseFloat(content, bits)
		var want string
		switch {
		case rerr == nil:
			if bits == 32 {
				want = fmt.Sprintf("set %d", math.Float32bits(float32(ref)))
			} else {
				want = fmt.Sprintf("set %d", math.Float64bits(ref))
			}
		case content == "null":
			want = "null"
		default:
			want = "E " + c10ErrClass(rerr)
		}
		type entry struct {
			name string
			run  func() (uint64, error)
		}
		var f32 float32
		var f64 float64
		quoted := []byte(c10Quote(content))
		field := []byte(`{"V":` + c10Quote(content) + `}`)
		var s32 struct {
			V float32 `json:",string"`
		}
		var s64 struct {
			V float64 `json:",string"`
		}
		var entries []entry
		if bits == 32 {
			entries = []entry{
				{"v2+legacy options", func() (uint64, error) { f32 = 7; err := json.Unmarshal(quoted, &f32, c10LegacyOpts...); return c10b32(f32), err }},
				{"v1 ,string field", func() (uint64, error) { s32.V = 7; err := jsonv1.Unmarshal(field, &s32); return c10b32(s32.V), err }},
			}
		} else {
			entries = []entry{
				{"v2+legacy options", func() (uint64, error) { f64 = 7; err := json.Unmarshal(quoted, &f64, c10LegacyOpts...); return c10b64(f64), err }},
				{"v1 ,string field", func() (uint64, error) { s64.V = 7; err := jsonv1.Unmarshal(field, &s64); return c10b64(s64.V), err }},
			}
		}
		for _, e := range entries {
			var got uint64
			var err error
			op := fmt.Sprintf("legacy-quoted/float%d/%s", bits, e.name)
			if p := guard(func() { got, err = e.run() }); p != nil {
				c.Panic(op, []byte(content), p, nil)
				continue
			}
			c.Case(op+" "+content, true)
			c.Hit("floatparse/legacy-quoted")
			var res string
			switch {
			case err != nil && strings.HasPrefix(e.name, "v1"):
				res = "E" // v1 rewrites the error; only its presence is compared
			case err != nil:
				res = "E " + c10ErrClass(err)
			case content == "null" && got == 0:
				res = "null" // zero stored
			case content == "null" && strings.HasPrefix(e.name, "v1") && (got == c10b32(7) || got == c10b64(7)):
				res = "null" // v1 merges: a quoted null leaves the destination as it was (MergeWithLegacySemantics)
			default:
				res = fmt.Sprintf("set %d", got)
			}
			w := want
			if strings.HasPrefix(e.name, "v1") && strings.HasPrefix(w, "E") {
				w = "E"
			}
			if res != w {
				c.Violate("legacy-quoted-float", op, []byte(content), map[string]any{"content": content, "got": res, "want(strconv at destination width)": w})
			}
			if isJSON || content == "null" || (rerr != nil && c10ErrClass(rerr) == "syntax") {
				if !strings.HasPrefix(e.name, "v1") {
					b.add(fmt.Sprintf("num floatlegacy %d %s", bits, hx([]byte(content))), func(ans string) {
						if ans != res {
							c.Violate("corr-floatlegacy", op, []byte(content), map[string]any{"content": content, "impl": res, "model": ans})
						}
					})
				}
			}
		}
	}
}

func c10LegacyFloats(c *Ctx, b *c10Batch) {
	r := c.Rng
	for _, s := range []string{"null", "", " 1", "1 ", "+1", "+1.5e3", ".5", "1.", "-.5e1", "0x1p-2", "0X1.8P1", "inf", "-Inf", "+infinity", "Infinity", "nan", "NaN", "1_0", "0x_1p0",
		"01", "-01", "1e", "e1", "abc", "true", "--1", "1e+", "1,0", "１", "1e39", "-1e39", "3.402823567797337e38", "3.4028235677973366e38", "3.4028235677973365e38", "1e300", "-1e300", "1e400",
		"0x1p128", "0x1.fffffep127", "0x1.ffffffp127", "0x1.fffffefffffffp127", "9000000000.0000001", "9000000511.9999999", "16777217.000000000000000000001", "16777216.999999999999999999",
		"1e-45", "7e-46", "7.1e-46", "0x1p-150", "0x1.000001p-150", "1.1754943e-38", "1.17549421e-38", "0", "-0", "-0.0", "1", "0.1", "1e-400"} {
		c10CheckLegacyQuoted(c, b, s)
	}
	// Go-syntax decorations of float32 midpoints: a leading '+', a missing integer part, a hexadecimal spelling
	for i := 0; i < c.N(400, 20000); i++ {
		e32 := uint32(r.IntN(254) + 1)
		g := math.Float32frombits(e32<<23 | r.Uint32()&(1<<23-1))
		up := math.Nextafter32(g, float32(math.Inf(1)))
		if math.IsInf(float64(up), 0) {
			continue
		}
		m := (float64(g) + float64(up)) / 2 // exact in float64
		hexm := strconv.FormatFloat(m, 'x', -1, 64)
		c10CheckLegacyQuoted(c, b, "+"+hexm)
		// one float64 ulp either side of the float32 midpoint, as 30-digit decimals (longer than float64 can hold)
		for _, y := range []float64{m, math.Nextafter(m, math.Inf(1)), math.Nextafter(m, 0)} {
			s := strconv.FormatFloat(y, 'e', 40, 64)
			c10CheckLegacyQuoted(c, b, s)
			c10CheckLegacyQuoted(c, b, "+"+s)
		}
	}
}
