package main

// gen_types.go — shared generators and canonicalisers for the arshal (L3) slices.
//
// It fixes, on the Go side, the three wire encodings of the oracle's `arsh` family
// (lean/JsonV/Spec/Tree.lean `TreeWire`, lean/JsonV/Model/GoVal.lean `GoWire`):
//
//	types   b | i8 i16 i32 i64 | u8 u16 u32 u64 | f | s | L t | R<n> t | M t | P t | T<k> (name-hex t)×k | a
//	values  b0 b1 | i<dec> | u<dec> | F<hex literal> | s<hex> | Ln | L<k> v×k | R<k> v×k | Mn |
//	        M<k> (key-hex v)×k  (sorted by key bytes) | Pn | P v | T<k> (name-hex v)×k | In | I v
//	trees   n | t | f | N<hex literal> | S<hex bytes> | A<k> tree×k | O<k> (name-hex tree)×k
//
// Byte strings are lowercase hex, the empty byte string is "-" (hx/unhx of ctx.go).
//
// API (everything deterministic in the *rand.Rand that is passed in):
//
//	TypeDesc, FieldDesc                   description of a Go type of the modelled universe
//	tdBool … tdAny, tdInt/tdUint(bits),   constructors
//	  tdSlice, tdArray, tdMap, tdPtr, tdStruct(fld(name,t)…)
//	(*TypeDesc).GoType()  reflect.Type    the real Go type (structs via reflect.StructOf, fields F0,F1,… tagged `json:"<name>"`)
//	(*TypeDesc).Wire()    string          oracle type tokens
//	(*TypeDesc).Size()    int             number of nodes
//	GenType(r, depth)     *TypeDesc       random type, nesting ≤ min(depth,4), ≤ 40 nodes, never []uint8 / [n]uint8
//	ValueWire(v, t)       string          canonical value tokens of a Go value of type t
//	ValueEqualsWire(v, t, wire)           structural comparison of a Go value with oracle value tokens
//	ParseJSONTree(text)   (*JNode, error) ordered tree (raw number literals, unescaped strings) via jsontext.Decoder + AllowDuplicateNames
//	(*JNode).Wire(), (*JNode).Render(), (*JNode).DupFree()
//	ParseTreeWire(tokens) (*JNode, error) inverse of (*JNode).Wire
//	TreeOfJSON(text)      (string, error) = ParseJSONTree + Wire
//	JSONOfTree(tokens)    []byte          = ParseTreeWire + Render
//	MergeJSON(a, b)       []byte          independent Go implementation of the C14 merge on JSON texts (MergeNodes on trees)
//	GenJSONFor(r, t, depth) []byte        mostly-fitting JSON text for type t (nulls, wrong kinds, unknown/duplicate members, boundary ints …)
//	GenJSONAny(r, depth)  []byte          arbitrary JSON value
//	JSONQuote(s)          []byte          plain JSON string literal of s (minimal escaping)
//	DeepEqualValues(a,b)  bool            reflect-level equality: nil≠empty, pointers by content, floats by bits, exact dynamic types
//	DeepCopyValue(v)      reflect.Value   independent deep copy (no sharing of maps, slices, pointers)
//	GenValueFor(r, t, depth) reflect.Value random ADDRESSABLE value of t.GoType() built by reflection (never through JSON): nil AND
//	                                      empty non-nil slices/maps, spare capacity, **T → nil *T, *any → nil interface, `any` holding
//	                                      typed-nil / empty / nested (≤ min(depth,3)) containers, integers at the boundaries of their
//	                                      width, finite floats of every magnitude, strings needing escapes, ~2% invalid UTF-8 strings
//	                                      and ~1% invalid UTF-8 map keys (Marshal must fail on those)
//	GenInvalidUTF8(r)     string          a string that is NOT valid UTF-8
//
// ValueWire prints a float64 with the library's own JSON formatting (jsonwire.AppendFloat), so that the
// model's literal of a float equals byte for byte what json.Marshal writes (C04L3 compares trees textually).

import (
	"bytes"
	"encoding/base32"
	"encoding/base64"
	"encoding/hex"
	"errors"
	"fmt"
	"io"
	"math"
	"math/big"
	"math/rand/v2"
	"reflect"
	"sort"
	"strconv"
	"strings"
	"sync"
	"unicode/utf8"

	"github.com/go-json-experiment/json/internal/jsonwire"
	"github.com/go-json-experiment/json/jsontext"
)

// ---------------------------------------------------------------------------------------------
// Type descriptions

type TypeKind uint8

const (
	TKBool TypeKind = iota
	TKInt
	TKUint
	TKFloat
	TKString
	TKSlice
	TKArray
	TKMap // map[string]Elem
	TKPtr
	TKStruct
	TKAny // interface{}
)

var typeKindNames = [...]string{"bool", "int", "uint", "float", "string", "slice", "array", "map", "ptr", "struct", "any"}

func (k TypeKind) String() string { return typeKindNames[k] }

// GTByte is a named byte type: []GTByte / [N]GTByte are NOT treated as byte strings by the v2
// defaults (arshal_default.go:325-340), they behave as ordinary slices/arrays of numbers.
type GTByte byte

var rtGTByte = reflect.TypeOf(GTByte(0))

// IsBytes reports whether t is a slice or array with element kind uint8 (the bytes arshaler).
func (t *TypeDesc) IsBytes() bool {
	return (t.Kind == TKSlice || t.Kind == TKArray) && t.Elem.Kind == TKUint && t.Elem.Bits == 8
}

// BytesAsString reports whether a value of the bytes type t is represented as a JSON string
// (base64/base32/base16) under the given setting of FormatByteArrayAsArray, and with which format
// ("base64" when no tag).  Named element types and format:array give the array representation.
func (t *TypeDesc) BytesAsString(byteArrayAsArray bool) (string, bool) {
	if !t.IsBytes() || t.Elem.Named || t.Format == "array" {
		return "", false
	}
	if t.Format != "" {
		return t.Format, true
	}
	if byteArrayAsArray && t.Kind == TKArray {
		return "", false
	}
	return "base64", true
}

// InModel reports whether the type belongs to the universe of the Lean model (GoVal.lean): no
// slice/array of a uint8-kind element, no format tags.
func (t *TypeDesc) InModel() bool {
	if t.IsBytes() || t.Format != "" || t.Named {
		return false
	}
	if t.Elem != nil && !t.Elem.InModel() {
		return false
	}
	for _, f := range t.Fields {
		if !f.Type.InModel() {
			return false
		}
	}
	return true
}

// HasFormat reports whether some struct field carries a format tag (needs ExperimentalSupportFormatTag).
func (t *TypeDesc) HasFormat() bool {
	if t.Format != "" {
		return true
	}
	if t.Elem != nil && t.Elem.HasFormat() {
		return true
	}
	for _, f := range t.Fields {
		if f.Type.HasFormat() {
			return true
		}
	}
	return false
}

// FieldDesc is one struct field: its JSON name (plain tag, no options) and type.
type FieldDesc struct {
	Name string
	Type *TypeDesc
}

// TypeDesc is a tree describing a Go type of the modelled universe (GoVal.lean `GoType`).
type TypeDesc struct {
	Kind   TypeKind
	Bits   int         // TKInt/TKUint: 8,16,32,64
	N      int         // TKArray: length
	Elem   *TypeDesc   // TKSlice, TKArray, TKMap, TKPtr
	Fields []FieldDesc // TKStruct
	// Outside the Lean model (only produced by GenTypeEx with Bytes set; see InModel):
	Named  bool   // TKUint/8: the named element type GTByte instead of uint8
	Format string // on a []byte / [N]byte node that is a struct field: the `format:` tag option ("" = none)

	once   sync.Once
	goType reflect.Type
	wire   string
}

var (
	tdBool   = &TypeDesc{Kind: TKBool}
	tdFloat  = &TypeDesc{Kind: TKFloat}
	tdString = &TypeDesc{Kind: TKString}
	tdAny    = &TypeDesc{Kind: TKAny}
	// dynamic types that untyped decoding stores in an interface
	tdSliceAny = &TypeDesc{Kind: TKSlice, Elem: tdAny}
	tdMapAny   = &TypeDesc{Kind: TKMap, Elem: tdAny}
)

func tdInt(bits int) *TypeDesc               { return &TypeDesc{Kind: TKInt, Bits: bits} }
func tdUint(bits int) *TypeDesc              { return &TypeDesc{Kind: TKUint, Bits: bits} }
func tdSlice(e *TypeDesc) *TypeDesc          { return &TypeDesc{Kind: TKSlice, Elem: e} }
func tdArray(n int, e *TypeDesc) *TypeDesc   { return &TypeDesc{Kind: TKArray, N: n, Elem: e} }
func tdMap(e *TypeDesc) *TypeDesc            { return &TypeDesc{Kind: TKMap, Elem: e} }
func tdPtr(e *TypeDesc) *TypeDesc            { return &TypeDesc{Kind: TKPtr, Elem: e} }
func tdStruct(fs ...FieldDesc) *TypeDesc     { return &TypeDesc{Kind: TKStruct, Fields: fs} }
func fld(name string, t *TypeDesc) FieldDesc { return FieldDesc{Name: name, Type: t} }

var (
	rtAny      = reflect.TypeOf((*any)(nil)).Elem()
	rtBool     = reflect.TypeOf(false)
	rtFloat64  = reflect.TypeOf(float64(0))
	rtString   = reflect.TypeOf("")
	rtSliceAny = reflect.TypeOf([]any(nil))
	rtMapAny   = reflect.TypeOf(map[string]any(nil))
	rtInts     = map[int]reflect.Type{8: reflect.TypeOf(int8(0)), 16: reflect.TypeOf(int16(0)), 32: reflect.TypeOf(int32(0)), 64: reflect.TypeOf(int64(0))}
	rtUints    = map[int]reflect.Type{8: reflect.TypeOf(uint8(0)), 16: reflect.TypeOf(uint16(0)), 32: reflect.TypeOf(uint32(0)), 64: reflect.TypeOf(uint64(0))}
)

// GoType returns the real Go type.  Structs are built with reflect.StructOf: exported fields
// F0, F1, … each tagged `json:"<name>"`.  Safe for concurrent use.
func (t *TypeDesc) GoType() reflect.Type {
	t.once.Do(t.build)
	return t.goType
}

func (t *TypeDesc) build() {
	switch t.Kind {
	case TKBool:
		t.goType = rtBool
	case TKInt:
		t.goType = rtInts[t.Bits]
	case TKUint:
		t.goType = rtUints[t.Bits]
		if t.Named {
			t.goType = rtGTByte
		}
	case TKFloat:
		t.goType = rtFloat64
	case TKString:
		t.goType = rtString
	case TKSlice:
		t.goType = reflect.SliceOf(t.Elem.GoType())
	case TKArray:
		t.goType = reflect.ArrayOf(t.N, t.Elem.GoType())
	case TKMap:
		t.goType = reflect.MapOf(rtString, t.Elem.GoType())
	case TKPtr:
		t.goType = reflect.PointerTo(t.Elem.GoType())
	case TKStruct:
		sf := make([]reflect.StructField, len(t.Fields))
		for i, f := range t.Fields {
			tag := `json:"` + f.Name + `"`
			if f.Type.Format != "" {
				tag = `json:"` + f.Name + `,format:` + f.Type.Format + `"`
			}
			sf[i] = reflect.StructField{Name: "F" + strconv.Itoa(i), Type: f.Type.GoType(), Tag: reflect.StructTag(tag)}
		}
		t.goType = reflect.StructOf(sf)
	case TKAny:
		t.goType = rtAny
	}
	if t.goType == nil {
		fail("TypeDesc.GoType: bad descriptor %+v", t)
	}
	var sb strings.Builder
	t.writeWire(&sb)
	t.wire = sb.String()
}

// Wire returns the oracle's type-descriptor tokens.
func (t *TypeDesc) Wire() string {
	t.once.Do(t.build)
	return t.wire
}

func (t *TypeDesc) writeWire(sb *strings.Builder) {
	if sb.Len() > 0 {
		sb.WriteByte(' ')
	}
	switch t.Kind {
	case TKBool:
		sb.WriteString("b")
	case TKInt:
		sb.WriteString("i" + strconv.Itoa(t.Bits))
	case TKUint:
		sb.WriteString("u" + strconv.Itoa(t.Bits))
		if t.Named {
			sb.WriteString("n") // outside the model, never sent to the oracle
		}
	case TKFloat:
		sb.WriteString("f")
	case TKString:
		sb.WriteString("s")
	case TKAny:
		sb.WriteString("a")
	case TKSlice:
		sb.WriteString("L")
		if t.Format != "" {
			sb.WriteString(":" + t.Format)
		}
		t.Elem.writeWire(sb)
	case TKArray:
		sb.WriteString("R" + strconv.Itoa(t.N))
		if t.Format != "" {
			sb.WriteString(":" + t.Format)
		}
		t.Elem.writeWire(sb)
	case TKMap:
		sb.WriteString("M")
		t.Elem.writeWire(sb)
	case TKPtr:
		sb.WriteString("P")
		t.Elem.writeWire(sb)
	case TKStruct:
		sb.WriteString("T" + strconv.Itoa(len(t.Fields)))
		for _, f := range t.Fields {
			sb.WriteByte(' ')
			sb.WriteString(hx([]byte(f.Name)))
			f.Type.writeWire(sb)
		}
	}
}

// Size is the number of nodes of the type tree.
func (t *TypeDesc) Size() int {
	n := 1
	if t.Elem != nil {
		n += t.Elem.Size()
	}
	for _, f := range t.Fields {
		n += f.Type.Size()
	}
	return n
}

// FieldIndex returns the index of the field with JSON name n, or -1.
func (t *TypeDesc) FieldIndex(n string) int {
	for i, f := range t.Fields {
		if f.Name == n {
			return i
		}
	}
	return -1
}

// gtFieldNames is the pool of struct field JSON names ([a-z0-9_]{1,3}); small so that the
// members of two texts for the same struct collide often.  It overlaps gtKeyPool.
var gtFieldNames = []string{"a", "b", "c", "d", "x", "k1", "id", "_", "0", "a_1", "zz9", "n"}

// gtKeyPool is the pool of member names used for maps and for objects inside `any`:
// plain, empty, non-ASCII, and one that needs escapes.
var gtKeyPool = []string{"a", "b", "c", "", "k1", "é✓", "q\"\\\n"}

// GenType draws a random type: nesting ≤ min(depth,4), at most 40 nodes, never a slice or array
// of uint8 (the bytes arshaler is outside the model), struct field names distinct and drawn from
// gtFieldNames, 0..4 fields, array lengths 0..3, biased toward containers, `any` and pointers.
func GenType(r *rand.Rand, depth int) *TypeDesc {
	if depth > 4 {
		depth = 4
	}
	budget := 40
	return genType(r, depth, &budget, false)
}

// gtByteFormats are the `format:` options the bytes arshaler accepts.
var gtByteFormats = []string{"base64", "base64url", "base32", "base32hex", "base16", "hex", "array"}

// GenTypeEx is GenType over a wider universe when withBytes is set: also []byte, [N]byte (N = 0..5),
// []GTByte, [N]GTByte at every position, and — on struct fields of those types — the format tags of
// gtByteFormats.  Such types are outside the Lean model (TypeDesc.InModel() == false): callers must
// not send them to the oracle, and must pass json.ExperimentalSupportFormatTag(true) when HasFormat().
func GenTypeEx(r *rand.Rand, depth int, withBytes bool) *TypeDesc {
	if depth > 4 {
		depth = 4
	}
	budget := 40
	return genType(r, depth, &budget, withBytes)
}

func genBytesType(r *rand.Rand) *TypeDesc {
	e := tdUint(8)
	if r.IntN(5) == 0 {
		e.Named = true
	}
	if r.IntN(3) == 0 {
		return tdSlice(e)
	}
	return tdArray(r.IntN(6), e)
}

func genScalarType(r *rand.Rand) *TypeDesc {
	widths := [...]int{8, 16, 32, 64}
	switch x := r.IntN(100); {
	case x < 10:
		return tdBool
	case x < 45:
		return tdInt(widths[r.IntN(4)])
	case x < 65:
		return tdUint(widths[r.IntN(4)])
	case x < 80:
		return tdFloat
	default:
		return tdString
	}
}

func genType(r *rand.Rand, depth int, budget *int, withBytes bool) *TypeDesc {
	*budget--
	if depth <= 0 || *budget <= 0 {
		if withBytes && r.IntN(100) < 25 {
			return genBytesType(r)
		}
		if r.IntN(100) < 30 {
			return tdAny
		}
		return genScalarType(r)
	}
	elem := func() *TypeDesc {
		e := genType(r, depth-1, budget, withBytes)
		if e.Kind == TKUint && e.Bits == 8 && !withBytes {
			e = tdUint(16) // []uint8 / [n]uint8 are the bytes arshaler
		}
		return e
	}
	if withBytes && r.IntN(100) < 22 {
		return genBytesType(r)
	}
	switch x := r.IntN(100); {
	case x < 20:
		return genScalarType(r)
	case x < 34:
		return tdAny
	case x < 48:
		return tdSlice(elem())
	case x < 57:
		n := r.IntN(4)
		return tdArray(n, elem())
	case x < 71:
		return tdMap(genType(r, depth-1, budget, withBytes))
	case x < 80:
		return tdPtr(genType(r, depth-1, budget, withBytes))
	default:
		nf := r.IntN(5)
		perm := r.Perm(len(gtFieldNames))
		var fs []FieldDesc
		for i := 0; i < nf && *budget > 0; i++ {
			ft := genType(r, depth-1, budget, withBytes)
			if withBytes && ft.IsBytes() && !ft.Elem.Named && r.IntN(2) == 0 {
				ft.Format = gtByteFormats[r.IntN(len(gtByteFormats))]
			}
			fs = append(fs, FieldDesc{Name: gtFieldNames[perm[i]], Type: ft})
		}
		return tdStruct(fs...)
	}
}

// ---------------------------------------------------------------------------------------------
// Values → wire tokens

// dynTypeDesc maps the dynamic type of a value stored in an `any` to its descriptor
// (nil: outside the modelled universe).
func dynTypeDesc(rt reflect.Type) *TypeDesc {
	switch rt {
	case rtBool:
		return tdBool
	case rtFloat64:
		return tdFloat
	case rtString:
		return tdString
	case rtSliceAny:
		return tdSliceAny
	case rtMapAny:
		return tdMapAny
	}
	return nil
}

// ValueWire renders the Go value v (of type t.GoType()) in the oracle's value tokens.
// Map entries are sorted by key bytes; float64 is printed as the hex of the literal that the library
// itself writes (jsonwire.AppendFloat(nil, x, 64): shortest digits, 'e' form below 1e-6 and from 1e21);
// a dynamic type outside the model inside an `any` is printed as `?<type>`
// (which the oracle rejects).
func ValueWire(v reflect.Value, t *TypeDesc) string {
	var sb strings.Builder
	writeValueWire(&sb, v, t)
	return sb.String()
}

func writeValueWire(sb *strings.Builder, v reflect.Value, t *TypeDesc) {
	tok := func(s string) {
		if sb.Len() > 0 {
			sb.WriteByte(' ')
		}
		sb.WriteString(s)
	}
	switch t.Kind {
	case TKBool:
		if v.Bool() {
			tok("b1")
		} else {
			tok("b0")
		}
	case TKInt:
		tok("i" + strconv.FormatInt(v.Int(), 10))
	case TKUint:
		tok("u" + strconv.FormatUint(v.Uint(), 10))
	case TKFloat:
		tok("F" + hx(jsonwire.AppendFloat(nil, v.Float(), 64)))
	case TKString:
		tok("s" + hx([]byte(v.String())))
	case TKSlice:
		if v.IsNil() {
			tok("Ln")
			return
		}
		tok("L" + strconv.Itoa(v.Len()))
		for i := 0; i < v.Len(); i++ {
			writeValueWire(sb, v.Index(i), t.Elem)
		}
	case TKArray:
		tok("R" + strconv.Itoa(v.Len()))
		for i := 0; i < v.Len(); i++ {
			writeValueWire(sb, v.Index(i), t.Elem)
		}
	case TKMap:
		if v.IsNil() {
			tok("Mn")
			return
		}
		keys := make([]string, 0, v.Len())
		for _, k := range v.MapKeys() {
			keys = append(keys, k.String())
		}
		sort.Strings(keys)
		tok("M" + strconv.Itoa(len(keys)))
		for _, k := range keys {
			tok(hx([]byte(k)))
			writeValueWire(sb, v.MapIndex(reflect.ValueOf(k)), t.Elem)
		}
	case TKPtr:
		if v.IsNil() {
			tok("Pn")
			return
		}
		tok("P")
		writeValueWire(sb, v.Elem(), t.Elem)
	case TKStruct:
		tok("T" + strconv.Itoa(len(t.Fields)))
		for i, f := range t.Fields {
			tok(hx([]byte(f.Name)))
			writeValueWire(sb, v.Field(i), f.Type)
		}
	case TKAny:
		if v.Kind() != reflect.Interface {
			fail("ValueWire: value of kind %v for an `any` slot", v.Kind())
		}
		if v.IsNil() {
			tok("In")
			return
		}
		e := v.Elem()
		dt := dynTypeDesc(e.Type())
		if dt == nil {
			tok("I")
			tok("?" + strings.ReplaceAll(e.Type().String(), " ", ""))
			return
		}
		tok("I")
		writeValueWire(sb, e, dt)
	}
}

// ---------------------------------------------------------------------------------------------
// Wire tokens → comparison with a Go value

// wval is a parsed value of the oracle's value encoding.
type wval struct {
	tag   byte // 'b','i','u','F','s','L','R','M','P','T','I'
	isNil bool
	b     bool
	num   string   // decimal text for 'i','u'
	bytes []byte   // literal for 'F', content for 's'
	elems []*wval  // L,R elements; M,T values; P,I single pointee
	names []string // M keys / T field names
}

func parseWVal(toks []string, pos *int) (*wval, error) {
	if *pos >= len(toks) {
		return nil, errors.New("value tokens end early")
	}
	tok := toks[*pos]
	*pos++
	if tok == "" {
		return nil, errors.New("empty token")
	}
	w := &wval{tag: tok[0]}
	rest := tok[1:]
	count := func() (int, error) {
		n, err := strconv.Atoi(rest)
		if err != nil || n < 0 {
			return 0, fmt.Errorf("bad count in token %q", tok)
		}
		return n, nil
	}
	unhex := func(s string) ([]byte, error) {
		if s == "-" {
			return []byte{}, nil
		}
		if len(s)%2 != 0 || s == "" {
			return nil, fmt.Errorf("bad hex in token %q", tok)
		}
		out := make([]byte, len(s)/2)
		for i := 0; i < len(out); i++ {
			x, err := strconv.ParseUint(s[2*i:2*i+2], 16, 8)
			if err != nil || strings.ToLower(s[2*i:2*i+2]) != s[2*i:2*i+2] {
				return nil, fmt.Errorf("bad hex in token %q", tok)
			}
			out[i] = byte(x)
		}
		return out, nil
	}
	var err error
	switch w.tag {
	case 'b':
		if rest != "0" && rest != "1" {
			return nil, fmt.Errorf("bad token %q", tok)
		}
		w.b = rest == "1"
	case 'i', 'u':
		w.num = rest
	case 'F', 's':
		if w.bytes, err = unhex(rest); err != nil {
			return nil, err
		}
	case 'L', 'R':
		if rest == "n" && w.tag == 'L' {
			w.isNil = true
			return w, nil
		}
		n, err := count()
		if err != nil {
			return nil, err
		}
		for i := 0; i < n; i++ {
			e, err := parseWVal(toks, pos)
			if err != nil {
				return nil, err
			}
			w.elems = append(w.elems, e)
		}
	case 'M', 'T':
		if rest == "n" && w.tag == 'M' {
			w.isNil = true
			return w, nil
		}
		n, err := count()
		if err != nil {
			return nil, err
		}
		for i := 0; i < n; i++ {
			if *pos >= len(toks) {
				return nil, errors.New("value tokens end early")
			}
			name, err := unhex(toks[*pos])
			if err != nil {
				return nil, err
			}
			*pos++
			e, err := parseWVal(toks, pos)
			if err != nil {
				return nil, err
			}
			w.names = append(w.names, string(name))
			w.elems = append(w.elems, e)
		}
	case 'P', 'I':
		if rest == "n" {
			w.isNil = true
			return w, nil
		}
		if rest != "" {
			return nil, fmt.Errorf("bad token %q", tok)
		}
		e, err := parseWVal(toks, pos)
		if err != nil {
			return nil, err
		}
		w.elems = []*wval{e}
	default:
		return nil, fmt.Errorf("bad token %q", tok)
	}
	return w, nil
}

// ValueEqualsWire parses the oracle's value tokens and compares them structurally with the Go
// value v of type t: floats by strconv.ParseFloat(literal) bits, maps as sets of entries, nil and
// empty slices/maps distinguished, pointers by content, interface values by exact dynamic type.
// It returns (true, "") or (false, description of the first mismatch).
func ValueEqualsWire(v reflect.Value, t *TypeDesc, wire string) (bool, string) {
	toks := strings.Fields(wire)
	pos := 0
	w, err := parseWVal(toks, &pos)
	if err != nil {
		return false, "unparsable oracle value: " + err.Error()
	}
	if pos != len(toks) {
		return false, "trailing tokens in oracle value"
	}
	if d := cmpWVal(v, t, w, "$"); d != "" {
		return false, d
	}
	return true, ""
}

func cmpWVal(v reflect.Value, t *TypeDesc, w *wval, path string) string {
	want := map[TypeKind]byte{TKBool: 'b', TKInt: 'i', TKUint: 'u', TKFloat: 'F', TKString: 's', TKSlice: 'L',
		TKArray: 'R', TKMap: 'M', TKPtr: 'P', TKStruct: 'T', TKAny: 'I'}[t.Kind]
	if w.tag != want {
		return fmt.Sprintf("%s: Go %s value, oracle value of class %q", path, t.Kind, string(w.tag))
	}
	switch t.Kind {
	case TKBool:
		if v.Bool() != w.b {
			return fmt.Sprintf("%s: bool %v vs %v", path, v.Bool(), w.b)
		}
	case TKInt:
		n, err := strconv.ParseInt(w.num, 10, 64)
		if err != nil || n != v.Int() {
			return fmt.Sprintf("%s: int %d vs %s", path, v.Int(), w.num)
		}
	case TKUint:
		n, err := strconv.ParseUint(w.num, 10, 64)
		if err != nil || n != v.Uint() {
			return fmt.Sprintf("%s: uint %d vs %s", path, v.Uint(), w.num)
		}
	case TKFloat:
		f, err := strconv.ParseFloat(string(w.bytes), 64)
		if err != nil {
			return fmt.Sprintf("%s: oracle float literal %q does not parse: %v", path, w.bytes, err)
		}
		if math.Float64bits(f) != math.Float64bits(v.Float()) {
			return fmt.Sprintf("%s: float %v (bits %x) vs literal %q (bits %x)", path, v.Float(), math.Float64bits(v.Float()), w.bytes, math.Float64bits(f))
		}
	case TKString:
		if v.String() != string(w.bytes) {
			return fmt.Sprintf("%s: string %q vs %q", path, v.String(), w.bytes)
		}
	case TKSlice:
		if v.IsNil() != w.isNil {
			return fmt.Sprintf("%s: slice nil=%v vs nil=%v", path, v.IsNil(), w.isNil)
		}
		if v.Len() != len(w.elems) {
			return fmt.Sprintf("%s: slice len %d vs %d", path, v.Len(), len(w.elems))
		}
		for i, e := range w.elems {
			if d := cmpWVal(v.Index(i), t.Elem, e, path+"["+strconv.Itoa(i)+"]"); d != "" {
				return d
			}
		}
	case TKArray:
		if v.Len() != len(w.elems) {
			return fmt.Sprintf("%s: array len %d vs %d", path, v.Len(), len(w.elems))
		}
		for i, e := range w.elems {
			if d := cmpWVal(v.Index(i), t.Elem, e, path+"["+strconv.Itoa(i)+"]"); d != "" {
				return d
			}
		}
	case TKMap:
		if v.IsNil() != w.isNil {
			return fmt.Sprintf("%s: map nil=%v vs nil=%v", path, v.IsNil(), w.isNil)
		}
		if v.Len() != len(w.elems) {
			return fmt.Sprintf("%s: map len %d vs %d", path, v.Len(), len(w.elems))
		}
		seen := map[string]bool{}
		for i, e := range w.elems {
			k := w.names[i]
			if seen[k] {
				return fmt.Sprintf("%s: oracle map repeats key %q", path, k)
			}
			seen[k] = true
			mv := v.MapIndex(reflect.ValueOf(k))
			if !mv.IsValid() {
				return fmt.Sprintf("%s: key %q missing in the Go map", path, k)
			}
			if d := cmpWVal(mv, t.Elem, e, path+"["+strconv.Quote(k)+"]"); d != "" {
				return d
			}
		}
	case TKPtr:
		if v.IsNil() != w.isNil {
			return fmt.Sprintf("%s: pointer nil=%v vs nil=%v", path, v.IsNil(), w.isNil)
		}
		if !w.isNil {
			return cmpWVal(v.Elem(), t.Elem, w.elems[0], path+"*")
		}
	case TKStruct:
		if len(w.elems) != len(t.Fields) {
			return fmt.Sprintf("%s: struct with %d fields vs %d", path, len(t.Fields), len(w.elems))
		}
		for i, f := range t.Fields {
			if w.names[i] != f.Name {
				return fmt.Sprintf("%s: field %d named %q vs %q", path, i, f.Name, w.names[i])
			}
			if d := cmpWVal(v.Field(i), f.Type, w.elems[i], path+"."+f.Name); d != "" {
				return d
			}
		}
	case TKAny:
		if v.Kind() != reflect.Interface {
			return fmt.Sprintf("%s: not an interface value", path)
		}
		if v.IsNil() != w.isNil {
			return fmt.Sprintf("%s: interface nil=%v vs nil=%v", path, v.IsNil(), w.isNil)
		}
		if !w.isNil {
			dt := dynTypeDesc(v.Elem().Type())
			if dt == nil {
				return fmt.Sprintf("%s: dynamic type %v outside the model", path, v.Elem().Type())
			}
			return cmpWVal(v.Elem(), dt, w.elems[0], path+".(…)")
		}
	}
	return ""
}

// ---------------------------------------------------------------------------------------------
// reflect-level equality and copy (independent of reflect.DeepEqual)

// DeepEqualValues compares two values of the same type: nil and empty slices/maps differ,
// pointers are compared by content, floats by bit pattern, interfaces by exact dynamic type.
func DeepEqualValues(a, b reflect.Value) bool {
	if a.Type() != b.Type() {
		return false
	}
	switch a.Kind() {
	case reflect.Bool:
		return a.Bool() == b.Bool()
	case reflect.Int, reflect.Int8, reflect.Int16, reflect.Int32, reflect.Int64:
		return a.Int() == b.Int()
	case reflect.Uint, reflect.Uint8, reflect.Uint16, reflect.Uint32, reflect.Uint64:
		return a.Uint() == b.Uint()
	case reflect.Float32, reflect.Float64:
		return math.Float64bits(a.Float()) == math.Float64bits(b.Float())
	case reflect.String:
		return a.String() == b.String()
	case reflect.Slice:
		if a.IsNil() != b.IsNil() || a.Len() != b.Len() {
			return false
		}
		for i := 0; i < a.Len(); i++ {
			if !DeepEqualValues(a.Index(i), b.Index(i)) {
				return false
			}
		}
		return true
	case reflect.Array:
		for i := 0; i < a.Len(); i++ {
			if !DeepEqualValues(a.Index(i), b.Index(i)) {
				return false
			}
		}
		return true
	case reflect.Map:
		if a.IsNil() != b.IsNil() || a.Len() != b.Len() {
			return false
		}
		it := a.MapRange()
		for it.Next() {
			bv := b.MapIndex(it.Key())
			if !bv.IsValid() || !DeepEqualValues(it.Value(), bv) {
				return false
			}
		}
		return true
	case reflect.Pointer:
		if a.IsNil() != b.IsNil() {
			return false
		}
		return a.IsNil() || DeepEqualValues(a.Elem(), b.Elem())
	case reflect.Struct:
		for i := 0; i < a.NumField(); i++ {
			if !DeepEqualValues(a.Field(i), b.Field(i)) {
				return false
			}
		}
		return true
	case reflect.Interface:
		if a.IsNil() != b.IsNil() {
			return false
		}
		return a.IsNil() || DeepEqualValues(a.Elem(), b.Elem())
	}
	fail("DeepEqualValues: unsupported kind %v", a.Kind())
	return false
}

// DeepCopyValue returns an independent, addressable deep copy of v (slices are copied with
// capacity = length; nothing is shared with v).
func DeepCopyValue(v reflect.Value) reflect.Value {
	out := reflect.New(v.Type()).Elem()
	switch v.Kind() {
	case reflect.Slice:
		if !v.IsNil() {
			s := reflect.MakeSlice(v.Type(), v.Len(), v.Len())
			for i := 0; i < v.Len(); i++ {
				s.Index(i).Set(DeepCopyValue(v.Index(i)))
			}
			out.Set(s)
		}
	case reflect.Array:
		for i := 0; i < v.Len(); i++ {
			out.Index(i).Set(DeepCopyValue(v.Index(i)))
		}
	case reflect.Map:
		if !v.IsNil() {
			m := reflect.MakeMapWithSize(v.Type(), v.Len())
			it := v.MapRange()
			for it.Next() {
				m.SetMapIndex(DeepCopyValue(it.Key()), DeepCopyValue(it.Value()))
			}
			out.Set(m)
		}
	case reflect.Pointer:
		if !v.IsNil() {
			p := reflect.New(v.Type().Elem())
			p.Elem().Set(DeepCopyValue(v.Elem()))
			out.Set(p)
		}
	case reflect.Struct:
		for i := 0; i < v.NumField(); i++ {
			out.Field(i).Set(DeepCopyValue(v.Field(i)))
		}
	case reflect.Interface:
		if !v.IsNil() {
			out.Set(DeepCopyValue(v.Elem()))
		}
	default:
		out.Set(v)
	}
	return out
}

// ---------------------------------------------------------------------------------------------
// JSON trees

// JNode is an ordered JSON tree: numbers keep their literal, strings and names are unescaped,
// object members keep their order (and their duplicates).
type JNode struct {
	Kind  byte     // 'n' 't' 'f' '0' (number) '"' (string) '[' '{'
	Lit   string   // number literal, or unescaped string
	Elems []*JNode // array elements, or object member values
	Names []string // object member names (parallel to Elems)
}

// ParseJSONTree reads exactly one JSON value with the library's own tokenizer
// (jsontext.Decoder, AllowDuplicateNames so that duplicate-name texts can be encoded too).
func ParseJSONTree(text []byte) (*JNode, error) {
	dec := jsontext.NewDecoder(bytes.NewReader(text), jsontext.AllowDuplicateNames(true))
	n, err := readJNode(dec)
	if err != nil {
		return nil, err
	}
	if _, err := dec.ReadToken(); err != io.EOF {
		if err == nil {
			err = errors.New("trailing data after the JSON value")
		}
		return nil, err
	}
	return n, nil
}

func readJNode(dec *jsontext.Decoder) (*JNode, error) {
	switch k := dec.PeekKind(); k {
	case '0':
		val, err := dec.ReadValue() // raw literal
		if err != nil {
			return nil, err
		}
		return &JNode{Kind: '0', Lit: string(val)}, nil
	case 'n', 't', 'f':
		if _, err := dec.ReadToken(); err != nil {
			return nil, err
		}
		return &JNode{Kind: byte(k)}, nil
	case '"':
		tok, err := dec.ReadToken()
		if err != nil {
			return nil, err
		}
		return &JNode{Kind: '"', Lit: tok.String()}, nil
	case '[':
		if _, err := dec.ReadToken(); err != nil {
			return nil, err
		}
		n := &JNode{Kind: '['}
		for dec.PeekKind() != ']' {
			e, err := readJNode(dec)
			if err != nil {
				return nil, err
			}
			n.Elems = append(n.Elems, e)
		}
		if _, err := dec.ReadToken(); err != nil {
			return nil, err
		}
		return n, nil
	case '{':
		if _, err := dec.ReadToken(); err != nil {
			return nil, err
		}
		n := &JNode{Kind: '{'}
		for dec.PeekKind() != '}' {
			tok, err := dec.ReadToken()
			if err != nil {
				return nil, err
			}
			if tok.Kind() != '"' {
				return nil, errors.New("object name is not a string")
			}
			name := tok.String()
			e, err := readJNode(dec)
			if err != nil {
				return nil, err
			}
			n.Names = append(n.Names, name)
			n.Elems = append(n.Elems, e)
		}
		if _, err := dec.ReadToken(); err != nil {
			return nil, err
		}
		return n, nil
	default:
		// invalid kind: the pending error is returned by ReadToken
		_, err := dec.ReadToken()
		if err == nil {
			err = fmt.Errorf("unexpected token kind %q", byte(k))
		}
		return nil, err
	}
}

// Wire renders the tree in the oracle's tree tokens.
func (n *JNode) Wire() string {
	var sb strings.Builder
	n.writeWire(&sb)
	return sb.String()
}

func (n *JNode) writeWire(sb *strings.Builder) {
	if sb.Len() > 0 {
		sb.WriteByte(' ')
	}
	switch n.Kind {
	case 'n', 't', 'f':
		sb.WriteByte(n.Kind)
	case '0':
		sb.WriteString("N" + hx([]byte(n.Lit)))
	case '"':
		sb.WriteString("S" + hx([]byte(n.Lit)))
	case '[':
		sb.WriteString("A" + strconv.Itoa(len(n.Elems)))
		for _, e := range n.Elems {
			e.writeWire(sb)
		}
	case '{':
		sb.WriteString("O" + strconv.Itoa(len(n.Elems)))
		for i, e := range n.Elems {
			sb.WriteByte(' ')
			sb.WriteString(hx([]byte(n.Names[i])))
			e.writeWire(sb)
		}
	}
}

// ParseTreeWire parses the oracle's tree tokens.
func ParseTreeWire(tokens string) (*JNode, error) {
	toks := strings.Fields(tokens)
	pos := 0
	n, err := parseTreeToks(toks, &pos)
	if err != nil {
		return nil, err
	}
	if pos != len(toks) {
		return nil, errors.New("trailing tree tokens")
	}
	return n, nil
}

func strictUnhex(s string) (string, error) {
	if s == "-" {
		return "", nil
	}
	if s == "" || len(s)%2 != 0 {
		return "", fmt.Errorf("bad hex %q", s)
	}
	out := make([]byte, len(s)/2)
	for i := range out {
		x, err := strconv.ParseUint(s[2*i:2*i+2], 16, 8)
		if err != nil {
			return "", fmt.Errorf("bad hex %q", s)
		}
		out[i] = byte(x)
	}
	return string(out), nil
}

func parseTreeToks(toks []string, pos *int) (*JNode, error) {
	if *pos >= len(toks) {
		return nil, errors.New("tree tokens end early")
	}
	tok := toks[*pos]
	*pos++
	switch {
	case tok == "n" || tok == "t" || tok == "f":
		return &JNode{Kind: tok[0]}, nil
	case tok[0] == 'N' || tok[0] == 'S':
		s, err := strictUnhex(tok[1:])
		if err != nil {
			return nil, err
		}
		if tok[0] == 'N' {
			return &JNode{Kind: '0', Lit: s}, nil
		}
		return &JNode{Kind: '"', Lit: s}, nil
	case tok[0] == 'A' || tok[0] == 'O':
		k, err := strconv.Atoi(tok[1:])
		if err != nil || k < 0 {
			return nil, fmt.Errorf("bad tree token %q", tok)
		}
		n := &JNode{Kind: '['}
		if tok[0] == 'O' {
			n.Kind = '{'
		}
		for i := 0; i < k; i++ {
			if n.Kind == '{' {
				if *pos >= len(toks) {
					return nil, errors.New("tree tokens end early")
				}
				name, err := strictUnhex(toks[*pos])
				if err != nil {
					return nil, err
				}
				*pos++
				n.Names = append(n.Names, name)
			}
			e, err := parseTreeToks(toks, pos)
			if err != nil {
				return nil, err
			}
			n.Elems = append(n.Elems, e)
		}
		return n, nil
	}
	return nil, fmt.Errorf("bad tree token %q", tok)
}

// JSONQuote renders s as a JSON string literal with minimal escaping (`"`, `\`, controls);
// s must be valid UTF-8 for the library to accept the result.
func JSONQuote(s string) []byte { return appendJSONQuote(nil, s) }

func appendJSONQuote(b []byte, s string) []byte {
	b = append(b, '"')
	for i := 0; i < len(s); i++ {
		switch c := s[i]; {
		case c == '"' || c == '\\':
			b = append(b, '\\', c)
		case c < 0x20:
			b = append(b, fmt.Sprintf(`\u%04x`, c)...)
		default:
			b = append(b, c)
		}
	}
	return append(b, '"')
}

// Render renders the tree as compact JSON text.
func (n *JNode) Render() []byte { return n.appendJSON(nil) }

func (n *JNode) appendJSON(b []byte) []byte {
	switch n.Kind {
	case 'n':
		return append(b, "null"...)
	case 't':
		return append(b, "true"...)
	case 'f':
		return append(b, "false"...)
	case '0':
		return append(b, n.Lit...)
	case '"':
		return appendJSONQuote(b, n.Lit)
	case '[':
		b = append(b, '[')
		for i, e := range n.Elems {
			if i > 0 {
				b = append(b, ',')
			}
			b = e.appendJSON(b)
		}
		return append(b, ']')
	case '{':
		b = append(b, '{')
		for i, e := range n.Elems {
			if i > 0 {
				b = append(b, ',')
			}
			b = appendJSONQuote(b, n.Names[i])
			b = append(b, ':')
			b = e.appendJSON(b)
		}
		return append(b, '}')
	}
	fail("JNode.Render: bad kind %q", n.Kind)
	return nil
}

// DupFree reports whether no object in the tree repeats a member name.
func (n *JNode) DupFree() bool {
	if n.Kind == '{' {
		seen := make(map[string]bool, len(n.Names))
		for _, k := range n.Names {
			if seen[k] {
				return false
			}
			seen[k] = true
		}
	}
	for _, e := range n.Elems {
		if !e.DupFree() {
			return false
		}
	}
	return true
}

// Member returns the value of the first member called name (nil if none) and how many members carry that name.
func (n *JNode) Member(name string) (*JNode, int) {
	var first *JNode
	cnt := 0
	if n.Kind != '{' {
		return nil, 0
	}
	for i, k := range n.Names {
		if k == name {
			if first == nil {
				first = n.Elems[i]
			}
			cnt++
		}
	}
	return first, cnt
}

// TreeOfJSON encodes real JSON text as tree tokens (ParseJSONTree + Wire).
func TreeOfJSON(text []byte) (string, error) {
	n, err := ParseJSONTree(text)
	if err != nil {
		return "", err
	}
	return n.Wire(), nil
}

// JSONOfTree renders tree tokens (e.g. the oracle's `arsh merge` answer) back to JSON text.
func JSONOfTree(tokens string) []byte {
	n, err := ParseTreeWire(tokens)
	if err != nil {
		fail("JSONOfTree(%q): %v", trunc(tokens, 200), err)
	}
	return n.Render()
}

// MergeNodes is the C14 merge on trees, written independently of the Lean definition:
// two objects are united (left members in their order, each merged with the first right member of
// the same name; then the right members whose name does not occur on the left, in their order);
// in every other case the result is the right operand.  The result shares subtrees with its inputs.
func MergeNodes(a, b *JNode) *JNode {
	if a.Kind != '{' || b.Kind != '{' {
		return b
	}
	out := &JNode{Kind: '{'}
	left := make(map[string]bool, len(a.Names))
	for i, name := range a.Names {
		left[name] = true
		v := a.Elems[i]
		if bv, cnt := b.Member(name); cnt > 0 {
			v = MergeNodes(v, bv)
		}
		out.Names = append(out.Names, name)
		out.Elems = append(out.Elems, v)
	}
	for i, name := range b.Names {
		if !left[name] {
			out.Names = append(out.Names, name)
			out.Elems = append(out.Elems, b.Elems[i])
		}
	}
	return out
}

// MergeJSON merges two JSON texts (nil if either does not parse).
func MergeJSON(a, b []byte) []byte {
	na, err := ParseJSONTree(a)
	if err != nil {
		return nil
	}
	nb, err := ParseJSONTree(b)
	if err != nil {
		return nil
	}
	return MergeNodes(na, nb).Render()
}

// ---------------------------------------------------------------------------------------------
// JSON generators

type jsonGen struct {
	r      *rand.Rand
	buf    []byte
	budget int  // remaining nodes; containers shrink when it runs out
	baa    bool // texts are meant for FormatByteArrayAsArray(true)
}

// GenJSONForBytes is GenJSONFor for types of GenTypeEx: a []byte / [N]byte in string representation
// gets a string in its encoding (base64 by default, else the field's format) of 0..N+2 random bytes
// (arrays: mostly exactly N, else shorter or longer), sometimes with a flaw (missing padding, a
// character outside the alphabet); byteArrayAsArray says that the texts are meant for
// jsonv1.FormatByteArrayAsArray(true), where an untagged [N]byte is a JSON array of numbers.
func GenJSONForBytes(r *rand.Rand, t *TypeDesc, depth int, byteArrayAsArray bool) []byte {
	if depth > 3 {
		depth = 3
	}
	g := &jsonGen{r: r, budget: 40, baa: byteArrayAsArray}
	g.ws()
	g.value(t, depth)
	g.ws()
	return g.buf
}

// EncodeBytesFormat encodes b the way the bytes arshaler represents it under format f.
func EncodeBytesFormat(f string, b []byte) string {
	switch f {
	case "base64url":
		return base64.URLEncoding.EncodeToString(b)
	case "base32":
		return base32.StdEncoding.EncodeToString(b)
	case "base32hex":
		return base32.HexEncoding.EncodeToString(b)
	case "base16", "hex":
		return hex.EncodeToString(b)
	}
	return base64.StdEncoding.EncodeToString(b)
}

// DecodeBytesFormat is the independent reference decoder (standard library, strict padding).
func DecodeBytesFormat(f string, s string) ([]byte, error) {
	switch f {
	case "base64url":
		return base64.URLEncoding.DecodeString(s)
	case "base32":
		return base32.StdEncoding.DecodeString(s)
	case "base32hex":
		return base32.HexEncoding.DecodeString(s)
	case "base16", "hex":
		return hex.DecodeString(s)
	}
	return base64.StdEncoding.DecodeString(s)
}

func (g *jsonGen) bytesString(t *TypeDesc, f string) {
	n := g.r.IntN(7)
	if t.Kind == TKArray {
		n = t.N
		switch x := g.r.IntN(100); {
		case x < 25:
			n = g.r.IntN(t.N + 1)
		case x < 40:
			n = t.N + 1 + g.r.IntN(2)
		}
	}
	b := make([]byte, n)
	for i := range b {
		b[i] = byte(g.r.IntN(256))
		if g.r.IntN(4) == 0 {
			b[i] = 0
		}
	}
	s := EncodeBytesFormat(f, b)
	if g.r.IntN(25) == 0 && len(s) > 0 {
		switch g.r.IntN(3) {
		case 0:
			s = strings.TrimRight(s, "=")
		case 1:
			s = s[:len(s)-1] + "!"
		default:
			s = s + "\\n"
		}
	}
	g.buf = append(g.buf, '"')
	g.buf = append(g.buf, s...)
	g.buf = append(g.buf, '"')
}

// GenJSONFor produces a syntactically valid JSON text that mostly fits type t: per node ~10% `null`,
// ~4% a deliberately wrong kind, objects for structs with a random subset of the fields in random
// order and sometimes unknown members, ~1% a duplicated member name, map keys from gtKeyPool,
// slices of length 0..4, arrays mostly of the exact length, integers including the boundaries of
// their width, out-of-range by one and non-integer spellings, float literals with |exponent| ≤ 30
// only (never overflowing float64), strings with escapes and non-ASCII, occasional insignificant
// whitespace.  depth bounds the nesting of arbitrary values (inside `any` and unknown members, ≤ 3).
func GenJSONFor(r *rand.Rand, t *TypeDesc, depth int) []byte {
	if depth > 3 {
		depth = 3
	}
	g := &jsonGen{r: r, budget: 40}
	g.ws()
	g.value(t, depth)
	g.ws()
	return g.buf
}

// GenJSONAny produces an arbitrary syntactically valid JSON value (nesting ≤ min(depth,3)).
func GenJSONAny(r *rand.Rand, depth int) []byte {
	if depth > 3 {
		depth = 3
	}
	g := &jsonGen{r: r, budget: 24}
	g.arbitrary(depth, true)
	return g.buf
}

func (g *jsonGen) lit(s string) { g.buf = append(g.buf, s...) }

func (g *jsonGen) ws() {
	if g.r.IntN(100) < 6 {
		for n := 1 + g.r.IntN(2); n > 0; n-- {
			g.buf = append(g.buf, " \n\t\r"[g.r.IntN(4)])
		}
	}
}

var gtStrings = []string{"", "a", "b", "hello", "é✓", "q\"\\\n", "\x00\x1f", "<&>", "😀", "0", "null", "xxxxxxxxxxxxxxxxxxxx", "/", " "}

// quote writes a JSON string literal for s choosing randomly between raw bytes and escapes.
func (g *jsonGen) quote(s string) {
	g.buf = append(g.buf, '"')
	for _, c := range s {
		esc := g.r.IntN(100) < 8
		switch {
		case c == '"' || c == '\\':
			g.buf = append(g.buf, '\\', byte(c))
		case c < 0x20:
			short := map[rune]string{'\n': `\n`, '\t': `\t`, '\r': `\r`, '\b': `\b`, '\f': `\f`}[c]
			if short != "" && g.r.IntN(2) == 0 {
				g.lit(short)
			} else {
				g.lit(fmt.Sprintf(`\u%04x`, c))
			}
		case c == '/' && esc:
			g.lit(`\/`)
		case esc && c < 0x10000:
			if g.r.IntN(2) == 0 {
				g.lit(fmt.Sprintf(`\u%04x`, c))
			} else {
				g.lit(fmt.Sprintf(`\u%04X`, c))
			}
		case esc:
			c -= 0x10000
			g.lit(fmt.Sprintf(`\u%04x\u%04x`, 0xd800+(c>>10), 0xdc00+(c&0x3ff)))
		default:
			g.buf = utf8.AppendRune(g.buf, c)
		}
	}
	g.buf = append(g.buf, '"')
}

func (g *jsonGen) str() {
	if g.r.IntN(100) < 85 {
		g.quote(gtStrings[g.r.IntN(len(gtStrings))])
		return
	}
	n := g.r.IntN(6)
	rs := make([]rune, n)
	alphabet := []rune("abcXYZ09 _-é✓😀\"\\\n\t")
	for i := range rs {
		rs[i] = alphabet[g.r.IntN(len(alphabet))]
	}
	g.quote(string(rs))
}

var gtFloatPool = []string{"0", "-0", "1", "1.5", "-2.25", "1e2", "1E+2", "2.5e-3", "0.1", "3.141592653589793", "123456789012345678",
	"1e30", "-1E-30", "0.30000000000000004", "9007199254740993", "4.35", "0e0", "0.0", "100", "-1", "2", "7", "1.0", "-0.0", "12345"}

func (g *jsonGen) digits(n int) {
	for ; n > 0; n-- {
		g.buf = append(g.buf, byte('0'+g.r.IntN(10)))
	}
}

// floatLit: ordinary number literals, exponent magnitude ≤ 30 and ≤ 17+17 digits: never overflows float64.
func (g *jsonGen) floatLit() {
	if g.r.IntN(100) < 55 {
		g.lit(gtFloatPool[g.r.IntN(len(gtFloatPool))])
		return
	}
	if g.r.IntN(3) == 0 {
		g.lit("-")
	}
	if g.r.IntN(4) == 0 {
		g.lit("0")
	} else {
		g.buf = append(g.buf, byte('1'+g.r.IntN(9)))
		g.digits(g.r.IntN(4) * g.r.IntN(5))
	}
	if g.r.IntN(2) == 0 {
		g.lit(".")
		g.digits(1 + g.r.IntN(4)*g.r.IntN(5))
	}
	if g.r.IntN(3) == 0 {
		g.lit([]string{"e", "E"}[g.r.IntN(2)])
		g.lit([]string{"", "+", "-"}[g.r.IntN(3)])
		g.lit(strconv.Itoa(g.r.IntN(31)))
	}
}

// intLit: integer literals for a width: mostly in range (boundaries included), sometimes out of
// range by one or far, sometimes a non-integer spelling (a syntax error for Go integer types).
func (g *jsonGen) intLit(bits int, signed bool) {
	one := big.NewInt(1)
	max := new(big.Int).Lsh(one, uint(bits))
	min := big.NewInt(0)
	if signed {
		max.Rsh(max, 1)
		min.Neg(max)
	}
	max.Sub(max, one)
	switch x := g.r.IntN(100); {
	case x < 42:
		n := g.r.IntN(100)
		if signed && g.r.IntN(2) == 0 {
			n = -n
		}
		g.lit(strconv.Itoa(n))
	case x < 48:
		g.lit("0")
	case x < 52:
		g.lit("-0")
	case x < 62:
		g.lit(max.String())
	case x < 70:
		g.lit(min.String())
	case x < 75:
		g.lit(new(big.Int).Add(max, one).String())
	case x < 80:
		g.lit(new(big.Int).Sub(min, one).String())
	case x < 88:
		// uniform in range
		span := new(big.Int).Sub(max, min)
		span.Add(span, one)
		v := new(big.Int).SetUint64(g.r.Uint64())
		if bits < 64 {
			v.Mod(v, span)
		}
		v.Add(v, min)
		if v.Cmp(max) > 0 { // bits == 64: raw 64-bit draw shifted by min stays in range
			v.Set(max)
		}
		g.lit(v.String())
	case x < 94:
		g.lit([]string{"1.0", "1e2", "0.5", "-3E+1", "10.00", "0.0", "-0.0", "1e0", "2E-1", "-1.5"}[g.r.IntN(10)])
	default:
		g.lit([]string{"18446744073709551615", "18446744073709551616", "99999999999999999999", "100000000000000000000",
			"-18446744073709551616", "18446744073709551616.5", "20000000000000000000", "10000000000000000000",
			"9999999999999999999", "-9999999999999999999999", "123456789012345678901234567890", "1e400", "18446744073709551615e0"}[g.r.IntN(13)])
	}
}

// arbitrary writes any JSON value; objects use gtKeyPool so that members of different texts collide.
func (g *jsonGen) arbitrary(depth int, preferContainers bool) {
	g.budget--
	x := g.r.IntN(100)
	if depth <= 0 || g.budget <= 0 {
		x = x * 55 / 100 // scalars only
	} else if preferContainers {
		x = 30 + x*70/100 // fewer scalars
	}
	switch {
	case x < 8:
		g.lit("null")
	case x < 18:
		g.lit([]string{"true", "false"}[g.r.IntN(2)])
	case x < 38:
		g.floatLit()
	case x < 55:
		g.str()
	case x < 70:
		n := g.r.IntN(4)
		g.lit("[")
		for i := 0; i < n; i++ {
			if i > 0 {
				g.lit(",")
			}
			g.ws()
			g.arbitrary(depth-1, false)
		}
		g.ws()
		g.lit("]")
	default:
		n := g.r.IntN(4)
		perm := g.r.Perm(len(gtKeyPool))
		names := make([]string, 0, n+1)
		for i := 0; i < n; i++ {
			names = append(names, gtKeyPool[perm[i]])
		}
		if n > 0 && g.r.IntN(100) < 1 {
			names = append(names, names[g.r.IntN(n)]) // duplicate member name
		}
		g.lit("{")
		for i, k := range names {
			if i > 0 {
				g.lit(",")
			}
			g.ws()
			g.quote(k)
			g.ws()
			g.lit(":")
			g.arbitrary(depth-1, g.r.IntN(2) == 0)
		}
		g.ws()
		g.lit("}")
	}
}

// jsonKindOf is the JSON kind class a type accepts besides null (0 for any).
func jsonKindOf(t *TypeDesc) byte {
	switch t.Kind {
	case TKBool:
		return 't'
	case TKInt, TKUint, TKFloat:
		return '0'
	case TKString:
		return '"'
	case TKSlice, TKArray:
		if t.IsBytes() {
			return 0 // string or array depending on tags/options: no "wrong kind" draw
		}
		return '['
	case TKMap, TKStruct:
		return '{'
	case TKPtr:
		return jsonKindOf(t.Elem)
	}
	return 0
}

// wrongKind writes a value whose JSON kind the type does not accept.
func (g *jsonGen) wrongKind(t *TypeDesc, depth int) {
	want := jsonKindOf(t)
	for {
		k := "t0\"[{"[g.r.IntN(5)]
		if k == want {
			continue
		}
		switch k {
		case 't':
			g.lit([]string{"true", "false"}[g.r.IntN(2)])
		case '0':
			g.floatLit()
		case '"':
			g.str()
		case '[':
			if depth <= 0 || g.r.IntN(2) == 0 {
				g.lit("[]")
			} else {
				g.lit("[")
				g.arbitrary(depth-1, false)
				g.lit("]")
			}
		case '{':
			if depth <= 0 || g.r.IntN(2) == 0 {
				g.lit("{}")
			} else {
				g.lit("{")
				g.quote(gtKeyPool[g.r.IntN(len(gtKeyPool))])
				g.lit(":")
				g.arbitrary(depth-1, false)
				g.lit("}")
			}
		}
		return
	}
}

func (g *jsonGen) value(t *TypeDesc, depth int) {
	g.budget--
	p := g.r.IntN(100)
	if p < 10 {
		g.lit("null")
		return
	}
	if p < 14 {
		g.wrongKind(t, depth)
		return
	}
	switch t.Kind {
	case TKBool:
		g.lit([]string{"true", "false"}[g.r.IntN(2)])
	case TKInt:
		g.intLit(t.Bits, true)
	case TKUint:
		g.intLit(t.Bits, false)
	case TKFloat:
		g.floatLit()
	case TKString:
		g.str()
	case TKAny:
		g.arbitrary(depth, true)
	case TKPtr:
		g.budget++
		g.valueNoNull(t.Elem, depth)
	case TKSlice:
		if f, ok := t.BytesAsString(g.baa); ok {
			g.bytesString(t, f)
			return
		}
		n := g.r.IntN(5)
		if g.budget <= 0 {
			n = g.r.IntN(2)
		}
		g.array(t.Elem, n, depth)
	case TKArray:
		if f, ok := t.BytesAsString(g.baa); ok {
			g.bytesString(t, f)
			return
		}
		n := t.N
		switch x := g.r.IntN(100); {
		case x < 12:
			n = g.r.IntN(t.N + 1) // shorter (or equal)
		case x < 24:
			n = t.N + 1 + g.r.IntN(2) // longer
		}
		g.array(t.Elem, n, depth)
	case TKMap:
		n := g.r.IntN(5)
		if g.budget <= 0 {
			n = g.r.IntN(2)
		}
		perm := g.r.Perm(len(gtKeyPool))
		names := make([]string, 0, n+1)
		for i := 0; i < n; i++ {
			names = append(names, gtKeyPool[perm[i]])
		}
		if n > 0 && g.r.IntN(100) < 1 {
			names = append(names, names[g.r.IntN(n)])
		}
		g.lit("{")
		for i, k := range names {
			if i > 0 {
				g.lit(",")
				g.ws()
			}
			g.quote(k)
			g.lit(":")
			g.ws()
			g.value(t.Elem, depth)
		}
		g.lit("}")
	case TKStruct:
		type member struct {
			name string
			ft   *TypeDesc // nil: unknown member with an arbitrary value
		}
		var ms []member
		pInclude := 60
		if g.budget <= 0 {
			pInclude = 25
		}
		for _, f := range t.Fields {
			if g.r.IntN(100) < pInclude {
				ms = append(ms, member{f.Name, f.Type})
			}
		}
		if g.r.IntN(100) < 15 { // unknown members
			for n := 1 + g.r.IntN(2); n > 0; n-- {
				var name string
				switch g.r.IntN(3) {
				case 0:
					name = gtFieldNames[g.r.IntN(len(gtFieldNames))]
				case 1:
					name = gtKeyPool[g.r.IntN(len(gtKeyPool))]
				default:
					if len(t.Fields) > 0 { // same name in another case: unknown under the default options
						name = strings.ToUpper(t.Fields[g.r.IntN(len(t.Fields))].Name)
					} else {
						name = "Zz"
					}
				}
				if t.FieldIndex(name) >= 0 {
					continue
				}
				dup := false
				for _, m := range ms {
					dup = dup || m.name == name
				}
				if !dup {
					ms = append(ms, member{name, nil})
				}
			}
		}
		g.r.Shuffle(len(ms), func(i, j int) { ms[i], ms[j] = ms[j], ms[i] })
		if len(ms) > 0 && g.r.IntN(100) < 1 { // duplicate member name
			ms = append(ms, ms[g.r.IntN(len(ms))])
		}
		g.lit("{")
		for i, m := range ms {
			if i > 0 {
				g.lit(",")
			}
			g.ws()
			g.quote(m.name)
			g.lit(":")
			g.ws()
			if m.ft != nil {
				g.value(m.ft, depth)
			} else {
				g.arbitrary(depth, g.r.IntN(2) == 0)
			}
		}
		g.ws()
		g.lit("}")
	}
}

// valueNoNull is value without the extra null/wrong-kind draw (used below a pointer, whose own
// draw already covered them).
func (g *jsonGen) valueNoNull(t *TypeDesc, depth int) {
	if t.Kind == TKPtr {
		g.valueNoNull(t.Elem, depth)
		return
	}
	// re-enter value but neutralise the null / wrong-kind branches by retrying
	for tries := 0; ; tries++ {
		mark := len(g.buf)
		save := g.budget
		g.value(t, depth)
		out := g.buf[mark:]
		if tries > 8 || t.Kind == TKAny || !(bytes.Equal(out, []byte("null"))) {
			return
		}
		g.buf = g.buf[:mark]
		g.budget = save
	}
}

func (g *jsonGen) array(elem *TypeDesc, n int, depth int) {
	g.lit("[")
	for i := 0; i < n; i++ {
		if i > 0 {
			g.lit(",")
		}
		g.ws()
		g.value(elem, depth)
	}
	g.ws()
	g.lit("]")
}

// ---------------------------------------------------------------------------------------------
// Go values built by reflection (what unmarshaling can never produce included)

type valGen struct {
	r      *rand.Rand
	budget int // remaining nodes; containers shrink when it runs out
}

// GenValueFor returns a random ADDRESSABLE value of t.GoType(), built by reflection and never through
// JSON, so that it reaches the states unmarshaling cannot produce: nil as well as empty non-nil slices
// and maps (≈ 25% / 20% of the slices and maps each), slices with spare capacity, pointers to nil
// pointers, pointers to nil interfaces, `any` holding []any(nil) / map[string]any(nil) as well as the
// empty non-nil ones, nested `any` values (nesting ≤ min(depth,3)), integers at the boundaries of their
// width (min, max, 0, ±1, neighbours), finite floats of every magnitude (-0, subnormals, MaxFloat64,
// integers, the 1e21 / 1e-6 format switch points), strings that are empty / ASCII / need escapes
// (`"`, `\`, controls, U+2028) / multi-byte, ~2% strings that are NOT valid UTF-8 (Marshal must fail),
// map keys from gtKeyPool plus random valid strings and ~1% invalid UTF-8 keys; slices and maps hold
// 0..4 elements; at most ~48 nodes.
func GenValueFor(r *rand.Rand, t *TypeDesc, depth int) reflect.Value {
	if depth > 3 {
		depth = 3
	}
	if depth < 0 {
		depth = 0
	}
	g := &valGen{r: r, budget: 48}
	v := reflect.New(t.GoType()).Elem()
	g.fill(v, t, depth)
	return v
}

// GenInvalidUTF8 returns a string that is not valid UTF-8 (lone continuation or lead bytes, truncated
// sequences, overlong forms, encoded surrogates, bytes ≥ 0xf8), possibly between valid text.
func GenInvalidUTF8(r *rand.Rand) string {
	bad := []string{"\xff", "\x80", "\xc3", "\xe2\x82", "\xf0\x9f\x98", "\xc0\xaf", "\xed\xa0\x80", "\xf8\x88\x80\x80\x80", "\xfe", "\xf4\x90\x80\x80", "\xe0\x80\x80", "\xc3\x28"}
	s := bad[r.IntN(len(bad))]
	if r.IntN(2) == 0 {
		s = gtStrings[r.IntN(len(gtStrings))] + s
	}
	if r.IntN(2) == 0 {
		s += gtStrings[r.IntN(len(gtStrings))]
	}
	if utf8.ValidString(s) {
		fail("GenInvalidUTF8 produced valid UTF-8 %q", s)
	}
	return s
}

func (g *valGen) intOf(bits int) int64 {
	min := int64(-1) << (bits - 1)
	max := -(min + 1)
	switch x := g.r.IntN(100); {
	case x < 10:
		return min
	case x < 20:
		return max
	case x < 27:
		return 0
	case x < 32:
		return 1
	case x < 37:
		return -1
	case x < 41:
		return min + 1
	case x < 45:
		return max - 1
	case x < 65:
		return int64(g.r.IntN(201)) - 100 // fits int8 too (-100..100)
	case x < 75:
		// a boundary of a narrower width, or a power of ten, clipped into range
		n := BoundaryInt64(g.r)
		if n > max || n < min {
			n >>= uint(64 - bits)
		}
		return n
	default:
		return int64(g.r.Uint64()) >> uint(64-bits) // uniform over the width (arithmetic shift keeps the sign)
	}
}

func (g *valGen) uintOf(bits int) uint64 {
	max := ^uint64(0) >> uint(64-bits)
	switch x := g.r.IntN(100); {
	case x < 15:
		return max
	case x < 25:
		return 0
	case x < 32:
		return 1
	case x < 38:
		return max - 1
	case x < 44:
		return max>>1 + uint64(g.r.IntN(2)) // the signed boundary of the same width, and one above
	case x < 64:
		return uint64(g.r.IntN(101))
	case x < 74:
		return boundaryUint64(g.r) & max
	default:
		return g.r.Uint64() >> uint(64-bits)
	}
}

var gvFloats = []float64{1e21, 1e21 - 131072, 1e21 + 131072, 1e-6, 1e-7, 9.999999999999999e-7, 1e20, 123456789e13, 5e-324, -5e-324, 1.7976931348623157e308,
	2.2250738585072014e-308, 0, 0.1, 0.2 + 0.1, 1 << 53, 1<<53 + 2, -(1 << 63), 1 << 64, 100, 1e15, 1e16, 1e17, 0.000001234, 4.35, 1.0000000000000002}

func (g *valGen) float() float64 {
	switch x := g.r.IntN(100); {
	case x < 8:
		return math.Copysign(0, -1)
	case x < 14:
		return 0
	case x < 34:
		f := gvFloats[g.r.IntN(len(gvFloats))]
		if g.r.IntN(3) == 0 {
			f = -f
		}
		return f
	case x < 42: // neighbours of the two format switch points
		base := []float64{1e21, 1e-6}[g.r.IntN(2)]
		for n := g.r.IntN(4); n > 0; n-- {
			if g.r.IntN(2) == 0 {
				base = math.Nextafter(base, math.Inf(1))
			} else {
				base = math.Nextafter(base, 0)
			}
		}
		return base
	default:
		return FiniteFloat(g.r, 64)
	}
}

var gvStrings = []string{"", "a", "hello", "\"", "\\", "a\"b\\c", "\n", "\x00", "\x1f\x7f", " ", "x  y", "é", "é✓", "日本語", "😀", "\U0010ffff", "�",
	"<&>", "/", "null", "0", "q\"\\\n", "\u2028", "a\u2028\u2029b", "\t\r\b\f"}

func (g *valGen) str() string {
	switch x := g.r.IntN(100); {
	case x < 2:
		return GenInvalidUTF8(g.r)
	case x < 12:
		return ""
	case x < 50:
		return gvStrings[g.r.IntN(len(gvStrings))]
	case x < 65:
		return gtStrings[g.r.IntN(len(gtStrings))]
	default:
		s := ValidString(g.r)
		if len(s) > 40 && g.r.IntN(4) != 0 { // keep most texts short
			s = strings.ToValidUTF8(s[:40], "")
		}
		return s
	}
}

// keys draws n distinct map keys: mostly gtKeyPool (so that the bytewise member order matters:
// "", "a", "b", "c", "k1", `q"\` + LF, "é✓"), random valid strings, ~1% invalid UTF-8.
func (g *valGen) keys(n int) []string {
	seen := map[string]bool{}
	var out []string
	for tries := 0; len(out) < n && tries < 4*n+8; tries++ {
		var k string
		switch x := g.r.IntN(100); {
		case x < 1:
			k = GenInvalidUTF8(g.r)
		case x < 66:
			k = gtKeyPool[g.r.IntN(len(gtKeyPool))]
		case x < 80:
			k = gvStrings[g.r.IntN(len(gvStrings))]
		case x < 90:
			k = []string{"b", "a", "", "é", "B", "aa", "a\x00", "a ", "\x7f", "~", "Z", "z", "\U0010ffff", "\uffff", "é✓a"}[g.r.IntN(15)]
		default:
			k = ValidString(g.r)
			if len(k) > 24 {
				k = strings.ToValidUTF8(k[:24], "")
			}
		}
		if !seen[k] {
			seen[k] = true
			out = append(out, k)
		}
	}
	return out
}

// size draws the element count of a non-empty slice or map (1..4; 1..2 once the budget is spent).
func (g *valGen) size() int {
	if g.budget <= 0 {
		return 1 + g.r.IntN(2)
	}
	return 1 + g.r.IntN(4)
}

func (g *valGen) fill(v reflect.Value, t *TypeDesc, depth int) {
	g.budget--
	switch t.Kind {
	case TKBool:
		v.SetBool(g.r.IntN(2) == 0)
	case TKInt:
		v.SetInt(g.intOf(t.Bits))
	case TKUint:
		v.SetUint(g.uintOf(t.Bits))
	case TKFloat:
		v.SetFloat(g.float())
	case TKString:
		v.SetString(g.str())
	case TKSlice:
		switch x := g.r.IntN(100); {
		case x < 25: // nil
		case x < 45: // empty, not nil: with and without capacity
			v.Set(reflect.MakeSlice(v.Type(), 0, []int{0, 0, 1, 5}[g.r.IntN(4)]))
		default:
			n := g.size()
			c := n
			if g.r.IntN(100) < 30 {
				c += 1 + g.r.IntN(4) // spare capacity
			}
			s := reflect.MakeSlice(v.Type(), n, c)
			for i := 0; i < n; i++ {
				g.fill(s.Index(i), t.Elem, depth)
			}
			if c > n && g.r.IntN(2) == 0 { // stale non-zero data beyond the length
				full := s.Slice(0, c)
				save := g.budget
				for i := n; i < c; i++ {
					g.fill(full.Index(i), t.Elem, 0)
				}
				g.budget = save
			}
			v.Set(s)
		}
	case TKArray:
		for i := 0; i < v.Len(); i++ {
			g.fill(v.Index(i), t.Elem, depth)
		}
	case TKMap:
		switch x := g.r.IntN(100); {
		case x < 25: // nil
		case x < 45: // empty, not nil
			v.Set(reflect.MakeMapWithSize(v.Type(), []int{0, 0, 8}[g.r.IntN(3)]))
		default:
			m := reflect.MakeMap(v.Type())
			for _, k := range g.keys(g.size()) {
				e := reflect.New(v.Type().Elem()).Elem()
				g.fill(e, t.Elem, depth)
				m.SetMapIndex(reflect.ValueOf(k), e)
			}
			v.Set(m)
		}
	case TKPtr:
		if g.r.IntN(100) < 25 {
			return // nil
		}
		p := reflect.New(v.Type().Elem())
		g.budget++ // a pointer is not a node of its own
		g.fill(p.Elem(), t.Elem, depth)
		v.Set(p)
	case TKStruct:
		for i, f := range t.Fields {
			g.fill(v.Field(i), f.Type, depth)
		}
	case TKAny:
		if a := g.anyVal(depth); a.IsValid() {
			v.Set(a)
		}
	}
}

// anyVal draws the content of an interface: the invalid Value for a nil interface, else a value of one
// of the five modelled dynamic types; []any and map[string]any come nil, empty and filled.
func (g *valGen) anyVal(depth int) reflect.Value {
	x := g.r.IntN(100)
	if (depth <= 0 || g.budget <= 0) && x >= 68 {
		// no further nesting: scalars, nil and the four empty containers only
		x = g.r.IntN(68)
	}
	switch {
	case x < 14:
		return reflect.Value{}
	case x < 22:
		return reflect.ValueOf(g.r.IntN(2) == 0)
	case x < 34:
		return reflect.ValueOf(g.float())
	case x < 46:
		return reflect.ValueOf(g.str())
	case x < 53:
		return reflect.ValueOf([]any(nil))
	case x < 58:
		return reflect.ValueOf(make([]any, 0, g.r.IntN(3)))
	case x < 64:
		return reflect.ValueOf(map[string]any(nil))
	case x < 68:
		return reflect.ValueOf(map[string]any{})
	case x < 85:
		n := g.size()
		c := n + g.r.IntN(2)*g.r.IntN(3)
		s := make([]any, n, c)
		sv := reflect.ValueOf(s)
		for i := 0; i < n; i++ {
			g.budget--
			if a := g.anyVal(depth - 1); a.IsValid() {
				sv.Index(i).Set(a)
			}
		}
		return sv
	default:
		m := map[string]any{}
		for _, k := range g.keys(g.size()) {
			g.budget--
			if a := g.anyVal(depth - 1); a.IsValid() {
				m[k] = a.Interface()
			} else {
				m[k] = nil
			}
		}
		return reflect.ValueOf(m)
	}
}
