package main

// C13 — Canonicalize produces the RFC 8785 canonical form.
//
// (a) Correspondence (Tie B): jsonwire.CompareUTF16 vs the Lean model (family `cmp`) on pairs of
//     strings over a critical code-point alphabet (exhaustive over short strings), random strings
//     with shared prefixes, prefix pairs and ill-formed byte strings; utf16/valid of the spec vs
//     unicode/utf16 and unicode/utf8; the member sort of mustReorderObjectsFromDecoder vs the model sort.
// (b) The property's own predicates on jsontext.Value.Canonicalize: random valid I-JSON trees, each
//     spelled twice (member permutation at every depth, whitespace injection, re-escaping, number
//     re-spelling that keeps the exact decimal value); the canonical output must contain no
//     whitespace, have members strictly increasing by UTF-16 units at every depth (independent Go
//     comparison via utf16.Encode), minimal strings, ECMAScript-shortest numbers, denote the same
//     value, be identical for both spellings, and be a fixed point.  Invalid I-JSON must be rejected
//     with the value unmodified.

import (
	"bytes"
	"encoding/hex"
	"fmt"
	"math"
	"math/rand/v2"
	"slices"
	"sort"
	"strconv"
	"strings"
	"sync"
	"unicode/utf16"
	"unicode/utf8"

	json "github.com/go-json-experiment/json"
	"github.com/go-json-experiment/json/internal/jsonwire"
	"github.com/go-json-experiment/json/jsontext"
)

func init() { register("C13", runC13) }

func runC13(c *Ctx) {
	c13EscapeSweep(c)
	c13CompareCorr(c)
	c13SortCorr(c)
	c13Numbers(c)
	c13Canonicalize(c)
}

func c13Workers(c *Ctx) int {
	if c.Thorough() {
		return 16
	}
	return 6
}

// ------------------------------------------------------------------------------------------
// (a) CompareUTF16 vs the model

// the critical code points: UTF-8 length boundaries, the surrogate gap, the top of the BMP and the
// supplementary planes (whose UTF-16 order differs from their UTF-8/code-point order).
var c13Alphabet = []rune{0x0000, 0x007F, 0x0080, 0x07FF, 0x0800, 0xD7FF, 0xE000, 0xFFFD, 0xFFFF, 0x10000, 0x10FFFF, 0x1F600}

// bytes that exercise utf8.DecodeRune's failure paths.
var c13BadBytes = []byte{0x00, 0x41, 0x7F, 0x80, 0x8F, 0x90, 0x9F, 0xA0, 0xBF, 0xC0, 0xC1, 0xC2, 0xDF, 0xE0, 0xED, 0xEF, 0xF0, 0xF4, 0xF5, 0xFF, 0xBD}

func c13Sign(n int) int {
	switch {
	case n < 0:
		return -1
	case n > 0:
		return 1
	}
	return 0
}

// c13RefCompare is RFC 8785 §3.2.3 written independently of the implementation and of the model:
// compare the UTF-16 code units produced by unicode/utf16 (valid UTF-8 only).
func c13RefCompare(x, y []byte) int {
	ux := utf16.Encode([]rune(string(x)))
	uy := utf16.Encode([]rune(string(y)))
	return c13Sign(slices.Compare(ux, uy))
}

type c13Pair struct{ x, y []byte }

// c13CheckPairs runs one batch of pairs through the implementation, the oracle and (for valid UTF-8) the Go reference.
func c13CheckPairs(c *Ctx, or *Oracle, class string, pairs []c13Pair) {
	lines := make([]string, 0, len(pairs))
	impl := make([]int, len(pairs))
	for i, p := range pairs {
		var r, rs int
		if pn := guard(func() { r = jsonwire.CompareUTF16(p.x, p.y); rs = jsonwire.CompareUTF16(p.y, p.x) }); pn != nil {
			c.Panic("CompareUTF16", append(append([]byte{}, p.x...), p.y...), pn, map[string]any{"x": hx(p.x), "y": hx(p.y)})
			continue
		}
		impl[i] = r
		valid := utf8.Valid(p.x) && utf8.Valid(p.y)
		c.Case("cmp:"+hx(p.x)+":"+hx(p.y), len(p.x) > 0 && len(p.y) > 0)
		c.Hit("cmp/" + class)
		if r < -1 || r > 1 {
			c.Violate("cmp-range", "CompareUTF16", p.x, map[string]any{"x": hx(p.x), "y": hx(p.y), "impl": r})
		}
		if valid {
			// the property-level predicate: the order is the UTF-16 code unit order, it is antisymmetric and only equal strings tie
			if want := c13RefCompare(p.x, p.y); r != want {
				c.Violate("cmp-utf16-order", "CompareUTF16", p.x, map[string]any{"x": hx(p.x), "y": hx(p.y), "impl": r, "utf16": want})
			}
			if rs != -r {
				c.Violate("cmp-swap", "CompareUTF16", p.x, map[string]any{"x": hx(p.x), "y": hx(p.y), "impl": r, "swapped": rs})
			}
			if (r == 0) != bytes.Equal(p.x, p.y) {
				c.Violate("cmp-antisymm", "CompareUTF16", p.x, map[string]any{"x": hx(p.x), "y": hx(p.y), "impl": r})
			}
		} else if rs != -r { // the model proves swap for arbitrary bytes: a disagreement here is a broken tie, not a C13 violation
			c.Violate("corr-cmp-swap", "CompareUTF16", p.x, map[string]any{"x": hx(p.x), "y": hx(p.y), "impl": r, "swapped": rs,
				"broken": "theorem cmp16_swap holds for the model on all bytes"})
		}
		lines = append(lines, "cmp c16 "+hx(p.x)+" "+hx(p.y))
	}
	if or == nil {
		return
	}
	got := or.Ask(lines)
	for i, p := range pairs {
		if got[i] != strconv.Itoa(impl[i]) {
			c.Violate("corr-cmp16", "CompareUTF16", p.x, map[string]any{"x": hx(p.x), "y": hx(p.y), "impl": impl[i], "model": got[i],
				"broken": "correspondence cmp.c16 (Model.Compare.compareUTF16 vs jsonwire.CompareUTF16)"})
		}
	}
}

func c13EncodeRunes(rs []rune) []byte {
	var b []byte
	for _, r := range rs {
		b = utf8.AppendRune(b, r)
	}
	return b
}

// all strings of at most maxLen code points over the alphabet
func c13AllStrings(alpha []rune, maxLen int) [][]byte {
	out := [][]byte{nil}
	prev := [][]rune{nil}
	for l := 1; l <= maxLen; l++ {
		var next [][]rune
		for _, p := range prev {
			for _, a := range alpha {
				s := append(append([]rune{}, p...), a)
				next = append(next, s)
				out = append(out, c13EncodeRunes(s))
			}
		}
		prev = next
	}
	return out
}

func c13RandRune(r *rand.Rand) rune {
	switch r.IntN(8) {
	case 0:
		return rune(r.IntN(0x80))
	case 1:
		return rune(0x80 + r.IntN(0x780))
	case 2:
		return rune(0x800 + r.IntN(0xD000))
	case 3:
		return rune(0xE000 + r.IntN(0x2000))
	case 4:
		return rune(0x10000 + r.IntN(0x100000))
	case 5:
		return c13Alphabet[r.IntN(len(c13Alphabet))]
	case 6:
		return rune(0xD7F0 + r.IntN(16)) // just below the surrogates
	default:
		return rune(0x10000 + r.IntN(0x400)) // first supplementary block: high surrogate D800
	}
}

func c13RandString(r *rand.Rand, maxLen int) []byte {
	n := r.IntN(maxLen + 1)
	var b []byte
	for i := 0; i < n; i++ {
		b = utf8.AppendRune(b, c13RandRune(r))
	}
	return b
}

func c13RandBad(r *rand.Rand, maxLen int) []byte {
	n := r.IntN(maxLen + 1)
	b := make([]byte, 0, n)
	for i := 0; i < n; i++ {
		switch r.IntN(4) {
		case 0:
			b = utf8.AppendRune(b, c13RandRune(r))
		case 1:
			b = append(b, byte(r.IntN(256)))
		default:
			b = append(b, c13BadBytes[r.IntN(len(c13BadBytes))])
		}
	}
	return b
}

func c13CompareCorr(c *Ctx) {
	// exhaustive part: every ordered pair of strings of ≤ L code points over the 12-point alphabet
	maxLen := 2
	alpha := c13Alphabet
	if c.Thorough() {
		maxLen = 3
	}
	strs := c13AllStrings(alpha, maxLen)
	// quick: all pairs over ≤2 code points (157² ≈ 2.5·10^4) + all pairs of ≤3-code-point strings over an 8-point sub-alphabet
	var strs3 [][]byte
	if !c.Thorough() {
		strs3 = c13AllStrings([]rune{0x7F, 0x80, 0x7FF, 0xD7FF, 0xE000, 0xFFFF, 0x10000, 0x10FFFF}, 3)
	}
	workers := c13Workers(c)
	var wg sync.WaitGroup
	const batch = 4000
	runExhaustive := func(set [][]byte, class string) {
		// split rows over the workers
		for w := 0; w < workers; w++ {
			wg.Add(1)
			go func(w int) {
				defer wg.Done()
				or := c.NewOracle()
				var pairs []c13Pair
				for i := w; i < len(set); i += workers {
					for j := range set {
						pairs = append(pairs, c13Pair{set[i], set[j]})
						if len(pairs) == batch {
							c13CheckPairs(c, or, class, pairs)
							pairs = pairs[:0]
						}
					}
				}
				c13CheckPairs(c, or, class, pairs)
			}(w)
		}
		wg.Wait()
	}
	runExhaustive(strs, fmt.Sprintf("exhaustive-le%d-of-12", maxLen))
	if strs3 != nil {
		runExhaustive(strs3, "exhaustive-le3-of-8")
	}
	c.Note("CompareUTF16: all ordered pairs of %d strings (≤%d code points over %d critical code points)", len(strs), maxLen, len(alpha))

	// random part
	n := c.N(60000, 4000000)
	per := n / workers
	for w := 0; w < workers; w++ {
		wg.Add(1)
		go func(w int) {
			defer wg.Done()
			r := c.SubRng(uint64(100 + w))
			or := c.NewOracle()
			classes := map[string][]c13Pair{}
			add := func(class string, x, y []byte) {
				classes[class] = append(classes[class], c13Pair{x, y})
			}
			for i := 0; i < per; i++ {
				switch r.IntN(8) {
				case 0: // independent valid strings
					add("random-valid", c13RandString(r, 6), c13RandString(r, 6))
				case 1, 2: // common prefix, then diverge
					p := c13RandString(r, 5)
					x := append(append([]byte{}, p...), c13RandString(r, 3)...)
					y := append(append([]byte{}, p...), c13RandString(r, 3)...)
					add("common-prefix", x, y)
				case 3: // proper prefix / equal
					p := c13RandString(r, 6)
					x := append(append([]byte{}, p...), c13RandString(r, 1)...)
					if r.IntN(2) == 0 {
						add("prefix", p, x)
					} else {
						add("prefix", x, p)
					}
				case 4: // ill-formed on both sides
					add("illformed", c13RandBad(r, 5), c13RandBad(r, 5))
				case 5: // valid prefix, ill-formed tails
					p := c13RandString(r, 3)
					x := append(append([]byte{}, p...), c13RandBad(r, 3)...)
					y := append(append([]byte{}, p...), c13RandBad(r, 3)...)
					add("illformed-after-prefix", x, y)
				case 6: // truncation of a valid string vs the string
					x := c13RandString(r, 4)
					if len(x) > 0 {
						add("truncated", x[:r.IntN(len(x))+0], x)
					}
				default: // one byte changed
					x := c13RandString(r, 4)
					y := append([]byte{}, x...)
					if len(y) > 0 {
						y[r.IntN(len(y))] = c13BadBytes[r.IntN(len(c13BadBytes))]
					}
					add("mutated", x, y)
				}
				if i%batch == batch-1 || i == per-1 {
					for class, ps := range classes {
						c13CheckPairs(c, or, class, ps)
					}
					classes = map[string][]c13Pair{}
				}
			}
		}(w)
	}
	wg.Wait()

	// exhaustive ill-formed: all pairs of byte strings of length ≤ 2 over the bad-byte alphabet (thorough: a sample of length 3)
	{
		var set [][]byte
		set = append(set, nil)
		for _, a := range c13BadBytes {
			set = append(set, []byte{a})
			for _, b := range c13BadBytes {
				set = append(set, []byte{a, b})
			}
		}
		// three-byte well-formed/ill-formed boundary sequences
		for _, s := range [][]byte{{0xE0, 0xA0, 0x80}, {0xE0, 0x9F, 0xBF}, {0xED, 0x9F, 0xBF}, {0xED, 0xA0, 0x80}, {0xEF, 0xBF, 0xBD}, {0xEF, 0xBF}, {0xEF},
			{0xF0, 0x90, 0x80, 0x80}, {0xF0, 0x8F, 0xBF, 0xBF}, {0xF4, 0x8F, 0xBF, 0xBF}, {0xF4, 0x90, 0x80, 0x80}, {0xF0, 0x9F, 0x98}, {0xF0, 0x9F}} {
			set = append(set, s)
		}
		if !c.Thorough() { // quick: a deterministic third of the rows
			var sub [][]byte
			for i, s := range set {
				if i%3 == 0 || len(s) != 2 {
					sub = append(sub, s)
				}
			}
			set = sub
		}
		runExhaustive(set, "exhaustive-bytes-le2")
	}

	// the spec functions themselves: utf16 and valid vs the standard library
	or := c.NewOracle()
	if or != nil {
		r := c.SubRng(99)
		var lines []string
		var want []string
		for i := 0; i < c.N(4000, 200000); i++ {
			var s []byte
			if r.IntN(3) == 0 {
				s = c13RandBad(r, 6)
			} else {
				s = c13RandString(r, 6)
			}
			lines = append(lines, "cmp valid "+hx(s))
			want = append(want, map[bool]string{false: "0", true: "1"}[utf8.Valid(s)])
			if utf8.Valid(s) {
				u := utf16.Encode([]rune(string(s)))
				var parts []string
				for _, x := range u {
					parts = append(parts, fmt.Sprintf("%04x", x))
				}
				w := strings.Join(parts, ",")
				if len(parts) == 0 {
					w = "-"
				}
				lines = append(lines, "cmp utf16 "+hx(s))
				want = append(want, w)
			}
		}
		got := or.Ask(lines)
		for i := range lines {
			c.Case(lines[i], true)
			c.Hit("spec/" + strings.Fields(lines[i])[1])
			if got[i] != want[i] {
				c.Violate("corr-spec", strings.Fields(lines[i])[1], nil, map[string]any{"line": lines[i], "stdlib": want[i], "model": got[i],
					"broken": "correspondence of Spec.Utf16Order / Model.Utf8 with unicode/utf16, unicode/utf8"})
			}
		}
	}
}

// ------------------------------------------------------------------------------------------
// sort correspondence: Value.Format(ReorderRawObjects) on a flat object vs the model sort

func c13RandName(r *rand.Rand, pool int) string {
	// names that share a prefix and then differ in a code point from the classes whose UTF-8 and UTF-16 orders disagree
	prefixes := []string{"", "a", "ké", "￿", "\U00010000", "x"}
	p := prefixes[r.IntN(len(prefixes))]
	n := r.IntN(3)
	var b []byte
	b = append(b, p...)
	for i := 0; i <= n; i++ {
		switch r.IntN(6) {
		case 0:
			b = utf8.AppendRune(b, rune(0xE000+r.IntN(0x2000))) // BMP above the surrogates
		case 1:
			b = utf8.AppendRune(b, rune(0x10000+r.IntN(0x100000))) // supplementary
		case 2:
			b = utf8.AppendRune(b, c13Alphabet[r.IntN(len(c13Alphabet))])
		case 3:
			b = utf8.AppendRune(b, rune('a'+r.IntN(pool)))
		case 4:
			b = utf8.AppendRune(b, rune(0xD700+r.IntN(0x100)))
		default:
			b = utf8.AppendRune(b, c13RandRune(r))
		}
	}
	return string(b)
}

func c13SortCorr(c *Ctx) {
	or := c.NewOracle()
	r := c.SubRng(7)
	n := c.N(3000, 200000)
	type q struct {
		line  string
		input []byte
		impl  string
		check func(ans string) bool // does the model's answer agree with what the implementation did
	}
	var batch []q
	flush := func() {
		if or != nil && len(batch) > 0 {
			lines := make([]string, len(batch))
			for i, b := range batch {
				lines[i] = b.line
			}
			got := or.Ask(lines)
			for i, b := range batch {
				if !b.check(got[i]) {
					c.Violate("corr-sort", "Value.Format(ReorderRawObjects)", b.input, map[string]any{"line": trunc(b.line, 400), "impl": b.impl, "model": got[i],
						"broken": "correspondence cmp.sort/msort (Model.Reorder vs mustReorderObjectsFromDecoder)"})
				}
			}
		}
		batch = batch[:0]
	}
	for i := 0; i < n; i++ {
		k := r.IntN(9)
		dup := r.IntN(4) == 0 // duplicate names (needs AllowDuplicateNames): exercises the tie-break on the member text
		var names []string
		seen := map[string]bool{}
		for len(names) < k {
			nm := c13RandName(r, 3)
			if dup && len(names) > 0 && r.IntN(2) == 0 {
				nm = names[r.IntN(len(names))]
			}
			if seen[nm] && !dup {
				continue
			}
			seen[nm] = true
			names = append(names, nm)
		}
		// member texts as the encoder buffer holds them when the reorder pass runs: compact, minimal strings
		text := []byte{'{'}
		bufs := make([][]byte, k)
		for j, nm := range names {
			var m []byte
			if j > 0 {
				m = append(m, ',')
			}
			m = append(m, c13MinimalQuote(nm)...)
			m = append(m, ':')
			m = append(m, strconv.Itoa(r.IntN(3))...)
			bufs[j] = m
			text = append(text, m...)
		}
		text = append(text, '}')
		v := jsontext.Value(append([]byte{}, text...))
		var err error
		if p := guard(func() { err = v.Format(jsontext.ReorderRawObjects(true), jsontext.AllowDuplicateNames(dup)) }); p != nil {
			c.Panic("Value.Format(ReorderRawObjects)", text, p, nil)
			continue
		}
		if err != nil {
			c.Violate("reorder-rejects-valid", "Value.Format(ReorderRawObjects)", text, map[string]any{"err": err.Error()})
			continue
		}
		c.Case("sort:"+string(text), k >= 2)
		c.Hit(fmt.Sprintf("sort/members=%d", k))
		if dup {
			c.Hit("sort/with-duplicates")
		}
		// the order of the members in the output (member texts without the separating commas)
		outMembers, ok := c13SplitFlatObject(v)
		if !ok || len(outMembers) != k {
			c.Violate("reorder-output-malformed", "Value.Format(ReorderRawObjects)", text, map[string]any{"out": string(v)})
			continue
		}
		if k == 0 {
			continue
		}
		// full members: the model answers with a permutation; permuting the input member texts with it must give the
		// implementation's output (members that tie are byte-identical, so any tie order agrees)
		line := fmt.Sprintf("cmp msort %d", k)
		for j := range names {
			line += " " + hx([]byte(names[j])) + " " + hx(bufs[j])
		}
		batch = append(batch, q{line, text, string(v), func(ans string) bool {
			idx := strings.Split(ans, ",")
			if len(idx) != k {
				return false
			}
			used := make([]bool, k)
			for j := 0; j < k; j++ {
				p, e := strconv.Atoi(idx[j])
				if e != nil || p < 0 || p >= k || used[p] || !bytes.Equal(bytes.TrimLeft(bufs[p], ","), outMembers[j]) {
					return false
				}
				used[p] = true
			}
			return true
		}})
		// distinct names only: the permutation itself must agree with sorting by the implementation's comparator
		if !dup {
			perm := make([]int, k)
			for j := range perm {
				perm[j] = j
			}
			sort.SliceStable(perm, func(a, b int) bool { return jsonwire.CompareUTF16([]byte(names[perm[a]]), []byte(names[perm[b]])) < 0 })
			var ws []string
			for _, p := range perm {
				ws = append(ws, strconv.Itoa(p))
			}
			l := fmt.Sprintf("cmp sort %d", k)
			for _, nm := range names {
				l += " " + hx([]byte(nm))
			}
			want := strings.Join(ws, ",")
			batch = append(batch, q{l, text, want, func(ans string) bool { return ans == want }})
		}
		if len(batch) >= 500 {
			flush()
		}
	}
	flush()
}

// c13SplitFlatObject splits `{"a":1,"b":2}` (scalar number values, no whitespace) into its member texts.
func c13SplitFlatObject(v []byte) ([][]byte, bool) {
	if len(v) < 2 || v[0] != '{' || v[len(v)-1] != '}' {
		return nil, false
	}
	body := v[1 : len(v)-1]
	var out [][]byte
	for len(body) > 0 {
		if body[0] != '"' {
			return nil, false
		}
		i := 1
		for i < len(body) && body[i] != '"' {
			if body[i] == '\\' {
				i++
			}
			i++
		}
		if i >= len(body) {
			return nil, false
		}
		i++ // closing quote
		if i >= len(body) || body[i] != ':' {
			return nil, false
		}
		i++
		for i < len(body) && body[i] != ',' {
			i++
		}
		out = append(out, body[:i])
		if i < len(body) {
			i++ // comma
			if i == len(body) {
				return nil, false
			}
		}
		body = body[i:]
	}
	return out, true
}

// ------------------------------------------------------------------------------------------
// reference canonical forms, written from RFC 8785 / ECMA-262 (independent of the implementation)

// c13MinimalQuote is RFC 8785 §3.2.2.2.
func c13MinimalQuote(s string) []byte {
	b := []byte{'"'}
	for _, r := range s {
		switch {
		case r == '"':
			b = append(b, '\\', '"')
		case r == '\\':
			b = append(b, '\\', '\\')
		case r == '\b':
			b = append(b, '\\', 'b')
		case r == '\t':
			b = append(b, '\\', 't')
		case r == '\n':
			b = append(b, '\\', 'n')
		case r == '\f':
			b = append(b, '\\', 'f')
		case r == '\r':
			b = append(b, '\\', 'r')
		case r < 0x20:
			b = append(b, fmt.Sprintf("\\u%04x", r)...)
		default:
			b = utf8.AppendRune(b, r)
		}
	}
	return append(b, '"')
}

// c13Ecma is ECMA-262 Number::toString(x) for a finite float64 (7.1.6.1 in ES2023), with -0 → "0".
// Only the shortest round-trip digit string is taken from strconv; the layout rules are written here.
func c13Ecma(f float64) string {
	if f == 0 {
		return "0"
	}
	neg := f < 0
	if neg {
		f = -f
	}
	s := strconv.FormatFloat(f, 'e', -1, 64) // d[.ddd]e±xx : the shortest digits that round-trip
	mant, exps, _ := strings.Cut(s, "e")
	digits := strings.Replace(mant, ".", "", 1)
	e10, err := strconv.Atoi(exps)
	if err != nil {
		fail("c13Ecma: %q", s)
	}
	k := len(digits)
	n := e10 + 1
	var out string
	switch {
	case k <= n && n <= 21:
		out = digits + strings.Repeat("0", n-k)
	case 0 < n && n <= 21:
		out = digits[:n] + "." + digits[n:]
	case -6 < n && n <= 0:
		out = "0." + strings.Repeat("0", -n) + digits
	default:
		e := n - 1
		sign := "+"
		if e < 0 {
			sign = "-"
			e = -e
		}
		if k == 1 {
			out = digits + "e" + sign + strconv.Itoa(e)
		} else {
			out = digits[:1] + "." + digits[1:] + "e" + sign + strconv.Itoa(e)
		}
	}
	if neg {
		out = "-" + out
	}
	return out
}

// c13Saturate is what RFC 8785 implementations must do with a literal outside the float64 range.
func c13Saturate(f float64) float64 {
	switch {
	case math.IsInf(f, 1):
		return math.MaxFloat64
	case math.IsInf(f, -1):
		return -math.MaxFloat64
	case f == 0:
		return 0
	}
	return f
}

// ------------------------------------------------------------------------------------------
// numbers on their own: literal → canonical literal (includes the 15/16/17-digit integers around 2^53)

func c13CanonOne(c *Ctx, op string, text []byte) ([]byte, error, bool) {
	v := jsontext.Value(append([]byte{}, text...))
	var err error
	if p := guard(func() { err = v.Canonicalize() }); p != nil {
		c.Panic(op, text, p, nil)
		return nil, nil, false
	}
	return v, err, true
}

func c13Numbers(c *Ctx) {
	r := c.SubRng(3)
	check := func(class, lit string) {
		f, _ := strconv.ParseFloat(lit, 64)
		want := c13Ecma(c13Saturate(f))
		out, err, ok := c13CanonOne(c, "Value.Canonicalize(number)", []byte(lit))
		if !ok {
			return
		}
		c.Case("num:"+lit, lit != want)
		c.Hit("number/" + class)
		if err != nil {
			c.Violate("canon-rejects-valid", "Value.Canonicalize(number)", []byte(lit), map[string]any{"err": err.Error()})
			return
		}
		if string(out) != want {
			c.Violate("canon-number", "Value.Canonicalize(number)", []byte(lit), map[string]any{"literal": lit, "impl": string(out), "ecma": want, "float64bits": fmt.Sprintf("%016x", math.Float64bits(f))})
		}
	}
	// integers with 14..18 digits around the bounds: 2^53, 10^15, 10^16, 10^17 (the `n < 16` shortcut in ReformatNumber counts the sign)
	bases := []uint64{1 << 53, 1 << 54, 1 << 55, 1e14, 1e15, 1e16, 1e17, 999999999999999, 9999999999999999, 99999999999999999,
		9007199254740993, 18014398509481985, 36028797018963971, 123456789012345678}
	span := int64(c.N(40, 2000))
	for _, b := range bases {
		for d := -span; d <= span; d++ {
			x := int64(b) + d
			s := strconv.FormatInt(x, 10)
			check(fmt.Sprintf("int-%ddigits", len(s)), s)
			check(fmt.Sprintf("negint-%ddigits", len(s)), "-"+s)
		}
	}
	for i := 0; i < c.N(3000, 300000); i++ {
		nd := 13 + r.IntN(8) // 13..20 digits
		b := make([]byte, nd)
		b[0] = byte('1' + r.IntN(9))
		for j := 1; j < nd; j++ {
			b[j] = byte('0' + r.IntN(10))
		}
		if r.IntN(3) == 0 { // trailing digits that force a rounding decision
			copy(b[nd-3:], []string{"001", "999", "500", "499", "501"}[r.IntN(5)])
		}
		s := string(b)
		if r.IntN(2) == 0 {
			s = "-" + s
		}
		check(fmt.Sprintf("randint-%dchars", len(s)), s)
	}
	// special literals
	for _, s := range []string{"0", "-0", "0.0", "-0.0", "0e0", "-0e-0", "0E+5", "-0.000e-3", "1e400", "-1e400", "1e-400", "-1e-400",
		"1.7976931348623157e308", "1.7976931348623158e308", "1.7976931348623159e308", "17976931348623157" + strings.Repeat("0", 292),
		"17976931348623159" + strings.Repeat("0", 292), "5e-324", "4.9e-324", "2.5e-324", "2.4e-324", "2.2250738585072014e-308", "2.2250738585072011e-308",
		"1e21", "1e20", "999999999999999999999", "1000000000000000000000", "123456789012345680000", "1e-6", "1e-7", "0.000001", "0.0000001", "0.00000123",
		"1e22", "1e23", "0.1", "0.30000000000000004", "0.3", "100", "1e2", "1E2", "1.0", "10e-1", "0.1e1", "1E0", "1e+0", "1e-0", "1.5e300", "333333333.33333329", "1E30", "4.50", "2e-3",
		"9007199254740992", "9007199254740993", "9007199254740994", "9007199254740995", "-9007199254740993", "900719925474099", "-900719925474099", "-90071992547409", "1" + strings.Repeat("0", 400)} {
		check("special", s)
	}
	// random float64 bit patterns, written shortest, with 17 significant digits, and with a long tail
	for i := 0; i < c.N(5000, 2000000); i++ {
		bits := r.Uint64()
		f := math.Float64frombits(bits)
		if math.IsInf(f, 0) || math.IsNaN(f) {
			continue
		}
		check("float-shortest", strconv.FormatFloat(f, 'e', -1, 64))
		check("float-17digits", strconv.FormatFloat(f, 'e', 16, 64))
		check("float-g", strconv.FormatFloat(f, 'g', -1, 64))
		if e := int(bits >> 52 & 0x7FF); e > 1023-80 && e < 1023+80 {
			check("float-f", strconv.FormatFloat(f, 'f', -1, 64))
		}
	}
}

// ------------------------------------------------------------------------------------------
// (b) random I-JSON trees and their spellings

type c13Node struct {
	kind  byte // 'n' 't' 'f' '0' '"' '[' '{'
	neg   bool
	dig   string // decimal digits without leading zeros ("0" for zero); value = ±dig·10^exp exactly
	exp   int
	asInt bool // always spell as a plain integer literal
	str   string
	elems []*c13Node
	names []string
	vals  []*c13Node
}

func (n *c13Node) float() float64 {
	s := n.dig + "e" + strconv.Itoa(n.exp)
	if n.neg {
		s = "-" + s
	}
	f, _ := strconv.ParseFloat(s, 64)
	return f
}

var c13StringRunes = []rune{0, 1, 7, 8, 9, 10, 12, 13, 0x1F, ' ', '"', '\\', '/', '<', '>', '&', 0x7F, 0x80, 0xA0, 0xE9, 0x7FF, 0x800, 0x2028, 0x2029,
	0xD7FF, 0xE000, 0xFFFD, 0xFFFE, 0xFFFF, 0x10000, 0x1F600, 0x10FFFF, 'u', 'n', 'a', 'z'}

func c13GenString(r *rand.Rand) string {
	n := r.IntN(7)
	var b []byte
	for i := 0; i < n; i++ {
		if r.IntN(3) == 0 {
			b = utf8.AppendRune(b, c13RandRune(r))
		} else {
			b = utf8.AppendRune(b, c13StringRunes[r.IntN(len(c13StringRunes))])
		}
	}
	return string(b)
}

func c13GenNumber(r *rand.Rand) *c13Node {
	n := &c13Node{kind: '0'}
	n.neg = r.IntN(3) == 0
	switch r.IntN(10) {
	case 0: // zero in all spellings
		n.dig, n.exp = "0", r.IntN(9)-4
	case 1: // small integers
		n.dig, n.exp = strconv.Itoa(r.IntN(1001)), 0
	case 2: // integers around 2^53 / 15..17 digits
		bases := []uint64{1 << 53, 1e15, 1e16, 1e17, 999999999999999, 9007199254740993, 72057594037927935}
		x := bases[r.IntN(len(bases))] + uint64(r.IntN(9)) - 4
		n.dig, n.exp, n.asInt = strconv.FormatUint(x, 10), 0, r.IntN(2) == 0
	case 3: // layout switch points of Number::toString
		cands := [][2]any{{"1", 21}, {"1", 20}, {"1", -6}, {"1", -7}, {"123", -8}, {"999999999999999999999", 0}, {"12345678901234568", 4},
			{"5", -324}, {"17976931348623157", 292}, {"1", 22}, {"1", 23}, {"30000000000000004", -17}, {"25", -1}, {"1", 0}, {"1", 2}}
		p := cands[r.IntN(len(cands))]
		n.dig, n.exp = p[0].(string), p[1].(int)
	case 4: // out of range: saturates / underflows
		cands := [][2]any{{"1", 400}, {"17976931348623159", 292}, {"1", -400}, {"2", 308}, {"9", 999}}
		p := cands[r.IntN(len(cands))]
		n.dig, n.exp = p[0].(string), p[1].(int)
	case 5, 6: // random float64, shortest digits
		f := math.Float64frombits(r.Uint64())
		for math.IsInf(f, 0) || math.IsNaN(f) {
			f = math.Float64frombits(r.Uint64())
		}
		n.neg = f < 0
		n.dig, n.exp = c13Digits(math.Abs(f), -1)
	case 7: // random float64 in a human range, 17 digits (not shortest)
		f := (r.Float64() - 0.5) * math.Pow(10, float64(r.IntN(30)-10))
		n.neg = f < 0
		n.dig, n.exp = c13Digits(math.Abs(f), 16)
	default: // short decimal
		n.dig, n.exp = strconv.Itoa(1+r.IntN(99999)), r.IntN(12)-8
	}
	return n
}

// c13Digits returns (digits, exp) with f = digits·10^exp for the given 'e' precision.
func c13Digits(f float64, prec int) (string, int) {
	if f == 0 {
		return "0", 0
	}
	s := strconv.FormatFloat(f, 'e', prec, 64)
	mant, exps, _ := strings.Cut(s, "e")
	digits := strings.Replace(mant, ".", "", 1)
	e10, _ := strconv.Atoi(exps)
	exp := e10 - (len(digits) - 1)
	// strip trailing zeros into the exponent
	for len(digits) > 1 && digits[len(digits)-1] == '0' {
		digits = digits[:len(digits)-1]
		exp++
	}
	return digits, exp
}

func c13GenNode(r *rand.Rand, depth int) *c13Node {
	k := r.IntN(10)
	if depth <= 0 && k >= 6 {
		k = r.IntN(6)
	}
	switch k {
	case 0:
		return &c13Node{kind: "ntf"[r.IntN(3)]}
	case 1, 2, 3:
		return c13GenNumber(r)
	case 4, 5:
		return &c13Node{kind: '"', str: c13GenString(r)}
	case 6, 7:
		n := &c13Node{kind: '['}
		for i, m := 0, r.IntN(5); i < m; i++ {
			n.elems = append(n.elems, c13GenNode(r, depth-1))
		}
		return n
	default:
		n := &c13Node{kind: '{'}
		m := r.IntN(7)
		seen := map[string]bool{}
		for len(n.names) < m {
			var nm string
			if r.IntN(4) == 0 {
				nm = c13GenString(r)
			} else {
				nm = c13RandName(r, 4)
			}
			if seen[nm] {
				continue
			}
			seen[nm] = true
			n.names = append(n.names, nm)
			n.vals = append(n.vals, c13GenNode(r, depth-1))
		}
		return n
	}
}

// spelling knobs
type c13Style struct {
	r        *rand.Rand
	ws       int // 0: none, else probability weight of whitespace between tokens
	escape   int // 0: minimal, 1: mixed, 2: everything as \uXXXX, 3: minimal except ONE control character spelled \u00XX
	oneCtl   rune // escape == 3: the control character (\b \f \n \r \t) written as \u00XX …
	oneUpper bool // … with upper-case hex digits
	numbers  bool
	permute  bool
	spelled  map[string]int // statistics
	numForms map[string]int
}

func (s *c13Style) space(b []byte) []byte {
	if s.ws == 0 {
		return b
	}
	for s.r.IntN(4) < s.ws {
		b = append(b, " \t\n\r"[s.r.IntN(4)])
	}
	return b
}

func (s *c13Style) quote(b []byte, str string) []byte {
	b = append(b, '"')
	for _, r := range str {
		if s.escape == 3 && r == s.oneCtl {
			// the ONLY non-canonical feature of the literal: the \u00XX spelling of a character that has a two-character escape
			if s.oneUpper {
				b = append(b, fmt.Sprintf("\\u%04X", r)...)
			} else {
				b = append(b, fmt.Sprintf("\\u%04x", r)...)
			}
			s.spelled[fmt.Sprintf("single-feature-u%04x-upper=%v", r, s.oneUpper)]++
			continue
		}
		mode := 0 // 0 literal if allowed, 1 short escape if exists, 2 \uXXXX
		switch s.escape {
		case 1:
			mode = s.r.IntN(3)
		case 2:
			mode = 2
		}
		short := ""
		switch r {
		case '"':
			short = `\"`
		case '\\':
			short = `\\`
		case '/':
			short = `\/`
		case '\b':
			short = `\b`
		case '\f':
			short = `\f`
		case '\n':
			short = `\n`
		case '\r':
			short = `\r`
		case '\t':
			short = `\t`
		}
		mustEscape := r < 0x20 || r == '"' || r == '\\'
		switch {
		case mode == 0 && !mustEscape:
			b = utf8.AppendRune(b, r)
		case (mode == 0 || mode == 1) && short != "":
			b = append(b, short...)
			s.spelled["short-escape"]++
		case mode == 1 && !mustEscape:
			b = utf8.AppendRune(b, r)
		default:
			format := "\\u%04x"
			if s.escape != 0 && s.escape != 3 && s.r.IntN(2) == 0 { // the minimal styles keep the canonical lower case
				format = "\\u%04X"
			}
			if r >= 0x10000 {
				hi, lo := utf16.EncodeRune(r)
				b = append(b, fmt.Sprintf(format, hi)...)
				b = append(b, fmt.Sprintf(format, lo)...)
				s.spelled["surrogate-pair-escape"]++
			} else {
				b = append(b, fmt.Sprintf(format, r)...)
				s.spelled["u-escape"]++
			}
		}
	}
	return append(b, '"')
}

func (s *c13Style) exponent(b []byte, e int, mayOmit bool) []byte {
	if e == 0 && mayOmit && s.r.IntN(2) == 0 {
		return b
	}
	b = append(b, "eE"[s.r.IntN(2)])
	switch {
	case e < 0:
		b = append(b, '-')
		e = -e
	case e == 0 && s.r.IntN(3) == 0:
		b = append(b, '-')
	case s.r.IntN(2) == 0:
		b = append(b, '+')
	}
	b = append(b, strings.Repeat("0", s.r.IntN(3))...)
	return append(b, strconv.Itoa(e)...)
}

// number writes one spelling of ±dig·10^exp; every form denotes exactly the same decimal.
func (s *c13Style) number(b []byte, n *c13Node) []byte {
	if n.neg {
		b = append(b, '-')
	}
	k := len(n.dig)
	simple := func() []byte { // shortest-looking spelling, used when numbers are not being respelled
		if n.dig == "0" {
			return append(b, '0')
		}
		if n.exp >= 0 && k+n.exp <= 25 {
			return append(append(b, n.dig...), strings.Repeat("0", n.exp)...)
		}
		b = append(b, n.dig...)
		b = append(b, 'e')
		return append(b, strconv.Itoa(n.exp)...)
	}
	if n.asInt || !s.numbers {
		return simple()
	}
	form := s.r.IntN(5)
	switch form {
	case 0: // plain integer (when it is one and not absurdly long), else fall through to point-inside
		if n.dig == "0" {
			s.numForms["integer"]++
			return append(b, '0')
		}
		if n.exp >= 0 && k+n.exp <= 40 {
			s.numForms["integer"]++
			return append(append(b, n.dig...), strings.Repeat("0", n.exp)...)
		}
		fallthrough
	case 1: // decimal point inside (or right after) the digits
		i := 1 + s.r.IntN(k)
		if n.dig == "0" {
			i = 1
		}
		b = append(b, n.dig[:i]...)
		frac := n.dig[i:] + strings.Repeat("0", s.r.IntN(3))
		if frac != "" {
			b = append(b, '.')
			b = append(b, frac...)
		}
		s.numForms["point-inside"]++
		return s.exponent(b, n.exp+(k-i), true)
	case 2: // 0.000ddd e…
		z := s.r.IntN(4)
		b = append(b, "0."...)
		b = append(b, strings.Repeat("0", z)...)
		b = append(b, n.dig...)
		b = append(b, strings.Repeat("0", s.r.IntN(3))...)
		s.numForms["leading-zero-point"]++
		return s.exponent(b, n.exp+k+z, true)
	case 3: // mantissa padded with zeros, exponent lowered
		z := s.r.IntN(4)
		if n.dig == "0" {
			z = 0
		}
		b = append(b, n.dig...)
		b = append(b, strings.Repeat("0", z)...)
		s.numForms["padded-mantissa"]++
		return s.exponent(b, n.exp-z, true)
	default: // plain decimal without exponent when that is short enough
		if n.exp < 0 && -n.exp <= 30 {
			s.numForms["plain-decimal"]++
			if -n.exp >= k {
				b = append(b, "0."...)
				b = append(b, strings.Repeat("0", -n.exp-k)...)
				return append(b, n.dig...)
			}
			b = append(b, n.dig[:k+n.exp]...)
			b = append(b, '.')
			return append(b, n.dig[k+n.exp:]...)
		}
		s.numForms["mantissa-exponent"]++
		b = append(b, n.dig...)
		return s.exponent(b, n.exp, false)
	}
}

func (s *c13Style) spell(b []byte, n *c13Node) []byte {
	switch n.kind {
	case 'n':
		return append(b, "null"...)
	case 't':
		return append(b, "true"...)
	case 'f':
		return append(b, "false"...)
	case '0':
		return s.number(b, n)
	case '"':
		return s.quote(b, n.str)
	case '[':
		b = append(b, '[')
		b = s.space(b)
		for i, e := range n.elems {
			if i > 0 {
				b = append(b, ',')
				b = s.space(b)
			}
			b = s.spell(b, e)
			b = s.space(b)
		}
		return append(b, ']')
	default:
		idx := make([]int, len(n.names))
		for i := range idx {
			idx[i] = i
		}
		if s.permute {
			s.r.Shuffle(len(idx), func(i, j int) { idx[i], idx[j] = idx[j], idx[i] })
		}
		b = append(b, '{')
		b = s.space(b)
		for i, j := range idx {
			if i > 0 {
				b = append(b, ',')
				b = s.space(b)
			}
			b = s.quote(b, n.names[j])
			b = s.space(b)
			b = append(b, ':')
			b = s.space(b)
			b = s.spell(b, n.vals[j])
			b = s.space(b)
		}
		return append(b, '}')
	}
}

// c13Reference renders the RFC 8785 form of the tree directly (sorted by utf16.Encode, minimal strings, ECMA numbers).
func c13Reference(b []byte, n *c13Node) []byte {
	switch n.kind {
	case 'n':
		return append(b, "null"...)
	case 't':
		return append(b, "true"...)
	case 'f':
		return append(b, "false"...)
	case '0':
		return append(b, c13Ecma(c13Saturate(n.float()))...)
	case '"':
		return append(b, c13MinimalQuote(n.str)...)
	case '[':
		b = append(b, '[')
		for i, e := range n.elems {
			if i > 0 {
				b = append(b, ',')
			}
			b = c13Reference(b, e)
		}
		return append(b, ']')
	default:
		idx := make([]int, len(n.names))
		for i := range idx {
			idx[i] = i
		}
		sort.Slice(idx, func(a, c int) bool {
			return slices.Compare(utf16.Encode([]rune(n.names[idx[a]])), utf16.Encode([]rune(n.names[idx[c]]))) < 0
		})
		b = append(b, '{')
		for i, j := range idx {
			if i > 0 {
				b = append(b, ',')
			}
			b = append(b, c13MinimalQuote(n.names[j])...)
			b = append(b, ':')
			b = c13Reference(b, n.vals[j])
		}
		return append(b, '}')
	}
}

// c13ToAny is the value the tree denotes, in the shape json.Unmarshal into `any` produces.
func c13ToAny(n *c13Node) any {
	switch n.kind {
	case 'n':
		return nil
	case 't':
		return true
	case 'f':
		return false
	case '0':
		return c13Saturate(n.float())
	case '"':
		return n.str
	case '[':
		a := make([]any, 0, len(n.elems))
		for _, e := range n.elems {
			a = append(a, c13ToAny(e))
		}
		return a
	default:
		m := make(map[string]any, len(n.names))
		for i, nm := range n.names {
			m[nm] = c13ToAny(n.vals[i])
		}
		return m
	}
}

func c13EqualAny(a, b any) bool {
	switch x := a.(type) {
	case nil:
		return b == nil
	case bool:
		y, ok := b.(bool)
		return ok && x == y
	case float64:
		y, ok := b.(float64)
		return ok && x == y
	case string:
		y, ok := b.(string)
		return ok && x == y
	case []any:
		y, ok := b.([]any)
		if !ok || len(x) != len(y) {
			return false
		}
		for i := range x {
			if !c13EqualAny(x[i], y[i]) {
				return false
			}
		}
		return true
	case map[string]any:
		y, ok := b.(map[string]any)
		if !ok || len(x) != len(y) {
			return false
		}
		for k, v := range x {
			w, ok := y[k]
			if !ok || !c13EqualAny(v, w) {
				return false
			}
		}
		return true
	}
	return false
}

func (n *c13Node) overflows() bool {
	switch n.kind {
	case '0':
		return math.IsInf(n.float(), 0)
	case '[':
		for _, e := range n.elems {
			if e.overflows() {
				return true
			}
		}
	case '{':
		for _, e := range n.vals {
			if e.overflows() {
				return true
			}
		}
	}
	return false
}

// ---- independent scanner for the canonical output: checks the form token by token

type c13Scan struct {
	b        []byte
	i        int
	problems []string
	objects  int
	maxDepth int
}

func (s *c13Scan) problem(format string, a ...any) {
	if len(s.problems) < 4 {
		s.problems = append(s.problems, fmt.Sprintf(format, a...)+fmt.Sprintf(" at offset %d", s.i))
	}
}

// str scans a string literal and returns its raw bytes and its unescaped value.
func (s *c13Scan) str() (raw []byte, val string, ok bool) {
	start := s.i
	if s.i >= len(s.b) || s.b[s.i] != '"' {
		s.problem("expected string")
		return nil, "", false
	}
	s.i++
	var out []byte
	for s.i < len(s.b) && s.b[s.i] != '"' {
		ch := s.b[s.i]
		if ch == '\\' {
			if s.i+1 >= len(s.b) {
				s.problem("truncated escape")
				return nil, "", false
			}
			e := s.b[s.i+1]
			s.i += 2
			switch e {
			case '"', '\\', '/':
				out = append(out, e)
			case 'b':
				out = append(out, '\b')
			case 'f':
				out = append(out, '\f')
			case 'n':
				out = append(out, '\n')
			case 'r':
				out = append(out, '\r')
			case 't':
				out = append(out, '\t')
			case 'u':
				if s.i+4 > len(s.b) {
					s.problem("truncated \\u")
					return nil, "", false
				}
				v, err := strconv.ParseUint(string(s.b[s.i:s.i+4]), 16, 16)
				if err != nil {
					s.problem("bad \\u")
					return nil, "", false
				}
				s.i += 4
				r := rune(v)
				if utf16.IsSurrogate(r) {
					if s.i+6 <= len(s.b) && s.b[s.i] == '\\' && s.b[s.i+1] == 'u' {
						v2, err := strconv.ParseUint(string(s.b[s.i+2:s.i+6]), 16, 16)
						if err == nil {
							if rr := utf16.DecodeRune(r, rune(v2)); rr != utf8.RuneError {
								r = rr
								s.i += 6
							}
						}
					}
				}
				out = utf8.AppendRune(out, r)
			default:
				s.problem("bad escape")
				return nil, "", false
			}
			continue
		}
		out = append(out, ch)
		s.i++
	}
	if s.i >= len(s.b) {
		s.problem("unterminated string")
		return nil, "", false
	}
	s.i++
	return s.b[start:s.i], string(out), true
}

func (s *c13Scan) value(depth int) bool {
	if depth > s.maxDepth {
		s.maxDepth = depth
	}
	if s.i >= len(s.b) {
		s.problem("unexpected end")
		return false
	}
	switch ch := s.b[s.i]; {
	case ch == ' ' || ch == '\t' || ch == '\n' || ch == '\r':
		s.problem("whitespace")
		return false
	case ch == '{':
		s.objects++
		s.i++
		var prev []uint16
		first := true
		for {
			if s.i < len(s.b) && s.b[s.i] == '}' && first {
				s.i++
				return true
			}
			raw, name, ok := s.str()
			if !ok {
				return false
			}
			if !bytes.Equal(raw, c13MinimalQuote(name)) {
				s.problem("name %q is not minimally spelled", raw)
			}
			u := utf16.Encode([]rune(name))
			if !first && slices.Compare(prev, u) >= 0 {
				s.problem("member %q not after its predecessor in UTF-16 order", name)
			}
			prev, first = u, false
			if s.i >= len(s.b) || s.b[s.i] != ':' {
				s.problem("expected ':'")
				return false
			}
			s.i++
			if !s.value(depth + 1) {
				return false
			}
			if s.i < len(s.b) && s.b[s.i] == ',' {
				s.i++
				continue
			}
			if s.i < len(s.b) && s.b[s.i] == '}' {
				s.i++
				return true
			}
			s.problem("expected ',' or '}'")
			return false
		}
	case ch == '[':
		s.i++
		if s.i < len(s.b) && s.b[s.i] == ']' {
			s.i++
			return true
		}
		for {
			if !s.value(depth + 1) {
				return false
			}
			if s.i < len(s.b) && s.b[s.i] == ',' {
				s.i++
				continue
			}
			if s.i < len(s.b) && s.b[s.i] == ']' {
				s.i++
				return true
			}
			s.problem("expected ',' or ']'")
			return false
		}
	case ch == '"':
		raw, val, ok := s.str()
		if !ok {
			return false
		}
		if !bytes.Equal(raw, c13MinimalQuote(val)) {
			s.problem("string %q is not minimally spelled", raw)
		}
		return true
	case ch == '-' || (ch >= '0' && ch <= '9'):
		start := s.i
		for s.i < len(s.b) && strings.IndexByte("+-0123456789.eE", s.b[s.i]) >= 0 {
			s.i++
		}
		lit := string(s.b[start:s.i])
		f, err := strconv.ParseFloat(lit, 64)
		if err != nil {
			s.problem("number %q does not parse: %v", lit, err)
			return true
		}
		if want := c13Ecma(f); want != lit {
			s.problem("number %q is not the ECMAScript form %q of its value", lit, want)
		}
		return true
	default:
		for _, l := range []string{"null", "true", "false"} {
			if bytes.HasPrefix(s.b[s.i:], []byte(l)) {
				s.i += len(l)
				return true
			}
		}
		s.problem("unexpected byte %q", ch)
		return false
	}
}

func c13ScanCanonical(b []byte) (*c13Scan, bool) {
	s := &c13Scan{b: b}
	ok := s.value(0)
	if ok && s.i != len(b) {
		s.problem("trailing bytes")
		ok = false
	}
	return s, ok && len(s.problems) == 0
}


// c13NumberTable scans a text for number literals (outside strings) and returns the oracle's float table:
// for every literal the bits of the magnitude of its (saturated) float64 value with strconv's shortest digits.
func c13NumberTable(text []byte) []string {
	seen := map[uint64]bool{}
	var out []string
	add := func(f float64) {
		f = math.Abs(c13Saturate(f))
		if f == 0 {
			return
		}
		bits := math.Float64bits(f)
		if seen[bits] {
			return
		}
		seen[bits] = true
		s := strconv.FormatFloat(f, 'e', -1, 64)
		mant, exps, _ := strings.Cut(s, "e")
		e10, _ := strconv.Atoi(exps)
		out = append(out, fmt.Sprintf("%x:%s:%d", bits, strings.Replace(mant, ".", "", 1), e10+1))
	}
	for i := 0; i < len(text); {
		switch ch := text[i]; {
		case ch == '"':
			i++
			for i < len(text) && text[i] != '"' {
				if text[i] == '\\' {
					i++
				}
				i++
			}
			i++
		case ch == '-' || (ch >= '0' && ch <= '9'):
			j := i
			for j < len(text) && strings.IndexByte("+-0123456789.eE", text[j]) >= 0 {
				j++
			}
			if f, err := strconv.ParseFloat(string(text[i:j]), 64); err == nil || math.IsInf(f, 0) {
				add(f)
			}
			i = j
		default:
			i++
		}
	}
	return out
}

// c13CanonLine is the oracle request for one text together with the implementation's answer in the oracle's format.
func c13CanonLine(c *Ctx, text []byte) (line, want string, ok bool) {
	out, err, ok := c13CanonOne(c, "Value.Canonicalize", text)
	if !ok {
		return "", "", false
	}
	want = "err"
	if err == nil {
		want = "ok " + hx(out)
	}
	line = "cmp canon " + hx(text)
	for _, e := range c13NumberTable(text) {
		line += " " + e
	}
	return line, want, true
}

// c13EscapeSweep: for EACH of \b \f \n \r \t, in lower and in upper case, literals whose ONLY non-canonical feature is
// the \u00XX spelling of that one character — as a string value and as a member name, alone and surrounded by
// canonically spelled content (ReformatString copies a literal verbatim when ConsumeString reports no
// non-canonical feature, so any second feature in the same literal would hide a hole in that report).
func c13EscapeSweep(c *Ctx) {
	r := c.SubRng(55)
	stats, forms := map[string]int{}, map[string]int{}
	contexts := []func(s string) string{
		func(s string) string { return s },
		func(s string) string { return "a" + s + "b" },
		func(s string) string { return s + s },
		func(s string) string { return "é\"" + s + "\\\x01\x1f\x7f\u2028" + "\U0001F600" }, // canonical neighbours: \" \\ \u0001 \u001f DEL U+2028 4-byte
		func(s string) string { return "\b\f\n\r\t" + s },                                   // the other short escapes, spelled canonically
	}
	for _, ctl := range "\b\f\n\r\t" {
		for _, upper := range []bool{false, true} {
			for ci, ctx := range contexts {
				str := ctx(string(ctl))
				val := &c13Node{kind: '"', str: str}
				trees := []*c13Node{
					val,
					{kind: '[', elems: []*c13Node{val, {kind: 't'}}},
					{kind: '{', names: []string{str}, vals: []*c13Node{{kind: 'n'}}},
					{kind: '{', names: []string{"z", str, "a" + str}, vals: []*c13Node{{kind: 'f'}, val, {kind: '{', names: []string{str}, vals: []*c13Node{val}}}},
				}
				for ti, tree := range trees {
					one := &c13Style{r: r, escape: 3, oneCtl: ctl, oneUpper: upper, spelled: stats, numForms: forms}
					min := &c13Style{r: r, escape: 0, spelled: stats, numForms: forms}
					t1 := one.spell(nil, tree)
					t2 := min.spell(nil, tree)
					c.Hit(fmt.Sprintf("escape-sweep/u%04x/upper=%v", ctl, upper))
					_ = ci
					_ = ti
					c13CheckTree(c, tree, t1, t2)
				}
			}
		}
	}
}

// ---- the predicate

func c13Canonicalize(c *Ctx) {
	workers := c13Workers(c)
	n := c.N(24000, 1500000)
	per := n / workers
	var wg sync.WaitGroup
	for w := 0; w < workers; w++ {
		wg.Add(1)
		go func(w int) {
			defer wg.Done()
			r := c.SubRng(uint64(1000 + w))
			or := c.NewOracle()
			stats := map[string]int{}
			numForms := map[string]int{}
			var sortLines []string
			var sortWant []string
			var sortIn [][]byte
			var canonLines, canonWant []string
			var canonIn [][]byte
			addCanon := func(text []byte, class string) {
				if or == nil {
					return
				}
				if l, w, ok := c13CanonLine(c, text); ok {
					canonLines, canonWant, canonIn = append(canonLines, l), append(canonWant, w), append(canonIn, text)
					c.Hit("canon-corr/" + class + "/" + w[:2])
				}
			}
			flushSort := func() {
				if or != nil && len(canonLines) > 0 {
					got := or.Ask(canonLines)
					for i := range got {
						if got[i] != canonWant[i] {
							c.Violate("corr-canon", "Value.Canonicalize", canonIn[i], map[string]any{"text": trunc(string(canonIn[i]), 400), "impl": trunc(string(unhxOK(canonWant[i])), 400), "model": trunc(string(unhxOK(got[i])), 400),
								"broken": "correspondence cmp.canon (Model.Canon.canonicalize vs Value.Canonicalize)"})
						}
					}
				}
				canonLines, canonWant, canonIn = nil, nil, nil
				if or != nil && len(sortLines) > 0 {
					got := or.Ask(sortLines)
					for i := range got {
						if got[i] != sortWant[i] {
							c.Violate("corr-canon-order", "Value.Canonicalize", sortIn[i], map[string]any{"line": trunc(sortLines[i], 400), "impl": sortWant[i], "model": got[i],
								"broken": "member order of Canonicalize vs Model.Reorder.sortPerm (proved sorted/unique)"})
						}
					}
				}
				sortLines, sortWant, sortIn = nil, nil, nil
			}
			for i := 0; i < per; i++ {
				tree := c13GenNode(r, 1+r.IntN(4))
				if r.IntN(3) == 0 && tree.kind != '{' { // bias towards objects at the top
					tree = &c13Node{kind: '{', names: []string{"k", "￿", "\U00010000"}, vals: []*c13Node{tree, c13GenNode(r, 2), c13GenNode(r, 1)}}
				}
				st1 := &c13Style{r: r, ws: r.IntN(3), escape: r.IntN(4), oneCtl: rune("\b\f\n\r\t"[r.IntN(5)]), oneUpper: r.IntN(2) == 0,
					numbers: r.IntN(2) == 0, permute: true, spelled: stats, numForms: numForms}
				st2 := &c13Style{r: r, ws: r.IntN(3), escape: r.IntN(3), numbers: true, permute: true, spelled: stats, numForms: numForms}
				t1 := st1.space(nil)
				t1 = st1.spell(t1, tree)
				t1 = st1.space(t1)
				t2 := st2.spell(nil, tree)
				c13CheckTree(c, tree, t1, t2)
				addCanon(t1, "valid")
				if r.IntN(4) == 0 {
					addCanon(t2, "valid")
				}

				// member order of the top-level object vs the proven model sort
				if tree.kind == '{' && len(tree.names) >= 2 && or != nil {
					// what the implementation did: read the order of names back from its output
					out, err, ok := c13CanonOne(c, "Value.Canonicalize", t2)
					if ok && err == nil {
						if order, ok := c13TopNames(out); ok && len(order) == len(tree.names) {
							pos := map[string]int{}
							for j, nm := range tree.names {
								pos[nm] = j
							}
							var ws []string
							for _, nm := range order {
								ws = append(ws, strconv.Itoa(pos[nm]))
							}
							l := fmt.Sprintf("cmp sort %d", len(tree.names))
							for _, nm := range tree.names {
								l += " " + hx([]byte(nm))
							}
							sortLines = append(sortLines, l)
							sortWant = append(sortWant, strings.Join(ws, ","))
							sortIn = append(sortIn, t2)
						}
					}
				}
				if len(sortLines) >= 300 || len(canonLines) >= 300 {
					flushSort()
				}

				// invalid I-JSON derived from the same tree
				if r.IntN(3) == 0 {
					if bad := c13CheckInvalid(c, r, tree, st2); bad != nil {
						addCanon(bad, "invalid")
					}
				}
			}
			flushSort()
			for k, v := range stats {
				c.HitN("respell/"+k, int64(v))
			}
			for k, v := range numForms {
				c.HitN("respell/number-"+k, int64(v))
			}
		}(w)
	}
	wg.Wait()
}

// c13TopNames returns the unescaped member names of a canonical top-level object in output order.
func c13TopNames(b []byte) ([]string, bool) {
	d := jsontext.NewDecoder(bytes.NewReader(b))
	var names []string
	ok := true
	if p := guard(func() {
		tok, err := d.ReadToken()
		if err != nil || tok.Kind() != '{' {
			ok = false
			return
		}
		for d.PeekKind() != '}' {
			tok, err := d.ReadToken()
			if err != nil {
				ok = false
				return
			}
			names = append(names, tok.String())
			if err := d.SkipValue(); err != nil {
				ok = false
				return
			}
		}
	}); p != nil {
		return nil, false
	}
	return names, ok
}

func c13Shape(n *c13Node, c *Ctx, depth int) (members, maxDepth int, hiBMP, supp bool) {
	maxDepth = depth
	switch n.kind {
	case '[':
		for _, e := range n.elems {
			m, d, h, s := c13Shape(e, c, depth+1)
			members += m
			maxDepth = max(maxDepth, d)
			hiBMP, supp = hiBMP || h, supp || s
		}
	case '{':
		members += len(n.names)
		for i, e := range n.vals {
			for _, r := range n.names[i] {
				if r >= 0xE000 && r <= 0xFFFF {
					hiBMP = true
				}
				if r >= 0x10000 {
					supp = true
				}
			}
			m, d, h, s := c13Shape(e, c, depth+1)
			members += m
			maxDepth = max(maxDepth, d)
			hiBMP, supp = hiBMP || h, supp || s
		}
	}
	return
}

func c13CheckTree(c *Ctx, tree *c13Node, t1, t2 []byte) {
	const op = "Value.Canonicalize"
	c1, err1, ok := c13CanonOne(c, op, t1)
	if !ok {
		return
	}
	members, depth, hiBMP, supp := c13Shape(tree, c, 0)
	want := c13Reference(nil, tree)
	c.Case(string(t1)+"\x00"+string(t2), !bytes.Equal(t1, want) || !bytes.Equal(t2, want))
	c.Hit("tree/kind=" + string(tree.kind))
	c.Hit(fmt.Sprintf("tree/depth=%d", depth))
	switch {
	case members == 0:
		c.Hit("tree/members=0")
	case members < 4:
		c.Hit("tree/members=1-3")
	case members < 16:
		c.Hit("tree/members=4-15")
	default:
		c.Hit("tree/members>=16")
	}
	if hiBMP && supp {
		c.Hit("tree/names-mix-E000-FFFF-and-supplementary")
	}
	c.Sample(map[string]any{"text": trunc(string(t1), 200), "respelled": trunc(string(t2), 200), "canonical": trunc(string(want), 200)})
	if err1 != nil {
		c.Violate("canon-rejects-valid", op, t1, map[string]any{"err": err1.Error()})
		return
	}
	// the form, checked token by token by an independent scanner
	if sc, good := c13ScanCanonical(c1); !good {
		c.Violate("canon-form", op, t1, map[string]any{"out": trunc(string(c1), 600), "problems": sc.problems})
	}
	// …and against the reference rendering of the tree
	if !bytes.Equal(c1, want) {
		c.Violate("canon-reference", op, t1, map[string]any{"out": trunc(string(c1), 600), "want": trunc(string(want), 600)})
	}
	// denotes the same value
	var got any
	var uerr error
	if p := guard(func() { uerr = json.Unmarshal(c1, &got) }); p != nil {
		c.Panic("json.Unmarshal(canonical)", c1, p, nil)
	} else if uerr != nil {
		c.Violate("canon-output-undecodable", op, t1, map[string]any{"out": trunc(string(c1), 600), "err": uerr.Error()})
	} else if !c13EqualAny(got, c13ToAny(tree)) {
		c.Violate("canon-value-changed", op, t1, map[string]any{"out": trunc(string(c1), 600)})
	}
	if !tree.overflows() {
		var orig any
		if p := guard(func() { uerr = json.Unmarshal(t1, &orig) }); p != nil {
			c.Panic("json.Unmarshal(original)", t1, p, nil)
		} else if uerr != nil {
			c.Violate("original-undecodable", "json.Unmarshal", t1, map[string]any{"err": uerr.Error()})
		} else if !c13EqualAny(got, orig) {
			c.Violate("canon-value-changed", op, t1, map[string]any{"out": trunc(string(c1), 600), "note": "Unmarshal(original) != Unmarshal(canonical)"})
		}
	} else {
		c.Hit("tree/has-out-of-range-number")
	}
	// the other spelling canonicalizes to the same bytes
	c2, err2, ok := c13CanonOne(c, op, t2)
	if !ok {
		return
	}
	if err2 != nil {
		c.Violate("canon-rejects-valid", op, t2, map[string]any{"err": err2.Error()})
	} else if !bytes.Equal(c1, c2) {
		c.Violate("canon-class", op, t1, map[string]any{"t1": trunc(string(t1), 600), "t2": trunc(string(t2), 600), "c1": trunc(string(c1), 600), "c2": trunc(string(c2), 600)})
	}
	// fixed point
	c3, err3, ok := c13CanonOne(c, op, c1)
	if ok && (err3 != nil || !bytes.Equal(c3, c1)) {
		c.Violate("canon-idempotent", op, c1, map[string]any{"again": trunc(string(c3), 600), "err": fmt.Sprint(err3)})
	}
}

// c13CheckInvalid derives texts that are not valid I-JSON and checks they are rejected with the value untouched.
func c13CheckInvalid(c *Ctx, r *rand.Rand, tree *c13Node, st *c13Style) []byte {
	const op = "Value.Canonicalize(invalid)"
	var text []byte
	class := ""
	switch r.IntN(5) {
	case 0: // duplicate name, the second occurrence spelled differently
		obj := &c13Node{kind: '{', names: []string{"a", "b"}, vals: []*c13Node{tree, {kind: 'n'}}}
		name := []string{"dup", "", "é", "\U0001F600", "a\"b"}[r.IntN(5)]
		esc := &c13Style{r: r, escape: 2, spelled: map[string]int{}, numForms: map[string]int{}}
		inner := st.spell(nil, obj)
		text = append(text, '{')
		text = append(text, c13MinimalQuote(name)...)
		text = append(text, ':')
		text = append(text, inner...)
		text = append(text, ',')
		if r.IntN(2) == 0 {
			text = append(text, `"zz":0,`...)
		}
		text = esc.quote(text, name)
		text = append(text, ":1}"...)
		class = "duplicate-name"
	case 1: // duplicate deeper down
		inner := st.spell(nil, tree)
		text = []byte(`[{"x":{"k":1,"k":`)
		text = append(text, inner...)
		text = append(text, "}}]"...)
		class = "duplicate-name-nested"
	case 2: // invalid UTF-8 bytes inside a string or a name
		bad := [][]byte{{0xFF}, {0xC0, 0x80}, {0xED, 0xA0, 0x80}, {0xF0, 0x9F, 0x98}, {0xE2, 0x82}, {0x80}, {0xF4, 0x90, 0x80, 0x80}}[r.IntN(7)]
		inner := st.spell(nil, tree)
		if r.IntN(2) == 0 {
			text = append([]byte(`{"a`), bad...)
			text = append(text, `":`...)
			text = append(text, inner...)
			text = append(text, '}')
		} else {
			text = append([]byte(`[`), inner...)
			text = append(text, `,"x`...)
			text = append(text, bad...)
			text = append(text, `y"]`...)
		}
		class = "invalid-utf8"
	case 3: // lone surrogate escapes
		esc := []string{`\uD800`, `\uDC00`, `\uDBFFA`, `\uDC00\uD800`, `\ud83d`}[r.IntN(5)]
		inner := st.spell(nil, tree)
		text = append([]byte(`{"v":`), inner...)
		text = append(text, `,"s":"a`...)
		text = append(text, esc...)
		text = append(text, `"}`...)
		class = "lone-surrogate"
	default: // syntax errors: truncation or a stray byte
		full := st.spell(nil, &c13Node{kind: '[', elems: []*c13Node{tree, {kind: 't'}}})
		cut := r.IntN(len(full))
		text = append([]byte{}, full[:cut]...)
		if r.IntN(2) == 0 {
			text = append(text, "}]x"[r.IntN(3)])
		}
		if jsontext.Value(text).IsValid() { // happened to stay valid
			return nil
		}
		class = "syntax"
	}
	orig := append([]byte{}, text...)
	v := jsontext.Value(text)
	var err error
	if p := guard(func() { err = v.Canonicalize() }); p != nil {
		c.Panic(op, orig, p, map[string]any{"class": class})
		return nil
	}
	c.Case("invalid:"+string(orig), true)
	c.Hit("invalid/" + class)
	if err == nil {
		c.Violate("canon-accepts-invalid", op, orig, map[string]any{"class": class, "out": trunc(string(v), 600)})
		return orig
	}
	if !bytes.Equal(v, orig) {
		c.Violate("canon-error-mutates", op, orig, map[string]any{"class": class, "after": trunc(string(v), 600), "err": err.Error()})
	}
	return orig
}

// unhxOK decodes an `ok <hex>` answer for display (anything else is returned as is).
func unhxOK(s string) []byte {
	if h, ok := strings.CutPrefix(s, "ok "); ok {
		if b, err := hex.DecodeString(h); err == nil {
			return b
		}
	}
	return []byte(s)
}
