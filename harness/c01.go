package main

// C01 — Decoder/validator accepts exactly the JSON grammar (RFC 8259 / RFC 7493).
//
// (a) Correspondence (Tie B): every jsonwire.Consume* scanner, AppendUnquote, parseHexUint16,
//     hasEscapedUTF16Prefix, TrimSuffix*, and the value path of the decoder (ReadValue over a
//     bytes.Buffer: class + offset) against the Lean models (family `wire`).
// (b) Property predicate: for every input and each of the 4 combinations of
//     AllowInvalidUTF8/AllowDuplicateNames, accept/reject of Value.IsValid, json.Unmarshal into any,
//     a ReadValue loop and a ReadToken loop (over a buffer and over a chunked io.Reader) must equal
//     the oracle's `valid` / `stream` answer (the recogniser proved against Spec/Grammar.lean);
//     io.EOF may only be reported at a value boundary, io.ErrUnexpectedEOF on truncated input.
//
// Inputs: bounded-exhaustive byte strings over the JSON-critical alphabet, all 1- and 2-byte strings,
// token-level enumeration, grammar-generated texts, mutants, every prefix of generated texts,
// depth-targeted texts (9999/10000/10001), wide objects around the 64-name / 1024-byte namespace
// switch, duplicate names respelled with different escapes, ill-formed strings.

import (
	"bytes"
	"errors"
	"fmt"
	"io"
	"math/rand/v2"
	"os"
	"runtime"
	"strconv"
	"strings"
	"sync"

	json "github.com/go-json-experiment/json"
	"github.com/go-json-experiment/json/internal/jsonwire"
	"github.com/go-json-experiment/json/jsontext"
)

func init() { register("C01", runC01) }

// ---------- classification of errors (class only, never message text)

func c01Class(err error) (string, int64) {
	if err == nil {
		return "ok", -1
	}
	if err == io.EOF {
		return "ioeof", -1
	}
	if err == io.ErrUnexpectedEOF {
		return "eof", -1
	}
	if err == jsonwire.ErrInvalidUTF8 {
		return "utf8", -1
	}
	var te *jsonwire.InvalidTextError
	var se *jsontext.SyntacticError
	if errors.As(err, &se) {
		inner := se.Err
		switch {
		case inner == io.ErrUnexpectedEOF:
			return "eof", se.ByteOffset
		case inner == jsonwire.ErrInvalidUTF8:
			return "utf8", se.ByteOffset
		case inner == jsontext.ErrDuplicateName:
			return "dup", se.ByteOffset
		case jsontext.VerifErrClass(inner) == 3:
			return "depth", se.ByteOffset
		case inner == jsontext.ErrNonStringName:
			return "nonstring", se.ByteOffset
		case jsontext.VerifErrClass(inner) == 5:
			return "missing", se.ByteOffset
		case jsontext.VerifErrClass(inner) == 2:
			return "badns", se.ByteOffset
		}
		if errors.As(inner, &te) {
			if te.Label == "character" {
				return "char", se.ByteOffset
			}
			return "esc", se.ByteOffset
		}
		return "syn-other", se.ByteOffset
	}
	if te, ok := err.(*jsonwire.InvalidTextError); ok {
		if te.Label == "character" {
			return "char", -1
		}
		return "esc", -1
	}
	var sem *json.SemanticError
	if errors.As(err, &sem) {
		return "sem", -1
	}
	return "other", -1
}

func c01Coarse(class string) string {
	switch class {
	case "ok", "ioeof", "eof":
		return class
	}
	return "err"
}

// ---------- the implementation side of `wire all`

func c01WireFields(b []byte) []string {
	f := make([]string, 0, 8)
	f = append(f, strconv.Itoa(jsonwire.ConsumeWhitespace(b)))
	lit := func(s string) string {
		n, err := jsonwire.ConsumeLiteral(b, s)
		cl, _ := c01Class(err)
		return strconv.Itoa(n) + " " + cl
	}
	f = append(f, fmt.Sprintf("%d %d %d %s %s %s", jsonwire.ConsumeNull(b), jsonwire.ConsumeFalse(b), jsonwire.ConsumeTrue(b),
		lit("null"), lit("false"), lit("true")))
	f = append(f, strconv.Itoa(jsonwire.ConsumeSimpleString(b)))
	for _, v := range []bool{false, true} {
		var fl jsonwire.ValueFlags
		n, err := jsonwire.ConsumeString(&fl, b, v)
		cl, _ := c01Class(err)
		f = append(f, fmt.Sprintf("%d %d %s", n, uint(fl), cl))
	}
	f = append(f, strconv.Itoa(jsonwire.ConsumeSimpleNumber(b)))
	n, err := jsonwire.ConsumeNumber(b)
	cl, _ := c01Class(err)
	f = append(f, fmt.Sprintf("%d %s", n, cl))
	out, err := jsonwire.AppendUnquote(nil, b)
	cl, _ = c01Class(err)
	f = append(f, hx(out)+" "+cl)
	return f
}

var c01WireOps = []string{"ConsumeWhitespace", "ConsumeLiteral", "ConsumeSimpleString", "ConsumeString(false)", "ConsumeString(true)",
	"ConsumeSimpleNumber", "ConsumeNumber", "AppendUnquote"}

// chunkReader hands out the input in pieces of k bytes (hides bytes.Reader's other methods).
type c01ChunkReader struct {
	b []byte
	k int
}

func (r *c01ChunkReader) Read(p []byte) (int, error) {
	if len(r.b) == 0 {
		return 0, io.EOF
	}
	n := r.k
	if n > len(r.b) {
		n = len(r.b)
	}
	if n > len(p) {
		n = len(p)
	}
	copy(p, r.b[:n])
	r.b = r.b[n:]
	return n, nil
}

var c01Opts [4][]jsontext.Options // index = 2*allowInvalidUTF8 + allowDup

func init() {
	for i := 0; i < 4; i++ {
		c01Opts[i] = []jsontext.Options{jsontext.AllowInvalidUTF8(i&2 != 0), jsontext.AllowDuplicateNames(i&1 != 0)}
	}
}

type c01Worker struct {
	c           *Ctx
	or          *Oracle
	dec         *jsontext.Decoder
	in          [][]byte
	tags        []string
	hits        map[string]int64
	extra       []string // pending extra oracle lines (resumable ops etc.)
	want        []string
	eops        []string
	ein         [][]byte
	thorough    bool
	lastAccept0 bool
}

func (w *c01Worker) hit(s string) { w.hits[s]++ }

// valid: one ReadValue over a buffer, then only whitespace (the model's validText).
func (w *c01Worker) implValid(b []byte, oi int) string {
	w.dec.Reset(bytes.NewBuffer(b), c01Opts[oi]...)
	_, err := w.dec.ReadValue()
	if err != nil {
		cl, off := c01Class(err)
		if cl == "ioeof" {
			off = int64(len(b))
		}
		return fmt.Sprintf("E %s %d", cl, off)
	}
	off := int(w.dec.InputOffset())
	off += jsonwire.ConsumeWhitespace(b[off:])
	if off == len(b) {
		return "ok"
	}
	return fmt.Sprintf("E char %d", off)
}

// ReadValue loop: values read, final class, offset.
func (w *c01Worker) rvLoop(b []byte, r io.Reader, oi int) (int, string, int64) {
	w.dec.Reset(r, c01Opts[oi]...)
	cnt := 0
	for {
		_, err := w.dec.ReadValue()
		if err != nil {
			cl, off := c01Class(err)
			if cl == "ioeof" {
				off = int64(len(b))
			}
			return cnt, cl, off
		}
		cnt++
		if cnt > len(b)+1 {
			return cnt, "runaway", -1
		}
	}
}

// ReadToken loop: completed top-level values, final class, offset.
func (w *c01Worker) rtLoop(b []byte, r io.Reader, oi int) (int, string, int64) {
	w.dec.Reset(r, c01Opts[oi]...)
	cnt, toks := 0, 0
	for {
		_, err := w.dec.ReadToken()
		if err != nil {
			cl, off := c01Class(err)
			if cl == "ioeof" {
				off = int64(len(b))
			}
			return cnt, cl, off
		}
		toks++
		if w.dec.StackDepth() == 0 {
			cnt++
		}
		if toks > 2*len(b)+2 {
			return cnt, "runaway", -1
		}
	}
}

func (w *c01Worker) add(b []byte, tag string) {
	w.in = append(w.in, append([]byte(nil), b...))
	w.tags = append(w.tags, tag)
	if len(w.in) >= 2000 {
		w.flush()
	}
}

// addExtra queues one more oracle line with the implementation's answer.
func (w *c01Worker) addExtra(op, line, want string, in []byte) {
	w.extra = append(w.extra, line)
	w.want = append(w.want, want)
	w.eops = append(w.eops, op)
	w.ein = append(w.ein, in)
}

func (w *c01Worker) flushExtra() {
	if len(w.extra) == 0 {
		return
	}
	if w.or != nil {
		got := w.or.Ask(w.extra)
		for i := range got {
			if got[i] != w.want[i] {
				w.c.Violate("corr-wire", w.eops[i], w.ein[i], map[string]any{"line": trunc(w.extra[i], 300), "impl": w.want[i], "model": got[i],
					"broken": "correspondence wire." + w.eops[i]})
			}
		}
	}
	w.hits["extra-lines(resumable/hex4/esc16/trim/value)"] += int64(len(w.extra))
	w.extra, w.want, w.eops, w.ein = w.extra[:0], w.want[:0], w.eops[:0], w.ein[:0]
}

const c01BigInput = 4096

func c01SizeBucket(n int) string {
	switch {
	case n <= 5:
		return fmt.Sprintf("len=%d", n)
	case n <= 16:
		return "len=6..16"
	case n <= 64:
		return "len=17..64"
	case n <= 256:
		return "len=65..256"
	case n <= 4096:
		return "len=257..4096"
	}
	return "len>4096"
}

func (w *c01Worker) flush() {
	defer func() { w.in, w.tags = w.in[:0], w.tags[:0] }()
	w.flushExtra()
	if len(w.in) == 0 {
		return
	}
	var ans []string
	if w.or != nil {
		lines := make([]string, len(w.in))
		for i, b := range w.in {
			if len(b) > c01BigInput {
				lines[i] = "wire vs " + hx(b) // only the validator ops: the hex line protocol is slow on 100 KB inputs
			} else {
				lines[i] = "wire all " + hx(b)
			}
		}
		ans = w.or.Ask(lines)
	}
	for i, b := range w.in {
		var model []string
		if ans != nil {
			model = strings.Split(ans[i], " | ")
			if len(b) > c01BigInput && len(model) == 12 {
				model = append(make([]string, 8), model...)
			}
			if len(model) != 20 {
				fail("C01: oracle answered %q for input %s", trunc(ans[i], 200), trunc(hx(b), 200))
			}
		}
		w.one(b, w.tags[i], model)
	}
}

// one evaluates correspondence and the property predicate on one input.
func (w *c01Worker) one(b []byte, tag string, model []string) {
	c := w.c
	w.hit("gen:" + tag)
	w.hit(c01SizeBucket(len(b)))
	// (a) scanners
	var impl []string
	if p := guard(func() { impl = c01WireFields(b) }); p != nil {
		c.Panic("jsonwire", b, p, nil)
		return
	}
	if model != nil && len(b) <= c01BigInput {
		for k := 0; k < 8; k++ {
			if impl[k] != model[k] {
				c.Violate("corr-wire", c01WireOps[k], b, map[string]any{"impl": impl[k], "model": model[k], "broken": "correspondence wire " + c01WireOps[k]})
			}
		}
	}
	// scanner-level predicates that need no oracle: the fast paths agree with the full scanners
	if n := jsonwire.ConsumeSimpleString(b); n > 0 {
		var fl jsonwire.ValueFlags
		if m, err := jsonwire.ConsumeString(&fl, b, true); m != n || err != nil || fl != 0 {
			c.Violate("simple-string", "ConsumeSimpleString", b, map[string]any{"simple": n, "full": m})
		}
	}
	if n := jsonwire.ConsumeSimpleNumber(b); n > 0 {
		if m, err := jsonwire.ConsumeNumber(b); m != n || err != nil {
			c.Violate("simple-number", "ConsumeSimpleNumber", b, map[string]any{"simple": n, "full": m})
		}
	}
	nontrivial := len(b) >= 2
	for oi := 0; oi < 4; oi++ {
		var iv string
		var sc int
		var scl string
		var soff int64
		if p := guard(func() {
			iv = w.implValid(b, oi)
			sc, scl, soff = w.rvLoop(b, bytes.NewBuffer(b), oi)
		}); p != nil {
			c.Panic("ReadValue", b, p, map[string]any{"opts": oi})
			continue
		}
		is := fmt.Sprintf("%d %s %d", sc, scl, soff)
		mv, ms := iv, is // without an oracle the buffered ReadValue is the reference
		if model != nil {
			mv, ms = model[8+oi], model[12+oi]
			if (mv == "ok") != (iv == "ok") {
				c.Violate("accept-mismatch", "ReadValue+EOF", b, map[string]any{"opts": oi, "impl": iv, "spec": mv})
			} else if mv != iv {
				c.Violate("corr-valid", "ReadValue", b, map[string]any{"opts": oi, "impl": iv, "model": mv, "broken": "correspondence wire valid (class/offset)"})
			}
			if ms != is {
				kind := "corr-stream"
				if strings.Fields(ms)[0] != strings.Fields(is)[0] || c01Coarse(strings.Fields(ms)[1]) != c01Coarse(scl) {
					kind = "accept-mismatch"
				}
				c.Violate(kind, "ReadValue-loop", b, map[string]any{"opts": oi, "impl": is, "model": ms, "broken": "correspondence wire stream"})
			}
		}
		accept := mv == "ok"
		msf := strings.Fields(ms)
		mcnt, _ := strconv.Atoi(msf[0])
		mcoarse := c01Coarse(msf[1])
		if oi == 0 {
			if accept {
				w.hit("verdict00:accept")
			} else {
				w.hit("verdict00:" + strings.Fields(mv)[1])
			}
			w.hit(fmt.Sprintf("stream00:values=%s end=%s", c01CountBucket(mcnt), msf[1]))
		} else if accept != (w.lastAccept0) {
			w.hit("option-sensitive")
		}
		if oi == 0 {
			w.lastAccept0 = accept
		}
		// (b) entry points
		if p := guard(func() {
			if got := jsontext.Value(b).IsValid(c01Opts[oi]...); got != accept {
				c.Violate("accept-mismatch", "Value.IsValid", b, map[string]any{"opts": oi, "impl": got, "spec": mv})
			}
		}); p != nil {
			c.Panic("Value.IsValid", b, p, map[string]any{"opts": oi})
		}
		if p := guard(func() {
			var v any
			err := json.Unmarshal(b, &v, c01Opts[oi]...)
			cl, _ := c01Class(err)
			switch {
			case cl == "sem":
				w.hit("unmarshal:semantic-error(inconclusive)")
			case (err == nil) != accept:
				c.Violate("accept-mismatch", "json.Unmarshal(any)", b, map[string]any{"opts": oi, "impl": cl, "spec": mv})
			case cl == "ioeof":
				c.Violate("eof-class", "json.Unmarshal(any)", b, map[string]any{"opts": oi, "impl": cl})
			}
		}); p != nil {
			c.Panic("json.Unmarshal(any)", b, p, map[string]any{"opts": oi})
		}
		chunk := 1 + (len(b)*7+oi)%5
		if len(b) > 2048 { // the decoder re-packs its buffer on every fetch: tiny chunks on huge values are quadratic (C20's subject)
			chunk = []int{64, 512, 4096}[(len(b)+oi)%3]
		} else if len(b) > 64 {
			chunk = []int{1, 3, 64, 512, 4096}[(len(b)+oi)%5]
		}
		// The token path may meet the end of input before it meets the error the value path reports
		// (`[{-`: a number token is scanned before its position is judged), so on rejected input only
		// "not accepted, not io.EOF" is required; a truncated-but-viable input must give io.ErrUnexpectedEOF.
		check := func(op string, cnt int, cl string) {
			ic := c01Coarse(cl)
			bad := cnt != mcnt || (ic == "ioeof") != (mcoarse == "ioeof") || (mcoarse == "eof" && ic != "eof")
			if strings.HasPrefix(op, "ReadValue") {
				bad = cnt != mcnt || ic != mcoarse
			}
			if bad {
				kind := "accept-mismatch"
				if cl == "ioeof" || mcoarse == "ioeof" {
					kind = "eof-boundary"
				}
				c.Violate(kind, op, b, map[string]any{"opts": oi, "impl": fmt.Sprintf("%d %s", cnt, cl), "spec": ms, "chunk": chunk})
			}
		}
		if p := guard(func() {
			cnt, cl, off := w.rvLoop(b, &c01ChunkReader{b, chunk}, oi)
			check("ReadValue-loop(io.Reader)", cnt, cl)
			if got := fmt.Sprintf("%d %s %d", cnt, cl, off); got != ms && cnt == mcnt && c01Coarse(cl) == mcoarse {
				w.hit("note:streaming-class/offset-differs-from-buffered")
			}
			cnt, cl, off = w.rtLoop(b, bytes.NewBuffer(b), oi)
			check("ReadToken-loop(buffer)", cnt, cl)
			if model != nil {
				// correspondence of the token path (Model/TokenLoop.lean): values, class and offset
				if got := fmt.Sprintf("%d %s %d", cnt, cl, off); got != model[16+oi] {
					kind := "corr-tokens"
					mf := strings.Fields(model[16+oi])
					if mf[0] != strconv.Itoa(cnt) || (mf[1] == "ioeof") != (cl == "ioeof") {
						kind = "accept-mismatch"
					}
					c.Violate(kind, "ReadToken-loop", b, map[string]any{"opts": oi, "impl": got, "model": model[16+oi], "broken": "correspondence wire tokens"})
				}
				// the model's two paths agree on the verdict (token_value, checked here on every input)
				mt := strings.Fields(model[16+oi])
				if mt[0] != msf[0] || (mt[1] == "ioeof") != (msf[1] == "ioeof") || (msf[1] == "eof" && mt[1] != "eof") {
					c.Violate("corr-token-value", "tokens-vs-stream", b, map[string]any{"opts": oi, "tokens": model[16+oi], "stream": ms, "broken": "model: token path and value path disagree"})
				}
			}
			cnt, cl, _ = w.rtLoop(b, &c01ChunkReader{b, chunk}, oi)
			check("ReadToken-loop(io.Reader)", cnt, cl)
		}); p != nil {
			c.Panic("Decoder", b, p, map[string]any{"opts": oi})
		}
	}
	c.Case(string(b), nontrivial)
	if len(b) > 6 && len(b) < 60 {
		c.Sample(map[string]any{"input": string(b), "gen": tag, "valid[utf8 strict,dups rejected]": modelOr(model, 8), "stream": modelOr(model, 12)})
	}
}

func modelOr(m []string, i int) string {
	if m == nil {
		return "(no oracle)"
	}
	return m[i]
}

func c01CountBucket(n int) string {
	switch {
	case n <= 2:
		return strconv.Itoa(n)
	}
	return "3+"
}

// ---------- extra correspondence ops

func (w *c01Worker) resumable(r *rand.Rand, b []byte) {
	for k := 0; k < 2; k++ {
		off := 1 + r.IntN(len(b)+1)
		v := r.IntN(2) == 1
		var fl jsonwire.ValueFlags
		var n int
		var err error
		if p := guard(func() { n, err = jsonwire.ConsumeStringResumable(&fl, b, off, v) }); p != nil {
			continue // resuming at an offset the API never produces may index out of range; not part of the contract
		}
		cl, _ := c01Class(err)
		w.addExtra("ConsumeStringResumable", fmt.Sprintf("wire strR %s %d %s", b2s(v), off, hx(b)), fmt.Sprintf("%d %d %s", n, uint(fl), cl), b)
	}
	for k := 0; k < 3; k++ {
		off := r.IntN(len(b) + 2)
		st := r.IntN(8)
		var n int
		var st2 jsonwire.ConsumeNumberState
		var err error
		if p := guard(func() { n, st2, err = jsonwire.ConsumeNumberResumable(b, off, jsonwire.ConsumeNumberState(st)) }); p != nil {
			continue
		}
		cl, _ := c01Class(err)
		w.addExtra("ConsumeNumberResumable", fmt.Sprintf("wire numR %d %d %s", off, st, hx(b)), fmt.Sprintf("%d %d %s", n, uint(st2), cl), b)
	}
	w.addExtra("TrimSuffixWhitespace", "wire trimws "+hx(b), hx(jsonwire.TrimSuffixWhitespace(b)), b)
	c := byte(r.IntN(256))
	if len(b) > 0 && r.IntN(2) == 0 {
		c = b[len(b)-1]
	}
	w.addExtra("TrimSuffixByte", fmt.Sprintf("wire trimb %d %s", c, hx(b)), hx(jsonwire.TrimSuffixByte(b, c)), b)
}

// resumeConsistency: cutting a token anywhere and resuming with the returned offset/state gives the
// same answer as scanning it whole (Go-only predicate; C05 explores this in depth).
func (w *c01Worker) resumeConsistency(tok []byte) {
	c := w.c
	for _, v := range []bool{false, true} {
		var fl0 jsonwire.ValueFlags
		n0, err0 := jsonwire.ConsumeString(&fl0, tok, v)
		cl0, _ := c01Class(err0)
		for k := 1; k < len(tok); k++ {
			var fl jsonwire.ValueFlags
			n1, err1 := jsonwire.ConsumeString(&fl, tok[:k], v)
			if err1 != io.ErrUnexpectedEOF {
				continue
			}
			n2, err2 := jsonwire.ConsumeStringResumable(&fl, tok, n1, v)
			cl2, _ := c01Class(err2)
			if n2 != n0 || cl2 != cl0 || fl != fl0 {
				c.Violate("resume", "ConsumeStringResumable", tok, map[string]any{"cut": k, "validate": v, "whole": fmt.Sprint(n0, cl0, fl0), "resumed": fmt.Sprint(n2, cl2, fl)})
			}
		}
	}
	n0, err0 := jsonwire.ConsumeNumber(tok)
	cl0, _ := c01Class(err0)
	for k := 1; k < len(tok); k++ {
		n1, st, err1 := jsonwire.ConsumeNumberResumable(tok[:k], 0, 0)
		if err1 != nil && err1 != io.ErrUnexpectedEOF {
			continue
		}
		n2, _, err2 := jsonwire.ConsumeNumberResumable(tok, n1, st)
		cl2, _ := c01Class(err2)
		if n2 != n0 || cl2 != cl0 {
			c.Violate("resume", "ConsumeNumberResumable", tok, map[string]any{"cut": k, "whole": fmt.Sprint(n0, cl0), "resumed": fmt.Sprint(n2, cl2)})
		}
	}
	w.hit("resume-consistency-tokens")
}

// c01FirstUnitIs reports whether the tuple body starts with exactly unit u0 (no shorter/longer unit is a prefix of
// another: escapes are 6 bytes and start with a backslash, raw units are 3 bytes and start with 0xED).
func c01FirstUnitIs(body []byte, u0 int) bool {
	u := gjEscapeUnits[u0]
	return len(body) >= len(u) && bytes.Equal(body[:len(u)], u)
}

// ---------- jobs

type c01Job struct {
	id  uint64
	run func(w *c01Worker, r *rand.Rand)
}

func runC01(c *Ctx) {
	nw := runtime.NumCPU()
	if nw > 16 {
		nw = 16
	}
	if v, err := strconv.Atoi(os.Getenv("VERIF_WORKERS")); err == nil && v > 0 && v < nw {
		nw = v // the machine is shared: the caller may cap the number of workers (the inputs do not depend on it)
	}
	if nw < 2 {
		nw = 2
	}
	thorough := c.Thorough()
	var jobs []c01Job
	id := uint64(0)
	addJob := func(f func(w *c01Worker, r *rand.Rand)) {
		id++
		jobs = append(jobs, c01Job{id, f})
	}

	// 1. all 1- and 2-byte strings, the empty string
	addJob(func(w *c01Worker, r *rand.Rand) {
		w.add(nil, "all-bytes")
		for x := 0; x < 256; x++ {
			w.add([]byte{byte(x)}, "all-bytes")
			w.resumable(r, []byte{byte(x)})
		}
	})
	for hi := 0; hi < 256; hi += 32 {
		hi := hi
		addJob(func(w *c01Worker, r *rand.Rand) {
			for x := hi; x < hi+32; x++ {
				for y := 0; y < 256; y++ {
					w.add([]byte{byte(x), byte(y)}, "all-2-bytes")
				}
			}
		})
	}
	// 2. bounded-exhaustive over the critical alphabet: one job per first symbol (per first two at the top length)
	maxLen := 4
	if thorough {
		maxLen = 5
	}
	for n := 3; n <= maxLen; n++ {
		n := n
		for _, a := range gjAlphabet {
			a := a
			if n < maxLen || n <= 3 {
				addJob(func(w *c01Worker, r *rand.Rand) {
					gjEnumPrefix(gjAlphabet, []byte{a}, n, func(s []byte) {
						w.add(s, fmt.Sprintf("enum-alphabet-len%d", n))
						if n <= 3 && (thorough || r.IntN(8) == 0) {
							w.resumable(r, s)
						}
					})
				})
			} else {
				for _, a2 := range gjAlphabet {
					a2 := a2
					addJob(func(w *c01Worker, r *rand.Rand) {
						gjEnumPrefix(gjAlphabet, []byte{a, a2}, n, func(s []byte) { w.add(s, fmt.Sprintf("enum-alphabet-len%d", n)) })
					})
				}
			}
		}
	}
	// 3. token-level enumeration
	maxTok := 3
	if thorough {
		maxTok = 5
	}
	nrt := c.N(40000, 1000000)
	for k := 0; k < nrt/2000; k++ {
		addJob(func(w *c01Worker, r *rand.Rand) {
			var buf []byte
			for i := 0; i < 2000; i++ {
				buf = buf[:0]
				for j := maxTok + 1 + r.IntN(4); j > 0; j-- {
					buf = append(buf, gjTokens[r.IntN(len(gjTokens))]...)
				}
				w.add(buf, "random-tokens")
			}
		})
	}
	for n := 1; n <= maxTok; n++ {
		n := n
		for t0 := range gjTokens {
			t0 := t0
			addJob(func(w *c01Worker, r *rand.Rand) {
				idx := make([]int, n)
				idx[0] = t0
				var buf []byte
				for {
					buf = buf[:0]
					for _, i := range idx {
						buf = append(buf, gjTokens[i]...)
					}
					w.add(buf, fmt.Sprintf("enum-tokens-len%d", n))
					i := n - 1
					for ; i >= 1; i-- {
						idx[i]++
						if idx[i] < len(gjTokens) {
							break
						}
						idx[i] = 0
					}
					if i < 1 {
						return
					}
				}
			})
		}
	}
	// 4. grammar-generated texts, their mutants, their prefixes
	ngen := c.N(12000, 1500000)
	per := 500
	for k := 0; k < ngen/per; k++ {
		addJob(func(w *c01Worker, r *rand.Rand) {
			for i := 0; i < per; i++ {
				cfg := gjCfg{MaxDepth: r.IntN(5), MaxWidth: 1 + r.IntN(5), Adv: r.IntN(3) != 0, WS: r.IntN(2) == 0}
				t := gjValue(r, cfg)
				if r.IntN(4) == 0 { // a stream of several values
					for j := r.IntN(3); j >= 0; j-- {
						t = append(t, gjWS(r)...)
						t = append(t, gjValue(r, gjCfg{MaxDepth: 1, MaxWidth: 2, Adv: true})...)
					}
				}
				if r.IntN(3) == 0 {
					t = append(append(gjWS(r), t...), gjWS(r)...)
				}
				w.add(t, "grammar")
				if r.IntN(4) == 0 {
					w.resumable(r, t)
				}
				m := t
				for j := 1 + r.IntN(3); j > 0; j-- {
					m = gjMutate(r, m)
					w.add(m, "mutant")
				}
				if len(t) <= 48 && r.IntN(4) == 0 {
					for k := 0; k < len(t); k++ {
						w.add(t[:k], "prefix")
					}
				}
				if r.IntN(3) == 0 { // inject a respelled duplicate name into an object
					name := gjText(r, true)
					o := append([]byte{'{'}, gjRespell(r, name)...)
					o = append(o, ':')
					o = append(o, gjValue(r, gjCfg{MaxDepth: 1, MaxWidth: 2})...)
					o = append(o, ',')
					if r.IntN(2) == 0 {
						o = append(o, `"x":[`...)
						o = append(o, gjValue(r, gjCfg{MaxDepth: 1, MaxWidth: 2, Adv: true})...)
						o = append(o, "],"...)
					}
					o = append(o, gjRespell(r, name)...)
					o = append(o, ":0}"...)
					w.add(o, "respelled-duplicate")
					if r.IntN(2) == 0 {
						w.add(append(append([]byte("["), o...), ']'), "respelled-duplicate")
					}
				}
			}
		})
	}
	// 5. strings and numbers as tokens: valid, ill-formed, mutated, followed by junk; resume consistency
	nstr := c.N(3000, 300000)
	for k := 0; k < nstr/per; k++ {
		addJob(func(w *c01Worker, r *rand.Rand) {
			for i := 0; i < per; i++ {
				var t []byte
				switch r.IntN(4) {
				case 0:
					t = gjString(r, true)
				case 1:
					t = []byte(gjInvalidStrings[r.IntN(len(gjInvalidStrings))])
				case 2:
					t = gjNumber(r)
				default:
					t = gjMutate(r, gjString(r, true))
				}
				if r.IntN(3) == 0 {
					t = gjMutate(r, t)
				}
				w.resumeConsistency(t)
				tail := [][]byte{nil, []byte(","), []byte(" "), []byte("]"), []byte("x"), []byte("\""), []byte("e"), []byte(".")}[r.IntN(8)]
				t = append(t, tail...)
				w.add(t, "token+tail")
				w.resumable(r, t)
				w.addExtra("TrimSuffixString", "wire trimstr "+hx(t), hx(jsonwire.TrimSuffixString(append([]byte(nil), t...))), t)
			}
		})
	}
	addJob(func(w *c01Worker, r *rand.Rand) {
		for _, s := range gjInvalidStrings {
			for _, pre := range []string{"", "[", `{"a":`, `{`} {
				for _, post := range []string{"", "]", "}", ":1}", " "} {
					w.add([]byte(pre+s+post), "ill-formed-strings")
				}
			}
			w.resumeConsistency([]byte(s))
		}
		// invalid bytes ≥ 0x80 as names: with AllowInvalidUTF8 they all unescape to U+FFFD
		for _, p := range [][2]string{{"\xff", "\xfe"}, {"\xff", "\xff"}, {"\xc2", "\xe0\xa0"}, {"\xff", "\\ufffd"}, {"a", "\\u0061"}, {"\\ud83d\\ude00", "😀"},
			{"\\uD83D\\uDE00", "\\ud83d\\ude00"}, {"\\ud800", "\\ud800"}, {"\\ud800", "\\udc00"}, {"\\/", "/"}, {"\\u002f", "/"}, {"A", "a"}, {"", ""}} {
			w.add([]byte(`{"`+p[0]+`":1,"`+p[1]+`":2}`), "name-pairs")
			w.add([]byte(`{"`+p[0]+`":1,"z":{"`+p[0]+`":3},"`+p[1]+`":2}`), "name-pairs")
			w.add([]byte(`[{"`+p[0]+`":1},{"`+p[1]+`":2}]`), "name-pairs")
		}
	})
	// 5b. the escape-pair family: every ordered pair (thorough: triple) of code-unit classes × hex case and of raw
	// surrogate encodings, in every syntactic position, plus every truncation of the bare literal and of the array form
	maxTuple := 2
	if thorough {
		maxTuple = 3
	}
	for n := 1; n <= maxTuple; n++ {
		n := n
		for u0 := range gjEscapeUnits {
			u0 := u0
			addJob(func(w *c01Worker, r *rand.Rand) {
				gjEscapeBodies(n, func(body []byte) {
					// the tuple enumeration is shared out by first unit: keep the tuples whose first unit is u0
					if !c01FirstUnitIs(body, u0) {
						return
					}
					gjStringContexts(body, func(t []byte) { w.add(t, fmt.Sprintf("escape-tuple-%d", n)) })
					lit := append(append([]byte(`"x`), body...), `y"`...)
					for k := 1; k < len(lit); k++ {
						w.add(lit[:k], "escape-tuple-truncated")
					}
					arr := append(append([]byte(`["`), body...), `"]`...)
					for k := 2; k < len(arr); k++ {
						w.add(arr[:k], "escape-tuple-truncated")
					}
					w.resumeConsistency(lit)
				})
			})
		}
	}
	// 6. parseHexUint16 / hasEscapedUTF16Prefix
	addJob(func(w *c01Worker, r *rand.Rand) {
		hexAlpha := []byte{'0', '9', 'a', 'f', 'A', 'F', 'g', 'G', '/', ':', '@', '`', 'd', 'D'}
		for n := 0; n <= 5; n++ {
			if n == 5 && !thorough {
				break
			}
			gjEnum(hexAlpha, n, func(s []byte) {
				v, ok := jsonwire.VerifParseHexUint16(s)
				w.addExtra("parseHexUint16", "wire hex4 "+hx(s), fmt.Sprintf("%d %s", v, b2s(ok)), s)
				if len(w.extra) > 4000 {
					w.flushExtra()
				}
			})
		}
		escAlpha := []byte{'\\', 'u', 'd', 'D', 'c', 'C', 'f', 'b', 'B', '0', '9', 'g', 'G', 0xff}
		top := 5
		if thorough {
			top = 6
		}
		for n := 0; n <= top; n++ {
			gjEnum(escAlpha, n, func(s []byte) {
				if n >= 4 && (s[0] != '\\' || s[1] != 'u') && r.IntN(16) != 0 {
					return
				}
				for _, lo := range []bool{false, true} {
					w.addExtra("hasEscapedUTF16Prefix", fmt.Sprintf("wire esc16 %s %s", b2s(lo), hx(s)), b2s(jsonwire.VerifHasEscapedUTF16Prefix(s, lo)), s)
				}
				if len(w.extra) > 4000 {
					w.flushExtra()
				}
			})
		}
	})
	// 7. depth-targeted texts (one job per text: they are the expensive ones)
	depths := []int{1, 2, 9999, 10000, 10001}
	if thorough {
		depths = []int{1, 2, 3, 9998, 9999, 10000, 10001, 10002}
	}
	for _, kind := range []string{"a", "o", "m"} {
		for _, depth := range depths {
			leaves := []string{"", "0"}
			if depth == 10000 || depth == 10001 || thorough {
				leaves = []string{"", "0", `"x"`, "[]", "{}", "nul"}
			}
			for _, leaf := range leaves {
				kind, depth, leaf := kind, depth, leaf
				addJob(func(w *c01Worker, r *rand.Rand) {
					t := gjDeep(kind, depth, leaf)
					w.add(t, "depth")
					if depth > 100 && (leaf == "0" || leaf == "[]") {
						w.add(t[:len(t)/2], "depth-truncated")
						w.add(t[:len(t)-1], "depth-truncated")
						w.add(append(append([]byte(nil), t...), ' ', '1'), "depth-stream")
					}
				})
			}
		}
	}
	// 8. wide objects around the namespace representation switch (>64 names or >1024 name bytes), with and without a
	// (respelled) duplicate, and the SAME duplicate-free object again as a sibling (array element, member value, next
	// top-level value, nested one level deeper): a namespace slot is reused and must start empty
	nwide := c.N(160, 3000)
	for k := 0; k < nwide; k += 10 {
		addJob(func(w *c01Worker, r *rand.Rand) {
			for i := 0; i < 10; i++ {
				var n, nameLen int
				switch r.IntN(4) {
				case 0:
					n, nameLen = 60+r.IntN(11), 3+r.IntN(6)
				case 1:
					n, nameLen = 120+r.IntN(21), 3+r.IntN(6)
				case 2: // few names, around and above 1024 name bytes
					n = 3 + r.IntN(35)
					nameLen = (900 + r.IntN(600)) / n
				default:
					n, nameLen = 1+r.IntN(70), 1+r.IntN(40)
				}
				t0 := gjWideObject(r, n, nameLen, -1, false)
				w.add(t0, "wide-object")
				cat := func(parts ...string) []byte {
					var o []byte
					for _, p := range parts {
						if p == "@" {
							o = append(o, t0...)
						} else {
							o = append(o, p...)
						}
					}
					return o
				}
				switch r.IntN(5) {
				case 0:
					w.add(cat("[", "@", ",", "@", "]"), "wide-object-siblings")
				case 1:
					w.add(cat("@", " ", "@"), "wide-object-siblings")
				case 2:
					w.add(cat(`{"a":`, "@", `,"b":`, "@", "}"), "wide-object-siblings")
				case 3:
					w.add(cat("[[", "@", "],{\"x\":", "@", "}]"), "wide-object-siblings")
				default:
					w.add(cat("[", "@", ",", `{"0_":1}`, ",", "@", ",", "@", "]"), "wide-object-siblings")
				}
				dupAt := r.IntN(n)
				switch r.IntN(3) {
				case 1:
					dupAt = n - 1 - r.IntN(min(n, 3))
				case 2:
					dupAt = r.IntN(min(n, 3))
				}
				t := gjWideObject(r, n, nameLen, dupAt, r.IntN(2) == 0)
				w.add(t, "wide-object-dup")
				if r.IntN(3) == 0 {
					w.add(append(append([]byte(`[1,`), t...), ']'), "wide-object-dup")
				}
			}
		})
	}

	// ---- run (the few heavy jobs — depth, wide objects — were queued last: start them first)
	for i, j := 0, len(jobs)-1; i < j; i, j = i+1, j-1 {
		jobs[i], jobs[j] = jobs[j], jobs[i]
	}
	ch := make(chan c01Job, len(jobs))
	for _, j := range jobs {
		ch <- j
	}
	close(ch)
	var wg sync.WaitGroup
	workers := make([]*c01Worker, nw)
	var mfMu sync.Mutex
	var mf any
	for i := 0; i < nw; i++ {
		w := &c01Worker{c: c, or: c.NewOracle(), dec: jsontext.NewDecoder(bytes.NewBuffer(nil)), hits: map[string]int64{}, thorough: thorough}
		workers[i] = w
		wg.Add(1)
		go func() {
			defer wg.Done()
			defer func() {
				if r := recover(); r != nil {
					mfMu.Lock()
					if mf == nil {
						mf = r
					}
					mfMu.Unlock()
				}
			}()
			for j := range ch {
				mfMu.Lock()
				stop := mf != nil
				mfMu.Unlock()
				if stop {
					return
				}
				j.run(w, c.SubRng(j.id))
				w.flush()
			}
		}()
	}
	wg.Wait()
	if mf != nil {
		panic(mf)
	}
	for _, w := range workers {
		for k, v := range w.hits {
			c.HitN(k, v)
		}
	}
	c.Note("workers=%d jobs=%d; each input is evaluated under the 4 option combinations and 7 entry points (ReadValue+EOF, ReadValue loop over buffer/io.Reader, ReadToken loop over buffer/io.Reader, Value.IsValid, json.Unmarshal into any)", nw, len(jobs))
}
